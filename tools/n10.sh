#!/bin/bash
# n10.sh <diff-substr> [props]: like neutone.sh for the tenth independent refactoring corpus
DIR=/verif/neutral_indep10 NDIR=n10 exec /verif/tools/neutone.sh "$@"
