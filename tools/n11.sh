#!/bin/bash
# n11.sh <diff-substr> [props]: like neutone.sh for the eleventh independent refactoring corpus
DIR=/verif/neutral_indep11 NDIR=n11 exec /verif/tools/neutone.sh "$@"
