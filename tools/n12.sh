#!/bin/bash
# n12.sh <diff-substr> [props]: like neutone.sh for the twelfth independent refactoring corpus
DIR=/verif/neutral_indep12 NDIR=n12 exec /verif/tools/neutone.sh "$@"
