#!/bin/bash
# n6.sh <diff-substr> [props]: like neutone.sh for the sixth independent refactoring corpus
DIR=/verif/neutral_indep6 NDIR=n6 exec /verif/tools/neutone.sh "$@"
