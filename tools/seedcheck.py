#!/usr/bin/env python3
"""Validate an independently written property-breaking change and run the checks against it.

  seedcheck.py <prop> <patch.diff> <demo_test.go> [--all-props] [--out /verif/seeded/<id>]

Steps (all on scratch copies of /repo under a temp dir, removed afterwards):
  1. patch applies to the current tree, the tree builds, the whole existing suite passes;
  2. the demonstration fails WITH the change and passes WITHOUT it;
  3. the property's check (quick tier) is run against the changed copy: caught / missed.
Prints a JSON summary; with --out stores patch.diff, the demo and meta.json.
"""
import argparse, json, os, re, shutil, subprocess, sys, tempfile

VERIF = os.path.dirname(os.path.dirname(os.path.abspath(__file__)))
REPO = "/repo"
ENV = dict(os.environ, GOFLAGS="-mod=mod", GOPROXY="off", GOSUMDB="off", GOTOOLCHAIN="local")
ENV.pop("GOWORK", None)


def sh(cmd, cwd, timeout=600):
    r = subprocess.run(cmd, cwd=cwd, env=ENV, capture_output=True, text=True, timeout=timeout)
    return r.returncode, (r.stdout + r.stderr)


def main():
    ap = argparse.ArgumentParser()
    ap.add_argument("prop")
    ap.add_argument("patch")
    ap.add_argument("demo")
    ap.add_argument("--all-props", action="store_true")
    ap.add_argument("--out", default="")
    ap.add_argument("--needs", default="")
    ap.add_argument("--race", action="store_true")
    a = ap.parse_args()
    res = {"property": a.prop, "patch": a.patch, "demo": a.demo}
    demo_src = open(a.demo).read()
    m = re.search(r"//\s*place at:\s*(\S+)", demo_src)
    if not m:
        print(json.dumps({"error": "demo has no '// place at:' line"}))
        return 2
    place = m.group(1)
    tmp = tempfile.mkdtemp(prefix="ysshra-seed-")
    try:
        clean, mut = os.path.join(tmp, "clean"), os.path.join(tmp, "mut")
        for d in (clean, mut):
            subprocess.run(["rsync", "-a", "--exclude", ".git", REPO + "/", d + "/"], check=True)
        rc, out = sh(["git", "apply", "--unsafe-paths", "--directory=" + mut, os.path.abspath(a.patch)], cwd="/")
        if rc != 0:
            rc, out = sh(["patch", "-p1", "-i", os.path.abspath(a.patch)], cwd=mut)
        res["applies"] = rc == 0
        if rc != 0:
            res["error"] = out[-400:]
            print(json.dumps(res, indent=1))
            return 1
        rc, out = sh(["go", "build", "./..."], cwd=mut)
        res["builds"] = rc == 0
        rc, out = sh(["go", "test", "-vet=off", "-count=1", "-timeout", "300s", "./..."], cwd=mut)
        res["suite_passes_with_change"] = rc == 0
        if rc != 0:
            res["suite_output"] = "\n".join(l for l in out.splitlines() if "FAIL" in l)[:600]
        pkgdir = os.path.dirname(place)
        testflags = ["-race"] if (a.race or "-race" in demo_src.split("\n")[0:5].__str__()) else []
        for d, key in ((mut, "demo_fails_with_change"), (clean, "demo_passes_without_change")):
            shutil.copy(a.demo, os.path.join(d, place))
            rc, out = sh(["go", "test", "-vet=off", "-count=1", "-timeout", "300s"] + testflags + ["./" + pkgdir + "/..."], cwd=d)
            res[key] = (rc != 0) if d == mut else (rc == 0)
            res[key + "_output"] = out[-300:]
            os.remove(os.path.join(d, place))
        # the checks
        vdir = os.path.join(tmp, "verif")
        os.makedirs(os.path.join(vdir, "evidence"))
        shutil.copy(os.path.join(VERIF, "known_findings.json"), vdir)
        subprocess.run([os.path.join(VERIF, "run.sh"), "setup"], check=True)
        props = [a.prop]
        if a.all_props:
            props = subprocess.run([os.environ.get("YVERIF_BIN", os.path.join(VERIF, "bin", "yverif")), "list"], capture_output=True, text=True).stdout.split()
        res["checks"] = {}
        r = subprocess.run([os.environ.get("YVERIF_BIN", os.path.join(VERIF, "bin", "yverif")), "checkall", "-repo", mut, "-verif", vdir, "-props", ",".join(props)], env=ENV, capture_output=True, text=True)
        cur = ""
        for p in props:
            res["checks"][p] = {"rc": 0, "reports": []}
        for l in r.stdout.splitlines():
            if l.startswith("property="):
                cur = l.split()[0][9:]
            elif l.strip().startswith(("VIOLATED", "UNDECIDED", "ERROR")) and cur in res["checks"]:
                res["checks"][cur]["rc"] = 1
                if len(res["checks"][cur]["reports"]) < 6:
                    res["checks"][cur]["reports"].append(l.strip()[:300])
        res["caught_by_own_property"] = res["checks"][a.prop]["rc"] == 1
        res["caught_by"] = [p for p, v in res["checks"].items() if v["rc"] == 1]
        if a.out:
            os.makedirs(a.out, exist_ok=True)
            shutil.copy(a.patch, os.path.join(a.out, "patch.diff"))
            shutil.copy(a.demo, os.path.join(a.out, os.path.basename(place)))
            meta = {"breaks_property": a.prop, "needs_to_manifest": a.needs, "demo_place_at": place,
                    "validated": {k: res.get(k) for k in ("applies", "builds", "suite_passes_with_change", "demo_fails_with_change", "demo_passes_without_change")},
                    "ran": ["git apply patch.diff on a scratch copy of /repo", "go build ./...", "go test -count=1 ./... (whole suite)",
                            "go test of the demo's package with the demo file, with and without the change", "/verif/bin/yverif check <ID> quick -repo <scratch copy>"],
                    "checks": res["checks"], "caught_by": res["caught_by"]}
            json.dump(meta, open(os.path.join(a.out, "meta.json"), "w"), indent=1)
        for k in list(res):
            if k.endswith("_output") and res.get(k[:-7]):
                del res[k]
        print(json.dumps(res, indent=1))
        return 0
    finally:
        shutil.rmtree(tmp, ignore_errors=True)


if __name__ == "__main__":
    sys.exit(main())
