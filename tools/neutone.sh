#!/bin/bash
# neutone.sh <diff-name-substring> [props]  : apply one independent neutral diff to a scratch copy (kept under /tmp/n) and run checkall
set -e
d=$(ls ${DIR:-/verif/neutral_indep}/*$1*.diff | head -1)
n=$(basename $d .diff)
if [ ! -d /tmp/${NDIR:-n}/$n ]; then mkdir -p /tmp/${NDIR:-n}/$n; rsync -a --exclude .git /repo/ /tmp/${NDIR:-n}/$n/; (cd /tmp/${NDIR:-n}/$n && patch -p1 -s -i $d); fi
mkdir -p /tmp/n/v/evidence; cp /verif/known_findings.json /tmp/n/v/
export GOFLAGS=-mod=mod GOPROXY=off GOSUMDB=off GOTOOLCHAIN=local
/verif/bin/yverif checkall -repo /tmp/${NDIR:-n}/$n -verif /tmp/n/v ${2:+-props $2} | grep -v "^VIOLATION" | grep -v "violated=0 undecided=0" | cut -c1-${WIDTH:-600}
