#!/usr/bin/env python3
"""Self-test of the checker: apply each stored edit (mutant = property-breaking, neutral =
behaviour-preserving) to a scratch copy of the CURRENT /repo tree (outside /repo and /verif), run the
property's check against the copy, compare with the expectation, delete the copy.

  selftest.py [--only ID-substr] [--kind mutant|neutral] [--validate] [--jobs N] [--tier quick]

--validate additionally builds the scratch copy and runs the repository test-suite on it (done once when an
edit is written; not part of any registered check).  Nothing here executes repository code unless --validate.
"""
import argparse, json, os, shutil, subprocess, sys, tempfile, concurrent.futures as cf

VERIF = os.path.dirname(os.path.dirname(os.path.abspath(__file__)))
REPO = os.environ.get("VERIF_REPO", "/repo")
ENV = dict(os.environ, GOFLAGS="-mod=mod", GOPROXY="off", GOSUMDB="off", GOTOOLCHAIN="local")
ENV.pop("GOWORK", None)


def load():
    out = []
    for kind in ("mutants", "neutral"):
        d = os.path.join(VERIF, kind)
        if not os.path.isdir(d):
            continue
        for fn in sorted(os.listdir(d)):
            if fn.endswith(".json"):
                for m in json.load(open(os.path.join(d, fn))):
                    m["kind"] = "mutant" if kind == "mutants" else "neutral"
                    out.append(m)
    return out


def apply(m, root):
    """returns None if applied, else reason string"""
    for ed in m["edits"]:
        p = os.path.join(root, ed["file"])
        if ed.get("create"):
            os.makedirs(os.path.dirname(p), exist_ok=True)
            open(p, "w").write(ed["new"])
            continue
        if not os.path.exists(p):
            return "file missing: " + ed["file"]
        s = open(p).read()
        n = s.count(ed["old"])
        if n != 1:
            return "anchor text occurs %d times in %s" % (n, ed["file"])
        open(p, "w").write(s.replace(ed["old"], ed["new"]))
    return None


def run_one(m, args):
    tmp = tempfile.mkdtemp(prefix="ysshra-selftest-")
    try:
        root = os.path.join(tmp, "repo")
        subprocess.run(["rsync", "-a", "--exclude", ".git", REPO + "/", root + "/"], check=True)
        why = apply(m, root)
        if why:
            return (m, "skipped", why)
        vdir = os.path.join(tmp, "verif")
        os.makedirs(os.path.join(vdir, "evidence"))
        shutil.copy(os.path.join(VERIF, "known_findings.json"), vdir)
        tests_catch = ""
        if args.validate:
            r = subprocess.run(["go", "build", "./..."], cwd=root, env=ENV, capture_output=True, text=True)
            if r.returncode != 0:
                return (m, "invalid", "does not build: " + r.stderr[-400:])
            r = subprocess.run(["go", "test", "-vet=off", "-count=1", "-timeout", "180s", "./..."], cwd=root, env=ENV, capture_output=True, text=True)
            if r.returncode != 0:
                fails = [l for l in r.stdout.splitlines() if l.startswith("--- FAIL") or l.startswith("FAIL\t")]
                if m["kind"] == "neutral":
                    return (m, "invalid", "test suite fails: " + " ".join(fails)[-400:])
                tests_catch = " (the test suite also catches it: " + " ".join(fails)[:200] + ")"
        props = m["props"] if "props" in m else [m["prop"]]
        res = []
        for prop in props:
            r = subprocess.run([os.environ.get("YVERIF_BIN", os.path.join(VERIF, "bin", "yverif")), "check", prop, args.tier, "-repo", root, "-verif", vdir],
                               env=ENV, capture_output=True, text=True)
            res.append((prop, r.returncode, r.stdout))
        if m["kind"] == "mutant":
            # at least the first listed property must fire, and the expected key must be named
            prop, rc, out = res[0]
            if rc != 1 or "VIOLATION property=" + prop not in out:
                return (m, "MISSED", "rc=%d\n%s" % (rc, out[-800:]))
            exp = m.get("expect", "")
            if exp and exp not in out:
                return (m, "WRONGKEY", "expected %r in report\n%s" % (exp, out[-1200:]))
            return (m, "caught" + ("*" if tests_catch else ""), tests_catch)
        else:
            bad = [(p, rc, out) for (p, rc, out) in res if rc != 0]
            if bad:
                return (m, "FALSEALARM", "\n".join("%s rc=%d\n%s" % (p, rc, out[-800:]) for p, rc, out in bad))
            return (m, "silent", "")
    finally:
        shutil.rmtree(tmp, ignore_errors=True)


def main():
    ap = argparse.ArgumentParser()
    ap.add_argument("--only", default="")
    ap.add_argument("--kind", default="")
    ap.add_argument("--validate", action="store_true")
    ap.add_argument("--jobs", type=int, default=6)
    ap.add_argument("--tier", default="quick")
    ap.add_argument("--json", default="")
    ap.add_argument("--props", default="", help="only edits that name this property")
    args = ap.parse_args()
    subprocess.run([os.path.join(VERIF, "run.sh"), "setup"], check=True)
    ms = [m for m in load() if args.only in m["id"] and (not args.kind or m["kind"] == args.kind)]
    if args.props:
        ms = [m for m in ms if args.props in (m.get("props") or [m.get("prop")])]
        for m in ms:
            if "props" in m:
                m["props"] = [args.props]
    results = []
    with cf.ThreadPoolExecutor(max_workers=args.jobs) as ex:
        for m, status, detail in ex.map(lambda m: run_one(m, args), ms):
            results.append({"id": m["id"], "kind": m["kind"], "status": status, "detail": detail})
            print("%-10s %-8s %s%s" % (status, m["kind"], m["id"], detail if status == "caught*" else ""))
            if status in ("MISSED", "WRONGKEY", "FALSEALARM", "invalid"):
                print("    " + detail.replace("\n", "\n    "))
    if args.json:
        json.dump(results, open(args.json, "w"), indent=1)
    bad = [r for r in results if r["status"] in ("MISSED", "WRONGKEY", "FALSEALARM", "invalid")]
    print("selftest: %d edits, %d problems" % (len(results), len(bad)))
    sys.exit(1 if bad else 0)


if __name__ == "__main__":
    main()
