#!/bin/bash
# n3.sh <diff-substr> [props]: like neutone.sh for the third independent refactoring corpus
DIR=/verif/neutral_indep3 NDIR=n3 exec /verif/tools/neutone.sh "$@"
