#!/bin/bash
# seedone.sh <seeded-id> [props] : apply a stored seeded change to a scratch copy (kept under /tmp/s) and run checkall
set -e
id=$1
if [ ! -d /tmp/s/$id ]; then mkdir -p /tmp/s/$id; rsync -a --exclude .git /repo/ /tmp/s/$id/; (cd /tmp/s/$id && patch -p1 -s -i /verif/seeded/$id/patch.diff); fi
mkdir -p /tmp/s/v/evidence; cp /verif/known_findings.json /tmp/s/v/
export GOFLAGS=-mod=mod GOPROXY=off GOSUMDB=off GOTOOLCHAIN=local
/verif/bin/yverif checkall -repo /tmp/s/$id -verif /tmp/s/v ${2:+-props $2} | grep -v "^VIOLATION" | cut -c1-${WIDTH:-500}
