#!/usr/bin/env python3
"""mkprompts.py seed|neut <round-dir> <count> [steer-file]

Writes <round-dir>/Cxx.prompt.txt for the 20 properties (the text given to a fresh sub-agent:
the property and nothing from /verif), creates <round-dir>/Cxx.out and a detached scratch worktree
of /repo at <round-dir>/Cxx.  The optional steer file is inserted before the delivery section.
Remove the worktrees afterwards with: git -C /repo worktree remove --force <round-dir>/Cxx
"""
import json, os, subprocess, sys

WORDS = {1: "ONE", 2: "TWO", 3: "THREE", 4: "FOUR"}
ORD = {1: "first", 2: "second", 3: "third", 4: "fourth"}

HEAD = """The Go repository theparanoids/ysshra (an SSH certificate registration authority with a shim/yubikey ssh-agent, a KeyID codec and YubiKey attestation) is checked out as a git worktree at {wt} — your private copy. Work ONLY inside {wt} and {wt}.out. Never touch /repo, never read or list anything under /verif, and do NOT use `git stash` (it is shared between worktrees; use `git diff > file` and `git checkout -- .` instead). There is no network: every shell call needs `export GOFLAGS=-mod=mod GOPROXY=off GOSUMDB=off` first (env does not persist between calls)."""


def seed_prompt(p, wt, n, steer):
    prop = f"""PROPERTY {p['id']}: {p['title']}

Statement: {p['statement']}

Must hold: {p['quantifier']['text']}

Why the existing tests cannot settle it: {p['why_tests_cant']}

Source files that implement it: {', '.join(p['anchors']['files'])}
Observation points: {'; '.join(p['anchors'].get('observe_at') or [])}
"""
    changes = ", ".join(f"change{i}.diff" for i in range(1, n + 1))
    demos = ", ".join(f"demo{i}_test.go" for i in range(1, n + 1))
    w = WORDS[n].lower()
    return f"""You are a software engineer helping a study of verification tools by producing realistic, subtle bugs. {HEAD.format(wt=wt)}

Here is a property that the code is supposed to satisfy:

{prop}
TASK: produce {WORDS[n]} different, independent changes to the repository's NON-TEST source (each a separate patch relative to the clean worktree HEAD) such that for each change:
 1. the changed tree still compiles (`go build ./...`) and the ENTIRE existing test suite still passes (`go test -count=1 ./...`, about 10 s; run it twice to rule out flakiness);
 2. the property above is violated — but only under something specific: a particular sequence of operations, an unusual input or configuration, a fault at a particular point, a particular interleaving of goroutines, or two cooperating edits that each look harmless alone. It must NOT be something ordinary use or a smoke test would expose at once;
 3. the change looks like something a developer could plausibly write (refactoring slip, over-eager optimisation, wrong boundary, forgotten case, misguided 'robustness' fallback, caching, reordered statements, helper extracted incorrectly, a new feature flag, a 'performance' shortcut), not sabotage keyed on a magic value. Do not add comments that mention the bug. Keep each patch small (roughly 1–30 changed lines).
Go for VARIETY: the {w} changes must break {w} different clauses/sentences of the property statement (read every sentence of it and of the "must hold" text; pick clauses that look least likely to be covered by an obvious check), use {w} different mechanisms, and sit in {w} different functions. Prefer indirect breakage: a helper that is semantically slightly different, a condition that is weakened only in a corner, state that leaks between calls, a check moved to a place where one path bypasses it, an error that is converted to success on one path, a boundary that is off by one.

{steer}For each change also write a DEMONSTRATION: a Go test file (a package-internal `_test.go` in the right package directory is fine; use fakes / in-memory agents / net.Pipe the way the existing tests do) that FAILS with the change applied and PASSES on the clean tree. Keep it deterministic and fast (< 10 s; for concurrency bugs `go test -race` may be the demonstration).

Deliver in {wt}.out/ :
  {changes} — `git diff` of the source change only (no demo test inside), applicable with `git apply` on the clean tree;
  {demos} — first line a comment `// place at: <path relative to repo root>`;
  NOTES.md — for each change: what was changed and why it looks innocent, which clause of the property it breaks, exactly what is needed for it to manifest, and the exact commands you ran with their outcome.
Leave the worktree clean at HEAD when done (`git checkout -- . && git clean -fdq`). If you cannot find a {ORD[n]}, deliver fewer. Your final answer: one line per change.
"""


def neut_prompt(p, wt, n, steer):
    files = ", ".join(p['anchors']['files'])
    mech = "\n".join(f"  - {m['name']} ({m['where']})" for m in p['anchors'].get('mechanism', []))
    w = WORDS[n].lower()
    diffs = ", ".join(f"refactor{i}.diff" for i in range(1, n + 1))
    return f"""You are a software engineer helping a study of verification tools by producing realistic BEHAVIOUR-PRESERVING refactorings. {HEAD.format(wt=wt)}

For context, this is a property the code satisfies today and must STILL satisfy after each of your refactorings:

PROPERTY {p['id']}: {p['title']}

Statement: {p['statement']}

Must hold: {p['quantifier']['text']}

Source files that implement it: {files}
Mechanisms:
{mech}

TASK: produce {WORDS[n]} different, independent refactorings (each a separate patch relative to the clean worktree HEAD) of the NON-TEST source code that implements this property (the files and mechanisms above, and the functions they call), such that for each refactoring:
 1. the tree still compiles (`go build ./...`), `go vet ./...` reports nothing new, and the ENTIRE existing test suite still passes (`go test -count=1 ./...`, about 10 s);
 2. the observable behaviour is EXACTLY preserved for every input, state, error case and interleaving: same results, same nil/non-nil errors and error types/kinds, same side effects in the same order, same locking, same bytes on the wire. (The wording of error/log messages that no caller parses may change; nothing else may.) The property above — every clause of it — must hold exactly as before. Be strict with yourself: if you are not sure an edit preserves behaviour in a corner case (nil maps, empty slices, duplicate keys, integer overflow, evaluation order, panics, aliasing), do not make that edit;
 3. it is the kind of change a maintainer really makes in a clean-up PR and a reviewer would accept. Make each one SUBSTANTIAL (roughly 10-60 changed lines) and make the {w} DIFFERENT IN KIND from each other. Pick from (and combine within one patch if natural): extracting part of a function into one or more new helper functions or methods (with parameters and results; possibly used from several places); inlining an existing small helper into its callers; moving code between functions or files of the package; replacing a `for range` loop by an index loop or vice versa; if/else chains <-> switch; inverting conditions with early `continue`/`return`; introducing named constants, typed constants or small types for literals; renaming locals, parameters, unexported functions, fields or types; replacing one standard-library call by an equivalent one (e.g. fmt.Sprintf by concatenation/strconv, strings.Index+slicing by strings.Cut, bytes.Equal forms, errors.New vs fmt.Errorf without verbs); introducing a local variable for a repeated expression or removing one; splitting a long function into phases; changing named results to plain results or vice versa; replacing a package-level map/table by a switch or function (or the reverse); reordering independent statements or declarations; merging duplicated code from two functions into one shared helper; changing a closure into a named function or a method value; converting a struct literal to field assignments.
 {steer}Touch the code that actually implements the property (that is the point) — not comments only, not unrelated packages.

For each refactoring also write a short justification of why behaviour is preserved.

Deliver in {wt}.out/ :
  {diffs} — `git diff` of the source change, applicable with `git apply` on the clean tree;
  NOTES.md — for each: what was changed, why behaviour is exactly preserved (corner cases considered), and the exact commands you ran with their outcome.
Leave the worktree clean at HEAD when done (`git checkout -- . && git clean -fdq`). If you cannot find a {ORD[n]}, deliver fewer. Your final answer: one line per refactoring.
"""


def main():
    kind, rdir, n = sys.argv[1], sys.argv[2].rstrip('/'), int(sys.argv[3])
    steer = open(sys.argv[4]).read().strip() + "\n\n" if len(sys.argv) > 4 else ""
    os.makedirs(rdir, exist_ok=True)
    for line in open('/verif/properties.jsonl'):
        p = json.loads(line)
        wt = f"{rdir}/{p['id']}"
        if not os.path.isdir(wt):
            subprocess.run(['git', '-C', '/repo', 'worktree', 'add', '--detach', wt, 'HEAD'], check=True, capture_output=True)
        os.makedirs(wt + ".out", exist_ok=True)
        text = (seed_prompt if kind == 'seed' else neut_prompt)(p, wt, n, steer)
        open(f"{rdir}/{p['id']}.prompt.txt", 'w').write(text)
    print("wrote prompts and worktrees under", rdir)


if __name__ == '__main__':
    main()
