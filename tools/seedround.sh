#!/bin/bash
# seedround.sh <round-dir> <offset>: evaluate the delivered seeded changes under <round-dir>/*.out (changeN.diff + demoN_test.go)
# -> /verif/seeded/<id>-<N+offset>; ONLY=<regex> restricts, JOBS=n parallelism, FORCE=1 re-evaluates
cd /verif
R=$1; OFF=$2
ls $R/*.out/change*.diff 2>/dev/null | grep -E "${ONLY:-.}" | while read d; do
  dir=$(dirname $d); id=$(basename $dir .out); n=$(basename $d .diff | sed 's/change//')
  demo=$dir/demo${n}_test.go
  [ -f "$demo" ] || continue
  m=$((n+OFF))
  [ -f /verif/seeded/$id-$m/meta.json ] && [ -z "$FORCE" ] && continue
  echo "$id $d $demo /verif/seeded/$id-$m $R"
done | xargs -P ${JOBS:-5} -L 1 bash -c 'python3 tools/seedcheck.py $0 $1 $2 --all-props --out $3 > $4/result_$(basename $3).json 2>&1'
