#!/bin/bash
# n8.sh <diff-substr> [props]: like neutone.sh for the eighth independent refactoring corpus
DIR=/verif/neutral_indep8 NDIR=n8 exec /verif/tools/neutone.sh "$@"
