#!/bin/bash
# evaluate the eighth round of delivered seeded changes under /tmp/seed8/*.out (2 per property) -> /verif/seeded/<id>-<n+15>
cd /verif
ls /tmp/seed8/*.out/change*.diff 2>/dev/null | grep -E "${ONLY:-.}" | while read d; do
  dir=$(dirname $d); id=$(basename $dir .out); n=$(basename $d .diff | sed 's/change//')
  demo=$dir/demo${n}_test.go
  [ -f "$demo" ] || continue
  m=$((n+15))
  [ -f /verif/seeded/$id-$m/meta.json ] && [ -z "$FORCE" ] && continue
  echo "$id $d $demo /verif/seeded/$id-$m"
done | xargs -P ${JOBS:-5} -L 1 bash -c 'python3 tools/seedcheck.py $0 $1 $2 --all-props --out $3 > /tmp/seed8/result_$(basename $3).json 2>&1'
