#!/bin/bash
# n13.sh <diff-substr> [props]: like neutone.sh for the thirteenth independent refactoring corpus
DIR=/verif/neutral_indep13 NDIR=n13 exec /verif/tools/neutone.sh "$@"
