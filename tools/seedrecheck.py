#!/usr/bin/env python3
"""Re-run the quick checks against every stored seeded change (/verif/seeded/<id>/patch.diff) without re-validating it.
  seedrecheck.py [substr]   -> per change: caught by its own property? which other properties alarm?
Updates caught_by / checks in meta.json with --update."""
import glob, json, os, shutil, subprocess, sys, tempfile, concurrent.futures as cf
VERIF = os.path.dirname(os.path.dirname(os.path.abspath(__file__)))
ENV = dict(os.environ, GOFLAGS="-mod=mod", GOPROXY="off", GOSUMDB="off", GOTOOLCHAIN="local"); ENV.pop("GOWORK", None)
update = "--update" in sys.argv
args = [a for a in sys.argv[1:] if not a.startswith("--")]
only = args[0] if args else ""

def one(d):
    sid = os.path.basename(d)
    meta = json.load(open(os.path.join(d, "meta.json")))
    prop = meta["breaks_property"]
    tmp = tempfile.mkdtemp(prefix="ysshra-seedre-")
    try:
        root = os.path.join(tmp, "repo")
        subprocess.run(["rsync", "-a", "--exclude", ".git", "/repo/", root + "/"], check=True)
        r = subprocess.run(["patch", "-p1", "-s", "-i", os.path.join(d, "patch.diff")], cwd=root, capture_output=True, text=True)
        if r.returncode != 0:
            return sid, prop, "does-not-apply", []
        vdir = os.path.join(tmp, "verif"); os.makedirs(os.path.join(vdir, "evidence"))
        shutil.copy(os.path.join(VERIF, "known_findings.json"), vdir)
        r = subprocess.run([os.environ.get("YVERIF_BIN", os.path.join(VERIF, "bin", "yverif")), "checkall", "-repo", root, "-verif", vdir], env=ENV, capture_output=True, text=True)
        caught, cur, reports = [], "", {}
        for l in r.stdout.splitlines():
            if l.startswith("property="):
                cur = l.split()[0][9:]
            elif l.strip().startswith(("VIOLATED", "UNDECIDED", "ERROR")):
                reports.setdefault(cur, []).append(l.strip()[:300])
                if cur not in caught:
                    caught.append(cur)
        if update:
            meta["caught_by"] = caught
            meta["checks"] = {p: {"rc": 1 if p in caught else 0, "reports": reports.get(p, [])[:6]} for p in sorted(set(caught + [prop]))}
            json.dump(meta, open(os.path.join(d, "meta.json"), "w"), indent=1)
        return sid, prop, ("caught" if prop in caught else "MISSED"), caught
    finally:
        shutil.rmtree(tmp, ignore_errors=True)

dirs = sorted(x for x in glob.glob(os.path.join(VERIF, "seeded", "*")) if os.path.isdir(x) and os.path.exists(os.path.join(x, "meta.json")) and only in x)
bad = 0
with cf.ThreadPoolExecutor(max_workers=int(os.environ.get("JOBS", "6"))) as ex:
    for sid, prop, st, caught in ex.map(one, dirs):
        print("%-8s %-8s %s  alarms=%s" % (st, sid, prop, ",".join(caught)))
        bad += st != "caught"
print("seedrecheck: %d changes, %d not caught by their own property" % (len(dirs), bad))
sys.exit(1 if bad else 0)
