#!/bin/bash
# n5.sh <diff-substr> [props]: like neutone.sh for the fifth independent refactoring corpus
DIR=/verif/neutral_indep5 NDIR=n5 exec /verif/tools/neutone.sh "$@"
