#!/bin/bash
# evaluate every delivered seeded change under /tmp/seed/*.out (parallel), store under /verif/seeded/
cd /verif
ls /tmp/seed/*.out/change*.diff 2>/dev/null | while read d; do
  dir=$(dirname $d); id=$(basename $dir .out); n=$(basename $d .diff | sed 's/change//')
  demo=$dir/demo${n}_test.go
  [ -f "$demo" ] || continue
  [ -f /verif/seeded/$id-$n/meta.json ] && [ -z "$FORCE" ] && continue
  echo "$id $d $demo /verif/seeded/$id-$n"
done | xargs -P 6 -L 1 bash -c 'python3 tools/seedcheck.py $0 $1 $2 --all-props --out $3 > /tmp/seed/result_$(basename $3).json 2>&1'
python3 - <<'PY'
import json,glob,os
for f in sorted(glob.glob('/verif/seeded/*/meta.json')):
    m=json.load(open(f)); v=m['validated']
    ok=all(v.get(k) for k in v)
    print(os.path.basename(os.path.dirname(f)), 'valid' if ok else 'INVALID '+str({k:x for k,x in v.items() if not x}), 'caught_by=',m['caught_by'])
PY
