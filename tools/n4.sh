#!/bin/bash
# n3.sh <diff-substr> [props]: like neutone.sh for the fourth independent refactoring corpus
DIR=/verif/neutral_indep4 NDIR=n4 exec /verif/tools/neutone.sh "$@"
