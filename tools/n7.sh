#!/bin/bash
# n7.sh <diff-substr> [props]: like neutone.sh for the seventh independent refactoring corpus
DIR=/verif/neutral_indep7 NDIR=n7 exec /verif/tools/neutone.sh "$@"
