#!/bin/bash
# n2.sh <diff-substr> [props]: like neutone.sh for the second independent refactoring corpus
DIR=/verif/neutral_indep2 NDIR=n2 exec /verif/tools/neutone.sh "$@"
