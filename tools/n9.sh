#!/bin/bash
# n9.sh <diff-substr> [props]: like neutone.sh for the ninth independent refactoring corpus
DIR=/verif/neutral_indep9 NDIR=n9 exec /verif/tools/neutone.sh "$@"
