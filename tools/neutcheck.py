#!/usr/bin/env python3
"""Run every check against independently written behaviour-preserving refactorings.
  neutcheck.py <dir-with-*.out/refactorN.diff>  -> prints alarms (a false alarm is a checker defect)"""
import glob, json, os, shutil, subprocess, sys, tempfile, concurrent.futures as cf
VERIF = os.path.dirname(os.path.dirname(os.path.abspath(__file__)))
ENV = dict(os.environ, GOFLAGS="-mod=mod", GOPROXY="off", GOSUMDB="off", GOTOOLCHAIN="local"); ENV.pop("GOWORK", None)
PROPS = subprocess.run([os.environ.get("YVERIF_BIN", os.path.join(VERIF, "bin", "yverif")), "list"], capture_output=True, text=True).stdout.split()

def one(diff):
    tmp = tempfile.mkdtemp(prefix="ysshra-neut-")
    try:
        root = os.path.join(tmp, "repo")
        subprocess.run(["rsync", "-a", "--exclude", ".git", "/repo/", root + "/"], check=True)
        r = subprocess.run(["patch", "-p1", "-s", "-i", os.path.abspath(diff)], cwd=root, capture_output=True, text=True)
        if r.returncode != 0:
            return diff, "does-not-apply", r.stdout[-200:]
        r = subprocess.run(["go", "build", "./..."], cwd=root, env=ENV, capture_output=True, text=True)
        if r.returncode != 0:
            return diff, "does-not-build", r.stderr[-300:]
        r = subprocess.run(["go", "test", "-vet=off", "-count=1", "-timeout", "300s", "./..."], cwd=root, env=ENV, capture_output=True, text=True) if not os.environ.get("SKIP_SUITE") else subprocess.run(["true"])
        if r.returncode != 0:
            return diff, "suite-fails", "\n".join(l for l in r.stdout.splitlines() if "FAIL" in l)[:300]
        vdir = os.path.join(tmp, "verif"); os.makedirs(os.path.join(vdir, "evidence"))
        shutil.copy(os.path.join(VERIF, "known_findings.json"), vdir)
        alarms = []
        r = subprocess.run([os.environ.get("YVERIF_BIN", os.path.join(VERIF, "bin", "yverif")), "checkall", "-repo", root, "-verif", vdir], env=ENV, capture_output=True, text=True)
        if r.returncode != 0:
            cur = ""
            for l in r.stdout.splitlines():
                if l.startswith("property="):
                    cur = l.split()[0][9:]
                elif l.strip().startswith(("VIOLATED", "UNDECIDED", "ERROR")):
                    alarms.append(cur + ": " + l.strip()[:int(os.environ.get("WIDTH", "300"))])
        return diff, ("ALARM" if alarms else "silent"), "\n    ".join(alarms)
    finally:
        shutil.rmtree(tmp, ignore_errors=True)

diffs = sorted(glob.glob(os.path.join(sys.argv[1], "*.out", "refactor*.diff")) + glob.glob(os.path.join(sys.argv[1], "*refactor*.diff")))
only = sys.argv[2] if len(sys.argv) > 2 else ""
diffs = [d for d in diffs if only in d]
with cf.ThreadPoolExecutor(max_workers=int(os.environ.get('JOBS', '5'))) as ex:
    for d, st, detail in ex.map(one, diffs):
        print("%-14s %s" % (st, d.replace(sys.argv[1], "")))
        if st != "silent":
            print("    " + detail)
