package main

// tables1.go: the "E3 table" rules of C05, C12, C13, C14, C15 and C20.
//
// Everything here is decided on the type-checked AST: resolved objects (types.Object), constant values,
// struct tags and statement structure. Nothing depends on source text, file names, lines or positions
// (positions are only formatted for the reader).

import (
	"fmt"
	"go/ast"
	"go/constant"
	"go/token"
	"go/types"
	"reflect"
	"sort"
	"strconv"
	"strings"
	"unicode"

	"golang.org/x/tools/go/packages"
	"golang.org/x/tools/go/ssa"
)

// ---------------------------------------------------------------------------------------------
// generic helpers (all prefixed tb to stay clear of the other rule files)
// ---------------------------------------------------------------------------------------------

const (
	tbXAgentPath = "golang.org/x/crypto/ssh/agent"
	tbXSSHPath   = "golang.org/x/crypto/ssh"
)

func tbRepoPkg(c *Ctx, rel string) *packages.Package {
	p := c.w.ByPath[RepoMod+"/"+rel]
	if p == nil || p.Types == nil || p.TypesInfo == nil {
		return nil
	}
	return p
}

// tbLocalDef looks through a local variable that is defined once (x := e) and never assigned again or
// address-taken inside body: it returns e. Anything else is returned unchanged.
func tbLocalDef(p *packages.Package, body ast.Node, e ast.Expr) ast.Expr {
	for hop := 0; hop < 4; hop++ {
		id, ok := tbUnparen(e).(*ast.Ident)
		if !ok || body == nil {
			return e
		}
		v, ok := p.TypesInfo.Uses[id].(*types.Var)
		if !ok || v.IsField() || v.Parent() == nil || v.Parent() == p.Types.Scope() {
			return e
		}
		var rhs ast.Expr
		n := 0
		refers := func(x ast.Expr) bool {
			xi, ok := tbUnparen(x).(*ast.Ident)
			return ok && (p.TypesInfo.Defs[xi] == types.Object(v) || p.TypesInfo.Uses[xi] == types.Object(v))
		}
		ast.Inspect(body, func(nd ast.Node) bool {
			switch s := nd.(type) {
			case *ast.AssignStmt:
				for i, l := range s.Lhs {
					if refers(l) {
						n++
						if len(s.Rhs) == len(s.Lhs) && s.Tok == token.DEFINE {
							rhs = s.Rhs[i]
						} else {
							n++
						}
					}
				}
			case *ast.IncDecStmt:
				if refers(s.X) {
					n += 2
				}
			case *ast.UnaryExpr:
				if s.Op == token.AND && refers(s.X) {
					n += 2
				}
			case *ast.RangeStmt:
				if (s.Key != nil && refers(s.Key)) || (s.Value != nil && refers(s.Value)) {
					n += 2
				}
			}
			return true
		})
		if n != 1 || rhs == nil {
			return e
		}
		e = rhs
	}
	return e
}

func tbUnparen(e ast.Expr) ast.Expr {
	for {
		p, ok := e.(*ast.ParenExpr)
		if !ok {
			return e
		}
		e = p.X
	}
}

// tbObj returns the object an identifier or qualified identifier / selector refers to.
func tbObj(p *packages.Package, e ast.Expr) types.Object {
	switch x := tbUnparen(e).(type) {
	case *ast.Ident:
		if o := p.TypesInfo.Uses[x]; o != nil {
			return o
		}
		return p.TypesInfo.Defs[x]
	case *ast.SelectorExpr:
		return p.TypesInfo.Uses[x.Sel]
	}
	return nil
}

// tbIsConversion tells whether call is a type conversion T(x).
func tbIsConversion(p *packages.Package, call *ast.CallExpr) bool {
	if len(call.Args) != 1 {
		return false
	}
	tv, ok := p.TypesInfo.Types[call.Fun]
	return ok && tv.IsType()
}

// tbStripConv removes parentheses and type conversions around e.
func tbStripConv(p *packages.Package, e ast.Expr) ast.Expr {
	for {
		e = tbUnparen(e)
		call, ok := e.(*ast.CallExpr)
		if !ok || !tbIsConversion(p, call) {
			return e
		}
		e = call.Args[0]
	}
}

// tbConstRef returns the named constant that e denotes (through parentheses and conversions), if any.
func tbConstRef(p *packages.Package, e ast.Expr) *types.Const {
	c, _ := tbObj(p, tbStripConv(p, e)).(*types.Const)
	return c
}

func tbConstString(p *packages.Package, e ast.Expr) (string, bool) {
	v := constOf(p, e)
	if v == nil || v.Kind() != constant.String {
		return "", false
	}
	return constant.StringVal(v), true
}

func tbConstInt(p *packages.Package, e ast.Expr) (int64, bool) {
	v := constOf(p, e)
	if v == nil {
		return 0, false
	}
	return tbIntVal(v)
}

func tbIntVal(v constant.Value) (int64, bool) {
	if v == nil || (v.Kind() != constant.Int && v.Kind() != constant.Float) {
		return 0, false
	}
	iv := constant.ToInt(v)
	if iv.Kind() != constant.Int {
		return 0, false
	}
	return constant.Int64Val(iv)
}

// tbCallee returns the function object called by call (nil for conversions, builtins, func values).
func tbCallee(p *packages.Package, call *ast.CallExpr) *types.Func {
	f, _ := tbObj(p, call.Fun).(*types.Func)
	return f
}

func tbIsFunc(f *types.Func, pkgPath, name string) bool {
	return f != nil && f.Pkg() != nil && f.Pkg().Path() == pkgPath && f.Name() == name
}

func tbIsBuiltin(p *packages.Package, call *ast.CallExpr, name string) bool {
	b, ok := tbObj(p, call.Fun).(*types.Builtin)
	return ok && b.Name() == name
}

// tbPkgVars lists the package-level variables whose type satisfies pred, sorted by name.
func tbPkgVars(p *packages.Package, pred func(types.Type) bool) []*types.Var {
	var out []*types.Var
	sc := p.Types.Scope()
	for _, n := range sc.Names() {
		if v, ok := sc.Lookup(n).(*types.Var); ok && pred(v.Type()) {
			out = append(out, v)
		}
	}
	return out
}

// tbOnlyVar resolves "the package-level variable of type ..." ; it reports the anchor when absent or ambiguous.
func tbOnlyVar(c *Ctx, rule, role string, p *packages.Package, pred func(types.Type) bool) *types.Var {
	vs := tbPkgVars(p, pred)
	if len(vs) != 1 {
		if len(vs) > 1 {
			role += " (ambiguous: " + strconv.Itoa(len(vs)) + " candidates)"
		}
		c.Unresolved(rule, role)
		return nil
	}
	return vs[0]
}

// tbVarInit returns the initializer of package-level variable v.
func tbVarInit(p *packages.Package, v *types.Var) ast.Expr {
	for _, f := range p.Syntax {
		for _, d := range f.Decls {
			gd, ok := d.(*ast.GenDecl)
			if !ok || gd.Tok != token.VAR {
				continue
			}
			for _, sp := range gd.Specs {
				vs := sp.(*ast.ValueSpec)
				for i, n := range vs.Names {
					if p.TypesInfo.Defs[n] == types.Object(v) && i < len(vs.Values) {
						return vs.Values[i]
					}
				}
			}
		}
	}
	return nil
}

// tbDecl returns the declaration of fn.
func tbDecl(p *packages.Package, fn *types.Func) *ast.FuncDecl {
	if fn == nil {
		return nil
	}
	for _, f := range p.Syntax {
		for _, d := range f.Decls {
			if fd, ok := d.(*ast.FuncDecl); ok && p.TypesInfo.Defs[fd.Name] == types.Object(fn) {
				return fd
			}
		}
	}
	return nil
}

func tbNamed(p *packages.Package, name string) *types.Named {
	tn, ok := p.Types.Scope().Lookup(name).(*types.TypeName)
	if !ok {
		return nil
	}
	n, _ := tn.Type().(*types.Named)
	return n
}

func tbPkgFunc(p *packages.Package, name string) *types.Func {
	f, _ := p.Types.Scope().Lookup(name).(*types.Func)
	return f
}

func tbPkgConst(p *packages.Package, name string) *types.Const {
	k, _ := p.Types.Scope().Lookup(name).(*types.Const)
	return k
}

// tbMethod returns the method declared on n (value or pointer receiver) with the given name.
func tbMethod(n *types.Named, name string) *types.Func {
	if n == nil {
		return nil
	}
	for i := 0; i < n.NumMethods(); i++ {
		if m := n.Method(i); m.Name() == name {
			return m
		}
	}
	return nil
}

// tbRecvVar returns the receiver variable of a method declaration.
func tbRecvVar(p *packages.Package, fd *ast.FuncDecl) *types.Var {
	if fd == nil || fd.Recv == nil || len(fd.Recv.List) != 1 || len(fd.Recv.List[0].Names) != 1 {
		return nil
	}
	v, _ := p.TypesInfo.Defs[fd.Recv.List[0].Names[0]].(*types.Var)
	return v
}

// tbParents maps every node under root to its parent.
func tbParents(root ast.Node) map[ast.Node]ast.Node {
	par := map[ast.Node]ast.Node{}
	var stack []ast.Node
	ast.Inspect(root, func(n ast.Node) bool {
		if n == nil {
			stack = stack[:len(stack)-1]
			return true
		}
		if len(stack) > 0 {
			par[n] = stack[len(stack)-1]
		}
		stack = append(stack, n)
		return true
	})
	return par
}

// tbDerefNamed returns the named type behind t or *t.
func tbDerefNamed(t types.Type) *types.Named {
	if t == nil {
		return nil
	}
	if ptr, ok := t.Underlying().(*types.Pointer); ok {
		t = ptr.Elem()
	}
	n, _ := t.(*types.Named)
	return n
}

func tbSorted(m map[string]bool) []string {
	out := make([]string, 0, len(m))
	for k := range m {
		out = append(out, k)
	}
	sort.Strings(out)
	return out
}

func tbJoin(m map[string]bool) string { return "{" + strings.Join(tbSorted(m), ", ") + "}" }

// tbSelPath resolves a selector chain x.A.B to its root identifier object and the field path "A.B".
// Every step must be a field selection.
func tbSelPath(p *packages.Package, e ast.Expr) (root types.Object, path string, last *types.Var, ok bool) {
	var names []string
	e = tbUnparen(e)
	for {
		se, isSel := e.(*ast.SelectorExpr)
		if !isSel {
			break
		}
		sel := p.TypesInfo.Selections[se]
		if sel == nil || sel.Kind() != types.FieldVal {
			return nil, "", nil, false
		}
		if last == nil {
			last, _ = sel.Obj().(*types.Var)
		}
		names = append([]string{se.Sel.Name}, names...)
		e = tbUnparen(se.X)
	}
	id, isID := e.(*ast.Ident)
	if !isID || len(names) == 0 {
		return nil, "", nil, false
	}
	return tbObj(p, id), strings.Join(names, "."), last, true
}

// ---- JSON names of struct fields -------------------------------------------------------------

type tbJSONField struct {
	Var      *types.Var
	HasTag   bool     // a json key is present in the tag
	TagName  string   // name part of the json tag
	Opts     []string // options of the json tag
	Skipped  bool     // json:"-"
	Ignored  bool     // unexported, not embedded: invisible to encoding/json
	Flatten  bool     // untagged embedded struct: its fields are promoted (not modelled here)
	EffName  string   // the key encoding/json uses ("" when Skipped/Ignored/Flatten)
	Embedded bool
}

func (f tbJSONField) hasOpt(o string) bool {
	for _, x := range f.Opts {
		if x == o {
			return true
		}
	}
	return false
}

func tbJSONFields(n *types.Named) []tbJSONField {
	st, ok := n.Underlying().(*types.Struct)
	if !ok {
		return nil
	}
	var out []tbJSONField
	for i := 0; i < st.NumFields(); i++ {
		fv := st.Field(i)
		jf := tbJSONField{Var: fv, Embedded: fv.Embedded()}
		tag, has := reflect.StructTag(st.Tag(i)).Lookup("json")
		jf.HasTag = has
		if tag == "-" {
			jf.Skipped = true
			out = append(out, jf)
			continue
		}
		jf.TagName, jf.Opts = jsonName(tag)
		switch {
		case jf.TagName != "":
			jf.EffName = jf.TagName
		case fv.Embedded():
			t := fv.Type()
			if ptr, ok := t.Underlying().(*types.Pointer); ok {
				t = ptr.Elem()
			}
			if _, isStruct := t.Underlying().(*types.Struct); isStruct {
				jf.Flatten = true
			} else if fv.Exported() {
				jf.EffName = fv.Name()
			} else {
				jf.Ignored = true
			}
		case !fv.Exported():
			jf.Ignored = true
		default:
			jf.EffName = fv.Name()
		}
		if !fv.Exported() && !fv.Embedded() {
			jf.Ignored, jf.EffName = true, ""
		}
		out = append(out, jf)
	}
	return out
}

// tbCheckJSONDistinct emits, per field, "the JSON name is present" and "unique under case folding".
// requireTag: the name must come from an explicit tag (C15); otherwise the Go field name is an acceptable default (C05).
func tbCheckJSONDistinct(c *Ctx, rule string, n *types.Named, requireTag bool) (checked int) {
	fields := tbJSONFields(n)
	tname := n.Obj().Name()
	for i, f := range fields {
		pos := c.w.Pos(f.Var.Pos())
		key := tname + "." + f.Var.Name()
		switch {
		case f.Ignored:
			c.Note("%s is unexported: ignored by encoding/json", key)
			continue
		case f.Flatten:
			c.Und(rule, key+"|json name present", pos, "untagged embedded struct: encoding/json promotes its fields; the flattened names are not modelled by this rule")
			continue
		case f.Skipped:
			if requireTag {
				c.Bad(rule, key+"|json name present", pos, "json tag is \"-\": the field is dropped from the JSON wire format")
			} else {
				c.Note("%s has json:\"-\": not part of the JSON form", key)
			}
			continue
		}
		checked++
		if requireTag {
			c.Check(f.TagName != "", rule, key+"|json name present", pos,
				fmt.Sprintf("json name %q from the tag", f.TagName), "no json name in the struct tag (the wire name would silently follow the Go field name)")
		} else {
			c.Check(f.EffName != "", rule, key+"|json name present", pos, fmt.Sprintf("json name %q", f.EffName), "empty JSON name")
		}
		var clash []string
		for j, g := range fields {
			if i != j && f.EffName != "" && g.EffName != "" && strings.EqualFold(f.EffName, g.EffName) {
				clash = append(clash, fmt.Sprintf("%s.%s (%q)", tname, g.Var.Name(), g.EffName))
			}
		}
		c.Check(len(clash) == 0, rule, key+"|json name unique under case folding", pos,
			fmt.Sprintf("%q differs from the other %d names even ignoring case", f.EffName, len(fields)-1),
			fmt.Sprintf("json name %q collides (encoding/json matches keys case-insensitively) with %s", f.EffName, strings.Join(clash, ", ")))
	}
	return checked
}

// ---- "the table is only what its literal says" --------------------------------------------------

// tbTableFrozen checks that package-level map variable v is never written, deleted from, re-assigned or aliased
// anywhere in its package, so that the composite literal is the whole table.
func tbTableFrozen(c *Ctx, rule string, p *packages.Package, v *types.Var) {
	var writes, escapes []string
	for _, f := range p.Syntax {
		par := tbParents(f)
		ast.Inspect(f, func(n ast.Node) bool {
			id, ok := n.(*ast.Ident)
			if !ok || p.TypesInfo.Uses[id] != types.Object(v) {
				return true
			}
			var node ast.Node = id
			up := par[node]
			for {
				if pe, ok := up.(*ast.ParenExpr); ok {
					node, up = pe, par[pe]
					continue
				}
				break
			}
			where := c.w.Pos(id.Pos())
			switch u := up.(type) {
			case *ast.IndexExpr:
				if u.X != node {
					return true // used as an index of something else: a read
				}
				switch g := par[u].(type) {
				case *ast.AssignStmt:
					for _, l := range g.Lhs {
						if l == ast.Expr(u) {
							writes = append(writes, "element assignment at "+where)
						}
					}
				case *ast.IncDecStmt:
					writes = append(writes, "element update at "+where)
				case *ast.UnaryExpr:
					if g.Op == token.AND {
						escapes = append(escapes, "address of an element taken at "+where)
					}
				}
			case *ast.AssignStmt:
				for _, l := range u.Lhs {
					if l == node {
						writes = append(writes, "re-assigned at "+where)
					}
				}
				for _, r := range u.Rhs {
					if r == node {
						escapes = append(escapes, "aliased at "+where)
					}
				}
			case *ast.CallExpr:
				switch {
				case tbIsBuiltin(p, u, "len"):
				case tbIsBuiltin(p, u, "delete"), tbIsBuiltin(p, u, "clear"):
					writes = append(writes, "delete/clear at "+where)
				default:
					escapes = append(escapes, "passed to a call at "+where)
				}
			case *ast.RangeStmt:
				if u.X != node {
					escapes = append(escapes, "unexpected use in range at "+where)
				}
			default:
				escapes = append(escapes, fmt.Sprintf("used in %T at %s", up, where))
			}
			return true
		})
	}
	key := "table " + v.Name() + "|defined by its literal only"
	pos := c.w.Pos(v.Pos())
	switch {
	case len(writes) > 0:
		c.Bad(rule, key, pos, "the table is modified outside its literal: "+strings.Join(writes, "; "))
	case len(escapes) > 0:
		c.Und(rule, key, pos, "the table escapes, later writes cannot be excluded: "+strings.Join(escapes, "; "))
	default:
		c.Ok(rule, key, pos, "every use in the package is a lookup, len() or range: the composite literal is the whole table")
	}
}

// ---------------------------------------------------------------------------------------------
// C05  R1.tables
// ---------------------------------------------------------------------------------------------

var tbKeyIDv1Reference = []string{"prins", "transID", "reqUser", "reqIP", "reqHost", "isFirefighter", "isHWKey", "isHeadless", "isNonce", "touchPolicy", "ver"}

func tbIsBasic(t types.Type, k types.BasicKind) bool {
	b, ok := t.(*types.Basic)
	return ok && b.Kind() == k
}

// c05.go of the checker declares the hook `var tablesC05 func(c *Ctx)` and calls it when non-nil, so the C05 rule is
// installed by assignment. (Should that placeholder be removed, rename tablesC05 to tablesC05 and delete this init.)

func tablesC05(c *Ctx) {
	const rule = "R1.tables"
	p := tbRepoPkg(c, "keyid")
	if p == nil {
		c.Unresolved(rule, "package keyid")
		return
	}
	kid := tbNamed(p, "KeyID")
	if kid == nil {
		c.Unresolved(rule, "struct keyid.KeyID")
		return
	}
	if _, ok := kid.Underlying().(*types.Struct); !ok {
		c.Unresolved(rule, "keyid.KeyID is a struct")
		return
	}
	// the two version tables, as finite maps (a map literal or a switch function: finitemap.go)
	w := c.w
	isVer := func(t types.Type) bool { return tbIsBasic(t.Underlying(), types.Uint16) }
	isKeyList := func(t types.Type) bool {
		s, ok := t.Underlying().(*types.Slice)
		return ok && tbIsBasic(s.Elem().Underlying(), types.String)
	}
	isChecker := func(t types.Type) bool {
		sig, ok := t.Underlying().(*types.Signature)
		if !ok || sig.Params().Len() != 1 || sig.Results().Len() != 1 || !isErrorType(sig.Results().At(0).Type()) {
			return false
		}
		ptr, ok := sig.Params().At(0).Type().(*types.Pointer)
		return ok && types.Identical(ptr.Elem(), kid)
	}
	one := func(ms []*finiteMap, role string) *finiteMap {
		// only tables that the codec actually consults
		var used []*finiteMap
		for _, m := range ms {
			if len(w.fmLookups(m)) > 0 {
				used = append(used, m)
			}
		}
		if len(used) != 1 {
			if len(used) > 1 {
				role += " (ambiguous: " + strconv.Itoa(len(used)) + " candidates)"
			}
			c.Unresolved(rule, role)
			return nil
		}
		return used[0]
	}
	reqVar := one(w.finiteMaps("keyid", isVer, isKeyList), "package-level map[uint16][]string of keyid (required keys)")
	var chkVar *finiteMap
	{
		// the checker table - or, when there is none, the one function that dispatches on the KeyID's version
		var used []*finiteMap
		for _, m := range w.finiteMaps("keyid", isVer, isChecker) {
			if len(w.fmLookups(m)) > 0 {
				used = append(used, m)
			}
		}
		if len(used) == 0 {
			if dm := w.dispatcherAsTable(); dm != nil {
				chkVar = dm
			}
		}
		if chkVar == nil {
			chkVar = one(w.finiteMaps("keyid", isVer, isChecker), "package-level map[uint16]func(*KeyID) error of keyid (sanity checkers)")
		}
	}
	if reqVar == nil || chkVar == nil {
		return
	}
	reqEntries, chkEntries := reqVar.Entries, chkVar.Entries
	for _, m := range []*finiteMap{reqVar, chkVar} {
		key := "table " + m.Name + "|defined by its literal only"
		c.Check(m.Frozen, rule, key, w.Pos(m.Pos), "the table is only read after the package initialiser built it", "the table is modified (or escapes) outside its literal")
	}

	// JSON names of KeyID
	fields := tbJSONFields(kid)
	byName := map[string]tbJSONField{}
	for _, f := range fields {
		if f.EffName != "" {
			byName[f.EffName] = f
		}
	}
	tbCheckJSONDistinct(c, rule, kid, false)

	// required keys, per version
	nKeys := 0
	reqVersions := map[int64]bool{}
	var v1 []string
	haveV1 := false
	for _, e := range reqEntries {
		ver, ok := tbIntVal(e.Key)
		if !ok {
			c.Und(rule, "required table|integer version keys", c.w.Pos(e.Pos), "a key of the required-keys table is not an integer constant")
			continue
		}
		reqVersions[ver] = true
		keys, ok := w.stringList(e.Vals[0], 0)
		if !ok {
			c.Und(rule, fmt.Sprintf("required[%d]|list of constant strings", ver), c.w.Pos(e.Pos), "the required-key list is not a literal of constant strings")
			continue
		}
		if ver == 1 {
			v1, haveV1 = keys, true
		}
		for _, k := range keys {
			nKeys++
			pos := c.w.Pos(e.Pos)
			f, found := byName[k]
			if !found {
				hint := ""
				for n, g := range byName {
					if strings.EqualFold(n, k) {
						hint = fmt.Sprintf(" (field %s has %q, which differs in case: Unmarshal's map lookup is case-sensitive)", g.Var.Name(), n)
					}
				}
				for _, g := range fields {
					if g.Skipped && strings.EqualFold(g.Var.Name(), k) {
						hint = fmt.Sprintf(" (field %s is tagged json:\"-\")", g.Var.Name())
					}
				}
				c.Bad(rule, fmt.Sprintf("required[%d] key %q|is the JSON name of a KeyID field", ver, k), pos,
					fmt.Sprintf("required key %q of version %d is not the JSON name of any KeyID field%s: Marshal never emits it, so Unmarshal rejects every KeyID that Marshal produced", k, ver, hint))
				continue
			}
			c.Ok(rule, fmt.Sprintf("required[%d] key %q|is the JSON name of a KeyID field", ver, k), pos, "JSON name of field KeyID."+f.Var.Name())
			bad := ""
			for _, o := range []string{"omitempty", "omitzero"} {
				if f.hasOpt(o) {
					bad = o
				}
			}
			c.Check(bad == "", rule, fmt.Sprintf("required[%d] key %q|field always emitted", ver, k), c.w.Pos(f.Var.Pos()),
				fmt.Sprintf("KeyID.%s has no omitempty/omitzero option: Marshal always writes %q", f.Var.Name(), k),
				fmt.Sprintf("KeyID.%s carries %q but %q is a required key of version %d: a zero value is dropped by Marshal and then rejected by Unmarshal", f.Var.Name(), bad, k, ver))
		}
	}
	// version 1 equals the reference set
	if !haveV1 {
		c.Bad(rule, "required[1]|present", c.w.Pos(reqVar.Pos), "the required-keys table has no entry for version 1")
	} else {
		have := map[string]bool{}
		for _, k := range v1 {
			have[k] = true
		}
		ref := map[string]bool{}
		for _, k := range tbKeyIDv1Reference {
			ref[k] = true
			c.Check(have[k], rule, fmt.Sprintf("required[1] reference key %q|listed", k), c.w.Pos(reqVar.Pos),
				"listed", fmt.Sprintf("reference key %q is missing from the version-1 required list: Unmarshal accepts a KeyID without it", k))
		}
		for _, k := range v1 {
			c.Check(ref[k], rule, fmt.Sprintf("required[1] listed key %q|in the reference set", k), c.w.Pos(reqVar.Pos),
				"in the reference set", fmt.Sprintf("key %q is required for version 1 but is not in the reference set %v", k, tbKeyIDv1Reference))
		}
	}
	// version domains
	chkVersions := map[int64]bool{}
	for _, e := range chkEntries {
		if ver, ok := tbIntVal(e.Key); ok {
			chkVersions[ver] = true
		}
	}
	all := map[int64]bool{}
	for v := range reqVersions {
		all[v] = true
	}
	for v := range chkVersions {
		all[v] = true
	}
	var vers []int64
	for v := range all {
		vers = append(vers, v)
	}
	sort.Slice(vers, func(i, j int) bool { return vers[i] < vers[j] })
	for _, v := range vers {
		key := fmt.Sprintf("version %d|in both tables", v)
		switch {
		case reqVersions[v] && chkVersions[v]:
			c.Ok(rule, key, c.w.Pos(reqVar.Pos), fmt.Sprintf("version %d has required keys and a sanity checker", v))
		case chkVersions[v]:
			c.Bad(rule, key, c.w.Pos(chkVar.Pos), fmt.Sprintf("version %d has a sanity checker (%s) but no required-key list (%s): Marshal accepts a version that Unmarshal rejects", v, chkVar.Name, reqVar.Name))
		default:
			c.Bad(rule, key, c.w.Pos(reqVar.Pos), fmt.Sprintf("version %d has a required-key list (%s) but no sanity checker (%s): Unmarshal and Marshal reject it after the key check", v, reqVar.Name, chkVar.Name))
		}
	}
	// DefaultVersion
	if dv := tbPkgConst(p, "DefaultVersion"); dv == nil {
		c.Unresolved(rule, "constant keyid.DefaultVersion")
	} else if n, ok := tbIntVal(dv.Val()); !ok {
		c.Und(rule, "DefaultVersion|integer", c.w.Pos(dv.Pos()), "DefaultVersion is not an integer constant")
	} else {
		c.Check(reqVersions[n], rule, "DefaultVersion|key of the required-keys table", c.w.Pos(dv.Pos()),
			fmt.Sprintf("DefaultVersion = %d is a key of %s", n, reqVar.Name), fmt.Sprintf("DefaultVersion = %d is not a key of %s: keyid.New() yields a KeyID that Unmarshal rejects", n, reqVar.Name))
		c.Check(chkVersions[n], rule, "DefaultVersion|key of the sanity-checker table", c.w.Pos(dv.Pos()),
			fmt.Sprintf("DefaultVersion = %d is a key of %s", n, chkVar.Name), fmt.Sprintf("DefaultVersion = %d is not a key of %s: keyid.New() yields a KeyID that Marshal rejects", n, chkVar.Name))
	}
	// the floor guards against an enumerator that finds (almost) nothing; the exact content of the version-1 list is the
	// business of the reference-set obligations above, so the floor leaves slack below the 11 keys of today
	c.Floor(rule, nKeys, 9, "required keys checked against KeyID's JSON names")
}

// ---------------------------------------------------------------------------------------------
// C15  R3.tags / R1.legacy
// ---------------------------------------------------------------------------------------------

var tbC15Required = []string{"SSHClientVersion", "Username", "Hostname"}

func tablesC15(c *Ctx) {
	p := tbRepoPkg(c, "message")
	if p == nil {
		c.Unresolved("R3.tags", "package message")
		c.Unresolved("R1.legacy", "package message")
		return
	}
	attrs, ts := tbNamed(p, "Attributes"), tbNamed(p, "TouchlessSudo")
	if attrs == nil || ts == nil {
		c.Unresolved("R3.tags", "structs message.Attributes and message.TouchlessSudo")
		c.Unresolved("R1.legacy", "structs message.Attributes and message.TouchlessSudo")
		return
	}
	tbC15Tags(c, p, attrs, ts)
	tbC15Legacy(c, p, attrs)
}

// tbIsNilIdent: e is the predeclared nil.
func tbIsNilIdent(p *packages.Package, e ast.Expr) bool {
	_, ok := tbObj(p, e).(*types.Nil)
	return ok
}

// tbGuardRejects: the boolean expression cmp is (a disjunct of) the condition of an if statement whose body ends by
// returning a last result that is not the literal nil.
func tbGuardRejects(p *packages.Package, par map[ast.Node]ast.Node, cmp ast.Expr) bool {
	var n ast.Node = cmp
	for {
		up := par[n]
		switch u := up.(type) {
		case *ast.ParenExpr:
			n = u
			continue
		case *ast.BinaryExpr:
			if u.Op == token.LOR {
				n = u
				continue
			}
			return false
		case *ast.IfStmt:
			if u.Cond != n || len(u.Body.List) == 0 {
				return false
			}
			ret, ok := u.Body.List[len(u.Body.List)-1].(*ast.ReturnStmt)
			if !ok || len(ret.Results) == 0 {
				return false
			}
			return !tbIsNilIdent(p, ret.Results[len(ret.Results)-1])
		default:
			return false
		}
	}
}

// tbSanityMethod finds, by role, the method func() error of Attributes that (*Attributes).Marshal calls on its receiver.
func tbSanityMethod(p *packages.Package, attrs *types.Named) *types.Func {
	fd := tbDecl(p, tbMethod(attrs, "Marshal"))
	recv := tbRecvVar(p, fd)
	var found *types.Func
	if fd != nil && recv != nil && fd.Body != nil {
		ast.Inspect(fd.Body, func(n ast.Node) bool {
			call, ok := n.(*ast.CallExpr)
			if !ok || found != nil {
				return true
			}
			se, ok := call.Fun.(*ast.SelectorExpr)
			if !ok || tbObj(p, se.X) != types.Object(recv) {
				return true
			}
			m := tbCallee(p, call)
			if m == nil {
				return true
			}
			sig := m.Type().(*types.Signature)
			if sig.Params().Len() == 0 && sig.Results().Len() == 1 && isErrorType(sig.Results().At(0).Type()) {
				found = m
			}
			return true
		})
	}
	if found == nil {
		found = tbMethod(attrs, "sanityCheck")
	}
	return found
}

func tbC15Tags(c *Ctx, p *packages.Package, attrs, ts *types.Named) {
	const rule = "R3.tags"
	n := tbCheckJSONDistinct(c, rule, attrs, true)
	n += tbCheckJSONDistinct(c, rule, ts, true)

	sanity := tbSanityMethod(p, attrs)
	fd := tbDecl(p, sanity)
	recv := tbRecvVar(p, fd)
	if fd == nil || fd.Body == nil || recv == nil {
		c.Unresolved(rule, "the func() error method of Attributes called by (*Attributes).Marshal (sanityCheck)")
		c.Floor(rule, n, 13, "JSON-tagged fields of Attributes/TouchlessSudo")
		return
	}
	par := tbParents(fd.Body)
	tested := map[string]bool{}  // field -> tested at all
	rejects := map[string]bool{} // field -> an empty value reaches an error return
	posOf := map[string]token.Pos{}
	ast.Inspect(fd.Body, func(nd ast.Node) bool {
		be, ok := nd.(*ast.BinaryExpr)
		if !ok || be.Op != token.EQL {
			return true
		}
		for _, pair := range [][2]ast.Expr{{be.X, be.Y}, {be.Y, be.X}} {
			lhs, rhs := tbUnparen(pair[0]), pair[1]
			wantEmpty := false
			if call, ok := lhs.(*ast.CallExpr); ok && tbIsBuiltin(p, call, "len") && len(call.Args) == 1 {
				if k, ok := tbConstInt(p, rhs); ok && k == 0 {
					lhs, wantEmpty = tbUnparen(call.Args[0]), true
				}
			} else if s, ok := tbConstString(p, rhs); ok && s == "" {
				wantEmpty = true
			}
			if !wantEmpty {
				continue
			}
			root, path, _, ok := tbSelPath(p, lhs)
			if !ok || root != types.Object(recv) || strings.Contains(path, ".") {
				continue
			}
			tested[path] = true
			posOf[path] = be.Pos()
			if tbGuardRejects(p, par, be) {
				rejects[path] = true
			}
		}
		return true
	})
	// the same question asked of the compiled encoder: on every successful return of Marshal the must-facts (which
	// include those established inside the check it calls, however deeply nested) state field != "" - this does not
	// depend on which function holds the comparisons
	if mfn := c.w.Prog.FuncValue(tbMethod(attrs, "Marshal")); mfn != nil && mfn.Blocks != nil {
		w := c.w
		mf := w.Facts(mfn)
		emptyTest := func(l Lit) (string, bool, bool) { // field, "is empty" polarity, ok
			bin, ok := l.V.(*ssa.BinOp)
			if !ok || (bin.Op != token.EQL && bin.Op != token.NEQ) {
				return "", false, false
			}
			x, y := bin.X, bin.Y
			if _, isK := strip(x).(*ssa.Const); isK {
				x, y = y, x
			}
			isEmptyCmp := false
			if s, isK := strConst(y); isK && s == "" {
				isEmptyCmp = true
			} else if k, isK := intConst(y); isK && k == 0 {
				if la := lenArg(x); la != nil {
					x, isEmptyCmp = la, true
				}
			}
			if !isEmptyCmp {
				return "", false, false
			}
			ex := w.Expr(x)
			if !strings.HasPrefix(ex, "p0.") || strings.Contains(ex[3:], ".") || strings.ContainsAny(ex, "(<") {
				return "", false, false
			}
			return ex[3:], (bin.Op == token.EQL) == l.Pol, true
		}
		ssaRejects := map[string]bool{}
		first := true
		for _, r := range w.MayBeNilReturns(mfn) {
			if mfn.Recover != nil && r.Block() == mfn.Recover {
				continue
			}
			cur := map[string]bool{}
			for l := range mf.At(r.Block()) {
				if f, empty, ok := emptyTest(l); ok && !empty {
					cur[f] = true
				}
			}
			if first {
				ssaRejects, first = cur, false
			} else {
				for f := range ssaRejects {
					if !cur[f] {
						delete(ssaRejects, f)
					}
				}
			}
		}
		// a check written as a loop over a local table of (name, value) rows: every row's value is tested for
		// emptiness, the empty edge only returns errors, and the check's success means the loop ran to completion
		for _, g := range w.Tree(mfn) {
			if g == mfn || g.Parent() != nil || errorResultIndex(g) < 0 || !w.failurePropagates(mfn, g) {
				continue
			}
			sites := w.sitesIn(mfn, g)
			covers := len(sites) > 0
			for _, r := range w.MayBeNilReturns(mfn) {
				if mfn.Recover != nil && r.Block() == mfn.Recover {
					continue
				}
				dom := false
				for _, site := range sites {
					if si, ok := site.(ssa.Instruction); ok && w.DeepDominates(mfn, si, r) {
						dom = true
					}
				}
				if !dom {
					covers = false
				}
			}
			if !covers {
				continue
			}
			for f := range tbLoopRejects(w, g) {
				ssaRejects[f] = true
			}
		}
		for f := range ssaRejects {
			if !rejects[f] {
				rejects[f], tested[f] = true, true
				if _, has := posOf[f]; !has {
					posOf[f] = fd.Pos()
				}
			}
		}
	}
	jf := map[string]tbJSONField{}
	for _, f := range tbJSONFields(attrs) {
		jf[f.Var.Name()] = f
	}
	req := map[string]bool{}
	for _, f := range tbC15Required {
		req[f] = true
		key := "sanityCheck requires Attributes." + f + "|empty value is rejected with an error"
		switch {
		case rejects[f]:
			c.Ok(rule, key, c.w.Pos(posOf[f]), fmt.Sprintf("%s tests %s.%s == \"\" and returns a non-nil error", sanity.Name(), recv.Name(), f))
		case tested[f]:
			c.Bad(rule, key, c.w.Pos(posOf[f]), fmt.Sprintf("%s compares Attributes.%s with \"\" but that comparison does not guard a return of a non-nil error", sanity.Name(), f))
		default:
			c.Bad(rule, key, c.w.Pos(fd.Pos()), fmt.Sprintf("%s never tests the required field Attributes.%s for emptiness", sanity.Name(), f))
		}
		g, ok := jf[f]
		if !ok {
			c.Bad(rule, "Attributes."+f+"|required field exists", c.w.Pos(attrs.Obj().Pos()), "Attributes has no field "+f)
			continue
		}
		bad := ""
		for _, o := range []string{"omitempty", "omitzero"} {
			if g.hasOpt(o) {
				bad = o
			}
		}
		c.Check(bad == "" && !g.Skipped, rule, "Attributes."+f+"|required field always emitted", c.w.Pos(g.Var.Pos()),
			"json tag has no omitempty/omitzero", fmt.Sprintf("required field Attributes.%s must always be written, but its json tag has %q / is \"-\"", f, bad))
	}
	for _, f := range tbSorted(tested) {
		c.Check(req[f], rule, "sanityCheck tests Attributes."+f+"|one of the three required fields", c.w.Pos(posOf[f]),
			"required field", fmt.Sprintf("%s rejects an empty Attributes.%s, which is not one of the required fields %v (a message the legacy reader produces could fail the check)", sanity.Name(), f, tbC15Required))
	}
	c.Floor(rule, n, 13, "JSON-tagged fields of Attributes/TouchlessSudo")
}

// ---- legacy format ----

type tbFmtPart struct {
	lit  string
	verb byte // 0: literal
}

// tbParseFmt splits a Printf format into literals and verbs (flags/width are skipped; %% is a literal).
func tbParseFmt(f string) ([]tbFmtPart, bool) {
	var out []tbFmtPart
	lit := ""
	for i := 0; i < len(f); i++ {
		if f[i] != '%' {
			lit += string(f[i])
			continue
		}
		i++
		if i >= len(f) {
			return nil, false
		}
		if f[i] == '%' {
			lit += "%"
			continue
		}
		for i < len(f) && strings.ContainsRune("+-# 0123456789.", rune(f[i])) {
			i++
		}
		if i >= len(f) || f[i] == '*' || f[i] == '[' {
			return nil, false
		}
		if lit != "" {
			out = append(out, tbFmtPart{lit: lit})
			lit = ""
		}
		out = append(out, tbFmtPart{verb: f[i]})
	}
	if lit != "" {
		out = append(out, tbFmtPart{lit: lit})
	}
	return out, true
}

// tbPair is one (legacy key, part of the value) -> field association seen on one side.
type tbPair struct {
	key     string // value of the key constant
	keyName string // name of the constant ("" for a literal)
	part    string // "" = the whole value, else "[i] of split on sep"
	field   string // path from Attributes, e.g. "TouchlessSudo.Time"
	how     string // verb or strconv function
	ftype   types.Type
	pos     token.Pos
}

func tbPartKey(i int, sep string) string { return fmt.Sprintf("[%d] of the value split on %q", i, sep) }

func tbKindClass(t types.Type) string {
	if t == nil {
		return "?"
	}
	b, ok := t.Underlying().(*types.Basic)
	if !ok {
		return "?"
	}
	switch {
	case b.Info()&types.IsBoolean != 0:
		return "bool"
	case b.Info()&types.IsInteger != 0:
		return "int"
	case b.Info()&types.IsString != 0:
		return "string"
	}
	return "?"
}

type tbLegacyWriter struct {
	pairs      []tbPair
	joinSep    string
	haveJoin   bool
	elemConsts []*types.Const // named constants listed in the initial []string literal
	elemPos    token.Pos
	problems   []string
	keyConsts  map[*types.Const]bool
	nParts     map[string]int // key -> number of value parts written
	gates      []tbGate       // conditions under which a token is written that test another field
}

// tbGate: the token for key is written only under a condition on a field that is not one of the token's own.
type tbGate struct {
	key, field, other string
	pos               token.Pos
}

func tbLegacyWrites(c *Ctx, p *packages.Package, fd *ast.FuncDecl) *tbLegacyWriter {
	w := &tbLegacyWriter{keyConsts: map[*types.Const]bool{}, nParts: map[string]int{}}
	recv := tbRecvVar(p, fd)
	par := tbParents(fd.Body)
	// the joined variable: argument of strings.Join in a return statement
	var joined types.Object
	ast.Inspect(fd.Body, func(n ast.Node) bool {
		call, ok := n.(*ast.CallExpr)
		if !ok || !tbIsFunc(tbCallee(p, call), "strings", "Join") || len(call.Args) != 2 {
			return true
		}
		if s, ok := tbConstString(p, call.Args[1]); ok {
			w.joinSep, w.haveJoin = s, true
		}
		joined = tbObj(p, call.Args[0])
		return true
	})
	ast.Inspect(fd.Body, func(n ast.Node) bool {
		switch x := n.(type) {
		case *ast.AssignStmt:
			// cmdArgs := []string{<const>...}
			if len(x.Lhs) == 1 && len(x.Rhs) == 1 && joined != nil && tbObj(p, x.Lhs[0]) == joined {
				if cl, ok := tbUnparen(x.Rhs[0]).(*ast.CompositeLit); ok {
					w.elemPos = cl.Pos()
					for _, el := range cl.Elts {
						if k := tbConstRef(p, el); k != nil {
							w.elemConsts = append(w.elemConsts, k)
						} else {
							w.problems = append(w.problems, "element of the initial argument list at "+c.w.Pos(el.Pos())+" is not a named constant")
						}
					}
				}
			}
		case *ast.CallExpr:
			if !tbIsFunc(tbCallee(p, x), "fmt", "Sprintf") || len(x.Args) < 2 {
				return true
			}
			where := c.w.Pos(x.Pos())
			format, ok := tbConstString(p, x.Args[0])
			if !ok {
				w.problems = append(w.problems, "Sprintf with a non-constant format at "+where)
				return true
			}
			parts, ok := tbParseFmt(format)
			if !ok || len(parts) < 3 || parts[0].verb == 0 || parts[1].verb != 0 || parts[1].lit != "=" {
				w.problems = append(w.problems, fmt.Sprintf("Sprintf format %q at %s is not of the form \"%%s=<value>\"", format, where))
				return true
			}
			key, ok := tbConstString(p, x.Args[1])
			if !ok {
				w.problems = append(w.problems, "the key argument of Sprintf at "+where+" is not a constant string")
				return true
			}
			keyName := ""
			if k := tbConstRef(p, x.Args[1]); k != nil {
				keyName = k.Name()
				w.keyConsts[k] = true
			}
			// value template: verb (sep verb)*
			var verbs []byte
			sep, sepOK := "", true
			for i, pt := range parts[2:] {
				if i%2 == 0 {
					if pt.verb == 0 {
						sepOK = false
					}
					verbs = append(verbs, pt.verb)
				} else {
					if pt.verb != 0 || (sep != "" && pt.lit != sep) {
						sepOK = false
					}
					sep = pt.lit
				}
			}
			if !sepOK || len(parts[2:])%2 == 0 || len(verbs) != len(x.Args)-2 {
				w.problems = append(w.problems, fmt.Sprintf("value template of format %q at %s is not <verb>(<sep><verb>)* matching the %d value arguments", format, where, len(x.Args)-2))
				return true
			}
			// the formatted string must be appended to the joined variable
			appended := false
			if up, ok := par[x].(*ast.CallExpr); ok && tbIsBuiltin(p, up, "append") && len(up.Args) >= 2 && tbObj(p, up.Args[0]) == joined && joined != nil {
				if as, ok := par[up].(*ast.AssignStmt); ok && len(as.Lhs) == 1 && tbObj(p, as.Lhs[0]) == joined {
					appended = true
				}
			}
			if !appended {
				w.problems = append(w.problems, fmt.Sprintf("the string formatted for key %q at %s is not appended to the slice that is joined and returned", key, where))
			}
			w.nParts[key] = len(verbs)
			for i, a := range x.Args[2:] {
				root, path, last, ok := tbSelPath(p, tbStripConv(p, a))
				if !ok || recv == nil || root != types.Object(recv) {
					w.problems = append(w.problems, fmt.Sprintf("value %d written for key %q at %s is not a field of the receiver", i, key, where))
					continue
				}
				part := ""
				if len(verbs) > 1 {
					part = tbPartKey(i, sep)
				}
				w.pairs = append(w.pairs, tbPair{key: key, keyName: keyName, part: part, field: path, how: "%" + string(verbs[i]), ftype: last.Type(), pos: a.Pos()})
			}
		}
		return true
	})
	return w
}

type tbLegacyReader struct {
	pairs     []tbPair
	problems  []string
	keyConsts map[*types.Const]bool
	lenChecks map[string]int64 // key -> N of `len(split) != N`
	parser    *types.Func      // the function producing the key/value map
}

type tbSrc struct {
	key, keyName string
	part         int
	sep          string
	conv         string
}

func tbLegacyReads(c *Ctx, p *packages.Package, fd *ast.FuncDecl, attrs *types.Named) *tbLegacyReader {
	r := &tbLegacyReader{keyConsts: map[*types.Const]bool{}, lenChecks: map[string]int64{}}
	isStrMap := func(t types.Type) bool {
		m, ok := t.Underlying().(*types.Map)
		return ok && tbIsBasic(m.Key().Underlying(), types.String) && tbIsBasic(m.Elem().Underlying(), types.String)
	}
	// the decoded value: the identifier returned with a nil error
	var aVar types.Object
	ast.Inspect(fd.Body, func(n ast.Node) bool {
		if _, ok := n.(*ast.FuncLit); ok {
			return false
		}
		ret, ok := n.(*ast.ReturnStmt)
		if !ok || len(ret.Results) != 2 || !tbIsNilIdent(p, ret.Results[1]) {
			return true
		}
		if o, ok := tbObj(p, ret.Results[0]).(*types.Var); ok && tbDerefNamed(o.Type()) == attrs {
			aVar = o
		}
		return true
	})
	if aVar == nil {
		r.problems = append(r.problems, "no `return <*Attributes variable>, nil` found")
		return r
	}
	// aliases: a.P = t  (t a local pointer to a struct)
	alias := map[types.Object]string{}
	ast.Inspect(fd.Body, func(n ast.Node) bool {
		as, ok := n.(*ast.AssignStmt)
		if !ok || len(as.Lhs) != 1 || len(as.Rhs) != 1 {
			return true
		}
		root, path, _, ok := tbSelPath(p, as.Lhs[0])
		if !ok || root != aVar {
			return true
		}
		if id, ok := tbUnparen(as.Rhs[0]).(*ast.Ident); ok {
			if o, ok := tbObj(p, id).(*types.Var); ok && tbDerefNamed(o.Type()) != nil {
				if _, isPtr := o.Type().Underlying().(*types.Pointer); isPtr {
					alias[o] = path
				}
			}
		}
		return true
	})
	vals := map[types.Object]*tbSrc{}
	type split struct {
		src *tbSrc
		sep string
	}
	splits := map[types.Object]split{}
	var srcOf func(e ast.Expr) *tbSrc
	srcOf = func(e ast.Expr) *tbSrc {
		e = tbUnparen(e)
		switch x := e.(type) {
		case *ast.Ident:
			if s := vals[tbObj(p, x)]; s != nil {
				cp := *s
				return &cp
			}
		case *ast.IndexExpr:
			base, ok := tbObj(p, x.X).(*types.Var)
			if !ok {
				return nil
			}
			if isStrMap(base.Type()) && base.Parent() != p.Types.Scope() {
				key, ok := tbConstString(p, x.Index)
				if !ok {
					r.problems = append(r.problems, "lookup with a non-constant key at "+c.w.Pos(x.Pos()))
					return nil
				}
				s := &tbSrc{key: key, part: -1}
				if k := tbConstRef(p, x.Index); k != nil {
					s.keyName = k.Name()
					r.keyConsts[k] = true
				}
				if call, ok := tbVarDefCall(p, fd, base); ok {
					r.parser = tbCallee(p, call)
				}
				return s
			}
			if sp, ok := splits[base]; ok {
				i, ok := tbConstInt(p, x.Index)
				if !ok {
					return nil
				}
				cp := *sp.src
				cp.part, cp.sep = int(i), sp.sep
				return &cp
			}
		case *ast.CallExpr:
			if tbIsConversion(p, x) {
				return srcOf(x.Args[0])
			}
			if f := tbCallee(p, x); f != nil && f.Pkg() != nil && f.Pkg().Path() == "strconv" && len(x.Args) >= 1 {
				if s := srcOf(x.Args[0]); s != nil {
					s.conv = f.Name()
					return s
				}
			}
		}
		return nil
	}
	ast.Inspect(fd.Body, func(n ast.Node) bool {
		switch x := n.(type) {
		case *ast.BinaryExpr:
			// len(fields) != N
			if x.Op != token.NEQ && x.Op != token.EQL {
				return true
			}
			for _, pr := range [][2]ast.Expr{{x.X, x.Y}, {x.Y, x.X}} {
				call, ok := tbUnparen(pr[0]).(*ast.CallExpr)
				if !ok || !tbIsBuiltin(p, call, "len") || len(call.Args) != 1 {
					continue
				}
				if sp, ok := splits[tbObj(p, call.Args[0])]; ok {
					if k, ok := tbConstInt(p, pr[1]); ok {
						r.lenChecks[sp.src.key] = k
					}
				}
			}
		case *ast.AssignStmt:
			if len(x.Rhs) != 1 && len(x.Rhs) != len(x.Lhs) {
				return true
			}
			for i, rhs := range x.Rhs {
				lhs := x.Lhs[i]
				// fields := strings.Split(v, sep)
				if call, ok := tbUnparen(rhs).(*ast.CallExpr); ok && tbIsFunc(tbCallee(p, call), "strings", "Split") && len(call.Args) == 2 {
					if s := srcOf(call.Args[0]); s != nil && s.part < 0 {
						sep, ok := tbConstString(p, call.Args[1])
						if o := tbObj(p, lhs); ok && o != nil {
							splits[o] = split{src: s, sep: sep}
						}
					}
					continue
				}
				s := srcOf(rhs)
				if s == nil {
					continue
				}
				if id, ok := tbUnparen(lhs).(*ast.Ident); ok {
					if o := tbObj(p, id); o != nil {
						vals[o] = s
					}
					continue
				}
				root, path, last, ok := tbSelPath(p, lhs)
				if !ok {
					continue
				}
				switch {
				case root == aVar:
				case alias[root] != "":
					path = alias[root] + "." + path
				default:
					r.problems = append(r.problems, fmt.Sprintf("the value of key %q is stored at %s into %s.%s, which is not part of the returned Attributes", s.key, c.w.Pos(lhs.Pos()), root.Name(), path))
					continue
				}
				part := ""
				if s.part >= 0 {
					part = tbPartKey(s.part, s.sep)
				}
				r.pairs = append(r.pairs, tbPair{key: s.key, keyName: s.keyName, part: part, field: path, how: s.conv, ftype: last.Type(), pos: lhs.Pos()})
			}
		}
		return true
	})
	return r
}

// tbVarDefCall: local variable v is defined exactly once in fd, by `v := call(...)`.
func tbVarDefCall(p *packages.Package, fd *ast.FuncDecl, v *types.Var) (*ast.CallExpr, bool) {
	var found *ast.CallExpr
	n := 0
	ast.Inspect(fd.Body, func(nd ast.Node) bool {
		as, ok := nd.(*ast.AssignStmt)
		if !ok {
			return true
		}
		for i, l := range as.Lhs {
			if tbObj(p, l) != types.Object(v) {
				continue
			}
			n++
			if len(as.Lhs) == len(as.Rhs) {
				if call, ok := tbUnparen(as.Rhs[i]).(*ast.CallExpr); ok {
					found = call
				}
			}
		}
		return true
	})
	return found, n == 1 && found != nil
}

// tbConstGroup returns all string constants declared in the const declarations that contain any of seeds.
func tbConstGroup(p *packages.Package, seeds map[*types.Const]bool) []*types.Const {
	var out []*types.Const
	for _, f := range p.Syntax {
		for _, d := range f.Decls {
			gd, ok := d.(*ast.GenDecl)
			if !ok || gd.Tok != token.CONST {
				continue
			}
			var group []*types.Const
			hit := false
			for _, sp := range gd.Specs {
				for _, n := range sp.(*ast.ValueSpec).Names {
					k, ok := p.TypesInfo.Defs[n].(*types.Const)
					if !ok {
						continue
					}
					if seeds[k] {
						hit = true
					}
					if k.Val().Kind() == constant.String {
						group = append(group, k)
					}
				}
			}
			if hit {
				out = append(out, group...)
			}
		}
	}
	return out
}

// tbIfVerThreshold finds, in (*Attributes).Marshal, the comparison `recv.<F> < N` (or an equivalent form) that guards
// the call of the legacy writer; it returns the field name and the exclusive upper bound N.
func tbIfVerThreshold(p *packages.Package, fd *ast.FuncDecl, legacy *types.Func) (field string, n int64, pos token.Pos, ok bool) {
	recv := tbRecvVar(p, fd)
	if fd == nil || fd.Body == nil || recv == nil {
		return
	}
	ast.Inspect(fd.Body, func(nd ast.Node) bool {
		ifs, isIf := nd.(*ast.IfStmt)
		if !isIf || ok {
			return true
		}
		be, isBin := tbUnparen(ifs.Cond).(*ast.BinaryExpr)
		if !isBin {
			return true
		}
		callsLegacy := false
		ast.Inspect(ifs.Body, func(m ast.Node) bool {
			if call, isCall := m.(*ast.CallExpr); isCall && tbCallee(p, call) == legacy && legacy != nil {
				callsLegacy = true
			}
			return true
		})
		if !callsLegacy {
			return true
		}
		op, x, y := be.Op, be.X, be.Y
		if _, isConst := tbConstInt(p, x); isConst { // N > a.F  ==>  a.F < N
			x, y = y, x
			switch op {
			case token.GTR:
				op = token.LSS
			case token.GEQ:
				op = token.LEQ
			default:
				return true
			}
		}
		root, path, _, selOK := tbSelPath(p, x)
		k, constOK := tbConstInt(p, y)
		if !selOK || !constOK || root != types.Object(recv) {
			return true
		}
		switch op {
		case token.LSS:
			field, n, pos, ok = path, k, be.Pos(), true
		case token.LEQ:
			field, n, pos, ok = path, k+1, be.Pos(), true
		}
		return true
	})
	return
}

// tbParserSeps extracts, from the legacy tokenizer, the separator given to strings.Split and the one given to strings.Index.
func tbParserSeps(p *packages.Package, fd *ast.FuncDecl) (splitSeps, indexSeps map[string]bool) {
	splitSeps, indexSeps = map[string]bool{}, map[string]bool{}
	tbParserSepsIn(p, fd, splitSeps, indexSeps, 0)
	return
}

// tbParserSepsIn also reads the package's own helpers that the tokenizer calls (the cut at '=' in a function of its own).
func tbParserSepsIn(p *packages.Package, fd *ast.FuncDecl, splitSeps, indexSeps map[string]bool, depth int) {
	if fd == nil || fd.Body == nil || depth > 2 {
		return
	}
	// x, rest, found = strings.Cut(rest, sep): what is left is cut again
	cutFeedsBack := map[*ast.CallExpr]bool{}
	ast.Inspect(fd.Body, func(n ast.Node) bool {
		if as, ok := n.(*ast.AssignStmt); ok && len(as.Lhs) == 3 && len(as.Rhs) == 1 {
			if call, ok := as.Rhs[0].(*ast.CallExpr); ok && len(call.Args) == 2 {
				if o := tbObj(p, as.Lhs[1]); o != nil && o == tbObj(p, call.Args[0]) {
					cutFeedsBack[call] = true
				}
			}
		}
		return true
	})
	ast.Inspect(fd.Body, func(n ast.Node) bool {
		call, ok := n.(*ast.CallExpr)
		if !ok {
			return true
		}
		f := tbCallee(p, call)
		if f != nil && f.Pkg() == p.Types {
			if hd := tbDecl(p, f); hd != nil && hd != fd {
				tbParserSepsIn(p, hd, splitSeps, indexSeps, depth+1)
			}
		}
		if len(call.Args) != 2 {
			return true
		}
		if s, ok := tbConstString(p, call.Args[1]); ok {
			switch {
			case tbIsFunc(f, "strings", "Split"), tbIsFunc(f, "strings", "Fields"):
				splitSeps[s] = true
			case tbIsFunc(f, "strings", "Cut") && cutFeedsBack[call]:
				splitSeps[s] = true // tok, rest, more = strings.Cut(rest, sep) in a loop visits the tokens Split lists
			case tbIsFunc(f, "strings", "Index"), tbIsFunc(f, "strings", "IndexByte"), tbIsFunc(f, "strings", "Cut"), tbIsFunc(f, "strings", "SplitN"):
				indexSeps[s] = true
			}
		}
		return true
	})
}

func tbC15Legacy(c *Ctx, p *packages.Package, attrs *types.Named) {
	const rule = "R1.legacy"
	mlFn := tbMethod(attrs, "MarshalLegacy")
	ulFn := tbPkgFunc(p, "UnmarshalLegacy")
	ml, ul := tbDecl(p, mlFn), tbDecl(p, ulFn)
	if ml == nil || ml.Body == nil {
		c.Unresolved(rule, "(*message.Attributes).MarshalLegacy")
	}
	if ul == nil || ul.Body == nil {
		c.Unresolved(rule, "message.UnmarshalLegacy")
	}
	if ml == nil || ul == nil || ml.Body == nil || ul.Body == nil {
		c.Floor(rule, 0, 8, "legacy keys examined on the writer and the reader side")
		return
	}
	// both sides are extracted from the compiled functions (c15legacy.go)
	w := legacyWritesSSA(c, p, c.w.Prog.FuncValue(mlFn))
	r := legacyReadsSSA(c, p, c.w.Prog.FuncValue(ulFn), attrs)
	for _, pr := range w.problems {
		c.Und(rule, "MarshalLegacy|every written argument is understood", c.w.Pos(ml.Pos()), pr)
	}
	for _, pr := range r.problems {
		c.Und(rule, "UnmarshalLegacy|every read is understood", c.w.Pos(ul.Pos()), pr)
	}
	// a token is written whenever its own field is set: no condition on another field gates it
	for _, g := range w.gates {
		c.Bad(rule, fmt.Sprintf("key %q|written whenever its field is set", g.key), c.w.Pos(g.pos),
			fmt.Sprintf("the token %s=<%s> is written only under a condition on %s: with that field unset the value is silently dropped and decodes as zero", g.key, g.field, g.other))
	}
	if len(w.gates) == 0 && len(w.pairs) > 0 {
		c.Ok(rule, "MarshalLegacy|every token written whenever its field is set", c.w.Pos(ml.Pos()), fmt.Sprintf("%d written tokens are gated by their own fields (and the presence of their parent) only", len(w.pairs)))
	}

	// interface version: threshold of Marshal and the constant element(s) of the initial list
	ifField, threshold, thPos, thOK := tbIfVerThreshold(p, tbDecl(p, tbMethod(attrs, "Marshal")), mlFn)
	if !thOK {
		// read off the compiled encoder instead: the must-facts at the call of the legacy writer (which include those a
		// predicate method of the receiver established, e.g. a.UsesLegacyFormat()) hold a comparison receiver.F < N
		if mfn := c.w.Prog.FuncValue(tbMethod(attrs, "Marshal")); mfn != nil && mfn.Blocks != nil && mlFn != nil {
			ww := c.w
			ww.Focus(mfn)
			mf := ww.Facts(mfn)
			for _, call := range ww.callsInDeep(mfn) {
				callee := call.Common().StaticCallee()
				if callee == nil || callee.Object() != types.Object(mlFn) || !ww.inTree(mfn, call.Parent()) || call.Parent() != mfn {
					continue
				}
				for l := range mf.At(call.Block()) {
					bin, isBin := l.V.(*ssa.BinOp)
					if !isBin {
						continue
					}
					k, isK := intConst(bin.Y)
					ex := ww.Expr(bin.X)
					if !isK || !strings.HasPrefix(ex, "p0.") || strings.ContainsAny(ex[3:], ".([<") {
						continue
					}
					op := bin.Op
					if !l.Pol {
						op = negOp(op)
					}
					switch op {
					case token.LSS:
						ifField, threshold, thPos, thOK = ex[3:], k, call.Pos(), true
					case token.LEQ:
						ifField, threshold, thPos, thOK = ex[3:], k+1, call.Pos(), true
					}
				}
			}
		}
	}
	if !thOK {
		c.Unresolved(rule, "the comparison `a.IfVer < N` guarding the call of MarshalLegacy in (*Attributes).Marshal")
	}
	if len(w.elemConsts) == 0 {
		c.Unresolved(rule, "named constant(s) in the initial []string literal of MarshalLegacy (legacyInterfaceVersion)")
	}
	for _, k := range w.elemConsts {
		val := constant.StringVal(k.Val())
		key := "constant " + k.Name() + "|is <interface-version key>=<n> with n below Marshal's threshold"
		eq := strings.Index(val, "=")
		if eq < 0 {
			c.Bad(rule, key, c.w.Pos(k.Pos()), fmt.Sprintf("%s = %q has no '=': the legacy reader stores it as a key with an empty value", k.Name(), val))
			continue
		}
		kk, vv := val[:eq], val[eq+1:]
		n, err := strconv.Atoi(vv)
		if err != nil {
			c.Bad(rule, key, c.w.Pos(k.Pos()), fmt.Sprintf("%s = %q: %q is not an integer (the reader applies strconv.Atoi)", k.Name(), val, vv))
			continue
		}
		if strings.ContainsAny(val, " ") {
			c.Bad(rule, key, c.w.Pos(k.Pos()), fmt.Sprintf("%s = %q contains the argument separator", k.Name(), val))
			continue
		}
		if thOK {
			c.Check(int64(n) < threshold, rule, key, c.w.Pos(k.Pos()),
				fmt.Sprintf("%s = %q: key %q, n = %d < %d (Marshal takes the legacy arm when %s < %d, so a decoded legacy message is re-encoded in the legacy form)", k.Name(), val, kk, n, threshold, ifField, threshold),
				fmt.Sprintf("%s = %q announces interface version %d, but Marshal (at %s) only writes the legacy form when %s < %d: a decoded legacy message would be re-encoded as JSON", k.Name(), val, n, c.w.Pos(thPos), ifField, threshold))
		}
		// the written pair: the constant stands for the interface-version field
		f := ifField
		if !thOK {
			f = "IfVer"
		}
		var ft types.Type
		if st, ok := attrs.Underlying().(*types.Struct); ok {
			for i := 0; i < st.NumFields(); i++ {
				if st.Field(i).Name() == f {
					ft = st.Field(i).Type()
				}
			}
		}
		w.pairs = append(w.pairs, tbPair{key: kk, keyName: "", part: "", field: f, how: "%d", ftype: ft, pos: w.elemPos})
		w.nParts[kk] = 1
	}

	// key universe: the const declaration(s) of the keys used on either side
	seeds := map[*types.Const]bool{}
	for k := range w.keyConsts {
		seeds[k] = true
	}
	for k := range r.keyConsts {
		seeds[k] = true
	}
	universe := tbConstGroup(p, seeds)
	// a key is a name: constants of the group that hold punctuation only (separators kept next to the keys) are not
	// keys
	{
		var keysOnly []*types.Const
		for _, k := range universe {
			v := constant.StringVal(k.Val())
			if strings.Contains(v, "=") && !seeds[k] {
				continue // a whole key=value token kept next to the keys (the version token), not a key
			}
			if strings.IndexFunc(v, func(r rune) bool { return unicode.IsLetter(r) || unicode.IsDigit(r) }) >= 0 || seeds[k] {
				keysOnly = append(keysOnly, k)
			}
		}
		universe = keysOnly
	}
	nameOf := map[string]string{}
	for _, k := range universe {
		v := constant.StringVal(k.Val())
		if _, dup := nameOf[v]; !dup {
			nameOf[v] = k.Name()
		}
	}
	// distinct values
	for _, k := range universe {
		var same []string
		for _, o := range universe {
			if o != k && constant.Compare(o.Val(), token.EQL, k.Val()) {
				same = append(same, o.Name())
			}
		}
		c.Check(len(same) == 0, rule, "key constant "+k.Name()+"|value distinct from the other legacy keys", c.w.Pos(k.Pos()),
			fmt.Sprintf("%s = %s is unique among %d key constants", k.Name(), k.Val().ExactString(), len(universe)),
			fmt.Sprintf("%s = %s has the same value as %s: the two attributes overwrite each other in the legacy map", k.Name(), k.Val().ExactString(), strings.Join(same, ", ")))
	}

	// group pairs
	type side struct {
		fields map[string]bool
		how    map[string]bool
		ftype  types.Type
		pos    token.Pos
	}
	type slot struct{ key, part string }
	W, R := map[slot]*side{}, map[slot]*side{}
	add := func(m map[slot]*side, pr tbPair) {
		s := slot{pr.key, pr.part}
		if m[s] == nil {
			m[s] = &side{fields: map[string]bool{}, how: map[string]bool{}}
		}
		m[s].fields[pr.field] = true
		m[s].how[pr.how] = true
		m[s].ftype, m[s].pos = pr.ftype, pr.pos
	}
	for _, pr := range w.pairs {
		add(W, pr)
		if pr.keyName != "" && nameOf[pr.key] == "" {
			nameOf[pr.key] = pr.keyName
		}
	}
	for _, pr := range r.pairs {
		add(R, pr)
		if pr.keyName != "" && nameOf[pr.key] == "" {
			nameOf[pr.key] = pr.keyName
		}
	}
	keys := map[string]bool{}
	slots := map[slot]bool{}
	for s := range W {
		keys[s.key], slots[s] = true, true
	}
	for s := range R {
		keys[s.key], slots[s] = true, true
	}
	for _, k := range universe {
		keys[constant.StringVal(k.Val())] = true
	}
	display := func(k string) string {
		if n := nameOf[k]; n != "" {
			return fmt.Sprintf("%s (%q)", n, k)
		}
		return fmt.Sprintf("%q", k)
	}
	good := 0
	for _, k := range tbSorted(keys) {
		var ss []slot
		for s := range slots {
			if s.key == k {
				ss = append(ss, s)
			}
		}
		sort.Slice(ss, func(i, j int) bool { return ss[i].part < ss[j].part })
		label := nameOf[k]
		if label == "" {
			label = strconv.Quote(k)
		}
		if len(ss) == 0 {
			pos := "-"
			for _, u := range universe {
				if constant.StringVal(u.Val()) == k {
					pos = c.w.Pos(u.Pos())
				}
			}
			c.Bad(rule, "legacy key "+label+"|written and read back into the same field", pos,
				fmt.Sprintf("key %s is declared with the legacy attribute keys but is neither written by MarshalLegacy nor read by UnmarshalLegacy", display(k)))
			continue
		}
		allOK := true
		for _, s := range ss {
			construct := "legacy key " + label
			if s.part != "" {
				construct += " part " + s.part
			}
			construct += "|written and read back into the same field"
			ws, rs := W[s], R[s]
			switch {
			case rs == nil:
				allOK = false
				c.Bad(rule, construct, c.w.Pos(ws.pos), fmt.Sprintf("MarshalLegacy writes %s under key %s%s, but UnmarshalLegacy never reads that key/part: the field is lost in the legacy round trip",
					tbJoin(ws.fields), display(k), tbPartSuffix(s.part)))
			case ws == nil:
				allOK = false
				c.Bad(rule, construct, c.w.Pos(rs.pos), fmt.Sprintf("UnmarshalLegacy reads key %s%s into %s, but MarshalLegacy never writes that key/part",
					display(k), tbPartSuffix(s.part), tbJoin(rs.fields)))
			case tbJoin(ws.fields) != tbJoin(rs.fields):
				allOK = false
				c.Bad(rule, construct, c.w.Pos(rs.pos), fmt.Sprintf("key %s%s is written from %s but read into %s", display(k), tbPartSuffix(s.part), tbJoin(ws.fields), tbJoin(rs.fields)))
			default:
				// verb / parser agree with the field type
				class := tbKindClass(ws.ftype)
				okVerbs := map[string]string{"bool": "%v %t", "int": "%d %v", "string": "%s %v"}[class]
				okConv := map[string]string{"bool": "ParseBool", "int": "Atoi ParseInt ParseUint", "string": ""}[class]
				mismatch := ""
				for h := range ws.how {
					if class == "?" || !strings.Contains(" "+okVerbs+" ", " "+h+" ") {
						mismatch = fmt.Sprintf("verb %s does not fit the %s field", h, class)
					}
				}
				for h := range rs.how {
					if base, narrow, cut := strings.Cut(h, "/"); cut {
						// the encoder writes decimal text of the whole field: a reader with another base, or one that
						// clamps to fewer bits than the field has, does not bring every value back
						width := map[types.BasicKind]string{types.Int8: "8bits", types.Int16: "16bits", types.Int32: "32bits", types.Uint8: "8bits", types.Uint16: "16bits", types.Uint32: "32bits"}
						if b, isB := ws.ftype.Underlying().(*types.Basic); !(isB && width[b.Kind()] == narrow) {
							mismatch = fmt.Sprintf("reader conversion %s (%s) does not cover the %s field's decimal text", base, narrow, ws.ftype.String())
							continue
						}
						h = base
					}
					if class == "?" || (h == "" && class != "string") || (h != "" && !strings.Contains(" "+okConv+" ", " "+h+" ")) {
						mismatch = fmt.Sprintf("reader conversion %q does not fit the %s field", h, class)
					}
				}
				if mismatch != "" {
					allOK = false
					c.Bad(rule, construct, c.w.Pos(rs.pos), fmt.Sprintf("key %s%s <-> %s: %s", display(k), tbPartSuffix(s.part), tbJoin(ws.fields), mismatch))
				} else {
					c.Ok(rule, construct, c.w.Pos(rs.pos), fmt.Sprintf("key %s%s: written from %s (%s), read into the same field (%s)", display(k), tbPartSuffix(s.part), tbJoin(ws.fields), tbJoin(ws.how), tbJoin(rs.how)))
				}
			}
		}
		// split arity
		if n, ok := r.lenChecks[k]; ok {
			c.Check(int64(w.nParts[k]) == n, rule, "legacy key "+label+"|number of parts written equals the number the reader demands", c.w.Pos(ul.Pos()),
				fmt.Sprintf("%d parts written, reader requires len == %d", w.nParts[k], n),
				fmt.Sprintf("MarshalLegacy writes %d part(s) under key %s but UnmarshalLegacy demands exactly %d", w.nParts[k], display(k), n))
		} else if w.nParts[k] > 1 {
			allOK = false
			c.Bad(rule, "legacy key "+label+"|number of parts written equals the number the reader demands", c.w.Pos(ul.Pos()),
				fmt.Sprintf("MarshalLegacy writes %d parts under key %s but UnmarshalLegacy has no len(...) test on the split value", w.nParts[k], display(k)))
		}
		if allOK {
			good++
		}
	}

	// separators: Join(" ") vs the tokenizer's Split, and "=" between key and value
	if r.parser != nil && r.parser.Pkg() == p.Types {
		splitSeps, indexSeps := tbParserSeps(p, tbDecl(p, r.parser))
		if !w.haveJoin {
			c.Unresolved(rule, "strings.Join(<args>, <constant separator>) in MarshalLegacy")
		} else {
			c.Check(len(splitSeps) == 1 && splitSeps[w.joinSep], rule, "argument separator|writer's Join separator equals the tokenizer's Split separator", c.w.Pos(ml.Pos()),
				fmt.Sprintf("both %q", w.joinSep), fmt.Sprintf("MarshalLegacy joins with %q but %s splits on %s", w.joinSep, r.parser.Name(), tbJoin(splitSeps)))
		}
		c.Check(len(indexSeps) == 1 && indexSeps["="], rule, "key/value separator|tokenizer cuts at the '=' the writer's formats use", c.w.Pos(r.parser.Pos()),
			"every writer format is \"%s=...\" and the tokenizer cuts at the first \"=\"", fmt.Sprintf("writer formats use \"=\" but %s cuts at %s", r.parser.Name(), tbJoin(indexSeps)))
	} else {
		c.Unresolved(rule, "the repository function producing the map[string]string that UnmarshalLegacy indexes (parseAttrsLegacy)")
	}
	// the floor counts the keys the extraction examined (by value), not the ones that passed: a mismatch is reported by its
	// own obligation above, the floor only guards against an extraction that sees too little
	c.Note("legacy keys written and read back into the same field: %d of %d examined", good, len(keys))
	c.Floor(rule, len(keys), 8, "legacy keys examined on the writer and the reader side")
}

func tbPartSuffix(part string) string {
	if part == "" {
		return ""
	}
	return " part " + part
}

// ---------------------------------------------------------------------------------------------
// yubiagent model shared by C13 / C12 / C20
// ---------------------------------------------------------------------------------------------

const tbMsgPrefix = "AgentMessage"

var tbExtendedOps = []string{"AddHardCert", "ListSlots", "ReadSlot", "AttestSlot", "Wait"}

var tbDelegated = []string{"Lock", "Unlock", "SignRequest", "AddIdentity", "AddIDConstrained", "RemoveIdentity", "RemoveAllIdentities", "RequestV1Identities", "RequestIdentities"}

var tbSmartcard = []string{"AddSmartcardKey", "RemoveSmartcardKey", "AddSmartcardKeyConstrained"}

type tbCaseConst struct {
	obj  *types.Const // nil for an unnamed literal
	val  int64
	name string
	pos  token.Pos
}

type tbArm struct {
	clause     tbPosHolder // where the arm starts
	set        bset
	consts     []tbCaseConst
	agentCalls map[string]bool // methods invoked on the served agent parameter
	delegates  bool            // calls x/crypto's agent.ServeAgent
	isDefault  bool
}

// tbPosHolder keeps the `clause.Pos()` spelling of the rules that report on an arm.
type tbPosHolder struct{ pos token.Pos }

func (p tbPosHolder) Pos() token.Pos { return p.pos }

func (a *tbArm) label() string {
	if a.isDefault {
		return "default"
	}
	var ns []string
	for _, k := range a.consts {
		ns = append(ns, k.name)
	}
	return strings.Join(ns, ",")
}

type tbYubi struct {
	p      *packages.Package
	serve  *ast.FuncDecl
	agent  *types.Var
	arms   []*tbArm
	consts []*types.Const // AgentMessage* constants, sorted by name
	client *types.Named
}

// tbYubiModel resolves ServeAgent, its dispatch switch and the message-code constants. It reports missing anchors under rule.
func tbYubiModel(c *Ctx, rule string) *tbYubi {
	p := tbRepoPkg(c, yubiPkg)
	if p == nil {
		c.Unresolved(rule, "package agent/yubiagent")
		return nil
	}
	y := &tbYubi{p: p}
	sc := p.Types.Scope()
	for _, n := range sc.Names() {
		if k, ok := sc.Lookup(n).(*types.Const); ok && strings.HasPrefix(n, tbMsgPrefix) {
			if _, isInt := tbIntVal(k.Val()); isInt {
				y.consts = append(y.consts, k)
			}
		}
	}
	y.serve = tbDecl(p, tbPkgFunc(p, "ServeAgent"))
	if y.serve == nil || y.serve.Body == nil {
		c.Unresolved(rule, "function yubiagent.ServeAgent")
		return nil
	}
	// the served agent: the parameter of interface type
	for _, f := range y.serve.Type.Params.List {
		for _, n := range f.Names {
			if v, ok := p.TypesInfo.Defs[n].(*types.Var); ok && y.agent == nil {
				if _, isIface := v.Type().Underlying().(*types.Interface); isIface && tbDerefNamed(v.Type()) != nil && tbDerefNamed(v.Type()).Obj().Pkg() == p.Types {
					y.agent = v
				}
			}
		}
	}
	if y.agent == nil {
		c.Unresolved(rule, "the YubiAgent parameter of ServeAgent")
		return nil
	}
	// the dispatch, read off the compiled form: the arm of a code is the set of byte values req[0] can have where the
	// code's work is done (value-set flow over ServeAgent and its helpers), however the tests are written
	wire := newWireView(c.w)
	if wire.serve == nil || wire.flow == nil || wire.rd == nil {
		c.Unresolved(rule, "ServeAgent and the framed read it serves from (compiled form)")
		return nil
	}
	flow := wire.flow
	if flow.tests == 0 {
		c.Unresolved(rule, "tests of the request's first byte in ServeAgent (found none)")
		return nil
	}
	named := map[int64]*types.Const{}
	for _, k := range y.consts {
		if v, ok := tbIntVal(k.Val()); ok {
			if _, dup := named[v]; !dup {
				named[v] = k
			}
		}
	}
	sets := flow.armSets()
	// an arm: a set that is inclusion-minimal for one of its codes (larger sets are code shared by several arms)
	isArm := map[bset]bool{}
	for k := int64(0); k < 256; k++ {
		for _, s := range minimalFor(sets, k) {
			isArm[s] = true
		}
	}
	// the default arm: the arm holding the most codes that no test mentions
	var defSet bset
	defN := 0
	for _, s := range sets {
		if n := s.and(flow.Mentioned.not()).count(); isArm[s] && n > defN {
			defSet, defN = s, n
		}
	}
	firstPos := func(s bset) token.Pos {
		best := token.NoPos
		for _, g := range c.w.Tree(wire.serve) {
			for _, b := range g.Blocks {
				if flow.in[b] != s || !effectful(b) {
					continue
				}
				for _, ins := range b.Instrs {
					if p := ins.Pos(); p.IsValid() && (best == token.NoPos || p < best) {
						best = p
					}
				}
			}
		}
		return best
	}
	agentParam := ssa.Value(nil)
	if len(wire.serve.Params) > 0 {
		agentParam = wire.serve.Params[0]
	}
	for _, s := range sets {
		if !isArm[s] {
			continue
		}
		arm := &tbArm{clause: tbPosHolder{firstPos(s)}, set: s, agentCalls: map[string]bool{}, isDefault: defN > 0 && s == defSet}
		if !arm.isDefault {
			for _, v := range s.list() {
				k := tbCaseConst{val: v, pos: arm.clause.pos, name: strconv.FormatInt(v, 10)}
				if o := named[v]; o != nil {
					k.obj, k.name = o, o.Name()
				}
				arm.consts = append(arm.consts, k)
			}
		}
		for _, cv := range wire.treeCalls(wire.serve) {
			if flow.At(cv) != s {
				continue
			}
			if cv.Call.IsInvoke() && agentParam != nil && c.w.canon(wire.serve, cv.Call.Value) == agentParam {
				arm.agentCalls[cv.Call.Method.Name()] = true
			}
			if calleeName(cv) == tbXAgentPath+".ServeAgent" {
				arm.delegates = true
			}
		}
		y.arms = append(y.arms, arm)
	}
	// the served agent is used only inside the arms
	for _, cv := range wire.treeCalls(wire.serve) {
		isAgent := cv.Call.IsInvoke() && agentParam != nil && c.w.canon(wire.serve, cv.Call.Value) == agentParam
		if !isAgent && calleeName(cv) != tbXAgentPath+".ServeAgent" {
			continue
		}
		if s := flow.At(cv); !isArm[s] {
			c.Bad(rule, "ServeAgent dispatch|the served agent is invoked only in the arm of a code", c.w.Pos(cv.Pos()),
				fmt.Sprintf("%s is invoked where the request code can be any of %d values and no single arm is selected", shortName(calleeName(cv)), s.count()))
		}
	}
	// the client type: implements the interface and holds a net.Conn
	if iface, ok := y.agent.Type().Underlying().(*types.Interface); ok {
		for _, n := range sc.Names() {
			tn, ok := sc.Lookup(n).(*types.TypeName)
			if !ok {
				continue
			}
			named, ok := tn.Type().(*types.Named)
			if !ok {
				continue
			}
			st, ok := named.Underlying().(*types.Struct)
			if !ok || !types.Implements(types.NewPointer(named), iface) {
				continue
			}
			for i := 0; i < st.NumFields(); i++ {
				if fn := tbDerefNamed(st.Field(i).Type()); fn != nil && fn.Obj().Pkg() != nil && fn.Obj().Pkg().Path() == "net" && fn.Obj().Name() == "Conn" {
					y.client = named
				}
			}
		}
	}
	if y.client == nil {
		y.client = tbNamed(p, "client")
	}
	return y
}

func (y *tbYubi) msgConst(op string) *types.Const { return tbPkgConst(y.p, tbMsgPrefix+op) }

// armOf returns the arms listing a constant of the given value.
func (y *tbYubi) armsWith(val int64) []*tbArm {
	var out []*tbArm
	for _, a := range y.arms {
		for _, k := range a.consts {
			if k.val == val {
				out = append(out, a)
				break
			}
		}
	}
	return out
}

// armCalling returns the non-default arms that call agent.<method>.
func (y *tbYubi) armsCalling(method string) []*tbArm {
	var out []*tbArm
	for _, a := range y.arms {
		if !a.isDefault && a.agentCalls[method] {
			out = append(out, a)
		}
	}
	return out
}

func (y *tbYubi) delegationArm() *tbArm {
	var d *tbArm
	for _, a := range y.arms {
		if a.delegates {
			if d != nil {
				return nil
			}
			d = a
		}
	}
	return d
}

// tbXCryptoHandled evaluates the case constants of `switch data[0]` in x/crypto's (*server).processRequest.
func tbXCryptoHandled(c *Ctx) (map[int64]string, *packages.Package) {
	xp := c.w.ByPath[tbXAgentPath]
	if xp == nil || xp.Types == nil || xp.TypesInfo == nil || len(xp.Syntax) == 0 {
		return nil, xp
	}
	fd := tbDecl(xp, tbMethod(tbNamed(xp, "server"), "processRequest"))
	if fd == nil || fd.Body == nil {
		return nil, xp
	}
	out := map[int64]string{}
	ast.Inspect(fd.Body, func(n ast.Node) bool {
		sw, ok := n.(*ast.SwitchStmt)
		if !ok || sw.Tag == nil {
			return true
		}
		ix, ok := tbUnparen(sw.Tag).(*ast.IndexExpr)
		if !ok {
			return true
		}
		if k, ok := tbConstInt(xp, ix.Index); !ok || k != 0 {
			return true
		}
		for _, st := range sw.Body.List {
			for _, e := range st.(*ast.CaseClause).List {
				if v, ok := tbConstInt(xp, e); ok {
					name := strconv.FormatInt(v, 10)
					if o := tbConstRef(xp, e); o != nil {
						name = o.Name()
					}
					out[v] = name
				}
			}
		}
		return false
	})
	if len(out) == 0 {
		return nil, xp
	}
	return out, xp
}

// ---------------------------------------------------------------------------------------------
// C12  R4.codes
// ---------------------------------------------------------------------------------------------

func tablesC12(c *Ctx) {
	const rule = "R4.codes"
	y := tbYubiModel(c, rule)
	if y == nil {
		c.Floor(rule, 0, 9, "delegated request codes")
		return
	}
	handled, _ := tbXCryptoHandled(c)
	if handled == nil {
		c.Unresolved(rule, "case constants of `switch data[0]` in golang.org/x/crypto/ssh/agent (*server).processRequest (source not loaded?)")
		c.Floor(rule, 0, 9, "delegated request codes")
		return
	}
	d := y.delegationArm()
	if d == nil {
		c.Unresolved(rule, "the single arm of ServeAgent's dispatch that calls x/crypto's agent.ServeAgent")
		c.Floor(rule, 0, 9, "delegated request codes")
		return
	}
	hs := map[string]bool{}
	for v, n := range handled {
		hs[fmt.Sprintf("%s=%d", n, v)] = true
	}
	n := 0
	for _, k := range d.consts {
		n++
		name, ok := handled[k.val]
		c.Check(ok, rule, "delegated "+k.name+"|handled by x/crypto's agent server", c.w.Pos(k.pos),
			fmt.Sprintf("%s = %d is x/crypto's %s, a case of processRequest", k.name, k.val, name),
			fmt.Sprintf("%s = %d is handed to x/crypto's agent.ServeAgent, whose processRequest has no case for %d (handled: %s): the client gets a generic failure instead of the raw forward", k.name, k.val, k.val, tbJoin(hs)))
	}
	c.Floor(rule, n, 9, "delegated request codes")
}

// ---------------------------------------------------------------------------------------------
// C20  R4.codes
// ---------------------------------------------------------------------------------------------

func tablesC20(c *Ctx) {
	const rule = "R4.codes"
	sp := tbRepoPkg(c, "agent/shimagent")
	yp := tbRepoPkg(c, yubiPkg)
	if sp == nil || yp == nil {
		c.Unresolved(rule, "packages agent/shimagent and agent/yubiagent")
		c.Floor(rule, 0, 5, "extended message codes")
		return
	}
	srv := tbNamed(sp, "Server")
	var tableLen int64 = -1
	var tableField *types.Var
	nTables := 0
	if srv != nil {
		if st, ok := srv.Underlying().(*types.Struct); ok {
			// the server's own fields and those of the repository struct types it holds (a notifier type)
			var flds []*types.Var
			for i := 0; i < st.NumFields(); i++ {
				flds = append(flds, st.Field(i))
				if n := tbDerefNamed(st.Field(i).Type()); n != nil && n.Obj().Pkg() == srv.Obj().Pkg() {
					if ns, ok := n.Underlying().(*types.Struct); ok {
						for j := 0; j < ns.NumFields(); j++ {
							flds = append(flds, ns.Field(j))
						}
					}
				}
			}
			for _, fv := range flds {
				arr, ok := fv.Type().Underlying().(*types.Array)
				if !ok {
					continue
				}
				if en := tbDerefNamed(arr.Elem()); en != nil && en.Obj().Pkg() != nil && en.Obj().Pkg().Path() == "sync" && en.Obj().Name() == "Cond" {
					if _, isPtr := arr.Elem().(*types.Pointer); isPtr {
						tableLen, tableField = arr.Len(), fv
						nTables++
					}
				}
			}
		}
	}
	if nTables != 1 {
		c.Unresolved(rule, fmt.Sprintf("the [N]*sync.Cond field of shimagent.Server (found %d)", nTables))
		c.Floor(rule, 0, 5, "extended message codes")
		return
	}
	ext := map[string]bool{}
	for _, op := range tbExtendedOps {
		ext[tbMsgPrefix+op] = true
	}
	nExt, nAll := 0, 0
	sc := yp.Types.Scope()
	for _, n := range sc.Names() {
		k, ok := sc.Lookup(n).(*types.Const)
		if !ok || !strings.HasPrefix(n, tbMsgPrefix) {
			continue
		}
		v, ok := tbIntVal(k.Val())
		if !ok {
			continue
		}
		nAll++
		kind := "standard"
		if ext[n] {
			kind = "extended"
			nExt++
		}
		c.Check(v >= 0 && v < tableLen, rule, "code "+n+"|below the length of the condition table", c.w.Pos(k.Pos()),
			fmt.Sprintf("%s code %s = %d < %d = len(Server.%s)", kind, n, v, tableLen, tableField.Name()),
			fmt.Sprintf("%s code %s = %d is not below %d, the length of Server.%s ([%d]*sync.Cond): Wait(%s) returns at once and Broadcast never wakes a waiter for it", kind, n, v, tableLen, tableField.Name(), tableLen, n))
	}
	for _, op := range tbExtendedOps {
		if tbPkgConst(yp, tbMsgPrefix+op) == nil {
			c.Unresolved(rule, "constant yubiagent."+tbMsgPrefix+op)
		}
	}
	c.Floor(rule, nExt, 5, "extended message codes")
	c.Floor(rule, nAll, 14, "message code constants of yubiagent")
}

// ---------------------------------------------------------------------------------------------
// C13  R1.codes
// ---------------------------------------------------------------------------------------------

// tbSSHType returns the sshtype tag of struct type n: the field index carrying it and its numeric value.
func tbSSHType(n *types.Named) (idx int, val int64, raw string, ok bool) {
	st, isStruct := n.Underlying().(*types.Struct)
	if !isStruct {
		return 0, 0, "", false
	}
	for i := 0; i < st.NumFields(); i++ {
		if t, has := reflect.StructTag(st.Tag(i)).Lookup("sshtype"); has {
			v, err := strconv.ParseInt(t, 10, 64)
			if err != nil {
				return i, -1, t, true
			}
			return i, v, t, true
		}
	}
	return 0, 0, "", false
}

// tbLayoutDiff lists the differences between two struct layouts (names, types, order, tags).
func tbLayoutDiff(a, b *types.Named) []string {
	sa, ok1 := a.Underlying().(*types.Struct)
	sb, ok2 := b.Underlying().(*types.Struct)
	if !ok1 || !ok2 {
		return []string{"not both struct types"}
	}
	var out []string
	if sa.NumFields() != sb.NumFields() {
		out = append(out, fmt.Sprintf("%s has %d fields, %s has %d", a.Obj().Name(), sa.NumFields(), b.Obj().Name(), sb.NumFields()))
	}
	for i := 0; i < sa.NumFields() && i < sb.NumFields(); i++ {
		fa, fb := sa.Field(i), sb.Field(i)
		if fa.Name() != fb.Name() {
			out = append(out, fmt.Sprintf("field %d is %s in %s but %s in %s", i, fa.Name(), a.Obj().Name(), fb.Name(), b.Obj().Name()))
		}
		if !types.Identical(fa.Type(), fb.Type()) {
			out = append(out, fmt.Sprintf("field %d has type %s in %s but %s in %s", i, fa.Type(), a.Obj().Name(), fb.Type(), b.Obj().Name()))
		}
		if sa.Tag(i) != sb.Tag(i) {
			out = append(out, fmt.Sprintf("field %d has tag `%s` in %s but `%s` in %s", i, sa.Tag(i), a.Obj().Name(), sb.Tag(i), b.Obj().Name()))
		}
	}
	return out
}

// tbVarDefExpr: the expression defining local variable v when it is assigned exactly once in body.
func tbVarDefExpr(p *packages.Package, body ast.Node, v types.Object) ast.Expr {
	var found ast.Expr
	n := 0
	ast.Inspect(body, func(nd ast.Node) bool {
		switch x := nd.(type) {
		case *ast.AssignStmt:
			for i, l := range x.Lhs {
				if tbObj(p, l) == v {
					n++
					if len(x.Lhs) == len(x.Rhs) {
						found = x.Rhs[i]
					}
				}
			}
		case *ast.ValueSpec:
			for i, nm := range x.Names {
				if p.TypesInfo.Defs[nm] == v && i < len(x.Values) {
					n++
					found = x.Values[i]
				}
			}
		}
		return true
	})
	if n != 1 {
		return nil
	}
	return found
}

type tbFirst struct {
	val    int64
	how    string
	via    *types.Named // struct marshalled with ssh.Marshal, if the byte is its sshtype tag
	constO *types.Const
}

// tbFirstByte evaluates the first byte of the []byte expression e: a []byte{K,...} literal, append([]byte{K},...),
// ssh.Marshal(<struct with sshtype tag>) or a local variable defined once by one of those.
func tbFirstByte(p *packages.Package, body ast.Node, e ast.Expr, depth int) (*tbFirst, string) {
	if depth > 6 {
		return nil, "definition chain too long"
	}
	e = tbUnparen(e)
	switch x := e.(type) {
	case *ast.CompositeLit:
		s, ok := p.TypesInfo.TypeOf(x).Underlying().(*types.Slice)
		if !ok || !tbIsBasic(s.Elem().Underlying(), types.Uint8) || len(x.Elts) == 0 {
			return nil, "not a non-empty []byte literal"
		}
		if _, isKV := x.Elts[0].(*ast.KeyValueExpr); isKV {
			return nil, "keyed []byte literal"
		}
		v, ok := tbConstInt(p, x.Elts[0])
		if !ok {
			return nil, "first element of the []byte literal is not constant"
		}
		f := &tbFirst{val: v, how: "[]byte{" + strconv.FormatInt(v, 10) + ",...}"}
		if k := tbConstRef(p, x.Elts[0]); k != nil {
			f.constO, f.how = k, "[]byte{"+k.Name()+",...}"
		}
		return f, ""
	case *ast.CallExpr:
		if tbIsBuiltin(p, x, "append") && len(x.Args) >= 1 {
			return tbFirstByte(p, body, x.Args[0], depth+1)
		}
		if tbIsFunc(tbCallee(p, x), tbXSSHPath, "Marshal") && len(x.Args) == 1 {
			n := tbDerefNamed(p.TypesInfo.TypeOf(x.Args[0]))
			if n == nil {
				return nil, "ssh.Marshal of an unnamed type"
			}
			idx, v, raw, ok := tbSSHType(n)
			if !ok || idx != 0 || v < 0 {
				return nil, fmt.Sprintf("ssh.Marshal(%s): no numeric sshtype tag on the first field (tag %q on field %d)", n.Obj().Name(), raw, idx)
			}
			return &tbFirst{val: v, how: fmt.Sprintf("ssh.Marshal(%s) with sshtype:%q", n.Obj().Name(), raw), via: n}, ""
		}
		return nil, "unsupported call"
	case *ast.Ident:
		o := tbObj(p, x)
		def := tbVarDefExpr(p, body, o)
		if def == nil {
			return nil, "variable " + x.Name + " is not defined exactly once"
		}
		return tbFirstByte(p, body, def, depth+1)
	}
	return nil, fmt.Sprintf("unsupported expression %T", e)
}

// tbSSHCodecTypes collects the struct types handed to ssh.Marshal (arg 0) and ssh.Unmarshal (arg 1) under the nodes.
func tbSSHCodecTypes(p *packages.Package, nodes []ast.Node) (marshalled, unmarshalled []*types.Named) {
	for _, root := range nodes {
		ast.Inspect(root, func(n ast.Node) bool {
			call, ok := n.(*ast.CallExpr)
			if !ok {
				return true
			}
			f := tbCallee(p, call)
			if tbIsFunc(f, tbXSSHPath, "Marshal") && len(call.Args) == 1 {
				if t := tbDerefNamed(p.TypesInfo.TypeOf(call.Args[0])); t != nil {
					marshalled = append(marshalled, t)
				}
			}
			if tbIsFunc(f, tbXSSHPath, "Unmarshal") && len(call.Args) == 2 {
				if t := tbDerefNamed(p.TypesInfo.TypeOf(call.Args[1])); t != nil {
					unmarshalled = append(unmarshalled, t)
				}
			}
			return true
		})
	}
	return
}

// tbWrittenLits: constant strings converted to []byte and passed as a call argument (server: write(c, []byte("SUCCESS"))).
func tbWrittenLits(p *packages.Package, nodes []ast.Node) map[string]bool {
	out := map[string]bool{}
	for _, root := range nodes {
		ast.Inspect(root, func(n ast.Node) bool {
			call, ok := n.(*ast.CallExpr)
			if !ok || tbIsConversion(p, call) {
				return true
			}
			for _, a := range call.Args {
				conv, ok := tbUnparen(a).(*ast.CallExpr)
				if !ok || !tbIsConversion(p, conv) {
					continue
				}
				if s, ok := p.TypesInfo.TypeOf(conv).Underlying().(*types.Slice); !ok || !tbIsBasic(s.Elem().Underlying(), types.Uint8) {
					continue
				}
				if s, ok := tbConstString(p, conv.Args[0]); ok {
					out[s] = true
				}
			}
			return true
		})
	}
	return out
}

// tbComparedLits: constant strings compared (== / !=) with string(<[]byte>) (client: string(resp) != "SUCCESS").
func tbComparedLits(p *packages.Package, root ast.Node) map[string]bool {
	out := map[string]bool{}
	ast.Inspect(root, func(n ast.Node) bool {
		be, ok := n.(*ast.BinaryExpr)
		if !ok || (be.Op != token.EQL && be.Op != token.NEQ) {
			return true
		}
		for _, pr := range [][2]ast.Expr{{be.X, be.Y}, {be.Y, be.X}} {
			conv, ok := tbUnparen(pr[0]).(*ast.CallExpr)
			if !ok || !tbIsConversion(p, conv) || !tbIsBasic(p.TypesInfo.TypeOf(conv).Underlying(), types.String) {
				continue
			}
			if s, ok := p.TypesInfo.TypeOf(conv.Args[0]).Underlying().(*types.Slice); !ok || !tbIsBasic(s.Elem().Underlying(), types.Uint8) {
				continue
			}
			if s, ok := tbConstString(p, pr[1]); ok {
				out[s] = true
			}
		}
		return true
	})
	return out
}

func tbBodyNodes(cc *ast.CaseClause) []ast.Node {
	var out []ast.Node
	for _, s := range cc.Body {
		out = append(out, s)
	}
	return out
}

func tbTypeNames(ts []*types.Named) string {
	var ns []string
	for _, t := range ts {
		ns = append(ns, t.Obj().Name())
	}
	return "[" + strings.Join(ns, ", ") + "]"
}

func tablesC13(c *Ctx) {
	const rule = "R1.codes"
	y := tbYubiModel(c, rule)
	if y == nil {
		c.Floor(rule, 0, 5, "dispatched extended operations")
		return
	}
	p := y.p
	handled, xp := tbXCryptoHandled(c)

	// ---- (a) sshtype tags equal the named constants ----
	xConst := func(name string, fallback int64) (int64, string) {
		if xp != nil && xp.Types != nil {
			if k := tbPkgConst(xp, name); k != nil {
				if v, ok := tbIntVal(k.Val()); ok {
					return v, "x/crypto's " + name
				}
			}
		}
		return fallback, "the OpenSSH agent protocol value"
	}
	expectTag := map[string]string{
		"agentAddHardCertReq":        tbMsgPrefix + "AddHardCert",
		"agentAddSmartcardKeyReq":    tbMsgPrefix + "AddSmartcardKeyConstrained",
		"agentRemoveSmartcardKeyReq": tbMsgPrefix + "RemoveSmartcardKey",
	}
	seenTagged := map[string]bool{}
	sc := p.Types.Scope()
	for _, n := range sc.Names() {
		tn, ok := sc.Lookup(n).(*types.TypeName)
		if !ok {
			continue
		}
		named, ok := tn.Type().(*types.Named)
		if !ok {
			continue
		}
		idx, v, raw, has := tbSSHType(named)
		if !has {
			continue
		}
		seenTagged[n] = true
		pos := c.w.Pos(tn.Pos())
		key := "struct " + n + "|sshtype tag equals its message-code constant"
		if idx != 0 || v < 0 || v > 255 {
			c.Bad(rule, key, pos, fmt.Sprintf("sshtype tag %q sits on field %d: ssh.Marshal/Unmarshal only honour a numeric sshtype (0..255) on the first field", raw, idx))
			continue
		}
		switch {
		case expectTag[n] != "":
			k := tbPkgConst(p, expectTag[n])
			if k == nil {
				c.Unresolved(rule, "constant yubiagent."+expectTag[n])
				continue
			}
			kv, _ := tbIntVal(k.Val())
			c.Check(kv == v, rule, key, pos, fmt.Sprintf("sshtype:%q == %s = %d", raw, k.Name(), kv),
				fmt.Sprintf("%s is tagged sshtype:%q but %s = %d: the first byte on the wire is not the code the peer dispatches on", n, raw, k.Name(), kv))
		case n == "agentLifetimeConstraint":
			want, src := xConst("agentConstrainLifetime", 1)
			c.Check(v == want, rule, key, pos, fmt.Sprintf("sshtype:%q == %d (%s)", raw, want, src),
				fmt.Sprintf("%s is tagged sshtype:%q but the lifetime-constraint code is %d (%s)", n, raw, want, src))
		default:
			c.Und(rule, key, pos, fmt.Sprintf("struct %s carries sshtype:%q but the rule has no expected constant for it: extend the table in tablesC13", n, raw))
		}
	}
	for n := range expectTag {
		if !seenTagged[n] {
			c.Unresolved(rule, "struct yubiagent."+n+" with an sshtype tag")
		}
	}
	if !seenTagged["agentLifetimeConstraint"] {
		// the constraint assembled by hand from a code constant instead of a tagged struct
		if k := tbPkgConst(p, "agentConstrainLifetime"); k != nil {
			want, src := xConst("agentConstrainLifetime", 1)
			v, _ := tbIntVal(k.Val())
			c.Check(v == want, rule, "constant agentConstrainLifetime|equals the lifetime-constraint code", c.w.Pos(k.Pos()),
				fmt.Sprintf("agentConstrainLifetime = %d (%s)", v, src), fmt.Sprintf("agentConstrainLifetime = %d but the lifetime-constraint code is %d (%s)", v, want, src))
		} else {
			c.Unresolved(rule, "struct yubiagent.agentLifetimeConstraint with an sshtype tag")
		}
	}
	if k := tbPkgConst(p, "agentConstrainConfirm"); k == nil {
		c.Unresolved(rule, "constant yubiagent.agentConstrainConfirm")
	} else {
		want, src := xConst("agentConstrainConfirm", 2)
		v, _ := tbIntVal(k.Val())
		c.Check(v == want, rule, "constant agentConstrainConfirm|equals the confirm-constraint code", c.w.Pos(k.Pos()),
			fmt.Sprintf("agentConstrainConfirm = %d (%s)", v, src), fmt.Sprintf("agentConstrainConfirm = %d but the confirm-constraint code is %d (%s)", v, want, src))
	}

	// ---- (b) the constants: pairwise distinct; standard ones equal x/crypto's; extended ones unknown to x/crypto ----
	ext := map[string]bool{}
	for _, op := range tbExtendedOps {
		ext[tbMsgPrefix+op] = true
		if y.msgConst(op) == nil {
			c.Unresolved(rule, "constant yubiagent."+tbMsgPrefix+op)
		}
	}
	for _, k := range y.consts {
		kv, _ := tbIntVal(k.Val())
		var same []string
		for _, o := range y.consts {
			if ov, _ := tbIntVal(o.Val()); o != k && ov == kv {
				same = append(same, o.Name())
			}
		}
		c.Check(len(same) == 0, rule, "constant "+k.Name()+"|distinct from every other message code", c.w.Pos(k.Pos()),
			fmt.Sprintf("%s = %d is unique among the %d %s* constants", k.Name(), kv, len(y.consts), tbMsgPrefix),
			fmt.Sprintf("%s = %d has the same value as %s", k.Name(), kv, strings.Join(same, ", ")))
		if xp == nil || xp.Types == nil {
			continue
		}
		xk := tbPkgConst(xp, "agent"+strings.TrimPrefix(k.Name(), tbMsgPrefix))
		switch {
		case xk != nil:
			xv, _ := tbIntVal(xk.Val())
			c.Check(xv == kv, rule, "constant "+k.Name()+"|equals the same-named x/crypto code", c.w.Pos(k.Pos()),
				fmt.Sprintf("%s = %d == x/crypto's %s", k.Name(), kv, xk.Name()),
				fmt.Sprintf("%s = %d but x/crypto's %s = %d", k.Name(), kv, xk.Name(), xv))
			if ext[k.Name()] {
				c.Bad(rule, "constant "+k.Name()+"|extended code unknown to x/crypto", c.w.Pos(k.Pos()), fmt.Sprintf("%s is expected to be a yubiagent extension but x/crypto declares %s", k.Name(), xk.Name()))
			}
		case ext[k.Name()]:
			if handled != nil {
				name, clash := handled[kv]
				c.Check(!clash, rule, "constant "+k.Name()+"|extended code unknown to x/crypto", c.w.Pos(k.Pos()),
					fmt.Sprintf("%d is not a request code of x/crypto's agent server", kv),
					fmt.Sprintf("%s = %d collides with x/crypto's request code %s", k.Name(), kv, name))
			}
		default:
			c.Und(rule, "constant "+k.Name()+"|classified as standard or extended", c.w.Pos(k.Pos()),
				fmt.Sprintf("%s has no same-named constant in x/crypto and is not one of the five extended operations %v: the rule does not know how it must be dispatched", k.Name(), tbExtendedOps))
		}
	}

	// ---- (c) the dispatch of ServeAgent ----
	wire := newWireView(c.w)
	serverArm := map[string]*tbArm{}
	dispatched, examined := 0, 0 // examined: extended codes with exactly one arm; dispatched: those whose arm calls the same-named method
	for _, op := range tbExtendedOps {
		k := y.msgConst(op)
		if k == nil {
			continue
		}
		kv, _ := tbIntVal(k.Val())
		key := "arm " + k.Name() + "|calls agent." + op
		arms := y.armsWith(kv)
		if len(arms) != 1 {
			c.Bad(rule, key, c.w.Pos(y.serve.Pos()), fmt.Sprintf("%s = %d is listed in %d case arms of ServeAgent's dispatch: the request falls to the raw forward", k.Name(), kv, len(arms)))
			continue
		}
		a := arms[0]
		examined++
		if len(a.consts) == 1 {
			// agent methods invoked for this code by helpers the arm calls
			for mth := range wire.agentMethodsIn(kv) {
				a.agentCalls[mth] = true
			}
		}
		calls := tbSorted(a.agentCalls)
		ok := len(calls) == 1 && calls[0] == op && len(a.consts) == 1 && !a.delegates
		if c.Check(ok, rule, key, c.w.Pos(a.clause.Pos()),
			fmt.Sprintf("case %s: the only agent method invoked is %s", k.Name(), op),
			fmt.Sprintf("case %s invokes agent methods %v (delegates to x/crypto: %v): expected exactly agent.%s in an arm of its own", a.label(), calls, a.delegates, op)) {
			serverArm[op] = a
			dispatched++
		}
	}
	if d := y.delegationArm(); d == nil {
		c.Unresolved(rule, "the single arm of ServeAgent's dispatch that calls x/crypto's agent.ServeAgent")
	} else {
		have := map[string]bool{}
		for _, k := range d.consts {
			have[k.name] = true
		}
		want := map[string]bool{}
		for _, op := range tbDelegated {
			n := tbMsgPrefix + op
			want[n] = true
			c.Check(have[n], rule, "delegation arm|lists "+n, c.w.Pos(d.clause.Pos()), "listed",
				fmt.Sprintf("%s is not in the arm delegating to x/crypto's agent.ServeAgent (it lists %s): the request is forwarded raw and bypasses the served agent's own methods", n, d.label()))
		}
		for _, k := range d.consts {
			c.Check(want[k.name], rule, "delegation arm|"+k.name+" is one of the nine delegated codes", c.w.Pos(k.pos), "expected",
				fmt.Sprintf("%s (= %d) is delegated to x/crypto's agent.ServeAgent but is not one of the nine codes %v", k.name, k.val, tbDelegated))
		}
		if len(d.agentCalls) > 0 {
			c.Bad(rule, "delegation arm|no direct agent call", c.w.Pos(d.clause.Pos()), fmt.Sprintf("the delegation arm also invokes agent methods %v", tbSorted(d.agentCalls)))
		}
	}
	var def *tbArm
	for _, a := range y.arms {
		if a.isDefault {
			def = a
		}
	}
	for _, op := range tbSmartcard {
		k := y.msgConst(op)
		if k == nil {
			c.Unresolved(rule, "constant yubiagent."+tbMsgPrefix+op)
			continue
		}
		kv, _ := tbIntVal(k.Val())
		arms := y.armsWith(kv)
		lbl := ""
		if len(arms) > 0 {
			lbl = arms[0].label()
		}
		c.Check(len(arms) == 0, rule, "smart-card code "+k.Name()+"|has no arm (falls to the raw forward)", c.w.Pos(k.Pos()),
			fmt.Sprintf("%d appears in no case of the dispatch", kv),
			fmt.Sprintf("%s = %d is listed in the arm `case %s`: x/crypto's server does not implement it, the request must reach the default arm's raw forward", k.Name(), kv, lbl))
	}
	if def == nil {
		c.Bad(rule, "default arm|calls agent.Forward", c.w.Pos(y.serve.Pos()), "the dispatch has no default arm: unknown and smart-card requests get no answer")
	} else {
		c.Check(def.agentCalls["Forward"] && len(def.agentCalls) == 1 && !def.delegates, rule, "default arm|calls agent.Forward", c.w.Pos(def.clause.Pos()),
			"the default arm forwards the raw request", fmt.Sprintf("the default arm invokes %v (delegates: %v), expected exactly agent.Forward", tbSorted(def.agentCalls), def.delegates))
	}

	// ---- (d,e,f) client side ----
	if y.client == nil {
		c.Unresolved(rule, "the client type of yubiagent (implements YubiAgent, holds a net.Conn)")
		c.Floor(rule, examined, 5, "dispatched extended operations")
		return
	}
	isSend := func(f *types.Func) bool { // method of the client: func([]byte) ([]byte, error)
		if f == nil {
			return false
		}
		sig := f.Type().(*types.Signature)
		if sig.Recv() == nil || tbDerefNamed(sig.Recv().Type()) != y.client || sig.Params().Len() != 1 || sig.Results().Len() != 2 {
			return false
		}
		s, ok := sig.Params().At(0).Type().Underlying().(*types.Slice)
		return ok && tbIsBasic(s.Elem().Underlying(), types.Uint8)
	}
	_ = isSend
	type clientOp struct {
		ssa   *ssa.Function
		fd    *ast.FuncDecl
		first *tbFirst
		why   string
	}
	clientFirst := func(method string) *clientOp {
		fd := tbDecl(p, tbMethod(y.client, method))
		if fd == nil || fd.Body == nil {
			return nil
		}
		op := &clientOp{fd: fd, why: "no request is sent through the connection"}
		// evaluated on the SSA form of the method and of the helpers it calls (c13wire.go)
		op.ssa = c.w.methodOfNamed(y.client, method)
		if op.ssa == nil || op.ssa.Blocks == nil {
			return op
		}
		c.w.Focus(op.ssa)
		req, why := wire.clientRequest(op.ssa)
		if req == nil {
			op.why = why
			return op
		}
		wf, why := wire.firstByte(op.ssa, req, 0)
		if wf == nil {
			op.why = why
			return op
		}
		op.first = &tbFirst{val: wf.val, how: wf.how, via: wf.via}
		for _, k := range y.consts {
			if kv, _ := tbIntVal(k.Val()); kv == wf.val && wf.via == nil {
				op.first.constO, op.first.how = k, "[]byte{"+k.Name()+",...}"
			}
		}
		return op
	}
	allServer, allClient := map[string]bool{}, map[string]bool{}
	for _, opName := range tbExtendedOps {
		co := clientFirst(opName)
		if co == nil {
			c.Unresolved(rule, "method "+opName+" of the yubiagent client type")
			continue
		}
		k := y.msgConst(opName)
		arm := serverArm[opName]
		key := "client." + opName + "|first request byte is the code of the server arm calling agent." + opName
		switch {
		case co.first == nil:
			c.Und(rule, key, c.w.Pos(co.fd.Pos()), "cannot evaluate the first byte of the request: "+co.why)
		case arm == nil || k == nil:
			c.Bad(rule, key, c.w.Pos(co.fd.Pos()), fmt.Sprintf("the client sends %s (first byte %d) but no server arm of its own invokes agent.%s", co.first.how, co.first.val, opName))
		default:
			c.Check(co.first.val == arm.consts[0].val, rule, key, c.w.Pos(co.fd.Pos()),
				fmt.Sprintf("client sends %s = %d; server arm `case %s` calls agent.%s", co.first.how, co.first.val, arm.label(), opName),
				fmt.Sprintf("client.%s sends %s (first byte %d) but the server arm that calls agent.%s is `case %s` (= %d)", opName, co.first.how, co.first.val, opName, arm.label(), arm.consts[0].val))
		}
		if arm == nil {
			continue
		}
		armCode := arm.consts[0].val
		inThisArm := func(cv *ssa.Call) bool { return wire.inArm(cv, armCode) }
		sMar, sUnm := wire.codecTypes(wire.serve, inThisArm)
		var cUnm []*types.Named
		if co.ssa != nil {
			_, cUnm = wire.codecTypes(co.ssa, func(*ssa.Call) bool { return true })
		}
		// response layout
		rkey := opName + "|response struct layout identical on both sides"
		switch {
		case len(cUnm) == 0 && len(sMar) == 0:
			// plain-text reply, see the literal below
		case len(cUnm) != 1 || len(sMar) != 1:
			c.Bad(rule, rkey, c.w.Pos(co.fd.Pos()), fmt.Sprintf("the server arm marshals %s but the client unmarshals into %s: expected one struct on each side", tbTypeNames(sMar), tbTypeNames(cUnm)))
		default:
			diff := tbLayoutDiff(sMar[0], cUnm[0])
			c.Check(len(diff) == 0, rule, rkey, c.w.Pos(co.fd.Pos()),
				fmt.Sprintf("server encodes %s, client decodes %s: same fields, types, order and tags", sMar[0].Obj().Name(), cUnm[0].Obj().Name()),
				fmt.Sprintf("server encodes %s but client decodes %s: %s", sMar[0].Obj().Name(), cUnm[0].Obj().Name(), strings.Join(diff, "; ")))
		}
		// request layout (only when the client marshals a struct)
		if co.first != nil && co.first.via != nil {
			qkey := opName + "|request struct layout identical on both sides"
			if len(sUnm) != 1 {
				c.Bad(rule, qkey, c.w.Pos(arm.clause.Pos()), fmt.Sprintf("the client marshals %s but the server arm unmarshals into %s", co.first.via.Obj().Name(), tbTypeNames(sUnm)))
			} else {
				diff := tbLayoutDiff(co.first.via, sUnm[0])
				c.Check(len(diff) == 0, rule, qkey, c.w.Pos(arm.clause.Pos()),
					fmt.Sprintf("client encodes %s, server decodes %s: identical layout", co.first.via.Obj().Name(), sUnm[0].Obj().Name()),
					fmt.Sprintf("client encodes %s but server decodes %s: %s", co.first.via.Obj().Name(), sUnm[0].Obj().Name(), strings.Join(diff, "; ")))
			}
		}
		// success literal
		sl, cl := wire.writtenLits(wire.serve, inThisArm), map[string]bool{}
		if co.ssa != nil {
			cl = wire.comparedLits(co.ssa)
		}
		for s := range sl {
			allServer[s] = true
		}
		for s := range cl {
			allClient[s] = true
		}
		if len(sl) > 0 || len(cl) > 0 {
			c.Check(len(sl) == 1 && tbJoin(sl) == tbJoin(cl), rule, opName+"|success literal identical on both sides", c.w.Pos(co.fd.Pos()),
				fmt.Sprintf("server writes %s, client compares with %s", tbJoin(sl), tbJoin(cl)),
				fmt.Sprintf("the server arm writes the literal(s) %s but client.%s compares the reply with %s: a successful operation is reported as an error", tbJoin(sl), opName, tbJoin(cl)))
		}
	}
	c.Note("extended operations whose arm calls the same-named agent method: %d of %d arms examined", dispatched, examined)
	if handled == nil {
		c.Note("x/crypto's agent server source was not available: the comparison of extended codes with its request codes was skipped")
	}
	union := map[string]bool{}
	for s := range allServer {
		union[s] = true
	}
	for s := range allClient {
		union[s] = true
	}
	c.Check(len(union) == 1 && len(allServer) == 1 && len(allClient) == 1, rule, "success literal|one constant string shared by all plain-text replies", c.w.Pos(y.serve.Pos()),
		fmt.Sprintf("server %s, client %s", tbJoin(allServer), tbJoin(allClient)),
		fmt.Sprintf("server arms write %s, client methods compare with %s: expected the same single literal", tbJoin(allServer), tbJoin(allClient)))

	// the two forwarded smart-card operations of the client emit the codes that have no arm
	for method, want := range map[string]string{"AddSmartcardKey": "AddSmartcardKeyConstrained", "RemoveSmartcardKey": "RemoveSmartcardKey"} {
		co := clientFirst(method)
		k := y.msgConst(want)
		if co == nil || k == nil {
			c.Unresolved(rule, "method "+method+" of the yubiagent client type / constant "+tbMsgPrefix+want)
			continue
		}
		key := "client." + method + "|first request byte is " + k.Name() + " (forwarded raw)"
		if co.first == nil {
			c.Und(rule, key, c.w.Pos(co.fd.Pos()), "cannot evaluate the first byte of the request: "+co.why)
			continue
		}
		kv, _ := tbIntVal(k.Val())
		c.Check(co.first.val == kv && len(y.armsWith(co.first.val)) == 0, rule, key, c.w.Pos(co.fd.Pos()),
			fmt.Sprintf("client sends %s = %d, which has no arm and reaches the raw forward", co.first.how, co.first.val),
			fmt.Sprintf("client.%s sends %s (first byte %d); expected %s = %d with no arm of its own in ServeAgent", method, co.first.how, co.first.val, k.Name(), kv))
	}
	c.Floor(rule, examined, 5, "dispatched extended operations")
}

// ---------------------------------------------------------------------------------------------
// C14  R2.policy
// ---------------------------------------------------------------------------------------------

var tbPolicyReference = map[string]string{"NoNamespace": "NONS", "NamespaceOK": "NSOK"}

func tablesC14(c *Ctx) {
	const rule = "R2.policy"
	cp := tbRepoPkg(c, "common")
	nEntries := 0
	defer func() { c.Floor(rule, nEntries, 2, "namespace policy table entries") }()
	if cp == nil {
		c.Unresolved(rule, "package common")
		return
	}
	pol := tbNamed(cp, "NamespacePolicy")
	if pol == nil {
		c.Unresolved(rule, "type common.NamespacePolicy")
		return
	}
	isPolicySet := func(t types.Type) bool {
		m, ok := t.(*types.Map)
		if !ok || !types.Identical(m.Key(), pol) {
			return false
		}
		st, ok := m.Elem().(*types.Struct)
		return ok && st.NumFields() == 0
	}
	var table *types.Var
	if vs := tbPkgVars(cp, isPolicySet); len(vs) == 0 {
		// no policy table: the validity predicate itself enumerates the policies (e.g. a switch). It is run on every
		// string constant it compares with and on a string equal to none of them.
		vf := c.w.Func("common", "ValidNamespacePolicy")
		if h := thinDelegate1(c.w, vf); h != nil {
			vf = h // `return policy.Valid()`: the method that decides
		}
		if vf == nil || vf.Blocks == nil {
			c.Unresolved(rule, "function common.ValidNamespacePolicy")
		} else {
			c.Saw(vf)
			names := map[string]string{}
			for n, v := range constDecls(cp, pol.Obj().Name()) {
				if v.Kind() == constant.String {
					names[constant.StringVal(v)] = n
				}
			}
			have := map[string]string{}
			for _, k := range comparedStrings(vf) {
				acc, ok := evalStringPredicate(c.w, vf, k, false)
				if !ok {
					c.Und(rule, "ValidNamespacePolicy|interpretable", c.w.FnPos(vf), "the predicate is neither a lookup in a policy table nor a chain of comparisons of its parameter with constants")
					continue
				}
				if !acc {
					continue
				}
				nEntries++
				name := names[k]
				if name == "" {
					name = strconv.Quote(k)
				}
				have[name] = k
				want, known := tbPolicyReference[name]
				c.Check(known && want == k, rule, "policy set entry "+name+"|one of the two reference policies", c.w.FnPos(vf),
					fmt.Sprintf("%s = %q", name, k),
					fmt.Sprintf("the predicate accepts %s = %q, which is not one of NoNamespace=\"NONS\" / NamespaceOK=\"NSOK\": an additional force-command token would be accepted", name, k))
			}
			for _, name := range []string{"NoNamespace", "NamespaceOK"} {
				val, ok := have[name]
				c.Check(ok && val == tbPolicyReference[name], rule, "policy set|contains "+name+"="+strconv.Quote(tbPolicyReference[name]), c.w.FnPos(vf),
					"accepted", fmt.Sprintf("the predicate does not accept %s = %q (accepts %v): a legitimate force command is rejected", name, tbPolicyReference[name], have))
			}
			acc, ok := evalStringPredicate(c.w, vf, "", true)
			c.Check(ok && !acc, rule, "ValidNamespacePolicy|is the comma-ok lookup in the policy table", c.w.FnPos(vf), "any other string is rejected", "the predicate accepts (or cannot be shown to reject) a string that is none of the policies it names")
			for n, v := range constDecls(cp, pol.Obj().Name()) {
				if _, ok := tbPolicyReference[n]; !ok {
					c.Bad(rule, "policy constant "+n+"|one of the two reference policies", c.w.Pos(cp.Types.Scope().Lookup(n).Pos()), fmt.Sprintf("unexpected NamespacePolicy constant %s = %s", n, v.ExactString()))
				}
			}
		}
	} else {
		table = tbOnlyVar(c, rule, "package-level map[NamespacePolicy]struct{} of common", cp, isPolicySet)
	}
	if table != nil {
		entries, ok := mapLit(cp, tbVarInit(cp, table))
		if !ok {
			c.Unresolved(rule, "composite literal with constant keys initialising "+table.Name())
		} else {
			tbTableFrozen(c, rule, cp, table)
			have := map[string]string{}
			for _, e := range entries {
				nEntries++
				name := e.Key.ExactString()
				if e.KeyObj != nil {
					name = e.KeyObj.Name()
				}
				val := ""
				if e.Key.Kind() == constant.String {
					val = constant.StringVal(e.Key)
				}
				have[name] = val
				want, known := tbPolicyReference[name]
				c.Check(known && want == val, rule, "policy set entry "+name+"|one of the two reference policies", c.w.Pos(e.Pos),
					fmt.Sprintf("%s = %q", name, val),
					fmt.Sprintf("the policy table contains %s = %q, which is not one of NoNamespace=\"NONS\" / NamespaceOK=\"NSOK\": an additional force-command token would be accepted", name, val))
			}
			for _, name := range []string{"NoNamespace", "NamespaceOK"} {
				val, ok := have[name]
				c.Check(ok && val == tbPolicyReference[name], rule, "policy set|contains "+name+"="+strconv.Quote(tbPolicyReference[name]), c.w.Pos(table.Pos()),
					"present", fmt.Sprintf("the policy table lacks %s = %q (has %v): a legitimate force command is rejected", name, tbPolicyReference[name], have))
			}
			// every declared NamespacePolicy constant is one of the two
			for n, v := range constDecls(cp, pol.Obj().Name()) {
				if _, ok := tbPolicyReference[n]; !ok {
					c.Bad(rule, "policy constant "+n+"|one of the two reference policies", c.w.Pos(cp.Types.Scope().Lookup(n).Pos()), fmt.Sprintf("unexpected NamespacePolicy constant %s = %s", n, v.ExactString()))
				}
			}
		}
		// ValidNamespacePolicy: `_, ok := table[policy]; return ok`
		vfn := tbPkgFunc(cp, "ValidNamespacePolicy")
		fd := tbDecl(cp, vfn)
		if fd == nil || fd.Body == nil {
			c.Unresolved(rule, "function common.ValidNamespacePolicy")
		} else {
			key := "ValidNamespacePolicy|is the comma-ok lookup in the policy table"
			why := ""
			var param types.Object
			if fd.Type.Params != nil && len(fd.Type.Params.List) == 1 && len(fd.Type.Params.List[0].Names) == 1 {
				param = cp.TypesInfo.Defs[fd.Type.Params.List[0].Names[0]]
			}
			switch {
			case param == nil:
				why = "expected exactly one parameter"
			case len(fd.Body.List) != 2:
				why = fmt.Sprintf("body has %d statements, expected `_, ok := table[policy]; return ok`", len(fd.Body.List))
			default:
				as, ok1 := fd.Body.List[0].(*ast.AssignStmt)
				ret, ok2 := fd.Body.List[1].(*ast.ReturnStmt)
				switch {
				case !ok1 || !ok2 || len(as.Lhs) != 2 || len(as.Rhs) != 1 || len(ret.Results) != 1:
					why = "not of the form `_, ok := table[policy]; return ok`"
				default:
					ix, isIx := tbUnparen(as.Rhs[0]).(*ast.IndexExpr)
					blank, isID := as.Lhs[0].(*ast.Ident)
					okObj := tbObj(cp, as.Lhs[1])
					switch {
					case !isIx || tbObj(cp, ix.X) != types.Object(table):
						why = "the lookup is not in " + table.Name()
					case tbObj(cp, ix.Index) != param:
						why = "the lookup key is not the function's parameter"
					case !isID || blank.Name != "_":
						why = "the first result of the lookup is not discarded"
					case okObj == nil || tbObj(cp, ret.Results[0]) != okObj:
						why = "the returned value is not the lookup's ok flag"
					}
				}
			}
			c.Check(why == "", rule, key, c.w.Pos(fd.Pos()), "_, ok := "+table.Name()+"[<parameter>]; return ok", vfn.Name()+": "+why)
		}
	}

	// parseForceCommand
	sp := tbRepoPkg(c, "csr")
	if sp == nil {
		c.Unresolved(rule, "package csr")
		return
	}
	var pfc *types.Func
	nCand := 0
	sc := sp.Types.Scope()
	for _, n := range sc.Names() {
		f, ok := sc.Lookup(n).(*types.Func)
		if !ok {
			continue
		}
		sig := f.Type().(*types.Signature)
		if sig.Params().Len() != 1 || sig.Results().Len() != 3 || !types.Identical(sig.Results().At(0).Type(), pol) || !isErrorType(sig.Results().At(2).Type()) {
			continue
		}
		if s, ok := sig.Params().At(0).Type().(*types.Slice); ok && tbIsBasic(s.Elem(), types.String) {
			pfc = f
			nCand++
		}
	}
	if nCand != 1 {
		pfc = tbPkgFunc(sp, "parseForceCommand")
	}
	fd := tbDecl(sp, pfc)
	if fd == nil || fd.Body == nil {
		c.Unresolved(rule, "csr function func([]string) (common.NamespacePolicy, string, error) (parseForceCommand)")
		return
	}
	// evaluated on the SSA form: on every successful return the must-facts bound len(args) to [3,6] and the two
	// results are the last-but-one and the last element of that same slice
	pf := c.w.Prog.FuncValue(pfc)
	if pf == nil || pf.Blocks == nil {
		c.Unresolved(rule, "SSA form of "+pfc.Name())
		return
	}
	w := c.w
	c.Saw(pf)
	ff := w.Facts(pf)
	// elemAt: v denotes X[len(X)-k] for a slice value X; returns X and k
	elemAt := func(v ssa.Value) (ssa.Value, int64, bool) {
		ld, ok := w.canon(pf, v).(*ssa.UnOp)
		if !ok || ld.Op != token.MUL {
			return nil, 0, false
		}
		ia, ok := ld.X.(*ssa.IndexAddr)
		if !ok {
			return nil, 0, false
		}
		sub, ok := w.canon(pf, ia.Index).(*ssa.BinOp)
		if !ok || sub.Op != token.SUB {
			return nil, 0, false
		}
		k, isK := intConst(sub.Y)
		la := lenArg(w.canon(pf, sub.X))
		if !isK || la == nil || w.canon(pf, la) != w.canon(pf, ia.X) {
			return nil, 0, false
		}
		return w.canon(pf, ia.X), k, true
	}
	nSucc := 0
	for _, r := range w.MayBeNilReturns(pf) {
		if pf.Recover != nil && r.Block() == pf.Recover {
			continue
		}
		nSucc++
		pos := w.Pos(r.Pos())
		xs, kH, okH := elemAt(r.Results[1])
		xp, kP, okP := elemAt(r.Results[0])
		c.Check(okH && kH == 1, rule, pfc.Name()+"|handler token is args[l-1]", pos, "the handler name is args[len(args)-1]",
			fmt.Sprintf("the handler name returned is not the last token (args[len(args)-1]): %s", w.Short(r.Results[1])))
		c.Check(okP && kP == 2, rule, pfc.Name()+"|policy token is args[l-2]", pos, "NamespacePolicy(args[len(args)-2])",
			fmt.Sprintf("the namespace policy returned is not the last-but-one token (args[len(args)-2]): %s", w.Short(r.Results[0])))
		c.Check(okH && okP && xs == xp, rule, pfc.Name()+"|length variable and slice unchanged after l := len(args)", pos,
			"both tokens are taken from one slice value, indexed relative to its own length", "the two tokens are not taken from the same slice value / its own length")
		// the accepted length range at this return
		minLen, maxLen := int64(-1), int64(1<<40)
		for l := range ff.At(r.Block()) {
			bin, ok := l.V.(*ssa.BinOp)
			if !ok {
				continue
			}
			op, x, y := bin.Op, bin.X, bin.Y
			if _, isK := intConst(x); isK {
				x, y = y, x
				op = map[token.Token]token.Token{token.LSS: token.GTR, token.GTR: token.LSS, token.LEQ: token.GEQ, token.GEQ: token.LEQ, token.EQL: token.EQL, token.NEQ: token.NEQ}[op]
			}
			k, isK := intConst(y)
			la := lenArg(w.canon(pf, x))
			if !isK || la == nil || xs == nil || w.canon(pf, la) != xs {
				continue
			}
			if !l.Pol { // negate
				op = map[token.Token]token.Token{token.LSS: token.GEQ, token.GEQ: token.LSS, token.GTR: token.LEQ, token.LEQ: token.GTR, token.EQL: token.NEQ, token.NEQ: token.EQL}[op]
			}
			switch op {
			case token.GEQ:
				if k > minLen {
					minLen = k
				}
			case token.GTR:
				if k+1 > minLen {
					minLen = k + 1
				}
			case token.LEQ:
				if k < maxLen {
					maxLen = k
				}
			case token.LSS:
				if k-1 < maxLen {
					maxLen = k - 1
				}
			case token.EQL:
				minLen, maxLen = k, k
			}
		}
		if minLen < 0 {
			c.Bad(rule, pfc.Name()+"|lower length guard rejects l < 3", pos, "no lower bound on len(args) holds on this successful return")
		} else {
			c.Check(minLen == 3, rule, pfc.Name()+"|lower length guard rejects l < 3", pos,
				"an argument list shorter than 3 tokens is an error", fmt.Sprintf("success is possible for len(args) >= %d, expected 3 (gensign, policy, handler)", minLen))
		}
		if maxLen >= 1<<40 {
			c.Bad(rule, pfc.Name()+"|upper length guard rejects l > 6", pos, "no upper bound on len(args) holds on this successful return")
		} else {
			c.Check(maxLen == 6, rule, pfc.Name()+"|upper length guard rejects l > 6", pos,
				"an argument list longer than 6 tokens is an error", fmt.Sprintf("success is possible for len(args) <= %d, expected 6", maxLen))
		}
	}
	c.Floor(rule, nSucc, 1, "successful return of "+pfc.Name())
}

// tbLoopRejects: receiver fields that function g rejects when empty by means of a loop over a local array of rows:
// the array is filled once with constant indices, one field of each row holding a receiver field; the loop ranges
// forward over the whole array, compares that field of the current row with "" and, when it is empty, only returns
// non-nil errors; g returns success only with the loop exhausted.
func tbLoopRejects(w *World, g *ssa.Function) map[string]bool {
	out := map[string]bool{}
	gf := w.Facts(g)
	for _, b := range g.Blocks {
		iff, ok := b.Instrs[len(b.Instrs)-1].(*ssa.If)
		if !ok {
			continue
		}
		cmp, ok := iff.Cond.(*ssa.BinOp)
		if !ok || (cmp.Op != token.EQL && cmp.Op != token.NEQ) {
			continue
		}
		if k, isK := strConst(cmp.Y); !isK || k != "" {
			continue
		}
		// x = *(&row.F) with row a local copy of arr[idx]
		ld, ok := cmp.X.(*ssa.UnOp)
		if !ok || ld.Op != token.MUL {
			continue
		}
		fa, ok := ld.X.(*ssa.FieldAddr)
		if !ok {
			continue
		}
		var idxV *ssa.Index
		var elemAddr *ssa.IndexAddr
		switch row := fa.X.(type) {
		case *ssa.Alloc:
			stores, okc := cellStores(row)
			if !okc || len(stores) != 1 {
				continue
			}
			idxV, _ = stores[0].Val.(*ssa.Index)
			if idxV == nil {
				if l2, ok := stores[0].Val.(*ssa.UnOp); ok && l2.Op == token.MUL {
					elemAddr, _ = l2.X.(*ssa.IndexAddr)
				}
			}
		case *ssa.IndexAddr:
			elemAddr = row
		}
		var arr *ssa.Alloc
		var idx ssa.Value
		switch {
		case idxV != nil:
			if l3, ok := idxV.X.(*ssa.UnOp); ok && l3.Op == token.MUL {
				arr, _ = l3.X.(*ssa.Alloc)
			}
			idx = idxV.Index
		case elemAddr != nil:
			arr, _ = elemAddr.X.(*ssa.Alloc)
			idx = elemAddr.Index
		}
		if arr == nil || idx == nil || !isForwardRangeIndex(idx) {
			continue
		}
		at, ok := arr.Type().(*types.Pointer).Elem().Underlying().(*types.Array)
		if !ok {
			continue
		}
		// the loop bound is the array's length
		var hdr *ssa.BasicBlock
		if bin, ok := idx.(*ssa.BinOp); ok {
			hdr = bin.Block()
		} else if phi, ok := idx.(*ssa.Phi); ok {
			hdr = phi.Block()
		}
		if hdr == nil {
			continue
		}
		hif, ok := hdr.Instrs[len(hdr.Instrs)-1].(*ssa.If)
		if !ok {
			continue
		}
		hc, ok := hif.Cond.(*ssa.BinOp)
		if !ok || hc.Op != token.LSS || hc.X != idx {
			continue
		}
		if n, isK := intConst(hc.Y); !isK || n != at.Len() {
			continue
		}
		// empty edge: only non-nil error returns
		emptySucc := b.Succs[0]
		if cmp.Op == token.NEQ {
			emptySucc = b.Succs[1]
		}
		okErr := true
		seen := map[*ssa.BasicBlock]bool{}
		var rowErrNonNil func(v ssa.Value) bool
		var walk func(x *ssa.BasicBlock)
		walk = func(x *ssa.BasicBlock) {
			if seen[x] || !okErr {
				return
			}
			seen[x] = true
			if x == hdr {
				okErr = false
				return
			}
			if r, isRet := x.Instrs[len(x.Instrs)-1].(*ssa.Return); isRet {
				for _, lf := range w.Leaves(r.Results[errorResultIndex(g)], r) {
					if !w.NonNil(lf.Val, lf.Facts) && !rowErrNonNil(lf.Val) {
						okErr = false
					}
				}
				return
			}
			for _, sx := range x.Succs {
				walk(sx)
			}
		}
		// the error to report kept in the row next to the value (a second field of the table): non-nil when every row's
		// entry is a package-level error variable that the initialiser sets from errors.New / fmt.Errorf and nothing else writes
		rowErrNonNil = func(v ssa.Value) bool {
			ld, isLd := strip(v).(*ssa.UnOp)
			if !isLd || ld.Op != token.MUL {
				return false
			}
			fa2, isFA := ld.X.(*ssa.FieldAddr)
			if !isFA || fa2.X != fa.X || fa2.Field == fa.Field || arr == nil {
				return false
			}
			n := int64(0)
			for _, r := range *arr.Referrers() {
				ia, isIA := r.(*ssa.IndexAddr)
				if !isIA {
					continue
				}
				if _, isK := intConst(ia.Index); !isK {
					continue
				}
				for _, r2 := range *ia.Referrers() {
					fa3, isFA3 := r2.(*ssa.FieldAddr)
					if !isFA3 || fa3.Field != fa2.Field {
						continue
					}
					for _, r3 := range *fa3.Referrers() {
						st, isSt := r3.(*ssa.Store)
						if !isSt || st.Addr != ssa.Value(fa3) {
							continue
						}
						gl, isGl := strip(st.Val).(*ssa.UnOp)
						if !isGl || gl.Op != token.MUL {
							return false
						}
						gv, isG := gl.X.(*ssa.Global)
						if !isG || !w.globalFrozen(gv) || !w.globalInitNonNilError(gv) {
							return false
						}
						n++
					}
				}
			}
			return n == at.Len()
		}
		walk(emptySucc)
		if !okErr {
			continue
		}
		// success only with the loop exhausted
		okDone := true
		for _, r := range w.MayBeNilReturns(g) {
			// (a return of a row's own error, shown non-nil above, is no success)
			rowErr := true
			for _, lf := range w.Leaves(r.Results[errorResultIndex(g)], r) {
				if !w.NonNil(lf.Val, lf.Facts) && !rowErrNonNil(lf.Val) {
					rowErr = false
				}
			}
			if rowErr {
				continue
			}
			if v, known := gf.KnownBool(r.Block(), hc); !known || v {
				okDone = false
			}
		}
		if !okDone {
			continue
		}
		// the rows: stores arr[k].F = <receiver field>, k constant, every k present, nothing else written
		vals := map[int64]ssa.Value{}
		clean := true
		for _, r := range *arr.Referrers() {
			switch u := r.(type) {
			case *ssa.IndexAddr:
				k, isK := intConst(u.Index)
				if !isK {
					if u != elemAddr {
						clean = false
					}
					continue
				}
				for _, r2 := range *u.Referrers() {
					fa2, isFA := r2.(*ssa.FieldAddr)
					if !isFA {
						clean = false
						continue
					}
					for _, r3 := range *fa2.Referrers() {
						st, isSt := r3.(*ssa.Store)
						if !isSt || st.Addr != ssa.Value(fa2) || st.Block() != g.Blocks[0] {
							clean = false
							continue
						}
						if fa2.Field == fa.Field {
							if _, dup := vals[k]; dup {
								clean = false
							}
							vals[k] = st.Val
						}
					}
				}
			case *ssa.UnOp, *ssa.DebugRef:
			default:
				clean = false
			}
		}
		if !clean || int64(len(vals)) != at.Len() {
			continue
		}
		for _, v := range vals {
			ex := w.Expr(v)
			if strings.HasPrefix(ex, "p0.") && !strings.Contains(ex[3:], ".") && !strings.ContainsAny(ex, "(<") {
				out[ex[3:]] = true
			}
		}
	}
	return out
}

// globalInitNonNilError: the package initialiser stores into g the result of errors.New or fmt.Errorf (and g is frozen,
// which the caller checks): the variable holds a non-nil error.
func (w *World) globalInitNonNilError(g *ssa.Global) bool {
	found := false
	var inits []*ssa.Function
	if g.Pkg != nil {
		for name, mem := range g.Pkg.Members {
			if fn, ok := mem.(*ssa.Function); ok && (name == "init" || strings.HasPrefix(name, "init#")) {
				inits = append(inits, fn)
			}
		}
	}
	for _, fn := range inits {
		for _, b := range fn.Blocks {
			for _, ins := range b.Instrs {
				st, ok := ins.(*ssa.Store)
				if !ok || st.Addr != ssa.Value(g) {
					continue
				}
				cv, isCall := strip(st.Val).(*ssa.Call)
				if !isCall || (calleeName(cv) != "errors.New" && calleeName(cv) != "fmt.Errorf") {
					return false
				}
				found = true
			}
		}
	}
	return found
}
