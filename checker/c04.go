package main

import (
	"go/constant"
	"go/token"
	"go/types"
	"strings"

	"golang.org/x/tools/go/ssa"
)

func init() {
	register(&property{
		ID: "C04",
		Meta: propMeta{
			Level:       "Structural necessary conditions of 'every fault ends in a typed error, never a silent success', decided on all paths of the run function: (R1) a closure deferred before any interface call invokes recover() directly and, under r != nil, stores an *Error of kind Panic into the named result that the recover block returns; no goroutine is started in the run function or in handler methods; (R2) the error kind at each failing site equals the statement's table (no handler -> AllAuthFailed, zero CSRs -> HandlerGenCSRErr, signer error -> SignerSignErr, agent error -> AgentOpCertErr, Generate's error returned unchanged and every non-nil error of each handler's Generate is an *Error of an allowed kind); the kind constants are pairwise distinct and the five kinds have distinct texts; IsErrorOfType compares Type() of an *Error; (R3) every error result of Generate/Sign/AddCertsToAgent is branched on at once and its non-nil edge reaches only certainly-non-nil returns; the only possibly-nil return lies after both loops ran to completion; (R4) no path from a failed Sign reaches AddCertsToAgent; (R5) in the agent-key package every error of agent.List/Remove/Add is tested and returned. Runtime-fatal conditions recover() cannot catch are not decided.",
			Technique:   "static analysis: must-fact gating, nil-ness value-flow through deferred-closure cells, constant tables, error-discipline census on go/ssa",
			Explanation: "gensign.Run's named result is a cell shared with the deferred closure; the analysis models deferred stores at rundefers. Each return of Run is classified by the failure literal that holds on all paths to it and the kind constant of the returned constructor call is compared with the table.",
			Assumptions: []string{"recover() semantics of the Go runtime", "panics on other goroutines are out of scope (none are started: checked)"},
			Trusted:     []string{"go/packages", "go/types", "go/ssa"},
			RuleDoc: map[string]string{
				"R9.state":    "no memory of earlier calls: on the call tree only frozen package-level variables are touched (known exceptions listed with reasons), and no package-level object is handed out",
				"R1.recover":  "deferred closure with direct recover() storing a Panic-kind error; no go statements",
				"R2.kinds":    "error kind per failing site; kind constants and texts distinct; IsErrorOfType shape; Generate's error kinds",
				"R3.nosilent": "error results tested at once; non-nil edge reaches only non-nil returns; success only after both loops completed",
				"R4.nosign":   "no AddCertsToAgent after a failed Sign",
				"R5.agentkey": "agent.List/Remove/Add errors in agent/ssh are tested and returned",
			},
		},
		Run: runC04,
	})
}

func runC04(c *Ctx) {
	stateRule(c, "R9.state", []*ssa.Function{c.w.Func("gensign", "Run")}, knownState)
	w := c.w
	m := resolveGensign(w)
	for _, p := range m.problems {
		c.Unresolved("R2.kinds", p)
	}
	if m.Run == nil || m.AuthCall == nil || m.GenCall == nil || m.SignCall == nil || m.AddCall == nil {
		return
	}
	run := m.Run
	c.Saw(run)
	f := w.Facts(run)

	// ---- R1 ----
	// a thin gensign.Run around the function that owns the recover (gensign.go: resolveGensign): every call that can
	// run foreign code (an interface method of a handler, a signer, an agent key) on the wrapper's tree is made inside
	// that function's tree, and the wrapper returns its error
	if wr := m.Wrapper; wr != nil {
		c.Saw(wr)
		for _, h := range w.Tree(wr) {
			if h == run || w.inTree(run, h) {
				continue
			}
			for _, call := range callsIn(h) {
				if call.Common().IsInvoke() && w.InRepoType(call.Common().Value.Type()) {
					c.Bad("R1.recover", "Run|"+shortName(call.Common().Method.FullName())+" inside the recovering function", w.Pos(call.Pos()), "a method of a handler / signer / agent key is called in "+shortFn(h)+", outside "+shortFn(run)+" which owns the recover: a panic there crashes the process")
				}
			}
		}
		site := m.WrapSite
		idx := errorResultIndex(run)
		var want ssa.Value = site
		if run.Signature.Results().Len() > 1 {
			want = extractOf(site, idx)
		}
		wf := w.factsOf(wr)
		for _, r := range liveReturns(wr) {
			if !ReachableAvoiding(site, nil)(r) || len(r.Results) == 0 {
				continue
			}
			got := throughCell(strip(r.Results[len(r.Results)-1]))
			ok := idx >= 0 && want != nil && got == want
			if !ok && isNilConst(got) && want != nil {
				if isNil, known := wf.KnownNil(r.Block(), want); known && isNil {
					ok = true
				}
			}
			c.Check(ok, "R1.recover", "Run|hands on the error of "+shortFn(run), w.Pos(r.Pos()), "returns that function's error (nil when it is nil)", "gensign.Run does not return the error of the function that does the run")
		}
	}
	var deferIns *ssa.Defer
	for _, call := range callsIn(run) {
		if d, ok := call.(*ssa.Defer); ok {
			// the deferred function: a closure, or a named repository function deferred directly (recover() is
			// effective in either, as long as it is called by the deferred function itself)
			var fn *ssa.Function
			if mc, ok := d.Call.Value.(*ssa.MakeClosure); ok {
				fn = mc.Fn.(*ssa.Function)
			} else if g := w.helperOf(d); g != nil {
				fn = g
			}
			if fn != nil {
				// direct recover
				direct := false
				for _, cc := range callsIn(fn) {
					if b, ok := cc.Common().Value.(*ssa.Builtin); ok && b.Name() == "recover" {
						direct = true
					}
				}
				if direct {
					deferIns = d
				}
			}
		}
	}
	var recClo *ssa.Function
	if deferIns == nil {
		c.Bad("R1.recover", "Run|deferred closure calling recover() directly", w.FnPos(run), "gensign.Run does not defer a closure that itself calls recover() (recover in a helper called by the deferred function does not stop a panic)")
	} else {
		var clo *ssa.Function
		if mc, ok := deferIns.Call.Value.(*ssa.MakeClosure); ok {
			clo = mc.Fn.(*ssa.Function)
		} else {
			clo = w.helperOf(deferIns)
		}
		c.Saw(clo)
		recClo = clo
		// resultCell: the variable of Run that address addr (a captured variable of the closure, or a pointer parameter
		// of the deferred function bound to &variable) denotes
		resultCell := func(addr ssa.Value) ssa.Value {
			switch x := addr.(type) {
			case *ssa.FreeVar:
				return freeVarBinding(x)
			case *ssa.Parameter:
				if i := paramIndex(x); x.Parent() == clo && i >= 0 && i < len(deferIns.Call.Args) {
					return deferIns.Call.Args[i]
				}
			}
			return nil
		}
		// dominates every invoke
		okDom := true
		for _, call := range callsIn(run) {
			if call.Common().IsInvoke() && !InstrDominates(deferIns, call) {
				okDom = false
			}
		}
		c.Check(okDom, "R1.recover", "Run|recover installed before any handler/signer/agent call", w.Pos(deferIns.Pos()), "the defer dominates every interface call of Run", "an interface call can run before the recover is installed")
		// store of Panic-kind error into the captured result under r != nil
		var rec *ssa.Call
		for _, cc := range callsIn(clo) {
			if b, ok := cc.Common().Value.(*ssa.Builtin); ok && b.Name() == "recover" {
				rec, _ = cc.(*ssa.Call)
			}
		}
		cf := w.Facts(clo)
		nStore := 0
		for _, b := range clo.Blocks {
			for _, ins := range b.Instrs {
				st, ok := ins.(*ssa.Store)
				if !ok {
					continue
				}
				bind := resultCell(st.Addr)
				if bind == nil {
					continue
				}
				a, isAlloc := bind.(*ssa.Alloc)
				if !isAlloc || !strings.HasSuffix(a.Type().String(), "*error") {
					continue
				}
				nStore++
				k, okK := errKindOf(st.Val)
				c.Check(okK && k == m.Kinds["Panic"], "R1.recover", "Run$recover|stores a Panic-kind error", w.Pos(st.Pos()), "named result := *Error{Panic}", "the recovered panic is not converted into an error of kind Panic: "+w.Short(st.Val))
				isNil, known := cf.KnownNil(b, rec)
				c.Check(rec != nil && known && !isNil, "R1.recover", "Run$recover|store under r != nil", w.Pos(st.Pos()), "must-fact recover() != nil", "the result is overwritten even when nothing panicked")
				// the cell is what Run's recover block returns
				okRet := false
				if run.Recover != nil {
					for _, r := range returnsOf(run) {
						if r.Block() == run.Recover {
							if ld, ok := r.Results[errorResultIndex(run)].(*ssa.UnOp); ok && ld.X == ssa.Value(a) {
								okRet = true
							}
						}
					}
				}
				c.Check(okRet, "R1.recover", "Run|recover block returns the named result", w.FnPos(run), "after a recovered panic Run returns the cell written by the closure", "the value stored by the recover closure is not what Run returns after a panic")
			}
		}
		c.Floor("R1.recover", nStore, 1, "store into Run's named result by the recover closure")
		// ... and on EVERY path on which recover() returned non-nil
		if rec != nil {
			stores := map[ssa.Instruction]bool{}
			for _, b := range clo.Blocks {
				for _, ins := range b.Instrs {
					if st, ok := ins.(*ssa.Store); ok {
						if resultCell(st.Addr) != nil {
							if k, okK := errKindOf(st.Val); okK && k == m.Kinds["Panic"] {
								stores[ins] = true
							}
						}
					}
				}
			}
			okAll := true
			for _, b := range clo.Blocks {
				if isNil, known := cf.KnownNil(b, rec); !(known && !isNil) || len(b.Instrs) == 0 {
					continue
				}
				// entry blocks of the r != nil region: a predecessor does not know it yet
				entry := false
				for _, p := range b.Preds {
					if n2, k2 := cf.KnownNil(p, rec); !(k2 && !n2) {
						entry = true
					}
				}
				if !entry {
					continue
				}
				reach := ReachableAvoiding(b.Instrs[0], stores)
				for _, r := range returnsOf(clo) {
					if (b.Instrs[0] == ssa.Instruction(r) && !stores[r]) || reach(r) {
						okAll = false
					}
				}
			}
			c.Check(okAll, "R1.recover", "Run$recover|every recovered panic becomes a Panic error", w.FnPos(clo), "from r != nil every path to the closure's end stores the Panic error", "some recovered panics (e.g. of an unexpected value type) leave the result untouched: the run reports success although a handler or signer panicked")
		}
	}
	// the recovering closure itself runs no foreign code: a panic raised while a panic is being handled is not
	// recovered by the same closure and ends the process
	if clo := recClo; clo != nil {
		nForeign := 0
		for _, h := range w.Tree(clo) {
			if h != clo && hasRecoverDefer(w, h) {
				continue // a helper with a recover of its own
			}
			for _, call := range callsIn(h) {
				if call.Common().IsInvoke() && w.InRepoType(call.Common().Value.Type()) {
					nForeign++
					c.Bad("R1.recover", "Run$recover|"+shortName(call.Common().Method.FullName())+" while handling a panic", w.Pos(call.Pos()), "the recovering closure calls a method of a handler / signer / agent key ("+shortFn(h)+"): a panic raised there escapes Run and crashes the process")
				}
			}
		}
		if nForeign == 0 {
			c.Ok("R1.recover", "Run$recover|no handler/signer/agent-key method on the recovery path", w.FnPos(clo), "census over the closure's tree")
		}
	}
	// no go statements in Run and handler method trees
	roots := []*ssa.Function{run}
	for _, h := range m.Handlers {
		for _, n := range []string{"Authenticate", "Generate"} {
			if fn := w.methodOfNamed(h, n); fn != nil && fn.Blocks != nil {
				roots = append(roots, fn)
			}
		}
	}
	nGo := 0
	for _, fn := range w.ReachableRepo(roots, false) {
		for _, call := range callsIn(fn) {
			if _, ok := call.(*ssa.Go); ok {
				nGo++
				c.Bad("R1.recover", shortFn(fn)+"|go statement", w.Pos(call.Pos()), "a goroutine started on the run path: a panic there cannot be recovered by Run's deferred closure")
			}
		}
	}
	if nGo == 0 {
		c.Ok("R1.recover", "Run and handler methods|no go statement", "-", "census over "+itoa(len(w.ReachableRepo(roots, false)))+" functions")
	}

	// ---- R2: kinds per failing site ----
	// The failing site is recognised from the literals that hold when a value reaches Run's result - whether the
	// error is built in Run itself or in a helper whose error Run returns unchanged (the helper's return-site
	// literals travel with the value).
	type site struct {
		name string
		want string
		cond func(facts map[Lit]bool) bool
	}
	genRecv := m.GenCall.Call.Value
	addErr := ssa.Value(m.AddCall)
	nonNilIn := func(facts map[Lit]bool, v ssa.Value) bool { n, k := f.knownNilIn(facts, v); return k && !n }
	sites := []site{
		{"no handler authenticated", "AllAuthFailed", func(facts map[Lit]bool) bool {
			if n, k := f.knownNilIn(facts, genRecv); k && n {
				return true
			}
			// the selection as a library search over the handlers: "not found"
			for _, sc := range searchCallsIn(run) {
				if sc.pred != m.AuthCall.Parent() {
					continue
				}
				for l := range facts {
					if v, ok := sc.found(l); ok && !v {
						return true
					}
				}
			}
			return false
		}},
		{"signer failed", "SignerSignErr", func(facts map[Lit]bool) bool { return nonNilIn(facts, m.SignErr) }},
		{"agent refused the certificates", "AgentOpCertErr", func(facts map[Lit]bool) bool { return nonNilIn(facts, addErr) }},
		{"no CSR generated", "HandlerGenCSRErr", func(facts map[Lit]bool) bool {
			for l := range facts {
				bin, ok := l.V.(*ssa.BinOp)
				if !ok || !l.Pol || bin.Op != token.EQL {
					continue
				}
				la := lenArg(bin.X)
				k, isK := intConst(bin.Y)
				if la != nil && w.SameValue(run, la, m.GenKeys) && isK && k == 0 {
					return true
				}
			}
			return false
		}},
	}
	for _, s := range sites {
		n := 0
		for _, r := range liveReturns(run) {
			if r.Block() == run.Recover {
				continue
			}
			at := f.At(r.Block())
			for _, lf := range w.LeavesErr(r.Results[errorResultIndex(run)], r) {
				all := copyFacts(lf.Facts)
				for l := range at {
					all[l] = true
				}
				if !s.cond(all) {
					continue
				}
				k, isK := errKindOf(lf.Val)
				if isK && k == m.Kinds["Panic"] {
					continue
				}
				if isNilConst(strip(lf.Val)) && !s.cond(lf.Facts) {
					continue
				}
				n++
				c.Check(isK && k == m.Kinds[s.want], "R2.kinds", "Run|"+s.name+" => "+s.want, w.Pos(lf.Val.Pos()), "returns *Error{"+s.want+"}", "wrong error kind at this failing site: "+w.Short(lf.Val))
			}
		}
		c.Floor("R2.kinds", n, 1, "return for '"+s.name+"'")
	}
	// Generate's error returned unchanged
	nGen := 0
	for _, r := range liveReturns(run) {
		if r.Block() == run.Recover {
			continue
		}
		if n, k := f.KnownNil(r.Block(), m.GenErr); !(k && !n) {
			continue
		}
		nGen++
		ok := true
		for _, lf := range w.Leaves(r.Results[errorResultIndex(run)], r) {
			if k, isK := errKindOf(lf.Val); isK && k == m.Kinds["Panic"] {
				continue
			}
			if lf.Val != m.GenErr {
				ok = false
			}
		}
		c.Check(ok, "R2.kinds", "Run|Generate's error returned unchanged", w.Pos(r.Pos()), "returns the handler's own typed error", "Generate's error is replaced or dropped")
	}
	c.Floor("R2.kinds", nGen, 1, "return of Generate's error")
	// each handler's Generate: non-nil errors are *Error of allowed kinds
	allowed := map[int64]bool{m.Kinds["InvalidParams"]: true, m.Kinds["HandlerGenCSRErr"]: true, m.Kinds["HandlerConfErr"]: true}
	for _, h := range m.Handlers {
		gen := w.methodOfNamed(h, "Generate")
		if gen == nil || gen.Blocks == nil {
			continue
		}
		c.Saw(gen)
		idx := errorResultIndex(gen)
		n := 0
		for _, r := range liveReturns(gen) {
			for _, lf := range w.LeavesErr(r.Results[idx], r) {
				if isNilConst(lf.Val) {
					continue
				}
				n++
				k, isK := errKindOf(lf.Val)
				c.Check(isK && allowed[k], "R2.kinds", shortFn(gen)+"|error kind "+w.Short(lf.Val), w.Pos(r.Pos()), "typed *Error of kind "+m.kindName(k), "Generate returns an error that is not a gensign *Error of kind InvalidParams/HandlerGenCSRErr/HandlerConfErr: "+w.Short(lf.Val))
			}
		}
		c.Floor("R2.kinds", n, 3, "error returns of "+shortFn(gen))
	}
	// constants distinct
	seen := map[int64]string{}
	for n, v := range m.Kinds {
		if o, dup := seen[v]; dup {
			c.Bad("R2.kinds", "ErrorType|"+n+" distinct", "-", n+" has the same value as "+o)
		} else {
			seen[v] = n
		}
	}
	c.Ok("R2.kinds", "ErrorType|constants pairwise distinct", "-", itoa(len(m.Kinds))+" constants")
	// String() texts of the five kinds Run reports
	if p := w.ByPath[RepoMod+"/"+gensignPkg]; p != nil {
		// the text of each kind: ErrorType.String() run on every kind constant and on a value that is none of them
		// (a switch, or a lookup in a package-level table with a fallback: finitemap.go)
		texts := map[string]string{}
		def := ""
		if sf := w.Method(gensignPkg, "ErrorType", "String"); sf != nil && sf.Blocks != nil {
			c.Saw(sf)
			strOf := func(vals []ssa.Value, ok bool) (string, bool) {
				if !ok || len(vals) != 1 {
					return "", false
				}
				if vals[0] == nil {
					return "", true
				}
				return strConst(vals[0])
			}
			for name, kv := range m.Kinds {
				if t, ok := strOf(evalParamFuncW(w, sf, constant.MakeInt64(kv), false)); ok {
					texts[name] = t
				}
			}
			def, _ = strOf(evalParamFuncW(w, sf, nil, true))
		}
		five := []string{"AllAuthFailed", "HandlerGenCSRErr", "SignerSignErr", "AgentOpCertErr", "Panic"}
		used := map[string]string{}
		for _, k := range five {
			t, ok := texts[k]
			good := ok && t != "" && t != def
			if o, dup := used[t]; dup {
				good = false
				_ = o
			}
			used[t] = k
			c.Check(good, "R2.kinds", "ErrorType.String|"+k, "-", "distinct text "+t, "kind "+k+" has no distinct, non-default text in ErrorType.String()")
		}
	}
	// IsErrorOfType shape
	if fn := w.Func(gensignPkg, "IsErrorOfType"); fn != nil {
		c.Saw(fn)
		ok := false
		for _, r := range liveReturns(fn) {
			for _, lf := range w.Leaves(r.Results[0], r) {
				if bin, isBin := lf.Val.(*ssa.BinOp); isBin && bin.Op == token.EQL {
					ex := w.Expr(bin.X) + "|" + w.Expr(bin.Y)
					if strings.Contains(ex, "gensign.Error).Type") && strings.Contains(ex, "p1") {
						ok = true
					}
				}
			}
		}
		c.Check(ok, "R2.kinds", "IsErrorOfType|compares Type() with the asked kind", w.FnPos(fn), "e.Type() == typ", "IsErrorOfType does not compare the error's Type() with the requested kind")
	} else {
		c.Unresolved("R2.kinds", "gensign.IsErrorOfType")
	}

	// ---- R3 ----
	for name, call := range map[string]*ssa.Call{"Generate": m.GenCall, "Sign": m.SignCall, "AddCertsToAgent": m.AddCall} {
		u, has := ErrUseOf(call)
		c.Check(has && u.Tested, "R3.nosilent", "Run|"+name+" error tested", w.Pos(call.Pos()), "the error is branched on", "the error returned by "+name+" is never tested")
		ev := u.Err
		if ev == nil {
			continue
		}
		for _, r := range liveReturns(run) {
			if r.Block() == run.Recover {
				continue
			}
			if n, k := f.KnownNil(r.Block(), ev); k && !n {
				ok := true
				for _, lf := range w.Leaves(r.Results[errorResultIndex(run)], r) {
					if !w.NonNil(lf.Val, lf.Facts) {
						ok = false
					}
				}
				c.Check(ok, "R3.nosilent", "Run|failed "+name+" => non-nil error", w.Pos(r.Pos()), "certainly non-nil", "Run can return nil although "+name+" failed")
			}
		}
		// the non-nil edge ends the run: from every block where the error is known non-nil only returns follow
		okEnd := true
		for _, b := range run.Blocks {
			if n, k := f.KnownNil(b, ev); k && !n {
				if !leadsOnlyToReturns(b, func(x *ssa.BasicBlock) bool { n2, k2 := f.KnownNil(x, ev); return k2 && !n2 }) {
					okEnd = false
				}
			}
		}
		c.Check(okEnd, "R3.nosilent", "Run|failed "+name+" ends the run", w.Pos(call.Pos()), "the err != nil edge reaches only returns", "after "+name+" failed the run can go on (and may report success)")
		// tested at once: the first branch after the call that is dominated by it tests this error
		if has && u.Tested {
			okOnce := true
			for _, b := range run.Blocks {
				if _, known := f.KnownNil(b, ev); known {
					continue
				}
				// blocks dominated by the call's block where the error is not yet known must not contain other effects
				if b != call.Block() && call.Block().Dominates(b) && ReachableAvoiding(call, nil)(b.Instrs[0]) {
					for _, ins := range b.Instrs {
						if cc, isCall := ins.(*ssa.Call); isCall && cc.Call.IsInvoke() && (cc == m.SignCall || cc == m.AddCall || cc == m.GenCall) && cc != call {
							// another effectful invoke reachable while this error is unknown
							if !(name == "Sign" && cc == m.SignCall) && !loopBack(call, cc) {
								okOnce = false
							}
						}
					}
				}
			}
			c.Check(okOnce, "R3.nosilent", "Run|"+name+" error tested before the next step", w.Pos(call.Pos()), "no later sign/add step is reachable while the error is unknown", "a later step runs before the error of "+name+" is examined")
		}
	}
	// the only may-nil return lies after both loops completed
	nOK := 0
	for _, r := range w.MayBeNilReturns(run) {
		if r.Block() == run.Recover {
			continue
		}
		nOK++
		// fact: outer range over Generate's keys exhausted
		outerDone := f.Any(r.Block(), func(l Lit) bool {
			bin, ok := l.V.(*ssa.BinOp)
			if !ok || bin.Op != token.LSS || l.Pol {
				return false
			}
			la := lenArg(bin.Y)
			return la != nil && (la == m.GenKeys || w.SameValue(run, la, m.GenKeys)) && isForwardRangeIndex(bin.X)
		})
		c.Check(outerDone, "R3.nosilent", "Run|success only after every agent key was processed", w.Pos(r.Pos()), "must-fact: the range over Generate's agent keys is exhausted", "Run can report success before all agent keys were signed and added")
	}
	c.Floor("R3.nosilent", nOK, 1, "success return of Run")
	// AddCertsToAgent only after the inner range over CSRs() is exhausted
	innerDone := f.Any(m.AddCall.Block(), func(l Lit) bool {
		bin, ok := l.V.(*ssa.BinOp)
		if !ok || bin.Op != token.LSS || l.Pol {
			return false
		}
		la := lenArg(bin.Y)
		return la != nil && m.CSRsCall != nil && (la == ssa.Value(m.CSRsCall) || w.SameValue(run, la, m.CSRsCall)) && isForwardRangeIndex(bin.X)
	})
	c.Check(innerDone, "R3.nosilent", "Run|certificates added only after every CSR of the key was signed", w.Pos(m.AddCall.Pos()), "must-fact: the range over CSRs() is exhausted", "AddCertsToAgent can run before all CSRs of the key were signed")
	// receivers: CSRs() and AddCertsToAgent on the same agent key; Sign gets the ranged CSR
	c.Check(m.CSRsCall != nil && w.SameValue(run, m.AddCall.Call.Value, m.CSRsCall.Call.Value), "R3.nosilent", "Run|certificates added to the key whose CSRs were signed", w.Pos(m.AddCall.Pos()), "same agent key value", "certificates are added to a different agent key than the one whose CSRs were signed")

	// ---- R4 ----
	okR4 := true
	for _, b := range run.Blocks {
		if n, k := f.KnownNil(b, m.SignErr); k && !n && len(b.Instrs) > 0 {
			if ReachableAvoiding(b.Instrs[0], nil)(m.AddCall) || b == m.AddCall.Block() {
				okR4 = false
				c.Bad("R4.nosign", "Run|AddCertsToAgent after a failed Sign", w.Pos(b.Instrs[0].Pos()), "from the Sign-error edge control reaches AddCertsToAgent: a certificate set missing a CA signature is handed to the agent")
			}
		}
	}
	if okR4 {
		c.Ok("R4.nosign", "Run|no AddCertsToAgent after a failed Sign", w.Pos(m.SignCall.Pos()), "the err != nil edge of Sign cannot reach AddCertsToAgent")
	}

	// ---- R5 ----
	nAg := 0
	for _, fn := range w.RepoFuncs() {
		if fn.Pkg == nil || fn.Pkg.Pkg.Path() != RepoMod+"/agent/ssh" {
			continue
		}
		ff := w.Facts(fn)
		for _, call := range callsIn(fn) {
			cm := call.Common()
			if !cm.IsInvoke() || !strings.Contains(cm.Method.FullName(), "ssh/agent.") {
				continue
			}
			switch cm.Method.Name() {
			case "List", "Remove", "Add", "RemoveAll":
			default:
				continue
			}
			nAg++
			c.Saw(fn)
			u, has := ErrUseOf(call)
			key := shortFn(fn) + "|agent." + cm.Method.Name()
			if !has || u.Dropped {
				c.Bad("R5.agentkey", key+" error examined", w.Pos(call.Pos()), "the agent's error is dropped")
				continue
			}
			ok := true
			if !u.Tested && blockInCycle(call.Block()) {
				// handed to the return behind the loop without a test inside it: the next iteration's result replaces it
				c.Bad("R5.agentkey", key+" error returned", w.Pos(call.Pos()), "the agent's error is not tested where it arises, inside a loop: a failure in one iteration is overwritten by the next one and only the last outcome is reported")
				continue
			}
			if u.Tested {
				for _, r := range liveReturns(fn) {
					if n, k := ff.KnownNil(r.Block(), u.Err); k && !n {
						idx := errorResultIndex(fn)
						if idx < 0 {
							ok = false
							continue
						}
						for _, lf := range w.Leaves(r.Results[idx], r) {
							if !w.NonNil(lf.Val, lf.Facts) {
								ok = false
							}
						}
					}
				}
				// the non-nil edge must return (not continue); an edge that joins other paths at once (a break to the
				// code behind the loop) has no block of its own and is not a return of this error
				seenEdge := false
				for _, b := range fn.Blocks {
					if n, k := ff.KnownNil(b, u.Err); k && !n && len(b.Instrs) > 0 {
						seenEdge = true
					}
				}
				if !seenEdge {
					ok = false
				}
				for _, b := range fn.Blocks {
					if n, k := ff.KnownNil(b, u.Err); k && !n && len(b.Instrs) > 0 {
						if _, isRet := b.Instrs[len(b.Instrs)-1].(*ssa.Return); !isRet {
							// allowed only if all successors still know the error and end in return
							if !leadsOnlyToReturns(b, func(x *ssa.BasicBlock) bool { n2, k2 := ff.KnownNil(x, u.Err); return k2 && !n2 }) {
								ok = false
							}
						}
					}
				}
			}
			c.Check(ok, "R5.agentkey", key+" error returned", w.Pos(call.Pos()), "non-nil edge returns a non-nil error", "an error from the agent does not end the operation with an error")
		}
	}
	// every signing request of the loop goes to the CA: no iteration of the request loop comes round again without the
	// Sign call (a memo hit that stands in for the CA's answer means a certificate the CA never signed reaches the agent)
	{
		site := ssa.Instruction(m.SignCall)
		if !blockInCycle(site.Block()) && m.SignCall.Parent() != run {
			if sites := w.sitesIn(run, m.SignCall.Parent()); len(sites) == 1 {
				site = sites[0].(ssa.Instruction)
			}
		}
		sb := site.Block()
		var header *ssa.BasicBlock
		for d := sb.Idom(); d != nil; d = d.Idom() {
			reaches := false
			seen := map[*ssa.BasicBlock]bool{}
			work := append([]*ssa.BasicBlock{}, sb.Succs...)
			for len(work) > 0 {
				x := work[len(work)-1]
				work = work[:len(work)-1]
				if x == d {
					reaches = true
					break
				}
				if seen[x] || !d.Dominates(x) {
					continue
				}
				seen[x] = true
				work = append(work, x.Succs...)
			}
			if reaches {
				header = d
				break
			}
		}
		if header == nil {
			c.Und("R3.nosilent", "Run|every request of the loop is signed", w.Pos(site.Pos()), "the Sign call is not inside a loop over the signing requests")
		} else {
			// a way round the loop that avoids the Sign call's block
			var skipAt *ssa.BasicBlock
			seen := map[*ssa.BasicBlock]bool{}
			var walk func(b *ssa.BasicBlock)
			walk = func(b *ssa.BasicBlock) {
				if seen[b] || b == sb || !header.Dominates(b) || skipAt != nil {
					return
				}
				seen[b] = true
				for _, x := range b.Succs {
					if x == header {
						skipAt = b
						return
					}
					walk(x)
				}
			}
			for _, x := range header.Succs {
				if x != header {
					walk(x)
				}
			}
			pos := w.Pos(site.Pos())
			if skipAt != nil && len(skipAt.Instrs) > 0 {
				for _, ins := range skipAt.Instrs {
					if ins.Pos().IsValid() {
						pos = w.Pos(ins.Pos())
					}
				}
			}
			c.Check(skipAt == nil, "R3.nosilent", "Run|every request of the loop is signed", pos, "no way round the request loop avoids signer.Sign", "an iteration of the request loop can come round without calling signer.Sign: a request the CA never saw is treated as signed")
		}
	}
	c.Floor("R5.agentkey", nAg, 4, "agent List/Remove/Add call sites in agent/ssh")
	checkEveryCertAdded(c)
	// every returned certificate stays handed over: within one operation of the agent-key package nothing that removes
	// identities can run after an identity was added (a removal step inside the add loop deletes what the previous
	// iterations added, and the run still reports success)
	removes := func(call ssa.CallInstruction) bool {
		cm := call.Common()
		if cm.IsInvoke() {
			return strings.Contains(cm.Method.FullName(), "ssh/agent.") && (cm.Method.Name() == "Remove" || cm.Method.Name() == "RemoveAll")
		}
		if h := w.helperOf(call); h != nil {
			for _, g := range w.ReachableRepo([]*ssa.Function{h}, false) {
				for _, cv := range callsIn(g) {
					if gm := cv.Common(); gm.IsInvoke() && strings.Contains(gm.Method.FullName(), "ssh/agent.") && (gm.Method.Name() == "Remove" || gm.Method.Name() == "RemoveAll") {
						return true
					}
				}
			}
		}
		return false
	}
	for _, fn := range w.RepoFuncs() {
		if fn.Pkg == nil || fn.Pkg.Pkg.Path() != RepoMod+"/agent/ssh" {
			continue
		}
		for _, a := range callsIn(fn) {
			am := a.Common()
			if !am.IsInvoke() || !strings.Contains(am.Method.FullName(), "ssh/agent.") || am.Method.Name() != "Add" {
				continue
			}
			reach := ReachableAvoiding(a, nil)
			for _, r := range callsIn(fn) {
				if r != a && removes(r) {
					c.Check(!reach(r), "R5.agentkey", shortFn(fn)+"|no removal after an add", w.Pos(r.Pos()), "the removal step cannot run after an identity was added in the same operation", "a step that removes identities ("+shortName(calleeName(r))+") is reachable after agent.Add in the same operation: certificates added earlier in the loop are deleted again")
				}
			}
		}
	}
}

// checkEveryCertAdded: in the certificate step (the agent-key method that ranges over the returned certificates and
// calls agent.Add), an iteration goes on to the next certificate only after the Add call, or along an edge on which
// the cast of the element to a certificate failed; and the step reports success only when the range is exhausted.
func checkEveryCertAdded(c *Ctx) {
	w := c.w
	const rule = "R5.agentkey"
	n := 0
	for _, fn := range w.RepoFuncs() {
		if fn.Pkg == nil || fn.Pkg.Pkg.Path() != RepoMod+"/agent/ssh" || fn.Parent() != nil {
			continue
		}
		// the ranged parameter: a slice of ssh.PublicKey
		var certs *ssa.Parameter
		for _, p := range fn.Params {
			if sl, ok := p.Type().Underlying().(*types.Slice); ok && strings.HasSuffix(sl.Elem().String(), "crypto/ssh.PublicKey") {
				certs = p
			}
		}
		if certs == nil {
			continue
		}
		var adds []ssa.Instruction
		for _, a := range w.callsInDeep(fn) {
			am := a.Common()
			if !am.IsInvoke() || !strings.Contains(am.Method.FullName(), "ssh/agent.") || am.Method.Name() != "Add" {
				continue
			}
			// the instruction of fn that performs it
			var at ssa.Instruction = a
			okLift := true
			for hop := 0; hop < 3 && at.Parent() != fn; hop++ {
				sites := w.sitesIn(fn, at.Parent())
				if len(sites) != 1 {
					okLift = false
					break
				}
				at = sites[0]
			}
			if okLift && at.Parent() == fn {
				adds = append(adds, at)
			}
		}
		if len(adds) == 0 {
			continue
		}
		// the range loop over the parameter: header = block of the index, body = its first successor
		var header *ssa.BasicBlock
		for _, b := range fn.Blocks {
			for _, ins := range b.Instrs {
				if ia, ok := ins.(*ssa.IndexAddr); ok && ia.X == ssa.Value(certs) && isForwardRangeIndex(ia.Index) {
					if iv, ok := ia.Index.(ssa.Instruction); ok {
						header = iv.Block()
					}
				}
			}
		}
		if header == nil || len(header.Succs) != 2 {
			c.Und(rule, shortFn(fn)+"|every certificate is handed to the agent", w.FnPos(fn), "the range over the returned certificates was not recognised")
			continue
		}
		n++
		c.Saw(fn)
		body, exit := header.Succs[0], header.Succs[1]
		isAddBlock := map[*ssa.BasicBlock]bool{}
		for _, a := range adds {
			isAddBlock[a.Block()] = true
		}
		castFailed := func(p, s *ssa.BasicBlock) bool {
			for l := range w.factsOnEdge(p, s) {
				y, isNil, ok := nilTest(l)
				if !ok {
					continue
				}
				y = throughCell(strip(y))
				if ex, isEx := y.(*ssa.Extract); isEx && !isNil && ex.Index == 1 {
					if cv, isCall := ex.Tuple.(*ssa.Call); isCall && strings.HasSuffix(calleeName(cv), "CastSSHPublicKeyToCertificate") {
						return true
					}
				}
				if isNil && strings.HasSuffix(y.Type().String(), "crypto/ssh.Certificate") {
					return true
				}
			}
			return false
		}
		// skipping: the header is reachable from the body without Add and without a failed cast
		seen := map[*ssa.BasicBlock]bool{}
		var skip func(b *ssa.BasicBlock) *ssa.BasicBlock
		skip = func(b *ssa.BasicBlock) *ssa.BasicBlock {
			if seen[b] || isAddBlock[b] {
				return nil
			}
			seen[b] = true
			for _, s := range b.Succs {
				if castFailed(b, s) {
					continue
				}
				if s == header {
					return b
				}
				if r := skip(s); r != nil {
					return r
				}
			}
			return nil
		}
		from := skip(body)
		pos := w.FnPos(fn)
		if from != nil && len(from.Instrs) > 0 {
			pos = w.Pos(from.Instrs[len(from.Instrs)-1].Pos())
			for _, ins := range from.Instrs {
				if ins.Pos().IsValid() {
					pos = w.Pos(ins.Pos())
				}
			}
		}
		c.Check(from == nil, rule, shortFn(fn)+"|every certificate is handed to the agent", pos, "an iteration continues only after agent.Add or when the element is not a certificate",
			"an iteration of the certificate loop can go on to the next element without calling agent.Add although the element is a certificate: returned certificates are silently dropped and the run reports success")
		// success only once the range is exhausted
		okEnd := true
		for _, r := range w.MayBeNilReturns(fn) {
			if !exit.Dominates(r.Block()) {
				okEnd = false
				c.Bad(rule, shortFn(fn)+"|success only after the last certificate", w.Pos(r.Pos()), "a possibly-nil return that the end of the range over the certificates does not dominate: the step can report success before every certificate was handed over")
			}
		}
		if okEnd {
			c.Ok(rule, shortFn(fn)+"|success only after the last certificate", w.FnPos(fn), "every possibly-nil return is dominated by the exit of the range")
		}
	}
	c.Floor(rule, n, 1, "certificate loops calling agent.Add")
}

// loopBack: is `later` the same loop's next iteration of an earlier call (reachable only around a back edge)?
func loopBack(call, later *ssa.Call) bool { return call == later }

// leadsOnlyToReturns: from block b, following successors while pred holds, every path ends in a Return.
func leadsOnlyToReturns(b *ssa.BasicBlock, pred func(*ssa.BasicBlock) bool) bool {
	state := map[*ssa.BasicBlock]int{} // 1: being explored (meeting it again is a cycle), 2: shown to lead only to returns
	var rec func(x *ssa.BasicBlock) bool
	rec = func(x *ssa.BasicBlock) bool {
		switch state[x] {
		case 1:
			return false // a cycle: continues the loop
		case 2:
			return true // reached again along another branch (a join inside the region)
		}
		state[x] = 1
		if !pred(x) {
			return false
		}
		if len(x.Instrs) > 0 {
			if _, ok := x.Instrs[len(x.Instrs)-1].(*ssa.Return); ok {
				state[x] = 2
				return true
			}
		}
		for _, s := range x.Succs {
			if !rec(s) {
				return false
			}
		}
		state[x] = 2
		return true
	}
	return rec(b)
}

// blockInCycle: control can come back to b after leaving it.
func blockInCycle(b *ssa.BasicBlock) bool {
	seen := map[*ssa.BasicBlock]bool{}
	work := append([]*ssa.BasicBlock{}, b.Succs...)
	for len(work) > 0 {
		x := work[len(work)-1]
		work = work[:len(work)-1]
		if x == b {
			return true
		}
		if seen[x] {
			continue
		}
		seen[x] = true
		work = append(work, x.Succs...)
	}
	return false
}
