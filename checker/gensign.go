package main

import (
	"go/constant"
	"go/token"
	"go/types"
	"strings"

	"golang.org/x/tools/go/ssa"
)

const gensignPkg = "gensign"

// gensignModel resolves the anchors of gensign.Run by role.
type gensignModel struct {
	w        *World
	Run      *ssa.Function // the function doing the run (gensign.Run, or the function a thin Run hands everything to)
	Wrapper  *ssa.Function // gensign.Run when it is only a wrapper around Run
	WrapSite *ssa.Call
	AuthCall *ssa.Call // invoke Handler.Authenticate
	GenCall  *ssa.Call // invoke Generator.Generate
	SignCall *ssa.Call // invoke Signer.Sign
	AddCall  *ssa.Call // invoke AgentKey.AddCertsToAgent
	CSRsCall *ssa.Call
	GenErr   ssa.Value
	GenKeys  ssa.Value
	SignErr  ssa.Value
	Kinds    map[string]int64 // ErrorType constant name -> value
	Handlers []*types.Named   // repository types implementing gensign.Handler
	problems []string
}

func invokeOf(fn *ssa.Function, method string) []*ssa.Call {
	var out []*ssa.Call
	for _, c := range callsIn(fn) {
		if cv, ok := c.(*ssa.Call); ok && cv.Call.IsInvoke() && cv.Call.Method.Name() == method {
			out = append(out, cv)
		}
	}
	return out
}

func extractOf(call *ssa.Call, idx int) ssa.Value {
	if refs := call.Referrers(); refs != nil {
		for _, r := range *refs {
			if ex, ok := r.(*ssa.Extract); ok && ex.Index == idx {
				return ex
			}
		}
	}
	return nil
}

func resolveGensign(w *World) *gensignModel {
	m := &gensignModel{w: w, Kinds: map[string]int64{}}
	m.Run = w.Func(gensignPkg, "Run")
	if m.Run == nil {
		m.problems = append(m.problems, "gensign.Run")
		return m
	}
	// a thin Run around the function that does the run and owns the recover (timing / logging wrapper): the rules
	// read that function; C04.R1 checks that nothing that can panic is left outside it and that Run hands its error on
	if !hasRecoverDefer(w, m.Run) {
		for _, g := range w.Tree(m.Run) {
			if g == m.Run || g.Parent() != nil || !hasRecoverDefer(w, g) {
				continue
			}
			sites := w.sitesIn(m.Run, g)
			if len(sites) != 1 {
				continue
			}
			if site, ok := sites[0].(*ssa.Call); ok && site.Parent() == m.Run {
				m.Wrapper, m.WrapSite, m.Run = m.Run, site, g
				break
			}
		}
	}
	one := func(method, role string) *ssa.Call {
		cs := w.invokeOfDeep(m.Run, method)
		if len(cs) != 1 {
			m.problems = append(m.problems, role+" (found "+itoa(len(cs))+" invoke sites in Run)")
			return nil
		}
		return cs[0]
	}
	m.AuthCall = one("Authenticate", "Handler.Authenticate invoke")
	m.GenCall = one("Generate", "Generator.Generate invoke")
	m.SignCall = one("Sign", "Signer.Sign invoke")
	m.AddCall = one("AddCertsToAgent", "AgentKey.AddCertsToAgent invoke")
	m.CSRsCall = one("CSRs", "AgentKey.CSRs invoke")
	if m.GenCall != nil {
		m.GenKeys = extractOf(m.GenCall, 0)
		m.GenErr = extractOf(m.GenCall, 1)
	}
	if m.SignCall != nil {
		m.SignErr = extractOf(m.SignCall, 2)
	}
	if p := w.ByPath[RepoMod+"/"+gensignPkg]; p != nil {
		for n, v := range constDecls(p, "ErrorType") {
			if i, ok := constant.Int64Val(v); ok {
				m.Kinds[n] = i
			}
		}
		if o := p.Types.Scope().Lookup("Handler"); o != nil {
			if iface, ok := o.Type().Underlying().(*types.Interface); ok {
				m.Handlers = w.Implementers(iface)
			}
		}
	}
	if len(m.Kinds) < 9 {
		m.problems = append(m.problems, "gensign.ErrorType constants")
	}
	if len(m.Handlers) == 0 {
		m.problems = append(m.problems, "a repository type implementing gensign.Handler")
	}
	return m
}

// errKindOf: the ErrorType constant with which a gensign.*Error value was constructed.
func errKindOf(v ssa.Value) (int64, bool) {
	v = strip(v)
	call, ok := v.(*ssa.Call)
	if !ok {
		return 0, false
	}
	switch calleeName(call) {
	case RepoMod + "/gensign.NewErr", RepoMod + "/gensign.NewError", RepoMod + "/gensign.NewErrWithMsg", RepoMod + "/gensign.NewErrorWithMsg":
		return intConst(call.Call.Args[0])
	}
	return 0, false
}

func (m *gensignModel) kindName(k int64) string {
	for n, v := range m.Kinds {
		if v == k {
			return n
		}
	}
	return "kind#" + itoa(int(k))
}

// methodOf returns the declared method `name` of named type n.
func (w *World) methodOfNamed(n *types.Named, name string) *ssa.Function {
	for i := 0; i < n.NumMethods(); i++ {
		if n.Method(i).Name() == name {
			return w.Prog.FuncValue(n.Method(i))
		}
	}
	return nil
}

// reachesVerify: fn (transitively, static repo calls) invokes ssh.PublicKey.Verify.
func (w *World) verifyFunctions(root *ssa.Function) []*ssa.Function {
	var out []*ssa.Function
	for _, f := range w.ReachableRepo([]*ssa.Function{root}, false) {
		for _, c := range invokeOf(f, "Verify") {
			if strings.HasSuffix(c.Call.Method.FullName(), "ssh.PublicKey).Verify") {
				out = append(out, f)
				break
			}
		}
	}
	return out
}

func init() {
	register(&property{
		ID: "C01",
		Meta: propMeta{
			Level:       "Structural necessary conditions of 'no signing request and no agent change without proof of possession', decided on all paths: (R1) in the run function the handler whose Generate is invoked is, on every path, an element of the handler slice reached under the must-fact that ITS Authenticate returned nil, taken in forward slice order with the success edge leaving the loop; sign/add invokes are dominated by a successful Generate; the no-handler branch returns an AllAuthFailed error and reaches nothing else; (R2) every handler's Authenticate can return nil only under the must-facts parameter-validation ok, namespace policy == no-namespace, hardware-key flag false and challenge function returned nil; (R3) each challenge function (every function on that tree invoking PublicKey.Verify, and the sibling ChallengeSSHAgent) signs and verifies the same >=32-byte buffer that was allocated in this activation and filled by crypto/rand.Read with its error checked and no other write, under one key value; the key is parsed from bytes read from a path whose origins are only the configured directory, the server-side login name and constants, every candidate path depending on the login name; the function's only possibly-nil return is Verify's own result; (R4) nothing reachable from Authenticate can add/remove/lock agent identities and Signer.Sign is invoked from the run function only. Soundness of Verify/crypto/rand and file-system states are not decided.",
			Technique:   "static analysis: must-fact gating + value-origin (backward slice) tables + who-may-call over VTA call graph on go/ssa",
			Explanation: "Anchors are resolved by role: the invoke sites of Handler.Authenticate / Generator.Generate / Signer.Sign / AgentKey.AddCertsToAgent in gensign.Run; every repository type implementing gensign.Handler; the functions on Authenticate's static call tree that invoke ssh.PublicKey.Verify. Gating uses literals that hold on every path; provenance uses the origin set of the backward slice with repository callees inlined.",
			Assumptions: []string{"ssh.PublicKey.Verify, ssh.ParseAuthorizedKey and crypto/rand are sound", "the file system returns the registered key for the computed path", "VTA over-approximates dynamic calls"},
			Trusted:     []string{"go/packages", "go/types", "go/ssa", "callgraph/vta", "golang.org/x/crypto/ssh"},
			RuleDoc: map[string]string{
				"R1.select":    "handler selection: Generate's receiver is an authenticated element, first in order; sign/add after successful Generate; AllAuthFailed branch",
				"R2.authgate":  "Authenticate's nil return is gated on validation, namespace, hard-key and challenge facts",
				"R3.challenge": "challenge construction: fresh random buffer, same data and key signed and verified, key file path provenance",
				"R4.noeffects": "no agent mutation reachable from Authenticate; Signer.Sign call sites",
				"R5.request":   "the hardware-key attribute the gate tests is decoded from the legacy request text (C15's key/field table, restricted to that field)",
			},
		},
		Run: runC01,
	})
}

func runC01(c *Ctx) {
	w := c.w
	// the hardware-key refusal tests Attrs.HardKey: the legacy request text must be decoded into that field with the
	// boolean parser the encoder's verb inverts (a reader that recognises fewer spellings lets a hardware-key request through)
	if p, attrs := tbRepoPkg(c, "message"), (*types.Named)(nil); p != nil {
		if attrs = tbNamed(p, "Attributes"); attrs != nil {
			n := c.WithRulesKept(map[string]string{"R1.legacy": "R5.request"}, func(construct, detail string) bool {
				return strings.Contains(detail, "HardKey") && !strings.HasPrefix(construct, "floor:")
			}, func() { tbC15Legacy(c, p, attrs) })
			c.Floor("R5.request", n, 1, "legacy key decoded into Attributes.HardKey")
		}
	}
	m := resolveGensign(w)
	for _, p := range m.problems {
		c.Unresolved("R1.select", p)
	}
	if m.Run == nil || m.AuthCall == nil || m.GenCall == nil || m.SignCall == nil || m.AddCall == nil {
		return
	}
	run := m.Run
	c.Saw(run)
	f := w.Facts(run)

	// ---- R1 ----
	// the selection written as a library search: idx := slices.IndexFunc(handlers, func(h) bool { return h.Authenticate(params) == nil })
	var sel *searchCall
	if pf := m.AuthCall.Parent(); pf != run {
		for _, sc := range searchCallsIn(run) {
			if p, ok := w.resolveUp(run, sc.seq).(*ssa.Parameter); sc.index && sc.pred == pf && ok && p.Parent() == run && throughCell(strip(m.AuthCall.Call.Value)) == ssa.Value(sc.pred.Params[0]) {
				sc := sc
				sel = &sc
			}
		}
	}
	// Authenticate receives the run's own parameter set
	c.Check(len(m.AuthCall.Call.Args) == 1 && w.Expr(m.AuthCall.Call.Args[0]) == "p1", "R1.select", "Run|Authenticate(params)", w.Pos(m.AuthCall.Pos()), "the caller's parameters are authenticated", "Authenticate is not given Run's params: "+w.Short(m.AuthCall.Call.Args[0]))
	c.Check(len(m.GenCall.Call.Args) == 1 && w.Expr(m.GenCall.Call.Args[0]) == "p1", "R1.select", "Run|Generate(params)", w.Pos(m.GenCall.Pos()), "the same parameters are used for generation", "Generate is not given Run's params: "+w.Short(m.GenCall.Call.Args[0]))

	genRecv := m.GenCall.Call.Value
	if sel != nil {
		c01SearchSelect(c, w, m, f, sel)
	} else {
		c01LoopSelect(c, w, m, f)
	}
	// sign / add dominated by successful generate
	for name, call := range map[string]*ssa.Call{"Signer.Sign": m.SignCall, "AddCertsToAgent": m.AddCall} {
		okDom := w.DeepDominates(run, m.GenCall, call)
		isNil, known := f.KnownNil(call.Block(), m.GenErr)
		c.Check(okDom && known && isNil, "R1.select", "Run|"+name+" only after successful Generate", w.Pos(call.Pos()), "dominated by Generate with must-fact err == nil", name+" is reachable without a successful Generate")
	}
	_ = genRecv

	// ---- R2 / R3 per handler ----
	nHandlers := 0
	for _, h := range m.Handlers {
		auth := w.methodOfNamed(h, "Authenticate")
		if auth == nil || auth.Blocks == nil {
			continue
		}
		nHandlers++
		c.Saw(auth)
		hn := shortFn(auth)
		af := w.Facts(auth)
		vfs := w.verifyFunctions(auth)
		if len(vfs) == 0 {
			c.Bad("R2.authgate", hn+"|challenge", w.FnPos(auth), "no function on Authenticate's call tree verifies a signature (ssh.PublicKey.Verify)")
		}
		// challenge calls in Authenticate: static calls whose callee reaches a verify function
		var chalCalls []*ssa.Call
		for _, call := range callsIn(auth) {
			cv, ok := call.(*ssa.Call)
			if !ok {
				continue
			}
			callee := cv.Call.StaticCallee()
			if callee == nil || !w.InRepo(callee) {
				continue
			}
			for _, vf := range w.verifyFunctions(callee) {
				_ = vf
				chalCalls = append(chalCalls, cv)
				break
			}
		}
		mayNil := w.MayBeNilReturns(auth)
		n := 0
		for _, r := range mayNil {
			if auth.Recover != nil && r.Block() == auth.Recover {
				continue
			}
			n++
			b := r.Block()
			// validation
			okVal := af.Any(b, func(l Lit) bool {
				y, isNil, ok := nilTest(l)
				if !ok || !isNil {
					return false
				}
				cv, isCall := strip(y).(*ssa.Call)
				return isCall && strings.HasSuffix(calleeName(cv), "csr.ReqParam).Validate") && w.Expr(cv.Call.Args[0]) == "p1"
			})
			c.Check(okVal, "R2.authgate", hn+"|validation", w.Pos(r.Pos()), "must-fact param.Validate() == nil", "Authenticate can succeed without the must-fact param.Validate() == nil")
			// namespace policy == NONS
			okNS := af.Any(b, func(l Lit) bool {
				bin, ok := l.V.(*ssa.BinOp)
				if !ok || (bin.Op != token.NEQ && bin.Op != token.EQL) {
					return false
				}
				var fld, k ssa.Value = bin.X, bin.Y
				if _, isC := fld.(*ssa.Const); isC {
					fld, k = k, fld
				}
				s, isS := strConst(k)
				if !isS || s != "NONS" || w.Expr(fld) != "p1.NamespacePolicy" {
					return false
				}
				return (bin.Op == token.NEQ && !l.Pol) || (bin.Op == token.EQL && l.Pol)
			})
			c.Check(okNS, "R2.authgate", hn+"|namespace refusal", w.Pos(r.Pos()), "must-fact NamespacePolicy == no-namespace", "Authenticate can succeed for a request whose namespace policy is not the no-namespace value")
			okHK := af.Any(b, func(l Lit) bool { return !l.Pol && w.Expr(l.V) == "p1.Attrs.HardKey" })
			c.Check(okHK, "R2.authgate", hn+"|hardware-key refusal", w.Pos(r.Pos()), "must-fact Attrs.HardKey == false", "Authenticate can succeed for a request that asks for a hardware key")
			okCh := false
			for _, cc := range chalCalls {
				if isNil, known := af.KnownNil(b, cc); known && isNil {
					okCh = true
				}
				// or the return value is the challenge's own result
				for _, lf := range w.Leaves(r.Results[0], r) {
					if lf.Val == ssa.Value(cc) {
						okCh = true
					}
				}
			}
			c.Check(okCh, "R2.authgate", hn+"|challenge passed", w.Pos(r.Pos()), "must-fact challenge(...) == nil", "Authenticate can succeed on a path where the challenge function's result is not known to be nil")
		}
		c.Floor("R2.authgate", n, 1, "successful return of "+hn)
		for _, cc := range chalCalls {
			okArg := false
			for _, a := range cc.Call.Args {
				if w.Expr(a) == "p1" {
					okArg = true
				}
			}
			c.Check(okArg, "R2.authgate", hn+"|challenge on the request's parameters", w.Pos(cc.Pos()), "the authenticated parameters are the ones challenged", "the challenge function is not given Authenticate's parameter")
		}
		for _, vf := range vfs {
			checkChallenge(c, vf, true, auth)
		}
		// R4: no agent mutation
		reach := w.ReachableRepo([]*ssa.Function{auth}, true)
		bad := 0
		nAgentCalls := 0
		for _, fn := range reach {
			for _, call := range callsIn(fn) {
				cm := call.Common()
				if !cm.IsInvoke() {
					continue
				}
				full := cm.Method.FullName()
				if !strings.Contains(full, "ssh/agent.Agent).") && !strings.Contains(full, "ssh/agent.ExtendedAgent).") {
					continue
				}
				nAgentCalls++
				switch cm.Method.Name() {
				case "Sign", "SignWithFlags", "List", "Signers":
					c.Ok("R4.noeffects", hn+"|agent."+cm.Method.Name()+" in "+shortFn(fn), w.Pos(call.Pos()), "read-only agent operation")
				default:
					bad++
					c.Bad("R4.noeffects", hn+"|agent."+cm.Method.Name()+" in "+shortFn(fn), w.Pos(call.Pos()), "an agent-mutating operation is reachable from Authenticate (before the requester is authenticated)")
				}
			}
		}
		c.Floor("R4.noeffects", nAgentCalls, 1, "agent invokes reachable from "+hn)
	}
	c.Floor("R2.authgate", nHandlers, 1, "handler implementations")
	if sib := w.Func("agent/ssh", "ChallengeSSHAgent"); sib != nil {
		checkChallenge(c, sib, false, nil)
	}
	// Signer.Sign call sites
	nSign := 0
	for _, fn := range w.RepoFuncs() {
		for _, cv := range invokeOf(fn, "Sign") {
			if strings.HasSuffix(cv.Call.Method.FullName(), "csr.Signer).Sign") {
				nSign++
				c.Check(w.onlyVia(run, fn, 0), "R4.noeffects", "csr.Signer.Sign call site in "+shortFn(fn), w.Pos(cv.Pos()), "invoked from gensign.Run", "a signing request is sent to the CA outside gensign.Run (no authentication gate there)")
			}
		}
	}
	c.Floor("R4.noeffects", nSign, 1, "csr.Signer.Sign call sites")
}

// checkChallenge verifies the construction of one challenge function.
func checkChallenge(c *Ctx, fn *ssa.Function, keyFromFile bool, auth *ssa.Function) {
	w := c.w
	c.Saw(fn)
	name := shortFn(fn)
	verifies := invokeOf(fn, "Verify")
	if len(verifies) != 1 {
		c.Und("R3.challenge", name+"|single Verify", w.FnPos(fn), "expected exactly one Verify invoke, found "+itoa(len(verifies)))
		return
	}
	ver := verifies[0]
	pub := ver.Call.Value
	data, sig := ver.Call.Args[0], ver.Call.Args[1]
	// the agent Sign invoke
	var sign *ssa.Call
	for _, cv := range invokeOf(fn, "Sign") {
		if strings.Contains(cv.Call.Method.FullName(), "ssh/agent.") {
			sign = cv
		}
	}
	if sign == nil {
		for _, cv := range invokeOf(fn, "SignWithFlags") {
			sign = cv
		}
	}
	if sign == nil {
		c.Bad("R3.challenge", name+"|agent signs the challenge", w.FnPos(fn), "no agent Sign invoke in the challenge function")
		return
	}
	c.Check(strip(sign.Call.Args[0]) == strip(pub), "R3.challenge", name+"|same key signed and verified", w.Pos(sign.Pos()), "agent.Sign(k, ·) and k.Verify(·) use one key value", "the key handed to the agent is not the key that verifies: "+w.Short(sign.Call.Args[0])+" vs "+w.Short(pub))
	c.Check(sign.Call.Args[1] == data, "R3.challenge", name+"|same data signed and verified", w.Pos(ver.Pos()), "one buffer is signed and verified", "the data verified is not the data that was signed: "+w.Short(data)+" vs "+w.Short(sign.Call.Args[1]))
	c.Check(sig == extractOf(sign, 0) && sig != nil, "R3.challenge", name+"|verified signature is the agent's answer", w.Pos(ver.Pos()), "sig is result 0 of that Sign", "the signature verified is not the one the agent just returned: "+w.Short(sig))
	// data: make([]byte, N) with constant N >= 32 in this function (lowered to MakeSlice, or new [N]byte + slice)
	var ms ssa.Value
	n := int64(0)
	// the buffer may be made (and filled) by a helper of this function: a fresh buffer per call all the same
	var bufHome *ssa.Function = fn
	bufVal := data
	if cv := w.canon(fn, data); cv != nil && cv != throughCell(strip(data)) {
		if ins, isIns := cv.(ssa.Instruction); isIns && ins.Parent() != fn && w.inTree(fn, ins.Parent()) && len(w.sitesIn(fn, ins.Parent())) == 1 {
			bufVal, bufHome = cv, ins.Parent()
		}
	}
	switch x := bufVal.(type) {
	case *ssa.MakeSlice:
		if k, ok := intConst(x.Len); ok {
			ms, n = x, k
		}
	case *ssa.Slice:
		if a, ok := x.X.(*ssa.Alloc); ok && a.Heap && x.Low == nil {
			if arr := arrayLen(a.Type()); arr >= 0 {
				full := x.High == nil
				if h, ok := intConst(x.High); x.High != nil && ok && h == arr {
					full = true
				}
				// the array must not be used otherwise
				only := true
				if refs := a.Referrers(); refs != nil {
					for _, r := range *refs {
						if r != ssa.Instruction(x) {
							if _, dbg := r.(*ssa.DebugRef); !dbg {
								only = false
							}
						}
					}
				}
				if full && only {
					ms, n = x, arr
				}
			}
		}
	}
	isMS := ms != nil
	c.Check(isMS && n >= 32, "R3.challenge", name+"|challenge buffer fresh and >= 32 bytes", w.Pos(ver.Pos()), "make([]byte, "+itoa(int(n))+") in this activation", "the challenge is not a buffer of constant length >= 32 allocated in this function: "+w.Short(data))
	if isMS {
		// users of data: rand.Read, Sign, Verify only
		var randCall *ssa.Call
		okUsers := true
		var users []ssa.Instruction
		if refs := ms.Referrers(); refs != nil {
			users = append(users, *refs...)
		}
		if bufHome != fn {
			// ... and, in this function, of the value the helper handed back
			if dv, ok := throughCell(strip(data)).(ssa.Value); ok && dv.Referrers() != nil {
				users = append(users, *dv.Referrers()...)
			}
		}
		{
			for _, r := range users {
				switch x := r.(type) {
				case *ssa.Return:
					if bufHome != fn && x.Parent() == bufHome {
						continue // handed to this function
					}
					okUsers = false
					c.Bad("R3.challenge", name+"|no other writer of the challenge", w.Pos(r.Pos()), "the challenge buffer is returned")
				case *ssa.Call:
					switch {
					case calleeName(x) == "crypto/rand.Read":
						randCall = x
					case x == sign || x == ver:
					default:
						if b, ok := x.Call.Value.(*ssa.Builtin); ok && b.Name() == "len" {
							continue
						}
						okUsers = false
						c.Bad("R3.challenge", name+"|no other writer of the challenge", w.Pos(x.Pos()), "the challenge buffer is also handed to "+calleeName(x))
					}
				case *ssa.DebugRef:
				default:
					okUsers = false
					c.Bad("R3.challenge", name+"|no other writer of the challenge", w.Pos(r.Pos()), "the challenge buffer is used by "+r.String())
				}
			}
		}
		if okUsers {
			c.Ok("R3.challenge", name+"|no other writer of the challenge", w.Pos(ms.Pos()), "the buffer is only passed to crypto/rand.Read, agent.Sign and Verify")
		}
		if randCall == nil {
			c.Bad("R3.challenge", name+"|filled by crypto/rand", w.Pos(ms.Pos()), "the challenge buffer is never filled by crypto/rand.Read (math/rand, a constant or a package-level buffer is predictable)")
		} else {
			okDom := w.DeepDominates(fn, randCall, sign) && w.DeepDominates(fn, randCall, ver)
			errv := extractOf(randCall, 1)
			isNil, known := w.Facts(fn).KnownNil(sign.Block(), errv)
			c.Check(okDom && errv != nil && known && isNil, "R3.challenge", name+"|filled by crypto/rand", w.Pos(randCall.Pos()), "crypto/rand.Read(data) dominates Sign and Verify with must-fact err == nil", "crypto/rand.Read does not dominate the signature request with its error checked")
		}
	}
	// only may-nil return is Verify's result
	for _, r := range w.MayBeNilReturns(fn) {
		if fn.Recover != nil && r.Block() == fn.Recover {
			continue
		}
		ok := true
		for _, lf := range w.Leaves(r.Results[len(r.Results)-1], r) {
			if w.NonNil(lf.Val, lf.Facts) {
				continue
			}
			if lf.Val != ssa.Value(ver) {
				// nil under the fact ver == nil is equivalent
				isNil, known := false, false
				for l := range lf.Facts {
					if y, n, k := nilTest(l); k && strip(y) == ssa.Value(ver) {
						isNil, known = n, true
					}
				}
				if !(known && isNil && isNilConst(lf.Val)) {
					ok = false
				}
			}
		}
		c.Check(ok, "R3.challenge", name+"|success only if Verify succeeded", w.Pos(r.Pos()), "the only possibly-nil result is Verify's", "the challenge function can return nil without Verify having returned nil")
	}
	if !keyFromFile {
		return
	}
	checkKeyProvenance(c, name, fn, pub, sign, auth, 0)
}

// checkKeyProvenance: the verifying key pub, used at instruction use of fn, is parsed from the registered key file.
// When the challenge function receives the key as a parameter, the obligation moves to each of its call sites on
// the Authenticate tree.
func checkKeyProvenance(c *Ctx, name string, fn *ssa.Function, pub ssa.Value, use ssa.Instruction, auth *ssa.Function, depth int) {
	w := c.w
	if p, isParam := strip(pub).(*ssa.Parameter); isParam && p.Parent() == fn && auth != nil && depth < 3 {
		sites := w.sitesIn(auth, fn)
		if len(sites) == 0 {
			c.Bad("R3.challenge", name+"|key parsed from the registered key file", w.FnPos(fn), "the verifying key is a parameter and no call site on the Authenticate tree supplies it")
			return
		}
		for _, s := range sites {
			args := s.Common().Args
			if idx := paramIndex(p); idx >= 0 && idx < len(args) {
				checkKeyProvenance(c, name+" called from "+shortFn(s.Parent()), s.Parent(), args[idx], s, auth, depth+1)
			}
		}
		return
	}
	ver, sign := use, use
	// key provenance
	pk, ok := strip(pub).(*ssa.Extract)
	if !ok || func() bool {
		pc, isC := pk.Tuple.(*ssa.Call)
		return !isC || calleeName(pc) != "golang.org/x/crypto/ssh.ParseAuthorizedKey"
	}() {
		// the key handed back by a helper that loads it
		w.Focus(fn)
		if ck, isEx := w.canon(fn, pub).(*ssa.Extract); isEx {
			pk, ok = ck, true
		}
	}
	var parse *ssa.Call
	if ok {
		parse, _ = pk.Tuple.(*ssa.Call)
	}
	if parse == nil || calleeName(parse) != "golang.org/x/crypto/ssh.ParseAuthorizedKey" || pk.Index != 0 {
		c.Bad("R3.challenge", name+"|key parsed from the registered key file", w.Pos(ver.Pos()), "the verifying key is not result 0 of ssh.ParseAuthorizedKey: "+w.Short(pub))
		return
	}
	errv := extractOf(parse, 4)
	isNil, known := w.Facts(fn).KnownNil(sign.Block(), errv)
	c.Check(errv != nil && known && isNil, "R3.challenge", name+"|key parse error checked", w.Pos(parse.Pos()), "must-fact parse err == nil", "the parsed key is used without checking the parse error")
	roots := w.Origins(parse.Call.Args[0])
	bad := []string{}
	hasLog := false
	for r := range roots {
		switch {
		case r == "const":
		case strings.HasSuffix(r, ".PubKeyDir"):
		case r == "p1.LogName":
			hasLog = true
		case r == "call:os.ReadFile", r == "call:os.Stat":
		default:
			bad = append(bad, r)
		}
	}
	c.Check(len(bad) == 0 && hasLog, "R3.challenge", name+"|key file path from directory + login name only", w.Pos(parse.Pos()),
		"origins of the key bytes: "+strings.Join(roots.list(), ", "), "the registered-key bytes depend on something other than the configured directory and the server-side login name: "+strings.Join(bad, ", ")+" (all origins: "+strings.Join(roots.list(), ", ")+")")
	// every candidate path depends on the login name: each os.ReadFile / os.Stat path argument on the tree
	nPaths := 0
	for _, g := range w.ReachableRepo([]*ssa.Function{fn}, false) {
		for _, call := range callsTo(g, "os.ReadFile", "os.Stat", "os.Open") {
			// (alternatives of the variable only: a path built by a helper keeps the context of its call, where the
			// origins of the helper's parameters are those of this call's arguments)
			for _, lf := range w.leaves(call.Common().Args[0], call, false) {
				nPaths++
				rs := w.rootsInFrame(fn, g, w.Origins(lf.Val))
				dep := rs["p1.LogName"]
				c.Check(dep, "R3.challenge", name+"|candidate path depends on the login name in "+shortFn(g), w.Pos(call.Pos()), "path origins: "+strings.Join(rs.list(), ", "), "a candidate key file path does not depend on the login name (a shared fallback key?): "+strings.Join(rs.list(), ", "))
			}
		}
	}
	c.Floor("R3.challenge", nPaths, 1, "file accesses on the key lookup path")
}

// rootsInFrame translates origins expressed over the parameters of helper g into the frame of top, following the
// unique static call chain top -> ... -> g.
func (w *World) rootsInFrame(top, g *ssa.Function, rs rootSet) rootSet {
	if w.focus == top {
		return rs // Origins already resolved helper parameters into the focus frame
	}
	for hop := 0; hop < 6 && g != top; hop++ {
		var site *ssa.Call
		n := 0
		for _, f := range w.ReachableRepo([]*ssa.Function{top}, false) {
			for _, call := range callsIn(f) {
				if cv, ok := call.(*ssa.Call); ok && cv.Call.StaticCallee() == g {
					site = cv
					n++
				}
			}
		}
		if n != 1 {
			out := rootSet{"other:ambiguous-frame": true}
			out.add(rs)
			return out
		}
		out := rootSet{}
		for r := range rs {
			if strings.HasPrefix(r, "p") && len(r) > 1 && r[1] >= '0' && r[1] <= '9' {
				j := 1
				for j < len(r) && r[j] >= '0' && r[j] <= '9' {
					j++
				}
				pi := atoi(r[1:j])
				suffix := r[j:]
				if pi < len(site.Call.Args) {
					for ar := range w.Origins(site.Call.Args[pi]) {
						if suffix != "" && (strings.HasPrefix(ar, "p") || strings.HasPrefix(ar, "global:")) {
							out[ar+suffix] = true
						} else {
							out[ar] = true
						}
					}
					continue
				}
			}
			out[r] = true
		}
		rs = out
		g = site.Parent()
	}
	return rs
}

// hasRecoverDefer: g defers a function (closure or named) that itself calls recover().
func hasRecoverDefer(w *World, g *ssa.Function) bool {
	for _, call := range callsIn(g) {
		d, ok := call.(*ssa.Defer)
		if !ok {
			continue
		}
		var fn *ssa.Function
		if mc, ok := d.Call.Value.(*ssa.MakeClosure); ok {
			fn = mc.Fn.(*ssa.Function)
		} else if h := w.helperOf(d); h != nil {
			fn = h
		}
		if fn == nil {
			continue
		}
		for _, cc := range callsIn(fn) {
			if b, ok := cc.Common().Value.(*ssa.Builtin); ok && b.Name() == "recover" {
				return true
			}
		}
	}
	return false
}

// c01LoopSelect: the handler selection written as a loop over the handlers parameter.
func c01LoopSelect(c *Ctx, w *World, m *gensignModel, f *Facts) {
	run := m.Run
	// Authenticate's receiver: element of the handlers parameter at a forward range index
	authRecv := m.AuthCall.Call.Value
	okRange := false
	var handlersParam *ssa.Parameter
	if ld, ok := authRecv.(*ssa.UnOp); ok && ld.Op == token.MUL {
		if ia, ok := ld.X.(*ssa.IndexAddr); ok {
			if p, ok := w.resolveUp(run, ia.X).(*ssa.Parameter); ok && p.Parent() == run && isForwardRangeIndex(ia.Index) {
				okRange = true
				handlersParam = p
			}
		}
	}
	c.Check(okRange, "R1.select", "Run|handlers tried in slice order", w.Pos(m.AuthCall.Pos()),
		"Authenticate is invoked on handlers[i] for i = 0,1,2,... (forward range over the parameter)", "Authenticate's receiver is not the element of a forward range over the handlers parameter")
	_ = handlersParam
	// Generate's receiver
	genRecv := m.GenCall.Call.Value
	isNil, known := f.KnownNil(m.GenCall.Block(), genRecv)
	c.Check(known && !isNil, "R1.select", "Run|Generate receiver non-nil", w.Pos(m.GenCall.Pos()), "must-fact handler != nil", "Generate can be invoked on a path where no handler was selected")
	for _, lf := range w.Leaves(genRecv, m.GenCall) {
		if isNilConst(lf.Val) {
			continue // excluded by the fact above
		}
		ok := lf.Val == authRecv
		if ok {
			ok = false
			for l := range lf.Facts {
				if y, isNil, k := nilTest(l); k && isNil && strip(y) == ssa.Value(m.AuthCall) {
					ok = true
				}
			}
		}
		c.Check(ok, "R1.select", "Run|selected handler authenticated", w.Pos(m.GenCall.Pos()),
			"the value reaching Generate's receiver is the element whose Authenticate returned nil (must-fact on the edge)",
			"a handler can reach Generate without the must-fact that its own Authenticate returned nil: "+w.Short(lf.Val))
	}
	// success edge leaves the loop
	for _, b := range m.AuthCall.Parent().Blocks {
		if isNil, known := f.KnownNil(b, m.AuthCall); known && isNil && len(b.Instrs) > 0 {
			if b == m.AuthCall.Block() {
				continue
			}
			if ReachableAvoiding(b.Instrs[0], nil)(m.AuthCall) {
				c.Bad("R1.select", "Run|first successful handler wins", w.Pos(b.Instrs[0].Pos()), "after a successful Authenticate control can reach Authenticate again (a later handler may replace the first one)")
			} else {
				c.Ok("R1.select", "Run|first successful handler wins", w.Pos(b.Instrs[0].Pos()), "the success edge leaves the loop")
			}
		}
	}
	// when the selection loop lives in a helper, the helper itself is entered once
	for g := m.AuthCall.Parent(); g != run; {
		sites := w.sitesIn(run, g)
		if len(sites) != 1 {
			c.Bad("R1.select", "Run|first successful handler wins", w.FnPos(g), "the handler selection "+shortFn(g)+" is entered from "+itoa(len(sites))+" places of Run")
			break
		}
		if ReachableAvoiding(sites[0], nil)(sites[0]) {
			c.Bad("R1.select", "Run|first successful handler wins", w.Pos(sites[0].Pos()), "the handler selection can run again after it returned (a later handler may replace the first one)")
		}
		g = sites[0].Parent()
	}
	// the no-handler branch
	nNo := 0
	for _, r := range liveReturns(run) {
		isNil, known := f.KnownNil(r.Block(), genRecv)
		if !known || !isNil {
			continue
		}
		nNo++
		okKind := true
		for _, lf := range w.Leaves(r.Results[errorResultIndex(run)], r) {
			k, ok := errKindOf(lf.Val)
			if ok && k == m.Kinds["Panic"] {
				continue // the deferred recover may overwrite the result
			}
			if !ok || k != m.Kinds["AllAuthFailed"] {
				okKind = false
			}
		}
		c.Check(okKind, "R1.select", "Run|no handler => AllAuthFailed", w.Pos(r.Pos()), "returns an *Error of kind AllAuthFailed", "the no-handler branch does not return an AllAuthFailed error: "+w.Short(r.Results[errorResultIndex(run)]))
	}
	c.Floor("R1.select", nNo, 1, "return on the no-handler branch")
}

// c01SearchSelect: the handler selection written as slices.IndexFunc over the handlers parameter with a predicate that
// authenticates its element; the found element is the one Generate is invoked on.
func c01SearchSelect(c *Ctx, w *World, m *gensignModel, f *Facts, sel *searchCall) {
	run := m.Run
	c.Saw(sel.pred)
	c.Ok("R1.select", "Run|handlers tried in slice order", w.Pos(m.AuthCall.Pos()), calleeName(sel.call)+" over the handlers parameter, the predicate authenticates its element")
	// the predicate holds exactly when Authenticate returned nil
	pf := w.Facts(sel.pred)
	okPred, nRet := true, 0
	for _, r := range liveReturns(sel.pred) {
		nRet++
		for _, lf := range w.Leaves(r.Results[0], r) {
			// return err == nil: the comparison itself
			if bin, isBin := throughCell(strip(lf.Val)).(*ssa.BinOp); isBin && bin.Op == token.EQL {
				x, y := bin.X, bin.Y
				if isNilConst(x) {
					x, y = y, x
				}
				if isNilConst(y) && throughCell(strip(x)) == ssa.Value(m.AuthCall) {
					continue
				}
			}
			k, isK := throughCell(strip(lf.Val)).(*ssa.Const)
			if !isK || k.Value == nil {
				okPred = false
				continue
			}
			isNil, known := pf.KnownNil(r.Block(), m.AuthCall)
			for l := range lf.Facts {
				if y, n, ok := nilTest(l); ok && strip(y) == ssa.Value(m.AuthCall) {
					isNil, known = n, true
				}
			}
			if !known || (k.Value.String() == "true") != isNil {
				okPred = false
			}
		}
	}
	c.Check(okPred && nRet > 0, "R1.select", "Run|selected handler authenticated", w.FnPos(sel.pred), "the search predicate is true exactly when its element's Authenticate returned nil", "the search predicate does not mean 'this handler authenticated the request'")
	// the search runs once
	if ReachableAvoiding(sel.call, nil)(sel.call) {
		c.Bad("R1.select", "Run|first successful handler wins", w.Pos(sel.call.Pos()), "the handler selection can run again after it returned (a later handler may replace the first one)")
	} else {
		c.Ok("R1.select", "Run|first successful handler wins", w.Pos(sel.call.Pos()), "the library search stops at the first element the predicate accepts; it runs once")
	}
	// Generate's receiver is the found element
	genRecv := m.GenCall.Call.Value
	okRecv := false
	if ld, ok := throughCell(strip(genRecv)).(*ssa.UnOp); ok && ld.Op == token.MUL {
		if ia, ok := ld.X.(*ssa.IndexAddr); ok && w.SameValue(run, ia.X, sel.seq) && throughCell(strip(ia.Index)) == ssa.Value(sel.call) {
			okRecv = true
		}
	}
	c.Check(okRecv, "R1.select", "Run|Generate on the found handler", w.Pos(m.GenCall.Pos()), "handlers[idx] with idx the search result", "Generate's receiver is not the element the search found: "+w.Short(genRecv))
	found := func(b *ssa.BasicBlock, want bool) bool {
		return f.Any(b, func(l Lit) bool { v, ok := sel.found(l); return ok && v == want })
	}
	c.Check(found(m.GenCall.Block(), true), "R1.select", "Run|Generate receiver non-nil", w.Pos(m.GenCall.Pos()), "must-fact idx >= 0", "Generate can be invoked on a path where no handler was selected")
	// the no-handler branch
	nNo := 0
	for _, r := range liveReturns(run) {
		if !found(r.Block(), false) {
			continue
		}
		nNo++
		okKind := true
		for _, lf := range w.Leaves(r.Results[errorResultIndex(run)], r) {
			k, ok := errKindOf(lf.Val)
			if ok && k == m.Kinds["Panic"] {
				continue // the deferred recover may overwrite the result
			}
			if !ok || k != m.Kinds["AllAuthFailed"] {
				okKind = false
			}
		}
		c.Check(okKind, "R1.select", "Run|no handler => AllAuthFailed", w.Pos(r.Pos()), "returns an *Error of kind AllAuthFailed", "the no-handler branch does not return an AllAuthFailed error: "+w.Short(r.Results[errorResultIndex(run)]))
	}
	c.Floor("R1.select", nNo, 1, "return on the no-handler branch")
}
