package main

import (
	"go/token"
	"go/types"
	"strings"

	"golang.org/x/tools/go/ssa"
)

func init() {
	register(&property{
		ID: "C17",
		Meta: propMeta{
			Level:       "Structural necessary conditions of ordered fail-over, decided on all paths of the signer: (R1) the signing call ranges forward over the configured endpoint slice, hands the caller's request pointer unchanged to the per-endpoint call and on to the RPC stub (no store through it anywhere in the package), returns that call's results at once on its err==nil edge, and the constructor fills endpoints[i] from the i-th configured endpoint; (R2) every possibly-nil error returned by the signing call carries the must-fact that a per-endpoint call returned nil (so zero endpoints / all failed is an error); (R3) the per-endpoint call returns a possibly-nil error only past RPC err==nil and key-parsing err==nil, and the key parser appends key and comment in the same block and fails on zero keys; (R4) the backoff's jittered value is computed from the value clamped by math.Min(·, MaxDelay) and the default configuration satisfies base<=max, multiplier>=1, 0<=jitter<=1, and the constructor installs conf.Retries and that backoff. Floating-point delay bounds, gRPC retries and deadlines are not decided.",
			Technique:   "static analysis: must-fact gating, nil-ness value-flow and pass-through tables on go/ssa; constant-table evaluation",
			Explanation: "The signer type is resolved as the repository type implementing csr.Signer; its Sign method's range loop, the per-endpoint callee (the static callee receiving the ranged element), and the RPC stub invoke are located in SSA. Nil-ness of returned errors is decided by following phis/cells to leaves and requiring constructor results or must-facts.",
			Assumptions: []string{"gRPC client stubs do not modify the request", "status.Code(err) is never OK for a non-nil error produced by gRPC", "math.Min / time.Duration conversion semantics"},
			Trusted:     []string{"go/packages", "go/types", "go/ssa", "google.golang.org/grpc"},
			RuleDoc: map[string]string{
				"R9.state":   "no memory of earlier calls: on the call tree only frozen package-level variables are touched (known exceptions listed with reasons), and no package-level object is handed out",
				"R1.order":   "forward range over the endpoint field; element handed to the per-endpoint call; early return on success with that call's results",
				"R1.request": "request parameter passed unmodified; no store through it in the package",
				"R1.ctor":    "constructor keeps endpoint order",
				"R2.nonnil":  "every may-be-nil error return of Sign has the must-fact per-endpoint err == nil",
				"R3.gate":    "per-endpoint call: nil error only past RPC and parse success; parser keeps keys/comments parallel and fails on zero keys",
				"R4.backoff": "clamp-before-jitter dataflow shape; default config table; interceptor wiring",
			},
		},
		Run: runC17,
	})
}

const crypkiPkg = "crypki"

// isForwardRangeIndex: idx is the rangeindex idiom phi(-1, idx)+1 (a forward range from 0).
func isForwardRangeIndex(idx ssa.Value) bool {
	// hand-written form: for i := 0; ...; i++  (the index is the loop variable itself, started at 0 and only ever
	// incremented by one)
	if phi, ok := idx.(*ssa.Phi); ok && len(phi.Edges) >= 2 {
		sawInit, sawInc := false, false
		for _, e := range phi.Edges {
			if k, isK := intConst(e); isK && k == 0 {
				sawInit = true
			} else if b, isB := e.(*ssa.BinOp); isB && b.Op == token.ADD && b.X == ssa.Value(phi) {
				if one, isK := intConst(b.Y); isK && one == 1 {
					sawInc = true
					continue
				}
				return false
			} else {
				return false
			}
		}
		return sawInit && sawInc
	}
	bin, ok := idx.(*ssa.BinOp)
	if !ok || bin.Op != token.ADD {
		return false
	}
	if k, ok := intConst(bin.Y); !ok || k != 1 {
		return false
	}
	phi, ok := bin.X.(*ssa.Phi)
	if !ok || len(phi.Edges) < 2 {
		return false
	}
	sawInit, sawSelf := false, false
	for _, e := range phi.Edges {
		if e == ssa.Value(bin) {
			sawSelf = true
		} else if k, ok := intConst(e); ok && k == -1 {
			sawInit = true
		} else {
			return false
		}
	}
	return sawInit && sawSelf
}

func runC17(c *Ctx) { runC17Core(c, true) }

// runC17Core: the ordered fail-over rules of the signer (R1-R3), optionally with the backoff rules (R4). C18, whose
// statement ends in "so a later genuine endpoint is still used", imports R1-R3 under a rule name of its own.
func runC17Core(c *Ctx, withBackoff bool) {
	stateRule(c, "R9.state", []*ssa.Function{c.w.Method(crypkiPkg, "Signer", "Sign"), c.w.Func(crypkiPkg, "NewSigner"), c.w.Method("internal/backoff", "Config", "Backoff"), c.w.Func("tlsutils", "TLSClientConfiguration")}, knownState)
	w := c.w
	// signer type: implements csr.Signer
	var sign *ssa.Function
	if cp := w.Pkg("csr"); cp != nil {
		if o := cp.Pkg.Scope().Lookup("Signer"); o != nil {
			if iface, ok := o.Type().Underlying().(*types.Interface); ok {
				for _, n := range w.Implementers(iface) {
					if strings.Contains(n.Obj().Pkg().Path(), "/mock") {
						continue
					}
					if f := w.Method(strings.TrimPrefix(n.Obj().Pkg().Path(), RepoMod+"/"), n.Obj().Name(), "Sign"); f != nil {
						sign = f
					}
				}
			}
		}
	}
	if sign == nil {
		c.Unresolved("R1.order", "repository type implementing csr.Signer")
		return
	}
	c.Saw(sign)
	owner := recvNamed(sign)

	// the per-endpoint call: a static call to a method of the same type inside a range loop whose last argument is the ranged element
	var perCall *ssa.Call
	for _, call := range callsIn(sign) {
		cv, ok := call.(*ssa.Call)
		if !ok {
			continue
		}
		callee := cv.Call.StaticCallee()
		if callee == nil || recvNamed(callee) != owner || errorResultIndex(callee) < 0 {
			continue
		}
		perCall = cv
	}
	// ... or the fail-over loop lives in a function that Sign hands the endpoint list and a closure making the
	// per-endpoint call (a higher-order tryEndpoints(endpoints, post)): the loop rules are read in that function, the
	// attempt being the call of its function parameter
	loopFn := sign
	var att *ssa.Call      // the attempt inside the loop
	var loopSite *ssa.Call // Sign's call of the loop function (callback form)
	var attClo *ssa.Function
	if perCall == nil {
		for _, ins := range instrsOf(sign) {
			mc, ok := ins.(*ssa.MakeClosure)
			if !ok {
				continue
			}
			clo, _ := mc.Fn.(*ssa.Function)
			if clo == nil {
				continue
			}
			var inner *ssa.Call
			for _, call := range callsIn(clo) {
				if cv, ok := call.(*ssa.Call); ok {
					if callee := cv.Call.StaticCallee(); callee != nil && recvNamed(callee) == owner && errorResultIndex(callee) >= 0 {
						inner = cv
					}
				}
			}
			if inner == nil {
				continue
			}
			// the closure hands back that call's results as they are
			handsBack := true
			for _, r := range liveReturns(clo) {
				for k, res := range r.Results {
					var want ssa.Value = inner
					if inner.Call.Signature().Results().Len() > 1 {
						want = extractOf(inner, k)
					}
					if throughCell(strip(res)) != want {
						handsBack = false
					}
				}
			}
			if !handsBack {
				continue
			}
			for _, call := range callsIn(sign) {
				site, ok := call.(*ssa.Call)
				if !ok {
					continue
				}
				h := site.Call.StaticCallee()
				if h == nil || !w.InRepo(h) || h.Blocks == nil || len(site.Call.Args) != len(h.Params) {
					continue
				}
				for i, a := range site.Call.Args {
					if w.canon(sign, a) != ssa.Value(mc) {
						continue
					}
					var dyns []*ssa.Call
					only := true
					if refs := h.Params[i].Referrers(); refs != nil {
						for _, r := range *refs {
							switch x := r.(type) {
							case *ssa.DebugRef:
							case *ssa.Call:
								if x.Call.Value == ssa.Value(h.Params[i]) {
									dyns = append(dyns, x)
								} else {
									only = false
								}
							default:
								only = false
							}
						}
					}
					if only && len(dyns) == 1 {
						perCall, att, loopFn, loopSite, attClo = inner, dyns[0], h, site, clo
					}
				}
			}
		}
	}
	if perCall == nil {
		c.Unresolved("R1.order", "per-endpoint call in Sign")
		return
	}
	if att == nil {
		att = perCall
	}
	per := perCall.Call.StaticCallee()
	c.Saw(per)
	c.Saw(loopFn)
	args := perCall.Call.Args
	if loopSite != nil {
		// the endpoint the closure passes on is its own parameter; what the loop feeds it is judged below
		args = nil
		for _, a := range perCall.Call.Args {
			if p, isParam := throughCell(strip(a)).(*ssa.Parameter); isParam && p.Parent() == attClo {
				if j := paramIndex(p); j >= 0 && j < len(att.Call.Args) {
					a = att.Call.Args[j]
				}
			}
			args = append(args, a)
		}
	}
	// endpoint argument: element of the receiver's endpoint slice at a forward range index
	okOrder := false
	var endpointField string
	for _, a := range args {
		ld, ok := a.(*ssa.UnOp)
		if !ok || ld.Op != token.MUL {
			continue
		}
		ia, ok := ld.X.(*ssa.IndexAddr)
		if !ok {
			continue
		}
		base := w.Expr(ia.X)
		if p, isParam := throughCell(strip(ia.X)).(*ssa.Parameter); isParam && loopSite != nil && p.Parent() == loopFn {
			if j := paramIndex(p); j >= 0 && j < len(loopSite.Call.Args) {
				base = w.ExprIn(sign, loopSite.Call.Args[j])
			}
		}
		if strings.HasPrefix(base, "p0.") && isForwardRangeIndex(ia.Index) {
			okOrder = true
			endpointField = strings.TrimPrefix(base, "p0.")
		}
		// ... or over what a method of the same receiver returns as a copy of that field, element for element
		if hc, isCall := throughCell(strip(ia.X)).(*ssa.Call); isCall && isForwardRangeIndex(ia.Index) && len(hc.Call.Args) == 1 && hc.Call.Args[0] == ssa.Value(sign.Params[0]) {
			if h := hc.Call.StaticCallee(); h != nil && recvNamed(h) == owner {
				if fld := cloneOfField(w, h); fld != "" {
					okOrder = true
					endpointField = fld
				}
			}
		}
	}
	c.Check(okOrder, "R1.order", "Sign|forward range over the endpoint list", w.Pos(perCall.Pos()),
		"the per-endpoint call receives endpoints[i] for i = 0,1,2,... (range index idiom)", "the per-endpoint call does not receive the element of a forward range over a receiver field")
	// exactly one per-endpoint call site
	// request pass-through: some argument is exactly parameter p2 (the request) of Sign
	reqIdx := -1
	for i, p := range sign.Params {
		if ptr, ok := p.Type().(*types.Pointer); ok && strings.HasSuffix(ptr.Elem().String(), "SSHCertificateSigningRequest") {
			reqIdx = i
		}
	}
	passed := false
	perReqParam := -1
	for i, a := range args {
		if reqIdx >= 0 && (a == ssa.Value(sign.Params[reqIdx]) || (loopSite != nil && w.ExprIn(sign, a) == "p"+itoa(reqIdx))) {
			passed = true
			perReqParam = i
		}
	}
	c.Check(passed, "R1.request", "Sign|request handed unchanged to the per-endpoint call", w.Pos(perCall.Pos()), "request parameter passed as is", "the per-endpoint call does not receive Sign's request parameter itself")
	// success edge returns at once with the call's results
	errIdx := errorResultIndex(per)
	var errv ssa.Value
	exts := map[int]ssa.Value{}
	if refs := att.Referrers(); refs != nil {
		for _, r := range *refs {
			if ex, ok := r.(*ssa.Extract); ok {
				exts[ex.Index] = ex
				if ex.Index == errIdx {
					errv = ex
				}
			}
		}
	}
	f := w.Facts(loopFn)
	nSuccessRet := 0
	if loopSite != nil {
		// Sign returns what the loop function returns
		for _, r := range liveReturns(sign) {
			if !ReachableAvoiding(loopSite, nil)(r) {
				continue
			}
			same := len(r.Results) == loopFn.Signature.Results().Len()
			for k, res := range r.Results {
				if same && throughCell(strip(res)) != ssa.Value(extractOf(loopSite, k)) {
					same = false
				}
			}
			c.Check(same, "R1.order", "Sign|hands back the results of "+shortFn(loopFn), w.Pos(r.Pos()), "the loop function's results as they are", "Sign does not return the fail-over loop's results unchanged")
		}
	}
	for _, r := range liveReturns(loopFn) {
		isNil, known := f.KnownNil(r.Block(), errv)
		if errv == nil || !known || !isNil {
			// a `break` out of the loop joined with its exhaustion: the edges into the return block on which the error
			// returned is this attempt's, known to be nil there, carry this attempt's certificates and comments
			if ePhi, isPhi := strip(r.Results[len(r.Results)-1]).(*ssa.Phi); isPhi && errv != nil && ePhi.Block() == r.Block() {
				for i, e := range ePhi.Edges {
					if throughCell(strip(e)) != errv {
						continue
					}
					ef := w.factsOnEdge(r.Block().Preds[i], r.Block())
					if n, k := f.knownNilIn(ef, errv); !k || !n {
						continue
					}
					nSuccessRet++
					okRes := len(r.Results) == 3
					for k := 0; k < 2 && okRes; k++ {
						kp, isKP := strip(r.Results[k]).(*ssa.Phi)
						if !isKP || kp.Block() != r.Block() || throughCell(strip(kp.Edges[i])) != exts[k] {
							okRes = false
						}
					}
					c.Check(okRes, "R1.order", "Sign|success edge returns the endpoint's results", w.Pos(r.Pos()), "returns the successful endpoint's certificates and comments", "on the err==nil edge the successful attempt's certificates/comments are not what is returned")
				}
			}
			continue
		}
		nSuccessRet++
		okRes := len(r.Results) == 3 && r.Results[0] == exts[0] && r.Results[1] == exts[1]
		c.Check(okRes, "R1.order", "Sign|success edge returns the endpoint's results", w.Pos(r.Pos()), "returns the successful endpoint's certificates and comments", "on the err==nil edge Sign does not return that call's certificates/comments: "+w.Short(r.Results[0]))
		// no further per-endpoint call can follow: the block ends in Return, nothing to check beyond being a return
	}
	// the err==nil edge must not flow back into the loop: every block with the fact err==nil must not reach perCall again
	for _, b := range loopFn.Blocks {
		if errv == nil {
			break
		}
		if isNil, known := f.KnownNil(b, errv); known && isNil {
			if len(b.Instrs) > 0 {
				reach := ReachableAvoiding(b.Instrs[0], nil)
				if reach(att) {
					c.Bad("R1.order", "Sign|later endpoint contacted after a success", w.Pos(b.Instrs[0].Pos()), "from the err==nil edge control can reach the per-endpoint call again")
				}
			}
		}
	}
	c.Floor("R1.order", nSuccessRet, 1, "return on the success edge of the per-endpoint call")

	// R2: may-nil returns need the fact err == nil of a per-endpoint call
	errRes := errorResultIndex(loopFn)
	for _, r := range liveReturns(loopFn) {
		leaves := w.Leaves(r.Results[errRes], r)
		// behind a guard that refuses an empty endpoint list the first attempt certainly runs: the initial value of
		// the loop-carried error cannot be what is returned at the loop's exit
		if vals, preds, dropped := w.dropInitialAtExit(loopFn, f, r.Results[errRes]); dropped && len(r.Block().Instrs) > 0 && !ReachableAvoiding(r, nil)(r.Results[errRes].(*ssa.Phi).Block().Instrs[0]) {
			leaves = nil
			for i, e := range vals {
				leaves = append(leaves, w.Leaves(e, preds[i].Instrs[len(preds[i].Instrs)-1])...)
			}
		}
		for _, lf := range leaves {
			if w.NonNil(lf.Val, lf.Facts) {
				c.Ok("R2.nonnil", "Sign|returned error "+w.Short(lf.Val), w.Pos(r.Pos()), "certainly non-nil")
				continue
			}
			ok := false
			for l := range lf.Facts {
				if y, isNil, k := nilTest(l); k && isNil && errv != nil && strip(y) == errv {
					ok = true
				}
			}
			c.Check(ok, "R2.nonnil", "Sign|may-be-nil error "+w.Short(lf.Val), w.Pos(r.Pos()),
				"nil only under the must-fact per-endpoint err == nil", "Sign can return a nil error without any endpoint having succeeded (value "+w.Short(lf.Val)+" reaches the return with no fact err == nil): an empty or exhausted endpoint list is reported as success")
		}
	}

	// R1.request: no store through a request pointer anywhere in the package; per-endpoint passes it on to the stub
	nStores := 0
	for _, fn := range w.RepoFuncs() {
		if fn.Pkg == nil || fn.Pkg != sign.Pkg {
			continue
		}
		for _, b := range fn.Blocks {
			for _, ins := range b.Instrs {
				st, ok := ins.(*ssa.Store)
				if !ok {
					continue
				}
				if fa, ok := st.Addr.(*ssa.FieldAddr); ok {
					if ptr, ok := fa.X.Type().Underlying().(*types.Pointer); ok && strings.HasSuffix(ptr.Elem().String(), "SSHCertificateSigningRequest") {
						nStores++
						c.Bad("R1.request", shortFn(fn)+"|store into the signing request", w.Pos(st.Pos()), "the signer package modifies a signing request")
					}
				}
			}
		}
	}
	if nStores == 0 {
		c.Ok("R1.request", "package crypki|no store through a request pointer", "-", "census over all functions of the package")
	}
	// ... and nothing that shares storage with the request (a principal list read off it, a part handed to a helper) is
	// rearranged or overwritten in place on Sign's tree
	isReq := func(v ssa.Value) bool {
		ptr, ok := v.Type().Underlying().(*types.Pointer)
		return ok && strings.HasSuffix(ptr.Elem().String(), "SSHCertificateSigningRequest")
	}
	muts := w.aliasMutations(w.Tree(sign), isReq)
	for _, mu := range muts {
		c.Bad("R1.request", shortFn(mu.fn)+"|in-place write to data of the signing request", w.Pos(mu.at.Pos()), "storage shared with the caller's signing request is modified: "+mu.what)
	}
	if len(muts) == 0 {
		c.Ok("R1.request", "Sign tree|nothing sharing storage with the request is written in place", w.FnPos(sign), "alias flow from the request through field loads, getters, reslicing and helpers; stores, map updates and in-place library calls")
	}
	if perReqParam >= 0 {
		stub := false
		for _, call := range callsIn(per) {
			if call.Common().IsInvoke() && call.Common().Method.Name() == "PostUserSSHCertificate" {
				for _, a := range call.Common().Args {
					if a == ssa.Value(per.Params[perReqParam]) {
						stub = true
					}
				}
				if !stub {
					c.Bad("R1.request", shortFn(per)+"|request handed to the RPC stub", w.Pos(call.Pos()), "the RPC receives something other than the caller's request")
				}
			}
		}
		if stub {
			c.Ok("R1.request", shortFn(per)+"|request handed to the RPC stub", w.FnPos(per), "PostUserSSHCertificate(ctx, csr) with csr the parameter")
		} else {
			c.Unresolved("R1.request", "RPC stub call PostUserSSHCertificate in "+shortFn(per))
		}
	}

	// R3: per-endpoint gating
	pf := w.Facts(per)
	var rpcErr, parseErr ssa.Value
	for _, call := range w.callsInDeep(per) {
		cv, ok := call.(*ssa.Call)
		if !ok {
			continue
		}
		name := calleeName(cv)
		isRPC := cv.Call.IsInvoke() && cv.Call.Method.Name() == "PostUserSSHCertificate"
		isParse := strings.HasSuffix(name, "sshutils/key.GetPublicKeysFromBytes")
		if !isRPC && !isParse {
			continue
		}
		if refs := cv.Referrers(); refs != nil {
			for _, r := range *refs {
				if ex, ok := r.(*ssa.Extract); ok && isErrorType(ex.Type()) {
					if isRPC {
						rpcErr = ex
					} else {
						parseErr = ex
					}
				}
			}
		}
	}
	if rpcErr == nil || parseErr == nil {
		c.Unresolved("R3.gate", "RPC / key-parsing calls in "+shortFn(per))
	} else {
		n := 0
		for _, r := range w.MayBeNilReturns(per) {
			if per.Recover != nil && r.Block() == per.Recover {
				continue
			}
			n++
			a, ka := pf.KnownNil(r.Block(), rpcErr)
			b, kb := pf.KnownNil(r.Block(), parseErr)
			if !(ka && a && kb && b) {
				// the error returned is a helper's: every value of it that may be nil comes with both facts
				all, some := true, false
				for _, lf := range w.LeavesErr(r.Results[errorResultIndex(per)], r) {
					if w.NonNil(lf.Val, lf.Facts) {
						continue
					}
					some = true
					a2, ka2 := pf.knownNilIn(lf.Facts, rpcErr)
					b2, kb2 := pf.knownNilIn(lf.Facts, parseErr)
					if !((ka2 && a2) || (ka && a)) || !((kb2 && b2) || (kb && b)) {
						all = false
					}
				}
				if all && some {
					ka, a, kb, b = true, true, true, true
				}
			}
			c.Check(ka && a && kb && b, "R3.gate", shortFn(per)+"|nil error only after RPC and parse success", w.Pos(r.Pos()),
				"must-facts: RPC err == nil and parse err == nil", "a possibly-nil error is returned on a path where the RPC error or the parse error is not known to be nil")
		}
		c.Floor("R3.gate", n, 1, "success return of the per-endpoint call")
	}
	if gp := w.Func("sshutils/key", "GetPublicKeysFromBytes"); gp != nil {
		c.Saw(gp)
		scannerRule(c, "R3.gate", gp, "the CA's answer is")
		// appends to result 0 and result 1 cells happen in the same block
		var appendBlocks []*ssa.BasicBlock
		for _, call := range w.callsInDeep(gp) {
			if b, ok := call.Common().Value.(*ssa.Builtin); ok && b.Name() == "append" {
				appendBlocks = append(appendBlocks, call.Block())
			}
		}
		okPar := len(appendBlocks) == 2 && appendBlocks[0] == appendBlocks[1]
		c.Check(okPar, "R3.gate", "GetPublicKeysFromBytes|key and comment appended together", w.FnPos(gp), "both appends in one block (parallel slices)", "keys and comments are not appended in the same block: the slices can get out of step")
		gf := w.Facts(gp)
		gbc := &boundsCtx{w: w, fn: gp, root: gp, facts: gf}
		for _, r := range w.MayBeNilReturns(gp) {
			// fact len(keys)==0 is false
			ok := gf.Any(r.Block(), func(l Lit) bool {
				bin, isBin := l.V.(*ssa.BinOp)
				if !isBin {
					return false
				}
				if la := lenArg(bin.X); la != nil && (la == r.Results[0] || gbc.sameSeq(la, r.Results[0])) {
					if k, isK := intConst(bin.Y); isK && k == 0 {
						return (bin.Op == token.EQL && !l.Pol) || (bin.Op == token.NEQ && l.Pol) || (bin.Op == token.GTR && l.Pol)
					}
				}
				return false
			})
			c.Check(ok, "R3.gate", "GetPublicKeysFromBytes|success only with at least one key", w.Pos(r.Pos()), "must-fact len(keys) != 0", "the parser can succeed with zero keys")
		}
	}

	// R1.ctor
	if ns := w.Func(crypkiPkg, "NewSigner"); ns != nil {
		c.Saw(ns)
		okCtor := false
		w.Focus(ns)
		var ctorBlocks []*ssa.BasicBlock
		for _, tf := range w.Tree(ns) {
			if tf == ns || w.transparent(tf) {
				ctorBlocks = append(ctorBlocks, tf.Blocks...)
			}
		}
		for _, b := range ctorBlocks {
			for _, ins := range b.Instrs {
				st, ok := ins.(*ssa.Store)
				if !ok {
					continue
				}
				ia, ok := st.Addr.(*ssa.IndexAddr)
				if !ok || !isForwardRangeIndex(ia.Index) {
					continue
				}
				// value depends on conf.CrypkiEndpoints[same index]
				// same index value used on both sides
				src := findIndexOn(st.Val, "CrypkiEndpoints", w, 0)
				if src != nil && src.Index == ia.Index {
					okCtor = true
				}
			}
		}
		// ... or appended one by one, in the order of a forward range over the configured list, to a list that starts
		// empty - every element, unconditionally
		if !okCtor {
			for _, b := range ctorBlocks {
				for _, ins := range b.Instrs {
					cv, ok := ins.(*ssa.Call)
					if !ok {
						continue
					}
					base, vals, ok := appendedValues(cv)
					if !ok || len(vals) != 1 {
						continue
					}
					src := findIndexOn(vals[0], "CrypkiEndpoints", w, 0)
					if src == nil || !isForwardRangeIndex(src.Index) || src.Block() != cv.Block() {
						continue
					}
					// the list appended to is the loop-carried one that starts empty and is what the loop hands on
					phi, isPhi := throughCell(strip(base)).(*ssa.Phi)
					if !isPhi || len(phi.Edges) != 2 {
						continue
					}
					startsEmpty, carried := false, false
					for _, e := range phi.Edges {
						e = throughCell(strip(e))
						if e == ssa.Value(cv) {
							carried = true
						} else if emptySlice(e) || isNilConst(e) {
							startsEmpty = true
						}
					}
					if startsEmpty && carried {
						okCtor = true
					}
				}
			}
		}
		c.Check(okCtor, "R1.ctor", "NewSigner|endpoints[i] built from conf.CrypkiEndpoints[i]", w.FnPos(ns), "same range index on both sides", "the constructor does not fill endpoints[i] from the i-th configured endpoint (order not preserved)")
		// the dial target is the configured endpoint as written: net.JoinHostPort brackets a host that holds a colon, so an
		// endpoint configured in the bracketed IPv6 form the plain host:port concatenation needs ("[::1]") becomes
		// "[[::1]]:port" and is never reached (the order of the endpoints that can be contacted changes)
		{
			bad := false
			for _, b := range ctorBlocks {
				for _, ins := range b.Instrs {
					if cv, ok := ins.(*ssa.Call); ok && calleeName(cv) == "net.JoinHostPort" && len(cv.Call.Args) == 2 && findIndexOn(cv.Call.Args[0], "CrypkiEndpoints", w, 0) != nil {
						bad = true
						c.Bad("R1.ctor", "NewSigner|dial target is the configured endpoint followed by ':' and the port", w.Pos(cv.Pos()), "net.JoinHostPort re-brackets a configured endpoint that contains a colon: a bracketed IPv6 endpoint is turned into an address that cannot be dialled and is skipped")
					}
				}
			}
			if !bad {
				c.Ok("R1.ctor", "NewSigner|dial target is the configured endpoint followed by ':' and the port", w.FnPos(ns), "no net.JoinHostPort over a configured endpoint")
			}
		}
		// the endpoint field of the signer is written only by the constructor
		if endpointField != "" {
			for _, a := range w.FieldAccesses(owner, endpointField) {
				if a.Kind == "write" || a.Kind == "addr" || a.Kind == "addrcall" {
					c.Check(a.Fn == ns, "R1.ctor", "writer of "+endpointField+" "+shortFn(a.Fn), w.Pos(a.Instr.Pos()), "written by the constructor only", "the endpoint list is modified outside the constructor")
				}
			}
		}
		// ... and so is every other field: a signing call leaves nothing behind in the signer (a remembered endpoint index, a
		// kept connection) that the next call would start from instead of the head of the configured list
		if st, ok := owner.Underlying().(*types.Struct); ok {
			nW := 0
			for i := 0; i < st.NumFields(); i++ {
				fld := st.Field(i).Name()
				if fld == endpointField {
					continue
				}
				for _, a := range w.FieldAccesses(owner, fld) {
					if a.Kind == "write" || a.Kind == "addr" || a.Kind == "addrcall" || a.Kind == "mapwrite" || a.Kind == "mapdelete" {
						ctorSide := a.Fn == ns || w.inTree(ns, a.Fn)
						if !ctorSide {
							nW++
						}
						c.Check(ctorSide, "R9.state", "writer of "+fld+" "+shortFn(a.Fn), w.Pos(a.Instr.Pos()), "written while the signer is constructed only", "the signer's field "+fld+" is written (or handed out by address) by "+shortFn(a.Fn)+": state kept from one signing call to the next")
					}
				}
			}
			if nW == 0 {
				c.Ok("R9.state", "Signer|fields written by the constructor only", w.FnPos(ns), itoa(st.NumFields())+" fields")
			}
		}
	} else {
		c.Unresolved("R1.ctor", "crypki.NewSigner")
	}

	if withBackoff {
		runC17Backoff(c)
	}
}

// findIndexOn searches the operands of v (depth-limited) for an IndexAddr whose base expression mentions name.
func findIndexOn(v ssa.Value, name string, w *World, d int) *ssa.IndexAddr {
	if d > 8 || v == nil {
		return nil
	}
	if ia, ok := v.(*ssa.IndexAddr); ok && strings.Contains(w.Expr(ia.X), name) {
		return ia
	}
	ins, ok := v.(ssa.Instruction)
	if !ok {
		return nil
	}
	for _, op := range ins.Operands(nil) {
		if op == nil || *op == nil {
			continue
		}
		// follow varargs arrays: slice of alloc -> stores into alloc elements
		if sl, ok := (*op).(*ssa.Slice); ok {
			if a, ok := sl.X.(*ssa.Alloc); ok {
				if refs := a.Referrers(); refs != nil {
					for _, r := range *refs {
						if ia, ok := r.(*ssa.IndexAddr); ok {
							if rr := ia.Referrers(); rr != nil {
								for _, u := range *rr {
									if st, ok := u.(*ssa.Store); ok {
										if res := findIndexOn(st.Val, name, w, d+1); res != nil {
											return res
										}
									}
								}
							}
						}
					}
				}
			}
		}
		if res := findIndexOn(*op, name, w, d+1); res != nil {
			return res
		}
	}
	return nil
}

func runC17Backoff(c *Ctx) {
	w := c.w
	bf := w.Method("internal/backoff", "Config", "Backoff")
	if bf == nil {
		c.Unresolved("R4.backoff", "(*backoff.Config).Backoff")
		return
	}
	c.Saw(bf)
	// every returned value that is not the base delay: convert(float) where the float is X * (jitter expr) and X's
	// backward slice passes through math.Min(·, float64(MaxDelay)) before any other arithmetic.
	nRet := 0
	for _, r := range liveReturns(bf) {
		for _, lf := range w.Leaves(r.Results[0], r) {
			ex := w.Expr(lf.Val)
			if ex == "p0.BaseDelay" {
				// attempt == 0 path
				zero := false
				for l := range lf.Facts {
					if bin, ok := l.V.(*ssa.BinOp); ok && bin.Op == token.EQL && l.Pol {
						if k, ok := intConst(bin.Y); ok && k == 0 && w.Expr(bin.X) == "p1" {
							zero = true
						}
					}
				}
				c.Check(zero, "R4.backoff", "Backoff|base delay only for attempt 0", w.Pos(r.Pos()), "BaseDelay returned under attempt == 0", "BaseDelay returned on a path where attempt == 0 is not known")
				continue
			}
			nRet++
			conv, ok := lf.Val.(*ssa.Convert)
			var mul *ssa.BinOp
			if ok {
				mul, _ = w.canon(bf, conv.X).(*ssa.BinOp)
			}
			if ok && mul == nil {
				// the clamped value itself, without jitter: within [0, max] whatever the jitter factor
				if cv, isCall := w.canon(bf, conv.X).(*ssa.Call); isCall && (calleeName(cv) == "math.Min" || calleeName(cv) == "builtin:min") && len(cv.Call.Args) == 2 {
					a0, a1 := w.Expr(cv.Call.Args[0]), w.Expr(cv.Call.Args[1])
					c.Check(strings.Contains(a1, "p0.MaxDelay") || strings.Contains(a0, "p0.MaxDelay"), "R4.backoff", "Backoff|unjittered return is the clamped value", w.Pos(r.Pos()), "math.Min(·, float64(MaxDelay)) returned as is", "a value returned without jitter is not clamped against the configured MaxDelay")
					continue
				}
			}
			if mul == nil || mul.Op != token.MUL {
				c.Und("R4.backoff", "Backoff|jittered value shape", w.Pos(r.Pos()), "returned value is not conv(duration)(clamped * jitter): "+w.Short(lf.Val))
				continue
			}
			// one operand is the math.Min call whose second operand is float64(bc.MaxDelay)
			var minCall *ssa.Call
			var other ssa.Value
			for i, op := range []ssa.Value{mul.X, mul.Y} {
				if cv, ok := w.canon(bf, op).(*ssa.Call); ok && (calleeName(cv) == "math.Min" || calleeName(cv) == "builtin:min" && len(cv.Call.Args) == 2) {
					minCall = cv
					other = []ssa.Value{mul.Y, mul.X}[i]
				}
			}
			if minCall == nil {
				c.Bad("R4.backoff", "Backoff|clamp applied last before jitter", w.Pos(r.Pos()), "the jittered product does not take math.Min(backoff, max) as an operand: the clamp is not the last step before jitter ("+w.Short(mul)+")")
				continue
			}
			a0, a1 := w.Expr(minCall.Call.Args[0]), w.Expr(minCall.Call.Args[1])
			hasMax := strings.Contains(a1, "p0.MaxDelay") || strings.Contains(a0, "p0.MaxDelay")
			c.Check(hasMax, "R4.backoff", "Backoff|clamp against MaxDelay", w.Pos(minCall.Pos()), "math.Min(·, float64(MaxDelay))", "math.Min does not clamp against the configured MaxDelay")
			grows := strings.Contains(a0, "math.Pow") || strings.Contains(a1, "math.Pow")
			c.Check(grows, "R4.backoff", "Backoff|exponential term inside the clamp", w.Pos(minCall.Pos()), "base*multiplier^attempt is what gets clamped", "the clamped value does not contain the exponential term (clamp applied before the exponent?)")
			// jitter factor: 1 + Jitter*(2r-1): contains p0.Jitter and constant 1, and no MaxDelay / Pow
			oe := w.Expr(other)
			// (the configured jitter itself: a package-level default standing in for a configured 0 widens the bound the
			// caller asked for)
			okJ := strings.Contains(oe, "p0.Jitter") && !strings.Contains(oe, "math.Pow") && !strings.Contains(oe, "MaxDelay") && !strings.Contains(oe, "global:")
			c.Check(okJ, "R4.backoff", "Backoff|jitter factor", w.Pos(mul.Pos()), "multiplied by 1 + Jitter*(2r-1) only", "what multiplies the clamped value is not the jitter factor: "+w.Short(other))
		}
	}
	c.Floor("R4.backoff", nRet, 1, "jittered return of Backoff")

	// default configuration table
	if p := w.ByPath[RepoMod+"/internal/backoff"]; p != nil {
		vals := evalStructVar(p, "DefaultConfig")
		if vals == nil {
			c.Unresolved("R4.backoff", "backoff.DefaultConfig literal")
		} else {
			base, max, mult, jit := vals["BaseDelay"], vals["MaxDelay"], vals["Multiplier"], vals["Jitter"]
			ok := base != nil && max != nil && mult != nil && jit != nil &&
				*base >= 0 && *base <= *max && *mult >= 1 && *jit >= 0 && *jit <= 1
			c.Check(ok, "R4.backoff", "DefaultConfig|0<=base<=max, multiplier>=1, 0<=jitter<=1", "-", "default configuration within the stated domain", "backoff.DefaultConfig is outside the domain for which the delay bound is stated")
		}
	}
	// wiring in NewSigner
	if ns := w.Func(crypkiPkg, "NewSigner"); ns != nil {
		maxOK, boOK := false, false
		w.Focus(ns)
		for _, call := range w.callsInDeep(ns) {
			switch {
			case strings.HasSuffix(calleeName(call), "/retry.WithMax"):
				maxOK = strings.Contains(w.Expr(call.Common().Args[0]), ".Retries")
			case strings.HasSuffix(calleeName(call), "/retry.WithBackoff"):
				if mc, ok := w.canon(ns, call.Common().Args[0]).(*ssa.MakeClosure); ok && len(mc.Bindings) == 1 {
					boOK = strings.Contains(fnName(mc.Fn.(*ssa.Function)), "internal/backoff.Config).Backoff") && strings.HasSuffix(w.Expr(mc.Bindings[0]), "internal/backoff.DefaultConfig")
				}
			}
		}
		c.Check(maxOK, "R4.backoff", "NewSigner|WithMax(conf.Retries)", w.FnPos(ns), "retry budget from the configuration", "the retry interceptor is not given conf.Retries")
		c.Check(boOK, "R4.backoff", "NewSigner|WithBackoff(DefaultConfig.Backoff)", w.FnPos(ns), "the repository's capped, jittered backoff is installed", "the retry interceptor does not use backoff.DefaultConfig.Backoff")
	}
	// the retry settings the constructor installs are usable whatever the configuration says: where the package puts
	// a default into a numeric setting, it does so for every value that is not positive (a negative per-try timeout
	// left in place makes every attempt's context expire at once: no endpoint is ever contacted)
	nDef := 0
	for _, fn := range w.FuncsOfPkg(crypkiPkg) {
		for _, b := range fn.Blocks {
			for _, ins := range b.Instrs {
				st, ok := ins.(*ssa.Store)
				if !ok {
					continue
				}
				fa, ok := st.Addr.(*ssa.FieldAddr)
				if !ok {
					continue
				}
				bt, isBasic := st.Val.Type().Underlying().(*types.Basic)
				if !isBasic || bt.Info()&types.IsInteger == 0 {
					continue
				}
				cv := throughCell(strip(st.Val))
				if _, isConst := cv.(*ssa.Const); !isConst {
					if ld, isLd := cv.(*ssa.UnOp); !isLd || ld.Op != token.MUL {
						continue
					} else if _, isG := ld.X.(*ssa.Global); !isG {
						continue
					}
				}
				// the guard: a comparison of the same field with a constant, on whose edge this store sits
				ff := w.factsOf(fn)
				var guard *ssa.BinOp
				pol := false
				for l := range ff.Primary(b) {
					bin, ok := l.V.(*ssa.BinOp)
					if !ok {
						continue
					}
					ld, ok := throughCell(strip(bin.X)).(*ssa.UnOp)
					if !ok || ld.Op != token.MUL {
						continue
					}
					fa2, ok := ld.X.(*ssa.FieldAddr)
					if !ok || fa2.Field != fa.Field || fa2.X != fa.X {
						continue
					}
					guard, pol = bin, l.Pol
				}
				if guard == nil {
					continue // not a default (a plain initialisation)
				}
				nDef++
				k, isK := intConst(guard.Y)
				op := guard.Op
				if !pol {
					op = negOp(op)
				}
				signed := bt.Info()&types.IsUnsigned == 0
				okG := isK && ((op == token.LEQ && k == 0) || (op == token.LSS && k == 1) || (!signed && op == token.EQL && k == 0))
				name := fieldName(fa.X.Type(), fa.Field)
				c.Check(okG, "R4.backoff", shortFn(fn)+"|default for "+name+" covers every non-positive value", w.Pos(st.Pos()), "the default is installed under "+name+" <= 0 (== 0 for an unsigned setting)", "the default for "+name+" is installed under ("+w.Short(guard)+")="+boolStr(pol)+" only: a negative configured value stays in place")
			}
		}
	}
	c.Floor("R4.backoff", nDef, 1, "defaults installed into numeric retry settings")
}

// cloneOfField: method h returns, on every path, its receiver's slice field F itself or a new slice of len(F)
// filled by copy(new, F); returns F ("" otherwise).
func cloneOfField(w *World, h *ssa.Function) string {
	if h == nil || h.Blocks == nil || h.Signature.Results().Len() != 1 {
		return ""
	}
	fieldOf := func(v ssa.Value) string {
		ex := w.ExprIn(h, v)
		if strings.HasPrefix(ex, "p0.") && !strings.ContainsAny(ex[3:], ".([") {
			return ex[3:]
		}
		return ""
	}
	out := ""
	for _, r := range liveReturns(h) {
		for _, lf := range w.leaves(r.Results[0], r, false) {
			v := throughCell(strip(lf.Val))
			fld := fieldOf(v)
			if ms, isMake := v.(*ssa.MakeSlice); isMake {
				la := lenArg(strip(ms.Len))
				if la == nil || fieldOf(la) == "" {
					return ""
				}
				fld = fieldOf(la)
				copied := false
				for _, call := range callsIn(h) {
					cv, ok := call.(*ssa.Call)
					if !ok {
						continue
					}
					if bi, isB := cv.Call.Value.(*ssa.Builtin); isB && bi.Name() == "copy" && len(cv.Call.Args) == 2 &&
						throughCell(strip(cv.Call.Args[0])) == ssa.Value(ms) && fieldOf(cv.Call.Args[1]) == fld && InstrDominates(cv, r) {
						copied = true
					}
				}
				if !copied {
					return ""
				}
			}
			if fld == "" || (out != "" && out != fld) {
				return ""
			}
			out = fld
		}
	}
	return out
}

// instrsOf: every instruction of fn, block by block.
func instrsOf(fn *ssa.Function) []ssa.Instruction {
	var out []ssa.Instruction
	for _, b := range fn.Blocks {
		out = append(out, b.Instrs...)
	}
	return out
}
