package main

import (
	"go/token"
	"strings"

	"golang.org/x/tools/go/ssa"
)

// searchCall: a standard-library search over a sequence with a predicate closure, slices.IndexFunc(seq, pred) or
// slices.ContainsFunc(seq, pred). "found" (index >= 0 / true) means pred held for the element at the index; "not found"
// means pred was called on every element in order and held for none.
type searchCall struct {
	call  *ssa.Call
	index bool // IndexFunc (result is an index) rather than ContainsFunc (result is a bool)
	seq   ssa.Value
	pred  *ssa.Function
	mc    *ssa.MakeClosure // nil when pred is a named function
}

// searchCallsIn lists the predicate searches made in fn.
func searchCallsIn(fn *ssa.Function) []searchCall {
	var out []searchCall
	for _, call := range callsIn(fn) {
		cv, ok := call.(*ssa.Call)
		if !ok || len(cv.Call.Args) != 2 {
			continue
		}
		name := calleeName(cv)
		isIdx := strings.HasPrefix(name, "slices.IndexFunc")
		if !isIdx && !strings.HasPrefix(name, "slices.ContainsFunc") {
			continue
		}
		sc := searchCall{call: cv, index: isIdx, seq: cv.Call.Args[0]}
		switch p := throughCell(strip(cv.Call.Args[1])).(type) {
		case *ssa.MakeClosure:
			sc.pred, _ = p.Fn.(*ssa.Function)
			sc.mc = p
		case *ssa.Function:
			sc.pred = p
		}
		if sc.pred == nil || len(sc.pred.Params) != 1 {
			continue
		}
		out = append(out, sc)
	}
	return out
}

// found interprets a literal as a statement about the outcome of the search: (found?, literal is about this search).
func (sc searchCall) found(l Lit) (bool, bool) {
	v := throughCell(strip(l.V))
	if !sc.index {
		if v == ssa.Value(sc.call) {
			return l.Pol, true
		}
		if u, ok := v.(*ssa.UnOp); ok && u.Op == token.NOT && throughCell(strip(u.X)) == ssa.Value(sc.call) {
			return !l.Pol, true
		}
		return false, false
	}
	bin, ok := v.(*ssa.BinOp)
	if !ok {
		return false, false
	}
	x, y, op := throughCell(strip(bin.X)), throughCell(strip(bin.Y)), bin.Op
	if y == ssa.Value(sc.call) {
		// constant on the left: mirror
		x, y = y, x
		switch op {
		case token.LSS:
			op = token.GTR
		case token.GTR:
			op = token.LSS
		case token.LEQ:
			op = token.GEQ
		case token.GEQ:
			op = token.LEQ
		}
	}
	if x != ssa.Value(sc.call) {
		return false, false
	}
	k, isK := intConst(y)
	if !isK {
		return false, false
	}
	var res bool
	switch {
	case op == token.GEQ && k == 0, op == token.GTR && k == -1, op == token.NEQ && k == -1:
		res = true
	case op == token.LSS && k == 0, op == token.LEQ && k == -1, op == token.EQL && k == -1:
		res = false
	default:
		return false, false
	}
	if !l.Pol {
		res = !res
	}
	return res, true
}

// binding returns the value bound to the predicate closure's free variable fv at the search (nil for a named predicate).
func (sc searchCall) binding(fv *ssa.FreeVar) ssa.Value {
	if sc.mc == nil {
		return nil
	}
	for i, f := range sc.pred.FreeVars {
		if f == fv && i < len(sc.mc.Bindings) {
			return sc.mc.Bindings[i]
		}
	}
	return nil
}

// dropInitialAtExit: v is a loop-carried phi in the header of a forward range loop over seq; the edges of v that
// enter the loop from outside are dropped when the facts on that edge exclude an empty seq (the first iteration then
// certainly runs, so at the loop's exit v holds a value assigned by an iteration). Returns the remaining (value,
// predecessor) pairs and whether anything was dropped.
func (w *World) dropInitialAtExit(fn *ssa.Function, f *Facts, v ssa.Value) (vals []ssa.Value, preds []*ssa.BasicBlock, dropped bool) {
	phi, ok := v.(*ssa.Phi)
	if !ok {
		return nil, nil, false
	}
	h := phi.Block()
	iff, ok := h.Instrs[len(h.Instrs)-1].(*ssa.If)
	if !ok {
		return nil, nil, false
	}
	cond, ok := iff.Cond.(*ssa.BinOp)
	if !ok || cond.Op != token.LSS || !isForwardRangeIndex(cond.X) {
		return nil, nil, false
	}
	seq := lenArg(cond.Y)
	if seq == nil {
		return nil, nil, false
	}
	// the index phi lives in the same header
	var iphi *ssa.Phi
	switch x := cond.X.(type) {
	case *ssa.Phi:
		iphi = x
	case *ssa.BinOp:
		iphi, _ = x.X.(*ssa.Phi)
	}
	if iphi == nil || iphi.Block() != h {
		return nil, nil, false
	}
	for i, e := range phi.Edges {
		p := h.Preds[i]
		_, initEdge := intConst(iphi.Edges[i])
		if initEdge {
			nonEmpty := false
			facts := copyFacts(f.At(p))
			for l := range facts {
				bin, ok := l.V.(*ssa.BinOp)
				if !ok {
					continue
				}
				la := lenArg(bin.X)
				k, isK := intConst(bin.Y)
				if la == nil || !isK || !(w.SameValue(fn, la, seq) || w.sameFieldRead(fn, la, seq)) {
					continue
				}
				switch {
				case bin.Op == token.EQL && k == 0 && !l.Pol, bin.Op == token.NEQ && k == 0 && l.Pol, bin.Op == token.GTR && k == 0 && l.Pol, bin.Op == token.GEQ && k == 1 && l.Pol, bin.Op == token.LSS && k == 1 && !l.Pol, bin.Op == token.LEQ && k == 0 && !l.Pol:
					nonEmpty = true
				}
			}
			if nonEmpty {
				dropped = true
				continue
			}
		}
		vals = append(vals, e)
		preds = append(preds, p)
	}
	return vals, preds, dropped
}

// sameFieldRead: a and b are two reads of the same field of the same object, and nothing on fn's tree writes that field.
func (w *World) sameFieldRead(fn *ssa.Function, a, b ssa.Value) bool {
	la, ok1 := throughCell(strip(a)).(*ssa.UnOp)
	lb, ok2 := throughCell(strip(b)).(*ssa.UnOp)
	if !ok1 || !ok2 || la.Op != token.MUL || lb.Op != token.MUL {
		return false
	}
	fa, ok1 := la.X.(*ssa.FieldAddr)
	fb, ok2 := lb.X.(*ssa.FieldAddr)
	if !ok1 || !ok2 || fa.Field != fb.Field || w.canon(fn, fa.X) != w.canon(fn, fb.X) {
		return false
	}
	for _, tf := range w.Tree(fn) {
		for _, blk := range tf.Blocks {
			for _, ins := range blk.Instrs {
				if st, ok := ins.(*ssa.Store); ok {
					if x, ok := st.Addr.(*ssa.FieldAddr); ok && x.Field == fa.Field && x.X.Type() == fa.X.Type() {
						return false
					}
				}
			}
		}
	}
	return true
}

// uncheckedScanners lists the bufio.Scanner values created on fn's tree whose Err method is never consulted: Scan
// stops without a word on a token longer than the buffer (64 KiB by default) and on a read error, so input read
// through such a scanner can be cut short silently.
func (w *World) uncheckedScanners(fn *ssa.Function) []*ssa.Call {
	var out []*ssa.Call
	for _, call := range w.callsToDeep(fn, "bufio.NewScanner") {
		cv, ok := call.(*ssa.Call)
		if !ok {
			continue
		}
		checked := false
		seen := map[ssa.Value]bool{}
		var follow func(v ssa.Value, d int)
		follow = func(v ssa.Value, d int) {
			if d > 6 || seen[v] || v.Referrers() == nil {
				return
			}
			seen[v] = true
			for _, r := range *v.Referrers() {
				switch u := r.(type) {
				case *ssa.Call:
					if calleeName(u) == "(*bufio.Scanner).Err" {
						if refs := u.Referrers(); refs != nil && len(*refs) > 0 {
							checked = true
						}
					} else if callee := u.Call.StaticCallee(); callee != nil && w.InRepo(callee) && callee.Blocks != nil {
						for i, a := range u.Call.Args {
							if a == v && i < len(callee.Params) {
								follow(callee.Params[i], d+1)
							}
						}
					}
				case *ssa.Store:
					if u.Val == v {
						if al, ok := u.Addr.(*ssa.Alloc); ok {
							for _, ld := range *al.Referrers() {
								if lo, ok := ld.(*ssa.UnOp); ok && lo.Op == token.MUL {
									follow(lo, d+1)
								}
							}
						}
					}
				case *ssa.Phi:
					follow(u, d+1)
				case *ssa.MakeClosure:
					for i, b := range u.Bindings {
						if b == v {
							if cf, ok := u.Fn.(*ssa.Function); ok && i < len(cf.FreeVars) {
								follow(cf.FreeVars[i], d+1)
							}
						}
					}
				}
			}
		}
		follow(cv, 0)
		if !checked {
			out = append(out, cv)
		}
	}
	return out
}

// scannerRule: nothing on fn's tree reads its input through a scanner that can stop early without an error.
func scannerRule(c *Ctx, rule string, fn *ssa.Function, what string) {
	w := c.w
	bad := w.uncheckedScanners(fn)
	for _, cv := range bad {
		c.Bad(rule, shortFn(fn)+"|"+what+" read to the end or refused", w.Pos(cv.Pos()), "the input is read through a bufio.Scanner whose Err is never consulted: a line longer than the scanner's buffer (64 KiB) ends the loop as if the input were finished, and what follows is dropped while the call succeeds")
	}
	if len(bad) == 0 {
		c.Ok(rule, shortFn(fn)+"|"+what+" read to the end or refused", w.FnPos(fn), "no scanner whose early stop goes unnoticed")
	}
}
