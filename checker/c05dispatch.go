package main

import (
	"go/constant"
	"go/token"
	"go/types"
	"sort"

	"golang.org/x/tools/go/ssa"
)

// The version dispatcher: instead of a table version -> checker the package may have ONE function over a *KeyID
// (a method or a plain function returning error) that switches on the KeyID's Version, runs the consistency checks
// of that version and fails for every other version. Marshal and Unmarshal then gate on its result.

// keyidDispatcher returns that function and the versions it handles (the constants its tests of p0.Version name).
func (w *World) keyidDispatcher() (*ssa.Function, []int64) {
	kid := w.NamedType(keyidPkg, "KeyID")
	if kid == nil {
		return nil, nil
	}
	var best *ssa.Function
	var bestVers []int64
	for _, fn := range w.FuncsOfPkg(keyidPkg) {
		if fn.Parent() != nil || len(fn.Params) != 1 || fn.Signature.Results().Len() != 1 || !isErrorType(fn.Signature.Results().At(0).Type()) {
			continue
		}
		pt, ok := fn.Params[0].Type().(*types.Pointer)
		if !ok || !types.Identical(pt.Elem(), kid) {
			continue
		}
		vers := map[int64]bool{}
		for _, b := range fn.Blocks {
			for _, ins := range b.Instrs {
				bin, ok := ins.(*ssa.BinOp)
				if !ok || bin.Op != token.EQL {
					continue
				}
				for _, pair := range [][2]ssa.Value{{bin.X, bin.Y}, {bin.Y, bin.X}} {
					k, isK := intConst(pair[1])
					if !isK {
						continue
					}
					ld, isLd := strip(pair[0]).(*ssa.UnOp)
					if !isLd || ld.Op != token.MUL {
						continue
					}
					fa, isFA := ld.X.(*ssa.FieldAddr)
					if isFA && fa.X == ssa.Value(fn.Params[0]) && fieldName(fa.X.Type(), fa.Field) == "Version" {
						vers[k] = true
					}
				}
			}
		}
		if len(vers) == 0 {
			continue
		}
		// the codec consults it: called (statically) from both Marshal and Unmarshal trees
		mar, unm := w.Method(keyidPkg, "KeyID", "Marshal"), w.Func(keyidPkg, "Unmarshal")
		if mar == nil || unm == nil || len(w.sitesIn(mar, fn)) == 0 || len(w.sitesIn(unm, fn)) == 0 {
			continue
		}
		if best != nil {
			return nil, nil // ambiguous
		}
		best = fn
		for v := range vers {
			bestVers = append(bestVers, v)
		}
	}
	sort.Slice(bestVers, func(i, j int) bool { return bestVers[i] < bestVers[j] })
	return best, bestVers
}

// dispatcherAsTable presents the dispatcher as the version -> checker table the table rules compare with the
// required-key table.
func (w *World) dispatcherAsTable() *finiteMap {
	d, vers := w.keyidDispatcher()
	if d == nil {
		return nil
	}
	m := &finiteMap{Name: d.Name(), Pos: d.Pos(), Fn: d, Frozen: true}
	for _, v := range vers {
		m.Entries = append(m.Entries, fmEntry{Key: constant.MakeInt64(v), Vals: []ssa.Value{d}, Pos: d.Pos()})
	}
	return m
}

// dispatcherPassed: the literals say that the dispatcher accepted the KeyID `subject` (a call of it on that value
// returned nil).
func (w *World) dispatcherPassed(root *ssa.Function, facts *Facts, b *ssa.BasicBlock, subject ssa.Value) bool {
	d, _ := w.keyidDispatcher()
	if d == nil {
		return false
	}
	for _, site := range w.sitesIn(root, d) {
		cv, ok := site.(*ssa.Call)
		if !ok || len(cv.Call.Args) != 1 || w.canon(root, cv.Call.Args[0]) != w.canon(root, subject) {
			continue
		}
		if isNil, known := facts.KnownNil(b, cv); known && isNil {
			return true
		}
	}
	return false
}
