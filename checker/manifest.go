package main

import (
	"encoding/json"
	"fmt"
	"os"
	"sort"
	"strings"
)

// notApplicable: properties (or the part of them) that no registered check claims, with the reason.
// A property that has a registered check is never listed here.
var notApplicable = map[string]string{}

func init() {
	for i := 1; i <= 20; i++ {
		id := fmt.Sprintf("C%02d", i)
		notApplicable[id] = "no static rule set for this property is registered in this revision of /verif (see DESIGN.md section 3 for the clauses planned); nothing is claimed"
	}
}

const baselineOff = `cd /repo && GOFLAGS=-mod=mod GOPROXY=off GOSUMDB=off go test -json -vet=off -count=1 -timeout 25m ./...`

func cmdManifest() int {
	ids := []string{}
	for id := range registry {
		ids = append(ids, id)
	}
	sort.Strings(ids)
	var checks []map[string]interface{}
	var engines []map[string]interface{}
	for _, id := range ids {
		p := registry[id]
		checks = append(checks, map[string]interface{}{
			"property_id":         id,
			"quick_cmd":           "./run.sh check " + id + " quick",
			"thorough_cmd":        "./run.sh check " + id + " thorough",
			"evidence_file":       "/verif/evidence/" + id + ".json",
			"replay_cmd_template": "./run.sh explain --replay {path}",
			"engine":              "yverif",
			"level_claimed": map[string]interface{}{
				"category":   "other",
				"text":       p.Meta.Level,
				"design_ref": "DESIGN.md section 3, " + id,
			},
			"level_note": strings.Join(p.Meta.Assumptions, "; "),
			"technique":  p.Meta.Technique,
		})
	}
	engines = append(engines, map[string]interface{}{
		"name":              "yverif",
		"path":              "/verif/checker",
		"serves_properties": ids,
		"kind_free_text":    "repository-specific static analyser (go/packages + go/types + go/ssa + VTA call graph): must-fact dataflow over branch conditions, value-flow/origin expressions, lock-state dataflow with interprocedural summaries, panic-obligation discharge, constant-table extraction and comparison, decision-table extraction from loop-free CFG regions. Executes no repository code.",
	})
	var na []map[string]interface{}
	var naIDs []string
	for id := range notApplicable {
		if registry[id] == nil {
			naIDs = append(naIDs, id)
		}
	}
	sort.Strings(naIDs)
	for _, id := range naIDs {
		na = append(na, map[string]interface{}{"property_id": id, "reason": notApplicable[id]})
	}
	m := map[string]interface{}{
		"version":   1,
		"setup_cmd": "./run.sh setup",
		"hooks": map[string]interface{}{
			"guard":            "verif",
			"enable":           "no source hooks are needed: the checks read /repo's sources and never build or run them with instrumentation (the build tag 'verif' is reserved and unused)",
			"baseline_off_cmd": baselineOff,
			"source_commits":   []string{},
			"add_only":         true,
		},
		"engines":        engines,
		"checks":         checks,
		"not_applicable": na,
		"notes":          "Technique family: static analysis only. Every check is `./run.sh check <ID> <tier>`; it rebuilds the checker if needed, loads /repo's current working tree with go/packages, and decides the property's structural clauses (DESIGN.md). Undecided obligations and unresolved anchors fail like violations; infrastructure failures exit 2. Known findings: /verif/known_findings.json.",
	}
	if checks == nil {
		m["checks"] = []interface{}{}
	}
	if na == nil {
		m["not_applicable"] = []interface{}{}
	}
	b, _ := json.MarshalIndent(m, "", " ")
	os.Stdout.Write(append(b, '\n'))
	return 0
}
