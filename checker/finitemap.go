package main

import (
	"go/constant"
	"go/token"
	"go/types"
	"sort"
	"strings"

	"golang.org/x/tools/go/ssa"
)

// Finite maps. A table of the repository ("version -> required keys", "name -> algorithm", "kind -> text") can be
// written as a package-level map literal looked up with the comma-ok form, or as a function that switches on its
// parameter and returns (value, found) / value. The rules that compare such tables with a reference or with each
// other only need the function from constant keys to values, so both representations are read into one form:
// entries (constant key -> result values) plus what any other key yields, and the sites where it is consulted.

type fmEntry struct {
	Key  constant.Value
	Vals []ssa.Value // result values for that key (map: the element; function: all results)
	Pos  token.Pos
}

type fmLookup struct {
	Instr ssa.Instruction
	Index ssa.Value
	Val   ssa.Value // the looked-up value (nil when unused)
	OK    ssa.Value // the found flag (nil when the lookup is not of the comma-ok / two-result form)
}

type finiteMap struct {
	Name    string
	Pos     token.Pos
	Global  *ssa.Global   // representation (a): package-level map
	Fn      *ssa.Function // representation (b): switch function
	Entries []fmEntry
	// OtherOK: for the function form, the results for a key that is none of the compared constants (nil if that
	// could not be evaluated); the map form yields the zero value and found=false by language semantics.
	Other  []ssa.Value
	Frozen bool // map form: never written outside the package initialiser
	// Lowered: function form only - the function compares strings.ToLower(parameter), i.e. the lookup is
	// case-insensitive by construction and the keys are the lower-case spellings
	Lowered bool
	// Proj: map form whose element is a struct; this finite map is the projection on field number Field
	Proj  bool
	Field int
}

func (m *finiteMap) entry(k constant.Value) *fmEntry {
	for i := range m.Entries {
		if constant.Compare(m.Entries[i].Key, token.EQL, k) {
			return &m.Entries[i]
		}
	}
	return nil
}

// evalParamFunc runs fn (one parameter of basic type) on the constant key k, or - other=true - on a key equal to
// none of the constants fn compares its parameter with. Only branches on `param ==/!= const`, jumps and phis are
// interpreted; the result values of the return reached are returned (phis resolved by the edge taken).
func evalParamFunc(fn *ssa.Function, k constant.Value, other bool) ([]ssa.Value, bool) {
	return evalParamFuncW(nil, fn, k, other)
}

// evalParamFuncW additionally interprets comma-ok lookups of the parameter in a package-level map literal that is
// never modified (w != nil): the found flag is decided from the literal's keys, and a returned looked-up value is
// replaced by the literal's element (nil stands for the zero value of a missing key).
func evalParamFuncW(w *World, fn *ssa.Function, k constant.Value, other bool) ([]ssa.Value, bool) {
	if fn == nil || len(fn.Blocks) == 0 || len(fn.Params) != 1 {
		return nil, false
	}
	param := ssa.Value(fn.Params[0])
	// a thin delegation (`return policy.Valid()`): the function that does the deciding
	if h := thinDelegate1(w, fn); h != nil {
		return evalParamFuncW(w, h, k, other)
	}
	// lookupEntry: v is (an extract of) a lookup of the parameter in a frozen map literal
	lookupEntry := func(v ssa.Value) (val ssa.Value, found, ok bool) {
		if w == nil {
			return nil, false, false
		}
		var lk *ssa.Lookup
		switch x := v.(type) {
		case *ssa.Lookup:
			lk = x
		case *ssa.Extract:
			lk, _ = x.Tuple.(*ssa.Lookup)
		}
		if lk == nil || !isParamView(lk.Index, param) {
			return nil, false, false
		}
		ld, isLd := lk.X.(*ssa.UnOp)
		if !isLd {
			return nil, false, false
		}
		g, isG := ld.X.(*ssa.Global)
		if !isG || !w.globalFrozen(g) {
			return nil, false, false
		}
		entries, okE := w.mapLiteralEntries(g)
		if !okE {
			return nil, false, false
		}
		if !other && k != nil {
			for _, e := range entries {
				if e.Key.Kind() == k.Kind() && constant.Compare(e.Key, token.EQL, k) {
					return e.Vals[0], true, true
				}
			}
		}
		return nil, false, true
	}
	constOf := func(v ssa.Value) (constant.Value, bool) {
		c, ok := strip(v).(*ssa.Const)
		if !ok || c.Value == nil {
			return nil, false
		}
		return c.Value, true
	}
	// numeric view of the key: the constant, or - for "none of the constants" - a value above every index and constant
	// the function mentions
	keyNum := func() (int64, bool) {
		if other || k == nil {
			return 1 << 40, true
		}
		if k.Kind() != constant.Int {
			return 0, false
		}
		n, exact := constant.Int64Val(k)
		return n, exact
	}
	isParamNum := func(v ssa.Value) bool {
		for i := 0; i < 3; i++ {
			v = throughCell(strip(v))
			if v == param {
				return true
			}
			cv, ok := v.(*ssa.Convert)
			if !ok {
				return false
			}
			v = cv.X
		}
		return false
	}
	// arrayElem: v is table[param] with table a package-level array literal that is never written: the element for the
	// key (nil: the zero value), and whether the key is inside the array
	arrayElem := func(v ssa.Value) (elem ssa.Value, inRange, ok bool) {
		ld, isLd := throughCell(strip(v)).(*ssa.UnOp)
		if w == nil || !isLd || ld.Op != token.MUL {
			return nil, false, false
		}
		ia, isIA := ld.X.(*ssa.IndexAddr)
		if !isIA || !isParamNum(ia.Index) {
			return nil, false, false
		}
		g, isG := ia.X.(*ssa.Global)
		if !isG {
			return nil, false, false
		}
		entries, n, okE := w.arrayLiteralEntries(g)
		if !okE {
			return nil, false, false
		}
		kn, okN := keyNum()
		if !okN {
			return nil, false, false
		}
		if kn < 0 || kn >= n {
			return nil, false, true
		}
		return entries[kn], true, true
	}
	numOf := func(v ssa.Value) (int64, bool) {
		if isParamNum(v) {
			return keyNum()
		}
		if n, ok := intConst(v); ok {
			return n, true
		}
		if la := lenArg(throughCell(strip(v))); la != nil && w != nil {
			if ld, isLd := throughCell(strip(la)).(*ssa.UnOp); isLd {
				if g, isG := ld.X.(*ssa.Global); isG {
					if _, n, ok := w.arrayLiteralEntries(g); ok {
						return n, true
					}
				}
			}
			if g, isG := la.(*ssa.Global); isG {
				if _, n, ok := w.arrayLiteralEntries(g); ok {
					return n, true
				}
			}
		}
		return 0, false
	}
	var evalCond func(v ssa.Value, depth int) (bool, bool)
	evalCond = func(v ssa.Value, depth int) (bool, bool) {
		if depth > 8 {
			return false, false
		}
		switch x := v.(type) {
		case *ssa.Const:
			return boolConst(x)
		case *ssa.Extract:
			if x.Index == 1 {
				if _, found, ok := lookupEntry(x); ok {
					return found, true
				}
			}
		case *ssa.UnOp:
			if x.Op == token.NOT {
				b, ok := evalCond(x.X, depth+1)
				return !b, ok
			}
		case *ssa.BinOp:
			switch x.Op {
			case token.LSS, token.LEQ, token.GTR, token.GEQ:
				// the key as a number against a constant or the length of a frozen table
				a, okA := numOf(x.X)
				b, okB := numOf(x.Y)
				if !okA || !okB || (!isParamNum(x.X) && !isParamNum(x.Y)) {
					return false, false
				}
				switch x.Op {
				case token.LSS:
					return a < b, true
				case token.LEQ:
					return a <= b, true
				case token.GTR:
					return a > b, true
				}
				return a >= b, true
			}
			if x.Op != token.EQL && x.Op != token.NEQ {
				return false, false
			}
			// table[key] compared with a constant
			for _, pair := range [][2]ssa.Value{{x.X, x.Y}, {x.Y, x.X}} {
				if elem, inRange, ok := arrayElem(pair[0]); ok && inRange {
					kc, isK := constOf(pair[1])
					if !isK {
						return false, false
					}
					var ev constant.Value = constant.MakeString("")
					if elem != nil {
						ec, isC := constOf(elem)
						if !isC {
							return false, false
						}
						ev = ec
					} else if kc.Kind() != constant.String {
						return false, false
					}
					eq := ev.Kind() == kc.Kind() && constant.Compare(ev, token.EQL, kc)
					if x.Op == token.NEQ {
						return !eq, true
					}
					return eq, true
				}
			}
			a, b := x.X, x.Y
			if isParamView(b, param) {
				a, b = b, a
			}
			if !isParamView(a, param) {
				return false, false
			}
			kc, isK := constOf(b)
			if !isK {
				return false, false
			}
			eq := !other && k != nil && kc.Kind() == k.Kind() && constant.Compare(kc, token.EQL, k)
			if x.Op == token.NEQ {
				return !eq, true
			}
			return eq, true
		}
		return false, false
	}
	var prev *ssa.BasicBlock
	b := fn.Blocks[0]
	for steps := 0; steps < 400; steps++ {
		switch t := b.Instrs[len(b.Instrs)-1].(type) {
		case *ssa.Return:
			out := make([]ssa.Value, len(t.Results))
			for i, rv := range t.Results {
				for hop := 0; hop < 4; hop++ {
					phi, isPhi := rv.(*ssa.Phi)
					if !isPhi || phi.Block() != b || prev == nil {
						break
					}
					found := false
					for j, p := range b.Preds {
						if p == prev {
							rv, found = phi.Edges[j], true
						}
					}
					if !found {
						return nil, false
					}
				}
				if ex, isEx := rv.(*ssa.Extract); isEx && ex.Index == 0 {
					if val, _, ok := lookupEntry(ex); ok {
						rv = val
					}
				} else if lk, isLk := rv.(*ssa.Lookup); isLk && !lk.CommaOk {
					if val, _, ok := lookupEntry(lk); ok {
						rv = val
					}
				} else if elem, inRange, ok := arrayElem(rv); ok && inRange {
					rv = elem
				}
				out[i] = rv
			}
			return out, true
		case *ssa.If:
			cond := t.Cond
			if phi, isPhi := cond.(*ssa.Phi); isPhi && phi.Block() == b && prev != nil {
				for j, p := range b.Preds {
					if p == prev {
						cond = phi.Edges[j]
					}
				}
			}
			v, ok := evalCond(cond, 0)
			if !ok {
				return nil, false
			}
			prev = b
			if v {
				b = b.Succs[0]
			} else {
				b = b.Succs[1]
			}
		case *ssa.Jump:
			prev = b
			b = b.Succs[0]
		default:
			return nil, false
		}
	}
	return nil, false
}

// isParamView: v is the parameter itself or strings.ToLower(parameter).
func isParamView(v, param ssa.Value) bool {
	v = throughCell(strip(v))
	if v == param {
		return true
	}
	if call, ok := v.(*ssa.Call); ok && calleeName(call) == "strings.ToLower" && len(call.Call.Args) == 1 {
		return throughCell(strip(call.Call.Args[0])) == param
	}
	return false
}

// lowersParam: fn compares strings.ToLower(parameter) with constants.
func lowersParam(fn *ssa.Function) bool {
	if len(fn.Params) != 1 {
		return false
	}
	param := ssa.Value(fn.Params[0])
	for _, b := range fn.Blocks {
		for _, ins := range b.Instrs {
			if bin, ok := ins.(*ssa.BinOp); ok && (bin.Op == token.EQL || bin.Op == token.NEQ) {
				for _, s := range []ssa.Value{bin.X, bin.Y} {
					if throughCell(strip(s)) != param && isParamView(s, param) {
						return true
					}
				}
			}
		}
	}
	return false
}

// comparedConsts: the constants fn's parameter is compared with (== / !=), sorted.
func comparedConsts(fn *ssa.Function) []constant.Value {
	if len(fn.Params) != 1 {
		return nil
	}
	param := ssa.Value(fn.Params[0])
	var out []constant.Value
	seen := map[string]bool{}
	for _, b := range fn.Blocks {
		for _, ins := range b.Instrs {
			bin, ok := ins.(*ssa.BinOp)
			if !ok || (bin.Op != token.EQL && bin.Op != token.NEQ) {
				continue
			}
			for _, pr := range [][2]ssa.Value{{bin.X, bin.Y}, {bin.Y, bin.X}} {
				if !isParamView(pr[0], param) {
					continue
				}
				if c, ok := strip(pr[1]).(*ssa.Const); ok && c.Value != nil && !seen[c.Value.ExactString()] {
					seen[c.Value.ExactString()] = true
					out = append(out, c.Value)
				}
			}
		}
	}
	sort.Slice(out, func(i, j int) bool { return out[i].ExactString() < out[j].ExactString() })
	return out
}

// mapLiteralEntries: the constant-keyed entries the package initialiser puts into the map stored into global g.
func (w *World) mapLiteralEntries(g *ssa.Global) ([]fmEntry, bool) {
	if g.Pkg == nil {
		return nil, false
	}
	init := g.Pkg.Func("init")
	if init == nil {
		return nil, false
	}
	var mk ssa.Value
	n := 0
	for _, b := range init.Blocks {
		for _, ins := range b.Instrs {
			if st, ok := ins.(*ssa.Store); ok && st.Addr == ssa.Value(g) {
				mk = st.Val
				n++
			}
		}
	}
	if n != 1 || mk == nil {
		return nil, false
	}
	if _, ok := mk.(*ssa.MakeMap); !ok {
		return nil, false
	}
	var out []fmEntry
	for _, b := range init.Blocks {
		for _, ins := range b.Instrs {
			mu, ok := ins.(*ssa.MapUpdate)
			if !ok || mu.Map != mk {
				continue
			}
			kc, ok := strip(mu.Key).(*ssa.Const)
			if !ok || kc.Value == nil {
				return nil, false
			}
			out = append(out, fmEntry{Key: kc.Value, Vals: []ssa.Value{mu.Value}, Pos: mu.Pos()})
		}
	}
	return out, true
}

// globalFrozen: the map stored in g is not modified outside the package initialiser (no map update / delete on a
// load of g, g itself not reassigned, its address not taken).
func (w *World) globalFrozen(g *ssa.Global) bool {
	for _, fn := range w.repoFns {
		for _, b := range fn.Blocks {
			for _, ins := range b.Instrs {
				switch x := ins.(type) {
				case *ssa.Store:
					if x.Addr == ssa.Value(g) && fn.Name() != "init" && !strings.HasPrefix(fn.Name(), "init#") {
						return false
					}
					if x.Val == ssa.Value(g) {
						return false
					}
				case *ssa.MapUpdate:
					if ld, ok := x.Map.(*ssa.UnOp); ok && ld.X == ssa.Value(g) {
						return false
					}
				case ssa.CallInstruction:
					if bi, ok := x.Common().Value.(*ssa.Builtin); ok && (bi.Name() == "delete" || bi.Name() == "clear") {
						if ld, ok := x.Common().Args[0].(*ssa.UnOp); ok && ld.X == ssa.Value(g) {
							return false
						}
					}
					for _, a := range x.Common().Args {
						if a == ssa.Value(g) {
							return false
						}
					}
				}
			}
		}
	}
	return true
}

// finiteMaps: the tables of package pkg whose key type satisfies keyOK and whose value type satisfies elemOK, in
// either representation.
func (w *World) finiteMaps(pkg string, keyOK, elemOK func(types.Type) bool) []*finiteMap {
	sp := w.Pkg(pkg)
	if sp == nil {
		return nil
	}
	var out []*finiteMap
	var names []string
	for n := range sp.Members {
		names = append(names, n)
	}
	sort.Strings(names)
	for _, n := range names {
		switch mem := sp.Members[n].(type) {
		case *ssa.Global:
			mt, ok := mem.Type().(*types.Pointer).Elem().Underlying().(*types.Map)
			if !ok || !keyOK(mt.Key()) {
				continue
			}
			if st, isStruct := mt.Elem().Underlying().(*types.Struct); isStruct && !elemOK(mt.Elem()) {
				// one table of records: its projection on each field of the wanted type
				entries, ok := w.mapLiteralEntries(mem)
				if !ok {
					continue
				}
				for fi := 0; fi < st.NumFields(); fi++ {
					if !elemOK(st.Field(fi).Type()) {
						continue
					}
					var proj []fmEntry
					okAll := true
					for _, e := range entries {
						ld, isLd := e.Vals[0].(*ssa.UnOp)
						if !isLd || ld.Op != token.MUL {
							okAll = false
							break
						}
						a, isAlloc := ld.X.(*ssa.Alloc)
						if !isAlloc {
							okAll = false
							break
						}
						vs := FieldStores(a.Parent(), a)[st.Field(fi).Name()]
						if len(vs) != 1 {
							okAll = false
							break
						}
						proj = append(proj, fmEntry{Key: e.Key, Vals: []ssa.Value{vs[0]}, Pos: e.Pos})
					}
					if okAll {
						out = append(out, &finiteMap{Name: mem.Name() + "." + st.Field(fi).Name(), Pos: mem.Pos(), Global: mem, Entries: proj, Frozen: w.globalFrozen(mem), Proj: true, Field: fi})
					}
				}
				continue
			}
			if !elemOK(mt.Elem()) {
				continue
			}
			entries, ok := w.mapLiteralEntries(mem)
			if !ok {
				continue
			}
			out = append(out, &finiteMap{Name: mem.Name(), Pos: mem.Pos(), Global: mem, Entries: entries, Frozen: w.globalFrozen(mem)})
		case *ssa.Function:
			sig := mem.Signature
			if sig.Recv() != nil || sig.Params().Len() != 1 || !keyOK(sig.Params().At(0).Type()) || mem.Blocks == nil {
				continue
			}
			if !(sig.Results().Len() == 2 && elemOK(sig.Results().At(0).Type()) && isBoolType(sig.Results().At(1).Type())) &&
				!(sig.Results().Len() == 1 && elemOK(sig.Results().At(0).Type())) {
				continue
			}
			ks := comparedConsts(mem)
			if len(ks) == 0 {
				continue
			}
			fm := &finiteMap{Name: mem.Name(), Pos: mem.Pos(), Fn: mem, Frozen: true, Lowered: lowersParam(mem)}
			okAll := true
			for _, k := range ks {
				res, ok := evalParamFunc(mem, k, false)
				if !ok {
					okAll = false
					break
				}
				// two-result form: only keys reported as found are entries
				if len(res) == 2 {
					if found, isK := boolConst(res[1]); isK && !found {
						continue
					}
				}
				fm.Entries = append(fm.Entries, fmEntry{Key: k, Vals: res, Pos: mem.Pos()})
			}
			if !okAll {
				continue
			}
			fm.Other, _ = evalParamFunc(mem, nil, true)
			out = append(out, fm)
		}
	}
	return out
}

func isBoolType(t types.Type) bool {
	b, ok := t.Underlying().(*types.Basic)
	return ok && b.Kind() == types.Bool
}

// lookups: the sites in repository code where the finite map is consulted.
func (w *World) fmLookups(m *finiteMap) []fmLookup {
	var out []fmLookup
	for _, fn := range w.repoFns {
		for _, b := range fn.Blocks {
			for _, ins := range b.Instrs {
				switch x := ins.(type) {
				case *ssa.Lookup:
					if m.Global == nil {
						continue
					}
					if ld, ok := x.X.(*ssa.UnOp); ok && ld.X == ssa.Value(m.Global) {
						l := fmLookup{Instr: x, Index: x.Index}
						if x.CommaOk {
							l.Val, l.OK = extractOfV(x, 0), extractOfV(x, 1)
						} else {
							l.Val = x
						}
						if m.Proj {
							// one lookup per read of the projected field of the record found
							rec := l.Val
							l.Val = nil
							n := 0
							for _, rd := range w.projReads(rec, m.Field, 0, map[ssa.Value]bool{}) {
								lf := l
								lf.Val = rd
								out = append(out, lf)
								n++
							}
							if n > 0 {
								continue
							}
						}
						out = append(out, l)
					}
				case *ssa.Call:
					if m.Fn == nil || x.Call.StaticCallee() != m.Fn || len(x.Call.Args) != 1 {
						continue
					}
					l := fmLookup{Instr: x, Index: x.Call.Args[0]}
					if m.Fn.Signature.Results().Len() == 2 {
						l.Val, l.OK = extractOf(x, 0), extractOf(x, 1)
					} else {
						l.Val = x
					}
					out = append(out, l)
				}
			}
		}
	}
	return out
}

// fmLookupOf: v is the value or the found flag of a lookup in m; returns that lookup.
func (w *World) fmLookupOf(m *finiteMap, v ssa.Value) *fmLookup {
	for hop := 0; hop < 3 && v != nil; hop++ {
		v = throughCell(strip(v))
		for _, l := range w.fmLookups(m) {
			if (l.OK != nil && l.OK == v) || (l.Val != nil && l.Val == v) {
				ll := l
				return &ll
			}
		}
		// handed back by a lookup helper (entry, error): what it returns on success
		_, h, idx := w.asCallResult(v)
		if h == nil || !w.transparent(h) || errorResultIndex(h) == idx {
			return nil
		}
		v = w.successValue(h, idx)
	}
	return nil
}

// stringList: the constant strings of a []string value: a literal, a package-level variable initialised with one
// (and not modified), or nil.
func (w *World) stringList(v ssa.Value, depth int) ([]string, bool) {
	if depth > 3 {
		return nil, false
	}
	v = strip(v)
	switch x := v.(type) {
	case *ssa.Const:
		if x.Value == nil {
			return nil, true
		}
	case *ssa.Slice:
		if arr, ok := x.X.(*ssa.Alloc); ok && x.Low == nil && x.High == nil {
			var out []string
			for _, e := range storesIntoOrdered(arr) {
				s, ok := strConst(e)
				if !ok {
					return nil, false
				}
				out = append(out, s)
			}
			return out, true
		}
	case *ssa.UnOp:
		if g, ok := x.X.(*ssa.Global); ok && x.Op == token.MUL && g.Pkg != nil && w.globalFrozen(g) {
			if init := g.Pkg.Func("init"); init != nil {
				var val ssa.Value
				n := 0
				for _, b := range init.Blocks {
					for _, ins := range b.Instrs {
						if st, ok := ins.(*ssa.Store); ok && st.Addr == ssa.Value(g) {
							val = st.Val
							n++
						}
					}
				}
				if n == 1 {
					return w.stringList(val, depth+1)
				}
			}
		}
	}
	return nil, false
}

// funcValue: the function a func-typed value denotes (a function, or a closure without captured state).
func funcValue(v ssa.Value) *ssa.Function {
	switch x := strip(v).(type) {
	case *ssa.Function:
		return x
	case *ssa.MakeClosure:
		f, _ := x.Fn.(*ssa.Function)
		return f
	}
	return nil
}

// recordFieldLoads: local a holds the record written by its only store st and is otherwise only read field by
// field; returns the loads of field number field.
func recordFieldLoads(a *ssa.Alloc, st *ssa.Store, field int) []ssa.Value {
	refs := a.Referrers()
	if refs == nil {
		return nil
	}
	var out []ssa.Value
	for _, r := range *refs {
		switch x := r.(type) {
		case *ssa.Store:
			if x != st {
				return nil
			}
		case *ssa.DebugRef:
		case *ssa.UnOp:
			if x.Op != token.MUL {
				return nil
			}
			// a whole copy of the record (handed to a function): followed by the caller
		case *ssa.FieldAddr:
			fr := x.Referrers()
			if fr == nil {
				continue
			}
			for _, u := range *fr {
				ld, isLoad := u.(*ssa.UnOp)
				if _, isDbg := u.(*ssa.DebugRef); isDbg {
					continue
				}
				if !isLoad || ld.Op != token.MUL {
					return nil
				}
				if x.Field == field {
					out = append(out, ld)
				}
			}
		default:
			return nil
		}
	}
	return out
}

// projReads: the reads of field number field of the record value rec - directly, through a local variable that holds
// it, at the call sites of the function that returns it, and inside the repository functions it is handed to.
func (w *World) projReads(rec ssa.Value, field int, depth int, seen map[ssa.Value]bool) []ssa.Value {
	if rec == nil || depth > 4 || seen[rec] {
		return nil
	}
	seen[rec] = true
	refs := rec.Referrers()
	if refs == nil {
		return nil
	}
	var out []ssa.Value
	for _, r := range *refs {
		switch x := r.(type) {
		case *ssa.Field:
			if x.Field == field {
				out = append(out, x)
			}
		case *ssa.Store:
			// the record kept in a local variable that is only read field by field (or handed on whole)
			if a, isAlloc := x.Addr.(*ssa.Alloc); isAlloc && x.Val == rec {
				out = append(out, recordFieldLoads(a, x, field)...)
				if arefs := a.Referrers(); arefs != nil {
					for _, ar := range *arefs {
						if ld, isLd := ar.(*ssa.UnOp); isLd && ld.Op == token.MUL {
							out = append(out, w.projReads(ld, field, depth+1, seen)...)
						}
					}
				}
			}
		case *ssa.Return:
			fn := x.Parent()
			for i, res := range x.Results {
				if res != rec {
					continue
				}
				for _, site := range w.callSites(fn) {
					cv, isCall := site.(*ssa.Call)
					if !isCall {
						continue
					}
					var got ssa.Value = cv
					if fn.Signature.Results().Len() > 1 {
						got = extractOf(cv, i)
					}
					out = append(out, w.projReads(got, field, depth+1, seen)...)
				}
			}
		case ssa.CallInstruction:
			callee := x.Common().StaticCallee()
			if callee == nil || !w.InRepo(callee) || callee.Blocks == nil {
				continue
			}
			for i, a := range x.Common().Args {
				if a == rec && i < len(callee.Params) {
					out = append(out, w.projReads(callee.Params[i], field, depth+1, seen)...)
				}
			}
		}
	}
	return out
}

// arrayLiteralEntries: the elements of the package-level array g set by its literal (index -> value; absent: zero
// value) and its length, when g is written nowhere else (no element store outside the initialiser, address not
// handed out).
func (w *World) arrayLiteralEntries(g *ssa.Global) (map[int64]ssa.Value, int64, bool) {
	arr, ok := g.Type().(*types.Pointer).Elem().Underlying().(*types.Array)
	if !ok || g.Pkg == nil {
		return nil, 0, false
	}
	init := g.Pkg.Func("init")
	if init == nil {
		return nil, 0, false
	}
	out := map[int64]ssa.Value{}
	for _, fn := range w.repoFns {
		for _, b := range fn.Blocks {
			for _, ins := range b.Instrs {
				switch x := ins.(type) {
				case *ssa.IndexAddr:
					if x.X != ssa.Value(g) || x.Referrers() == nil {
						continue
					}
					for _, r := range *x.Referrers() {
						st, isSt := r.(*ssa.Store)
						if !isSt || st.Addr != ssa.Value(x) {
							if _, isLd := r.(*ssa.UnOp); isLd {
								continue
							}
							if _, isDbg := r.(*ssa.DebugRef); isDbg {
								continue
							}
							return nil, 0, false
						}
						k, isK := intConst(x.Index)
						if fn != init || !isK {
							return nil, 0, false
						}
						if _, dup := out[k]; dup {
							return nil, 0, false
						}
						out[k] = st.Val
					}
				case *ssa.Store:
					if x.Addr == ssa.Value(g) && fn != init {
						return nil, 0, false
					}
					if x.Val == ssa.Value(g) {
						return nil, 0, false
					}
				case ssa.CallInstruction:
					for _, a := range x.Common().Args {
						if a == ssa.Value(g) {
							return nil, 0, false
						}
					}
				case *ssa.Slice:
					if x.X == ssa.Value(g) {
						return nil, 0, false
					}
				}
			}
		}
	}
	return out, arr.Len(), true
}

// thinDelegate1: the one-parameter function fn only returns h(<its parameter>) for a repository function h: h (nil otherwise).
func thinDelegate1(w *World, fn *ssa.Function) *ssa.Function {
	if fn == nil || len(fn.Blocks) != 1 || len(fn.Params) != 1 {
		return nil
	}
	param := ssa.Value(fn.Params[0])
	var only *ssa.Call
	n := 0
	for _, ins := range fn.Blocks[0].Instrs {
		if cv, ok := ins.(*ssa.Call); ok {
			only = cv
			n++
		}
	}
	ret, ok := fn.Blocks[0].Instrs[len(fn.Blocks[0].Instrs)-1].(*ssa.Return)
	if !ok || n != 1 || len(ret.Results) != 1 || ret.Results[0] != ssa.Value(only) || len(only.Call.Args) != 1 || !isParamView(only.Call.Args[0], param) {
		return nil
	}
	h := only.Call.StaticCallee()
	if h == nil || h == fn || len(h.Blocks) == 0 || len(h.Params) != 1 || (w != nil && !w.InRepo(h)) {
		return nil
	}
	return h
}
