package main

import (
	"fmt"
	"os"
)

// dbgf prints development traces when YDBG is set (never in registered commands).
func dbgf(format string, args ...interface{}) {
	if os.Getenv("YDBG") != "" {
		fmt.Printf("DBG "+format+"\n", args...)
	}
}
