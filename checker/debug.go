package main

import (
	"fmt"
	"os"
)

// dbgf prints development traces when YDBG is set (never in registered commands).
func dbgf(format string, args ...interface{}) {
	if os.Getenv("YDBG") != "" {
		fmt.Printf("DBG "+format+"\n", args...)
	}
}

func init() {
	dbgHook = func(w *World) {
		if os.Getenv("YDBG") != "leaves" {
			return
		}
		serve := w.Func(yubiPkg, "ServeAgent")
		w.Focus(serve)
		for _, cv := range w.invokeOfDeep(serve, "AddHardCert") {
			fmt.Println("ADD call in", cv.Parent().Name(), "arg0", w.Expr(cv.Call.Args[0]))
			_, h, idx := w.asCallResult(cv.Call.Args[0])
			fmt.Println(" asCallResult", h, idx, "transparent", h != nil && w.transparent(h))
			for _, lf := range w.Leaves(cv.Call.Args[0], cv) {
				fmt.Println(" LEAF", w.Expr(lf.Val))
			}
		}
	}
}
