package main

import (
	"go/token"
	"go/types"
	"sort"
	"strings"

	"golang.org/x/tools/go/ssa"
)

// State kept between calls. The statements quantify over every request, every certificate, every call: the functions
// that implement them are written without memory of earlier calls, and an optimisation that adds some (a memo table, a
// sync.Once, a pooled buffer, a remembered index) makes the outcome of one call depend on the calls before it. The
// rule is structural: on the call tree of a property's entry points
//   - every package-level variable of the repository that is touched is either frozen (written by the package
//     initialiser only, never handed out by address) or listed, with a reason, in the property's table of known state;
//   - a frozen variable that holds a pointer is not stored into an object or returned (the one object would be shared by
//     every result).

type stateUse struct {
	g   *ssa.Global
	fn  *ssa.Function
	at  ssa.Instruction
	why string
}

func derefType(t types.Type) types.Type {
	if p, ok := t.Underlying().(*types.Pointer); ok {
		return p.Elem()
	}
	return t
}

// sharedStateOn lists the uses of unfrozen repository globals, and the hand-outs of frozen pointer globals, in fns.
func (w *World) sharedStateOn(fns []*ssa.Function) []stateUse {
	var out []stateUse
	seen := map[string]bool{}
	frozen := map[*ssa.Global]bool{}
	isFrozen := func(g *ssa.Global) bool {
		v, ok := frozen[g]
		if !ok {
			v = w.globalFrozen(g)
			frozen[g] = v
		}
		return v
	}
	for _, fn := range fns {
		if fn.Name() == "init" || strings.HasPrefix(fn.Name(), "init#") {
			continue
		}
		for _, b := range fn.Blocks {
			for _, ins := range b.Instrs {
				for _, op := range ins.Operands(nil) {
					if op == nil || *op == nil {
						continue
					}
					g, ok := (*op).(*ssa.Global)
					if !ok || g.Pkg == nil || !strings.HasPrefix(g.Pkg.Pkg.Path(), RepoMod) {
						continue
					}
					if !isFrozen(g) && w.lazyConstant(g) {
						continue
					}
					if !isFrozen(g) {
						k := g.String() + "|" + fn.String()
						if !seen[k] {
							seen[k] = true
							out = append(out, stateUse{g, fn, ins, "package-level variable that is written after initialisation (or handed out by address)"})
						}
						continue
					}
					// frozen: a pointer loaded from it must not be kept or handed out
					ld, isLd := ins.(*ssa.UnOp)
					if !isLd || ld.Op != token.MUL || ld.X != ssa.Value(g) {
						continue
					}
					if _, isPtr := derefType(g.Type()).Underlying().(*types.Pointer); !isPtr {
						continue
					}
					if refs := ld.Referrers(); refs != nil {
						for _, r := range *refs {
							switch u := r.(type) {
							case *ssa.Store:
								if _, local := u.Addr.(*ssa.Alloc); u.Val == ssa.Value(ld) && !local {
									out = append(out, stateUse{g, fn, u, "the one object a package-level pointer refers to is stored into a result: every result shares it"})
								}
							case *ssa.Return:
								out = append(out, stateUse{g, fn, u, "the one object a package-level pointer refers to is returned: every caller shares it"})
							}
						}
					}
				}
			}
		}
	}
	sort.Slice(out, func(i, j int) bool {
		if out[i].g.String() != out[j].g.String() {
			return out[i].g.String() < out[j].g.String()
		}
		return out[i].fn.String() < out[j].fn.String()
	})
	return out
}

// stateRule reports every use of shared state on the tree of entries that known does not list (key: the variable's
// short name, value: why it is no memory of earlier calls).
func stateRule(c *Ctx, rule string, entries []*ssa.Function, known map[string]string) {
	w := c.w
	var live []*ssa.Function
	for _, e := range entries {
		if e != nil {
			live = append(live, e)
		}
	}
	if len(live) == 0 {
		c.Unresolved(rule, "entry points for the state rule")
		return
	}
	fns := w.ReachableRepo(live, true)
	nBad := 0
	for _, u := range w.sharedStateOn(fns) {
		name := shortName(u.g.String())
		if why, ok := known[name]; ok {
			c.Ok(rule, "state|"+name+" in "+shortFn(u.fn), w.Pos(u.at.Pos()), "known: "+why)
			continue
		}
		nBad++
		c.Bad(rule, "state|"+name+" in "+shortFn(u.fn), w.Pos(u.at.Pos()), "the operation keeps state between calls: "+u.why+" - the outcome of one call can depend on earlier ones")
	}
	if nBad == 0 {
		c.Ok(rule, "state|no memory of earlier calls", w.FnPos(live[0]), itoa(len(fns))+" functions reachable from the entry points touch only frozen package-level variables (and the listed ones)")
	}
}

// knownState: the package-level variables of the repository that are not frozen and yet are no memory of earlier calls.
var knownState = map[string]string{
	"internal/validate.validate": "the one go-playground validator, created by the package initialiser and only asked to validate; it caches struct metadata by type, nothing about values",
}

// lazyConstant: g is a package-level sync.Once used only as the receiver of Do with closures that capture nothing, or a
// variable written only inside such closures: a value computed once from nothing but constants and other package-level
// state - the lazy spelling of an initialiser, not a memory of any call's arguments.
func (w *World) lazyConstant(g *ssa.Global) bool {
	if w.lazyConst == nil {
		w.lazyConst = map[*ssa.Global]bool{}
		// closures handed to Do on a package-level Once, capturing nothing
		onceOK := map[*ssa.Global]bool{}
		initClosure := map[*ssa.Function]bool{}
		for _, fn := range w.repoFns {
			for _, call := range callsIn(fn) {
				if calleeName(call) != "(*sync.Once).Do" || len(call.Common().Args) != 2 {
					continue
				}
				og, isG := call.Common().Args[0].(*ssa.Global)
				if !isG {
					continue
				}
				if _, seen := onceOK[og]; !seen {
					onceOK[og] = true
				}
				cl, isFn := strip(call.Common().Args[1]).(*ssa.Function)
				if !isFn || len(cl.FreeVars) != 0 {
					onceOK[og] = false
					continue
				}
				initClosure[cl] = true
			}
		}
		// a Once used in any other way is state like any other
		for _, fn := range w.repoFns {
			for _, b := range fn.Blocks {
				for _, ins := range b.Instrs {
					for _, op := range ins.Operands(nil) {
						if op == nil || *op == nil {
							continue
						}
						og, isG := (*op).(*ssa.Global)
						if !isG {
							continue
						}
						if _, tracked := onceOK[og]; tracked {
							if call, isCall := ins.(ssa.CallInstruction); !isCall || calleeName(call) != "(*sync.Once).Do" {
								onceOK[og] = false
							}
						}
					}
				}
			}
		}
		for og, ok := range onceOK {
			if ok {
				w.lazyConst[og] = true
			}
		}
		// variables stored only inside those closures (and never handed out by address)
		stores := map[*ssa.Global][]*ssa.Function{}
		escapes := map[*ssa.Global]bool{}
		for _, fn := range w.repoFns {
			for _, b := range fn.Blocks {
				for _, ins := range b.Instrs {
					switch x := ins.(type) {
					case *ssa.Store:
						if sg, isG := x.Addr.(*ssa.Global); isG {
							stores[sg] = append(stores[sg], fn)
						}
						if sg, isG := x.Val.(*ssa.Global); isG {
							escapes[sg] = true
						}
					case ssa.CallInstruction:
						for _, a := range x.Common().Args {
							if sg, isG := a.(*ssa.Global); isG && !onceOK[sg] {
								escapes[sg] = true
							}
						}
					}
				}
			}
		}
		for sg, fns := range stores {
			ok := !escapes[sg]
			for _, fn := range fns {
				if !initClosure[fn] && fn.Name() != "init" && !strings.HasPrefix(fn.Name(), "init#") {
					ok = false
				}
			}
			if ok {
				w.lazyConst[sg] = true
			}
		}
	}
	return w.lazyConst[g]
}
