package main

import (
	"go/token"
	"go/types"
	"strings"

	"golang.org/x/tools/go/ssa"
)

// Role-based resolution of unexported helpers, so that renaming them does not lose the anchor.

func pkgFuncs(w *World, pkg string) []*ssa.Function {
	p := w.Pkg(pkg)
	if p == nil {
		return nil
	}
	var out []*ssa.Function
	for _, m := range p.Members {
		if f, ok := m.(*ssa.Function); ok && f.Blocks != nil && f.Signature.Recv() == nil {
			out = append(out, f)
		}
	}
	return out
}

// shimConstructor: the package-level function of the shim package that allocates the server value.
func shimConstructor(w *World, m *shimModel) *ssa.Function {
	var best *ssa.Function
	for _, f := range pkgFuncs(w, shimPkg) {
		for _, b := range f.Blocks {
			for _, ins := range b.Instrs {
				if a, ok := ins.(*ssa.Alloc); ok {
					if n, ok := a.Type().(*types.Pointer).Elem().(*types.Named); ok && m.Server != nil && n.Obj() == m.Server.Obj() {
						best = f
					}
				}
			}
		}
	}
	return best
}

func typeIs(t types.Type, s string) bool { return t.String() == s }

// framingFns: the framed read ([]byte, error) <- io.Reader and write error <- (io.Writer, []byte) helpers of a package.
func framingFns(w *World, pkg string) (rd, wr *ssa.Function) {
	isRd := func(f *ssa.Function) bool {
		ps, rs := f.Signature.Params(), f.Signature.Results()
		return f.Signature.Recv() == nil && f.Parent() == nil && ps.Len() == 1 && rs.Len() == 2 && typeIs(ps.At(0).Type(), "io.Reader") && typeIs(rs.At(0).Type(), "[]byte") && isErrorType(rs.At(1).Type()) && len(callsIn(f)) > 0
	}
	isWr := func(f *ssa.Function) bool {
		ps, rs := f.Signature.Params(), f.Signature.Results()
		return f.Signature.Recv() == nil && f.Parent() == nil && ps.Len() == 2 && rs.Len() == 1 && typeIs(ps.At(0).Type(), "io.Writer") && typeIs(ps.At(1).Type(), "[]byte") && isErrorType(rs.At(0).Type())
	}
	// a thin delegation (one block, one call, of the same kind, the parameters handed on) stands for its target: the
	// framing code may live in another file or package of the repository
	resolve := func(f *ssa.Function, same func(*ssa.Function) bool) *ssa.Function {
		for i := 0; i < 3 && f != nil; i++ {
			if len(f.Blocks) != 1 {
				return f
			}
			calls := callsIn(f)
			if len(calls) != 1 {
				return f
			}
			g := calls[0].Common().StaticCallee()
			if g == nil || !w.InRepo(g) || g.Blocks == nil || !same(g) || len(calls[0].Common().Args) != len(f.Params) {
				return f
			}
			for j, a := range calls[0].Common().Args {
				if a != ssa.Value(f.Params[j]) {
					return f
				}
			}
			f = g
		}
		return f
	}
	if w.frameBody == nil {
		w.frameBody = map[*ssa.Function]*ssa.Function{}
	}
	for _, f := range pkgFuncs(w, pkg) {
		switch {
		case isRd(f):
			rd = f
			w.frameBody[f] = resolve(f, isRd)
		case isWr(f):
			wr = f
			w.frameBody[f] = resolve(f, isWr)
		}
	}
	if rd == nil || wr == nil {
		// none of its own: the ones its code calls
		for _, f := range w.FuncsOfPkg(pkg) {
			for _, call := range callsIn(f) {
				g := call.Common().StaticCallee()
				if g == nil || !w.InRepo(g) || g.Blocks == nil {
					continue
				}
				if rd == nil && isRd(g) {
					rd = g
					w.frameBody[g] = resolve(g, isRd)
				}
				if wr == nil && isWr(g) {
					wr = g
					w.frameBody[g] = resolve(g, isWr)
				}
			}
		}
	}
	return
}

// framingBodies: the functions holding the framing code of pkg (framingFns with thin delegations resolved).
func framingBodies(w *World, pkg string) (rd, wr *ssa.Function) {
	rd, wr = framingFns(w, pkg)
	if b := w.frameBody[rd]; b != nil {
		rd = b
	}
	if b := w.frameBody[wr]; b != nil {
		wr = b
	}
	return
}

// frameBound: the constant C such that the framed read of pkg allocates only under length <= C (-1 if none).
func frameBound(w *World, rd *ssa.Function) int64 {
	if rd == nil {
		return -1
	}
	defer w.restoreFocus(w.focus)
	f := w.Facts(rd)
	var bound int64 = -1
	for _, b := range rd.Blocks {
		for _, ins := range b.Instrs {
			ms, ok := ins.(*ssa.MakeSlice)
			if !ok {
				continue
			}
			if _, isConst := intConst(ms.Len); isConst {
				continue
			}
			base := ms.Len
			for {
				if cv, ok := base.(*ssa.Convert); ok {
					base = cv.X
					continue
				}
				break
			}
			if k := lengthBoundAt(w, rd, f, b, ms, base); k >= 0 {
				bound = k
			}
		}
	}
	return bound
}

// clientExchange: the method of the yubiagent client that performs one framed exchange: ([]byte) ([]byte, error)
// and calls the framed write and read itself.
func clientExchange(w *World) *ssa.Function {
	_, wr := framingFns(w, yubiPkg)
	for _, f := range w.methodsOf(yubiPkg, "client") {
		ps, rs := f.Signature.Params(), f.Signature.Results()
		if ps.Len() == 1 && rs.Len() == 2 && typeIs(ps.At(0).Type().Underlying(), "[]byte") && typeIs(rs.At(0).Type().Underlying(), "[]byte") {
			for _, call := range callsIn(f) {
				if wr != nil && call.Common().StaticCallee() == wr {
					return f
				}
			}
		}
	}
	return nil
}

// isForwarderOver: v (the connection handed to x/crypto's ServeAgent) is a repository struct value whose io.Writer
// field holds the served connection root.Params[connIdx] - built in place, or by a constructor from its parameter.
func isForwarderOver(w *World, root *ssa.Function, v ssa.Value, connIdx int) bool {
	if root == nil || connIdx >= len(root.Params) {
		return false
	}
	conn := ssa.Value(root.Params[connIdx])
	writerOf := func(al *ssa.Alloc) ssa.Value {
		st, ok := al.Type().(*types.Pointer).Elem().Underlying().(*types.Struct)
		if !ok || !w.InRepoType(al.Type().(*types.Pointer).Elem()) {
			return nil
		}
		fs := FieldStores(al.Parent(), al)
		var out ssa.Value
		n := 0
		for i := 0; i < st.NumFields(); i++ {
			if st.Field(i).Type().String() != "io.Writer" {
				continue
			}
			n++
			if vals := fs[st.Field(i).Name()]; len(vals) == 1 {
				out = vals[0]
			}
		}
		if n != 1 {
			return nil
		}
		return out
	}
	structAlloc := func(x ssa.Value) *ssa.Alloc {
		x = strip(x)
		if ld, ok := x.(*ssa.UnOp); ok && ld.Op == token.MUL {
			x = ld.X
		}
		al, _ := x.(*ssa.Alloc)
		return al
	}
	v = strip(v)
	if al := structAlloc(v); al != nil {
		wv := writerOf(al)
		return wv != nil && w.canon(root, wv) == conn
	}
	call, ok := v.(*ssa.Call)
	if !ok {
		return false
	}
	callee := call.Call.StaticCallee()
	if callee == nil || !w.InRepo(callee) || len(callee.Blocks) == 0 {
		return false
	}
	rets := liveReturns(callee)
	if len(rets) == 0 {
		return false
	}
	for _, r := range rets {
		if len(r.Results) != 1 {
			return false
		}
		al := structAlloc(r.Results[0])
		if al == nil {
			return false
		}
		prm, isParam := throughCell(strip(writerOf(al))).(*ssa.Parameter)
		if !isParam || prm.Parent() != callee {
			return false
		}
		idx := paramIndex(prm)
		if idx < 0 || idx >= len(call.Call.Args) || w.canon(root, call.Call.Args[idx]) != conn {
			return false
		}
	}
	return true
}

// globalsOfType: package-level variables of pkg whose type string equals ts.
func globalsOfType(w *World, pkg, ts string) []*ssa.Global {
	p := w.Pkg(pkg)
	if p == nil {
		return nil
	}
	var out []*ssa.Global
	for _, m := range p.Members {
		if g, ok := m.(*ssa.Global); ok {
			if pt, ok := g.Type().(*types.Pointer); ok && pt.Elem().String() == ts {
				out = append(out, g)
			}
		}
	}
	return out
}

// isGlobalOfType: expression string of a value is a load of one of the package's globals of the given type.
func exprIsGlobalOfType(w *World, ex, pkg, ts string) bool {
	for _, g := range globalsOfType(w, pkg, ts) {
		if ex == "global:"+g.Pkg.Pkg.Path()+"."+g.Name() {
			return true
		}
	}
	return false
}

// staticCalleeWithResults: the repository function called from fn whose result types (as strings) end with the given suffixes.
func calleeBySignature(w *World, fn *ssa.Function, nParams int, resultSuffixes ...string) *ssa.Function {
	for _, call := range callsIn(fn) {
		g := call.Common().StaticCallee()
		if g == nil || !w.InRepo(g) || g.Blocks == nil {
			continue
		}
		rs := g.Signature.Results()
		if rs.Len() != len(resultSuffixes) || (nParams >= 0 && g.Signature.Params().Len() != nParams) {
			continue
		}
		ok := true
		for i, s := range resultSuffixes {
			if !strings.HasSuffix(rs.At(i).Type().String(), s) {
				ok = false
			}
		}
		if ok {
			return g
		}
	}
	return nil
}

func isFramingWrite(w *World, f *ssa.Function) bool {
	_, a := framingFns(w, yubiPkg)
	_, b := framingFns(w, shimPkg)
	return f != nil && (f == a || f == b)
}

// funcBySignature: the package-level function of pkg whose parameter types end with the given suffixes.
func funcBySignature(w *World, pkg string, paramSuffixes ...string) *ssa.Function {
	for _, f := range pkgFuncs(w, pkg) {
		ps := f.Signature.Params()
		if ps.Len() != len(paramSuffixes) {
			continue
		}
		ok := true
		for i, s := range paramSuffixes {
			if !strings.HasSuffix(ps.At(i).Type().String(), s) {
				ok = false
			}
		}
		if ok {
			return f
		}
	}
	return nil
}

// InRepoType: t (or what it points to) is a named type declared in the repository.
func (w *World) InRepoType(t types.Type) bool {
	n := derefNamedT(t)
	return n != nil && n.Obj().Pkg() != nil && strings.HasPrefix(n.Obj().Pkg().Path(), RepoMod)
}

// lengthBoundAt: the upper bound that the must-facts at block b put on the declared length base before the frame
// buffer ms is made: a comparison of base itself with a constant, or the same comparison made by a size-check helper
// on its parameter, the helper having been handed base by a call in rd that precedes the allocation. -1: none.
func lengthBoundAt(w *World, rd *ssa.Function, f *Facts, b *ssa.BasicBlock, ms *ssa.MakeSlice, base ssa.Value) int64 {
	numBase := func(v ssa.Value) ssa.Value {
		for {
			cv, ok := strip(v).(*ssa.Convert)
			if !ok {
				return strip(v)
			}
			v = cv.X
		}
	}
	var bound int64 = -1
	for l := range f.At(b) {
		bin, ok := l.V.(*ssa.BinOp)
		if !ok {
			continue
		}
		k, isK := intConst(bin.Y)
		if !isK {
			continue
		}
		about := bin.X == base
		if !about {
			if p, isP := numBase(bin.X).(*ssa.Parameter); isP && p.Parent() != rd {
				for _, site := range w.sitesIn(rd, p.Parent()) {
					a := site.Common().Args
					if paramIndex(p) < len(a) && numBase(a[paramIndex(p)]) == numBase(base) && site.Parent() == rd && InstrDominates(site.(ssa.Instruction), ms) {
						about = true
					}
				}
			}
		}
		if !about {
			continue
		}
		switch {
		case bin.Op == token.GTR && !l.Pol:
			bound = k
		case bin.Op == token.GEQ && !l.Pol:
			bound = k - 1
		case bin.Op == token.LEQ && l.Pol:
			bound = k
		case bin.Op == token.LSS && l.Pol:
			bound = k - 1
		}
	}
	return bound
}
