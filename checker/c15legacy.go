package main

import (
	"fmt"
	"go/constant"
	"go/token"
	"go/types"
	"strings"

	"golang.org/x/tools/go/packages"
	"golang.org/x/tools/go/ssa"
)

// SSA extraction of the legacy (space separated key=value) codec of package message, for rule C15.R1.legacy:
// what MarshalLegacy writes under which key from which field, and what UnmarshalLegacy reads from which key
// into which field. Both are evaluated on the compiled form of the two functions and of the helpers they call, so
// that the result does not depend on whether an argument is formatted with Sprintf, concatenated, or produced by
// a helper, nor on which function holds a lookup.

// ---- writer ----

// strPiece is one piece of a symbolic string: a literal, or a formatted field of the encoded object.
type strPiece struct {
	lit   string
	field string     // path from the receiver, e.g. "TouchlessSudo.Time" ("" for a literal)
	how   string     // verb ("%s", "%v", "%d", "%t")
	ftype types.Type // type of the field
	pos   token.Pos
}

type strEnv struct {
	bind map[*ssa.Parameter]ssa.Value
	up   *strEnv
}

type legacyEval struct {
	w    *World
	recv *ssa.Parameter // receiver of the encoder
	errs []string
}

// fieldPath: v is (a conversion of) a load of a field path of the receiver.
func (e *legacyEval) fieldPath(v ssa.Value, env *strEnv, depth int) (string, types.Type, bool) {
	if depth > 8 {
		return "", nil, false
	}
	v = throughCell(strip(v))
	switch x := v.(type) {
	case *ssa.Convert:
		return e.fieldPath(x.X, env, depth+1)
	case *ssa.Parameter:
		if env != nil {
			for cur := env; cur != nil; cur = cur.up {
				if b, ok := cur.bind[x]; ok {
					return e.fieldPath(b, cur.up, depth+1)
				}
			}
		}
		return "", nil, false
	case *ssa.UnOp:
		if x.Op != token.MUL {
			return "", nil, false
		}
		fa, ok := x.X.(*ssa.FieldAddr)
		if !ok {
			return "", nil, false
		}
		name := fieldName(fa.X.Type(), fa.Field)
		base := throughCell(strip(fa.X))
		if p, isP := base.(*ssa.Parameter); isP {
			// the receiver itself, possibly through helper parameters
			root := ssa.Value(p)
			for cur := env; cur != nil && root != ssa.Value(e.recv); cur = cur.up {
				if pp, ok := root.(*ssa.Parameter); ok {
					if b, has := cur.bind[pp]; has {
						root = throughCell(strip(b))
					}
				}
			}
			if root == ssa.Value(e.recv) {
				return name, x.Type(), true
			}
			// a helper's parameter bound to a sub-struct of the receiver
			for cur := env; cur != nil; cur = cur.up {
				if b, has := cur.bind[p]; has {
					if prefix, _, ok := e.fieldPath(b, cur.up, depth+1); ok && prefix != "" {
						return prefix + "." + name, x.Type(), true
					}
					break
				}
			}
			return "", nil, false
		}
		// nested: the base is itself a loaded field (pointer to a sub-struct)
		if prefix, _, ok := e.fieldPath(base, env, depth+1); ok {
			return prefix + "." + name, x.Type(), true
		}
	}
	return "", nil, false
}

// template evaluates string value v to pieces.
func (e *legacyEval) template(v ssa.Value, env *strEnv, depth int) ([]strPiece, bool) {
	if depth > 10 {
		return nil, false
	}
	v = throughCell(strip(v))
	switch x := v.(type) {
	case *ssa.Const:
		if s, ok := strConst(x); ok {
			return []strPiece{{lit: s}}, true
		}
		return nil, false
	case *ssa.Parameter:
		for cur := env; cur != nil; cur = cur.up {
			if b, ok := cur.bind[x]; ok {
				return e.template(b, cur.up, depth+1)
			}
		}
		return nil, false
	case *ssa.BinOp:
		if x.Op != token.ADD {
			return nil, false
		}
		a, ok1 := e.template(x.X, env, depth+1)
		b, ok2 := e.template(x.Y, env, depth+1)
		if !ok1 || !ok2 {
			return nil, false
		}
		return append(a, b...), true
	case *ssa.Convert:
		// string(x) of a string-kinded field
		if p, t, ok := e.fieldPath(x, env, 0); ok {
			return []strPiece{{field: p, how: "%s", ftype: t, pos: x.Pos()}}, true
		}
		return nil, false
	case *ssa.UnOp:
		if p, t, ok := e.fieldPath(x, env, 0); ok {
			return []strPiece{{field: p, how: "%s", ftype: t, pos: x.Pos()}}, true
		}
		return nil, false
	case *ssa.Call:
		name := calleeName(x)
		switch name {
		case "fmt.Sprintf":
			format, ok := strConst(x.Call.Args[0])
			if !ok {
				return nil, false
			}
			parts, ok := tbParseFmt(format)
			if !ok {
				return nil, false
			}
			var vals []ssa.Value
			if len(x.Call.Args) == 2 {
				if sl, ok := x.Call.Args[1].(*ssa.Slice); ok {
					if arr, ok := sl.X.(*ssa.Alloc); ok {
						vals = storesIntoOrdered(arr)
					}
				}
			}
			var out []strPiece
			vi := 0
			for _, pt := range parts {
				if pt.verb == 0 {
					out = append(out, strPiece{lit: pt.lit})
					continue
				}
				if vi >= len(vals) {
					return nil, false
				}
				arg := vals[vi]
				vi++
				if s, ok := strConst(arg); ok && (pt.verb == 's' || pt.verb == 'v') {
					out = append(out, strPiece{lit: s})
					continue
				}
				if p, t, ok := e.fieldPath(arg, env, 0); ok {
					out = append(out, strPiece{field: p, how: "%" + string(pt.verb), ftype: t, pos: arg.Pos()})
					continue
				}
				if pt.verb == 's' || pt.verb == 'v' {
					if sub, ok := e.template(arg, env, depth+1); ok {
						out = append(out, sub...)
						continue
					}
				}
				return nil, false
			}
			if vi != len(vals) {
				return nil, false
			}
			return out, true
		case "strconv.FormatBool":
			if p, t, ok := e.fieldPath(x.Call.Args[0], env, 0); ok {
				return []strPiece{{field: p, how: "%t", ftype: t, pos: x.Pos()}}, true
			}
			return nil, false
		case "strconv.Itoa", "strconv.FormatInt", "strconv.FormatUint":
			if len(x.Call.Args) == 2 {
				if b, ok := intConst(x.Call.Args[1]); !ok || b != 10 {
					return nil, false
				}
			}
			if p, t, ok := e.fieldPath(x.Call.Args[0], env, 0); ok {
				return []strPiece{{field: p, how: "%d", ftype: t, pos: x.Pos()}}, true
			}
			return nil, false
		}
		// a repository helper returning a string: its (single) result value, parameters bound to this call's arguments
		if h := e.w.helperOf(x); h != nil && h.Signature.Results().Len() == 1 && len(x.Call.Args) == len(h.Params) {
			rv := e.w.successValue(h, 0)
			if rv == nil {
				return nil, false
			}
			bind := map[*ssa.Parameter]ssa.Value{}
			for i, p := range h.Params {
				bind[p] = x.Call.Args[i]
			}
			return e.template(rv, &strEnv{bind: bind, up: env}, depth+1)
		}
	}
	return nil, false
}

// storesIntoOrdered: the values stored at indices 0,1,2,... of a local array (varargs).
func storesIntoOrdered(a *ssa.Alloc) []ssa.Value {
	byIdx := map[int64]ssa.Value{}
	max := int64(-1)
	if refs := a.Referrers(); refs != nil {
		for _, r := range *refs {
			ia, ok := r.(*ssa.IndexAddr)
			if !ok {
				continue
			}
			k, isK := intConst(ia.Index)
			if !isK {
				continue
			}
			if rr := ia.Referrers(); rr != nil {
				for _, u := range *rr {
					if st, ok := u.(*ssa.Store); ok && st.Addr == ssa.Value(ia) {
						byIdx[k] = st.Val
						if k > max {
							max = k
						}
					}
				}
			}
		}
	}
	var out []ssa.Value
	for i := int64(0); i <= max; i++ {
		out = append(out, byIdx[i])
	}
	return out
}

func mergeLits(ps []strPiece) []strPiece {
	var out []strPiece
	for _, p := range ps {
		if p.field == "" && len(out) > 0 && out[len(out)-1].field == "" {
			out[len(out)-1].lit += p.lit
			continue
		}
		out = append(out, p)
	}
	return out
}

// constByValue: a package-level string constant of p with value s (name order).
func constByValue(p *packages.Package, s string) *types.Const {
	sc := p.Types.Scope()
	for _, n := range sc.Names() {
		if k, ok := sc.Lookup(n).(*types.Const); ok && k.Val().Kind() == constant.String && constant.StringVal(k.Val()) == s {
			return k
		}
	}
	return nil
}

// legacyWritesSSA fills a tbLegacyWriter from the compiled MarshalLegacy.
func legacyWritesSSA(c *Ctx, p *packages.Package, fn *ssa.Function) *tbLegacyWriter {
	w := c.w
	out := &tbLegacyWriter{keyConsts: map[*types.Const]bool{}, nParts: map[string]int{}}
	if fn == nil || len(fn.Params) == 0 {
		out.problems = append(out.problems, "no compiled form of MarshalLegacy")
		return out
	}
	w.Focus(fn)
	ev := &legacyEval{w: w, recv: fn.Params[0]}
	// the joined slice
	var joined ssa.Value
	for _, r := range w.MayBeNilReturns(fn) {
		if fn.Recover != nil && r.Block() == fn.Recover {
			continue
		}
		if jc, ok := w.canon(fn, r.Results[0]).(*ssa.Call); ok && calleeName(jc) == "strings.Join" && len(jc.Call.Args) == 2 {
			if s, ok := strConst(jc.Call.Args[1]); ok {
				out.joinSep, out.haveJoin = s, true
			}
			joined = jc.Call.Args[0]
		} else {
			out.problems = append(out.problems, "a successful return at "+w.Pos(r.Pos())+" is not strings.Join(<args>, <separator>)")
		}
	}
	if joined == nil {
		return out
	}
	// everything that may flow into the joined slice: appends and the initial literal
	seen := map[ssa.Value]bool{}
	var elems []ssa.Value // appended string values
	elemSite := map[ssa.Value]ssa.Instruction{}
	elemEnv := map[ssa.Value]*strEnv{}
	var env *strEnv // bindings of the helper whose body is being walked
	var walk func(v ssa.Value, depth int)
	walk = func(v ssa.Value, depth int) {
		v = throughCell(strip(v))
		if v == nil || seen[v] || depth > 40 {
			return
		}
		seen[v] = true
		switch x := v.(type) {
		case *ssa.Phi:
			for _, ed := range x.Edges {
				walk(ed, depth+1)
			}
		case *ssa.UnOp:
			// a variable with several stores
			if a, ok := x.X.(*ssa.Alloc); ok && x.Op == token.MUL {
				if stores, ok2 := cellStores(a); ok2 {
					for _, s := range stores {
						walk(s.Val, depth+1)
					}
				}
			}
		case *ssa.Call:
			if b, ok := x.Call.Value.(*ssa.Builtin); ok && b.Name() == "append" && len(x.Call.Args) == 2 {
				walk(x.Call.Args[0], depth+1)
				if sl, ok := x.Call.Args[1].(*ssa.Slice); ok {
					if arr, ok := sl.X.(*ssa.Alloc); ok {
						for _, el := range storesIntoOrdered(arr) {
							// a whole token that is a named constant (the interface version), appended instead of listed in
							// the initial literal
							if s, isK := strConst(el); isK {
								if k := constByValue(p, s); k != nil {
									out.elemConsts = append(out.elemConsts, k)
									out.elemPos = x.Pos()
									continue
								}
							}
							elems = append(elems, el)
							if el != nil {
								elemSite[el] = x
								elemEnv[el] = env
							}
						}
						return
					}
				}
				// append(args, helper(...)...): the list a repository helper builds the same way, its parameters bound to
				// this call's arguments
				if hc, ok := throughCell(strip(x.Call.Args[1])).(*ssa.Call); ok {
					if h := w.helperOf(hc); h != nil && h.Signature.Results().Len() == 1 && len(hc.Call.Args) == len(h.Params) && len(w.callSites(h)) == 1 {
						bind := map[*ssa.Parameter]ssa.Value{}
						for i, p := range h.Params {
							bind[p] = hc.Call.Args[i]
						}
						old := env
						env = &strEnv{bind: bind, up: old}
						for _, r := range liveReturns(h) {
							walk(r.Results[0], depth+1)
						}
						env = old
						return
					}
				}
				out.problems = append(out.problems, "an append at "+w.Pos(x.Pos())+" does not add individual strings")
			} else {
				out.problems = append(out.problems, "the argument list is produced by "+shortName(calleeName(x))+" at "+w.Pos(x.Pos()))
			}
		case *ssa.Slice:
			// the initial []string{...} literal
			if arr, ok := x.X.(*ssa.Alloc); ok {
				out.elemPos = x.Pos()
				for _, el := range storesIntoOrdered(arr) {
					s, ok := strConst(el)
					k := (*types.Const)(nil)
					if ok {
						k = constByValue(p, s)
					}
					switch {
					case k != nil:
						out.elemConsts = append(out.elemConsts, k)
					case !ok && el != nil:
						// a computed element of the literal is an argument like the appended ones
						elems = append(elems, el)
						elemEnv[el] = env
					default:
						out.problems = append(out.problems, "element of the initial argument list at "+w.Pos(x.Pos())+" is not a named constant")
					}
				}
			}
		case *ssa.Const:
			// nil slice
		case *ssa.MakeSlice:
			// make([]string, 0, n): an empty list with room
			if k, isK := intConst(x.Len); !isK || k != 0 {
				out.problems = append(out.problems, "the argument list starts from make([]string, n) with n != 0 at "+w.Pos(x.Pos())+": n empty arguments")
			}
		default:
			out.problems = append(out.problems, fmt.Sprintf("the argument list flows from an unsupported value (%T) at %s", v, w.Pos(v.Pos())))
		}
	}
	walk(joined, 0)
	for _, el := range elems {
		where := w.Pos(el.Pos())
		ps, ok := ev.template(el, elemEnv[el], 0)
		if !ok {
			out.problems = append(out.problems, "the argument appended at "+where+" is not a key=value string built from constants and fields of the receiver: "+w.Short(el))
			continue
		}
		ps = mergeLits(ps)
		if len(ps) < 2 || ps[0].field != "" || !strings.Contains(ps[0].lit, "=") {
			out.problems = append(out.problems, "the argument appended at "+where+" is not of the form <key>=<value>")
			continue
		}
		eq := strings.Index(ps[0].lit, "=")
		key, rest := ps[0].lit[:eq], ps[0].lit[eq+1:]
		if rest != "" {
			out.problems = append(out.problems, fmt.Sprintf("the value written for key %q at %s starts with the literal %q", key, where, rest))
			continue
		}
		keyName := ""
		if k := constByValue(p, key); k != nil {
			keyName = k.Name()
			out.keyConsts[k] = true
		}
		// value: field (sep field)*
		var fields []strPiece
		sep, okShape := "", true
		for i, pc := range ps[1:] {
			if i%2 == 0 {
				if pc.field == "" {
					okShape = false
				}
				fields = append(fields, pc)
			} else {
				if pc.field != "" || (sep != "" && pc.lit != sep) {
					okShape = false
				}
				sep = pc.lit
			}
		}
		if !okShape || len(ps[1:])%2 == 0 {
			out.problems = append(out.problems, fmt.Sprintf("the value written for key %q at %s is not <field>(<separator><field>)*", key, where))
			continue
		}
		out.nParts[key] = len(fields)
		// the conditions the append stands under mention the token's own fields (or their parents) only
		if site := elemSite[el]; site != nil && (site.Parent() == fn || elemEnv[el] != nil) {
			for l := range w.factsOf(site.Parent()).Primary(site.Block()) {
				for _, m := range ev.fieldMentionsEnv(l.V, elemEnv[el], 0) {
					own := false
					for _, f := range fields {
						if m == f.field || strings.HasPrefix(f.field, m+".") {
							own = true
						}
					}
					if !own {
						out.gates = append(out.gates, tbGate{key: key, field: fields[0].field, other: m, pos: site.Pos()})
					}
				}
				// a test of the token's own numeric field must be "is set" (field != 0): a sign or range test drops set
				// values that the decoder would have read back
				if bin, isBin := l.V.(*ssa.BinOp); isBin {
					if k, isK := intConst(bin.Y); isK {
						if bt, isBasic := bin.X.Type().Underlying().(*types.Basic); isBasic && bt.Info()&types.IsInteger != 0 && bt.Info()&types.IsUnsigned == 0 && lenArg(bin.X) == nil {
							mine := false
							for _, m := range ev.fieldMentionsEnv(bin.X, elemEnv[el], 0) {
								for _, f := range fields {
									if m == f.field {
										mine = true
									}
								}
							}
							isSet := (bin.Op == token.NEQ && k == 0 && l.Pol) || (bin.Op == token.EQL && k == 0 && !l.Pol)
							if mine && !isSet {
								out.gates = append(out.gates, tbGate{key: key, field: fields[0].field, other: "the field's own value (" + w.Short(bin) + " = " + boolStr(l.Pol) + "), which is narrower than 'is set'", pos: site.Pos()})
							}
						}
					}
				}
			}
		}
		for i, f := range fields {
			part := ""
			if len(fields) > 1 {
				part = tbPartKey(i, sep)
			}
			pos := f.pos
			if !pos.IsValid() {
				pos = el.Pos()
			}
			out.pairs = append(out.pairs, tbPair{key: key, keyName: keyName, part: part, field: f.field, how: f.how, ftype: f.ftype, pos: pos})
		}
	}
	return out
}

// ---- reader ----

type readSrc struct {
	key  string
	part int // -1: whole value
	sep  string
	conv string
	lk   *ssa.Lookup
}

// readSource: the legacy key (and part / conversion) that value v is read from. env binds the parameters of helpers
// being looked through to the arguments of the call under consideration.
func readSource(w *World, root *ssa.Function, v ssa.Value, depth int) (*readSrc, bool) {
	return readSourceEnv(w, root, v, nil, depth)
}

func readSourceEnv(w *World, root *ssa.Function, v ssa.Value, env *strEnv, depth int) (*readSrc, bool) {
	if depth > 12 {
		return nil, false
	}
	v = throughCell(strip(v))
	if p, isP := v.(*ssa.Parameter); isP {
		for cur := env; cur != nil; cur = cur.up {
			if b, ok := cur.bind[p]; ok {
				return readSourceEnv(w, root, b, cur.up, depth+1)
			}
		}
		if u := w.resolveUp(root, v); u != v {
			return readSourceEnv(w, root, u, env, depth+1)
		}
		return nil, false
	}
	// chase: a parameter of a helper being looked through resolved to the argument bound to it, however many frames up
	chase := func(x ssa.Value) ssa.Value {
		x = throughCell(strip(x))
		cur := env
		for hop := 0; hop < 8; hop++ {
			p, isP := x.(*ssa.Parameter)
			if !isP {
				break
			}
			found := false
			for ; cur != nil; cur = cur.up {
				if b, ok := cur.bind[p]; ok {
					x, cur, found = throughCell(strip(b)), cur.up, true
					break
				}
			}
			if !found {
				break
			}
		}
		return x
	}
	constStr := func(x ssa.Value) (string, bool) {
		x = chase(x)
		if _, isP := x.(*ssa.Parameter); isP {
			x = w.resolveUp(root, x)
		}
		return strConst(x)
	}
	// a helper: every return value that is not a zero value must come from the same source
	viaHelper := func(call *ssa.Call, idx int) (*readSrc, bool) {
		h := w.helperOf(call)
		if h == nil || len(call.Call.Args) != len(h.Params) {
			return nil, false
		}
		bind := map[*ssa.Parameter]ssa.Value{}
		for i, p := range h.Params {
			bind[p] = call.Call.Args[i]
		}
		henv := &strEnv{bind: bind, up: env}
		var src *readSrc
		for _, r := range liveReturns(h) {
			if idx >= len(r.Results) {
				return nil, false
			}
			for _, lf := range w.leaves(r.Results[idx], r, false) {
				if cst, ok := strip(lf.Val).(*ssa.Const); ok {
					_ = cst
					continue // zero / default value on a path where the key is absent or malformed
				}
				s, ok := readSourceEnv(w, root, lf.Val, henv, depth+1)
				if !ok {
					return nil, false
				}
				if src != nil && (src.key != s.key || src.part != s.part || src.conv != s.conv) {
					return nil, false
				}
				src = s
			}
		}
		return src, src != nil
	}
	switch x := v.(type) {
	case *ssa.Convert:
		return readSourceEnv(w, root, x.X, env, depth+1)
	case *ssa.Lookup:
		if k, ok := constStr(x.Index); ok && isStrStrMap(x.X.Type()) {
			return &readSrc{key: k, part: -1, lk: x}, true
		}
	case *ssa.Extract:
		switch t := x.Tuple.(type) {
		case *ssa.Lookup:
			if x.Index == 0 {
				return readSourceEnv(w, root, t, env, depth+1)
			}
		case *ssa.Call:
			n := calleeName(t)
			var dynFn *ssa.Function
			if n == "dynamic" {
				// a conversion function handed in as an argument (parse func(string) (T, error))
				if f, ok := chase(t.Call.Value).(*ssa.Function); ok {
					dynFn = f
					n = fnName(f)
				}
			}
			if dynFn != nil && !strings.HasPrefix(n, "strconv.") && x.Index == 0 && w.InRepo(dynFn) && dynFn.Blocks != nil && len(t.Call.Args) == len(dynFn.Params) {
				// a repository conversion function: looked through like a helper
				bind := map[*ssa.Parameter]ssa.Value{}
				for i, p := range dynFn.Params {
					bind[p] = t.Call.Args[i]
				}
				henv := &strEnv{bind: bind, up: env}
				var src *readSrc
				for _, r := range liveReturns(dynFn) {
					for _, lf := range w.leaves(r.Results[0], r, false) {
						if _, ok := strip(lf.Val).(*ssa.Const); ok {
							continue
						}
						s, ok := readSourceEnv(w, root, lf.Val, henv, depth+1)
						if !ok || (src != nil && (src.key != s.key || src.part != s.part || src.conv != s.conv)) {
							return nil, false
						}
						src = s
					}
				}
				return src, src != nil
			}
			if n == "strings.Cut" && len(t.Call.Args) == 2 && (x.Index == 0 || x.Index == 1) {
				// before, after, found := strings.Cut(v, sep): the two parts of a value holding the separator once
				if sep, ok := constStr(t.Call.Args[1]); ok {
					if s, ok := readSourceEnv(w, root, t.Call.Args[0], env, depth+1); ok && s.part < 0 {
						s.part, s.sep = x.Index, sep
						return s, true
					}
				}
				return nil, false
			}
			if x.Index == 0 && strings.HasPrefix(n, "strconv.") && len(t.Call.Args) >= 1 {
				if s, ok := readSourceEnv(w, root, t.Call.Args[0], env, depth+1); ok {
					s.conv = strings.TrimPrefix(n, "strconv.")
					// ParseInt / ParseUint: a base other than 10 or a bit size below 64 is part of the conversion's name
					if (s.conv == "ParseInt" || s.conv == "ParseUint") && len(t.Call.Args) == 3 {
						if b, isK := intConst(t.Call.Args[1]); !isK || b != 10 {
							s.conv += "/base" + itoa(int(b))
						}
						if bits, isK := intConst(t.Call.Args[2]); !isK {
							s.conv += "/?bits"
						} else if bits != 0 && bits != 64 {
							s.conv += "/" + itoa(int(bits)) + "bits"
						}
					}
					return s, true
				}
			}
			return viaHelper(t, x.Index)
		}
	case *ssa.UnOp:
		if x.Op == token.MUL {
			if ia, ok := x.X.(*ssa.IndexAddr); ok {
				if i, isK := intConst(ia.Index); isK {
					if sp, ok := w.canon(root, ia.X).(*ssa.Call); ok && splitsAll(sp) {
						if sep, ok := constStr(sp.Call.Args[1]); ok {
							if s, ok := readSourceEnv(w, root, sp.Call.Args[0], env, depth+1); ok && s.part < 0 {
								s.part, s.sep = int(i), sep
								return s, true
							}
						}
					}
				}
			}
		}
	case *ssa.Call:
		if x.Call.Signature().Results().Len() == 1 {
			return viaHelper(x, 0)
		}
	}
	return nil, false
}

func isStrStrMap(t types.Type) bool {
	m, ok := t.Underlying().(*types.Map)
	return ok && tbIsBasic(m.Key().Underlying(), types.String) && tbIsBasic(m.Elem().Underlying(), types.String)
}

// legacyReadsSSA fills a tbLegacyReader from the compiled UnmarshalLegacy.
func legacyReadsSSA(c *Ctx, p *packages.Package, fn *ssa.Function, attrs *types.Named) *tbLegacyReader {
	w := c.w
	r := &tbLegacyReader{keyConsts: map[*types.Const]bool{}, lenChecks: map[string]int64{}}
	if fn == nil || fn.Blocks == nil {
		r.problems = append(r.problems, "no compiled form of UnmarshalLegacy")
		return r
	}
	w.Focus(fn)
	// the decoded object
	var obj *ssa.Alloc
	for _, ret := range w.MayBeNilReturns(fn) {
		if fn.Recover != nil && ret.Block() == fn.Recover {
			continue
		}
		a, ok := w.canon(fn, ret.Results[0]).(*ssa.Alloc)
		if !ok || (obj != nil && a != obj) {
			r.problems = append(r.problems, "no single `return <*Attributes variable>, nil` found")
			return r
		}
		obj = a
	}
	if obj == nil {
		r.problems = append(r.problems, "no `return <*Attributes variable>, nil` found")
		return r
	}
	// the parser: the repository function whose result is the map the lookups read
	var visit func(a *ssa.Alloc, prefix string, depth int)
	visit = func(a *ssa.Alloc, prefix string, depth int) {
		if depth > 3 {
			return
		}
		st, _ := a.Type().(*types.Pointer).Elem().Underlying().(*types.Struct)
		for fld, vals := range w.FieldStoresDeep(fn, a) {
			var ftype types.Type
			if st != nil {
				for i := 0; i < st.NumFields(); i++ {
					if st.Field(i).Name() == fld {
						ftype = st.Field(i).Type()
					}
				}
			}
			for _, v := range vals {
				cv := w.canon(fn, v)
				if sub, ok := cv.(*ssa.Alloc); ok {
					if _, isStruct := sub.Type().(*types.Pointer).Elem().Underlying().(*types.Struct); isStruct {
						visit(sub, prefix+fld+".", depth+1)
						continue
					}
				}
				switch cv.(type) {
				case *ssa.Const, *ssa.MakeMap, *ssa.MakeSlice:
					continue
				}
				src, ok := readSource(w, fn, v, 0)
				if !ok {
					// only values that derive from the parsed key/value map matter
					for o := range w.Origins(v) {
						if strings.HasPrefix(o, "other:") {
							r.problems = append(r.problems, fmt.Sprintf("the value stored into %s%s at %s is not understood: %s", prefix, fld, w.Pos(v.Pos()), w.Short(v)))
							break
						}
					}
					continue
				}
				if src.lk != nil && r.parser == nil {
					if pc, ok := w.resolveUp(fn, throughCell(strip(src.lk.X))).(*ssa.Call); ok {
						if h := pc.Call.StaticCallee(); h != nil {
							r.parser, _ = h.Object().(*types.Func)
						}
					}
				}
				keyName := ""
				if k := constByValue(p, src.key); k != nil {
					keyName = k.Name()
					r.keyConsts[k] = true
				}
				part := ""
				if src.part >= 0 {
					part = tbPartKey(src.part, src.sep)
				}
				pos := v.Pos()
				if !pos.IsValid() {
					pos = a.Pos()
				}
				r.pairs = append(r.pairs, tbPair{key: src.key, keyName: keyName, part: part, field: prefix + fld, how: src.conv, ftype: ftype, pos: pos})
			}
		}
	}
	visit(obj, "", 0)
	// fields of a sub-object reached through a pointer field of the decoded object that is set once, to a fresh
	// struct, where the object is made (a.Sub.F = v after a := newObject())
	{
		top := w.FieldStoresDeep(fn, obj)
		for _, tf := range w.Tree(fn) {
			for _, b := range tf.Blocks {
				for _, ins := range b.Instrs {
					fa2, ok := ins.(*ssa.FieldAddr)
					if !ok {
						continue
					}
					ld, ok := fa2.X.(*ssa.UnOp)
					if !ok || ld.Op != token.MUL {
						continue
					}
					fa1, ok := ld.X.(*ssa.FieldAddr)
					if !ok || w.canon(fn, fa1.X) != ssa.Value(obj) {
						continue
					}
					n1 := fieldName(fa1.X.Type(), fa1.Field)
					init := top[n1]
					if len(init) != 1 {
						continue
					}
					sub, isAlloc := w.canon(fn, init[0]).(*ssa.Alloc)
					if !isAlloc {
						if a2, ok := throughCell(strip(init[0])).(*ssa.Alloc); ok {
							sub, isAlloc = a2, true
						}
					}
					if !isAlloc {
						continue
					}
					st, _ := sub.Type().(*types.Pointer).Elem().Underlying().(*types.Struct)
					if st == nil {
						continue
					}
					n2 := fieldName(fa2.X.Type(), fa2.Field)
					var ftype types.Type
					for i := 0; i < st.NumFields(); i++ {
						if st.Field(i).Name() == n2 {
							ftype = st.Field(i).Type()
						}
					}
					if fr := fa2.Referrers(); fr != nil {
						for _, u := range *fr {
							stv, ok := u.(*ssa.Store)
							if !ok || stv.Addr != ssa.Value(fa2) {
								continue
							}
							switch w.canon(fn, stv.Val).(type) {
							case *ssa.Const, *ssa.MakeMap, *ssa.MakeSlice:
								continue
							}
							src, ok := readSource(w, fn, stv.Val, 0)
							if !ok {
								for o := range w.Origins(stv.Val) {
									if strings.HasPrefix(o, "other:") {
										r.problems = append(r.problems, fmt.Sprintf("the value stored into %s.%s at %s is not understood: %s", n1, n2, w.Pos(stv.Pos()), w.Short(stv.Val)))
										break
									}
								}
								continue
							}
							keyName := ""
							if k := constByValue(p, src.key); k != nil {
								keyName = k.Name()
								r.keyConsts[k] = true
							}
							part := ""
							if src.part >= 0 {
								part = tbPartKey(src.part, src.sep)
							}
							pos := stv.Pos()
							if !pos.IsValid() {
								pos = fa2.Pos()
							}
							r.pairs = append(r.pairs, tbPair{key: src.key, keyName: keyName, part: part, field: n1 + "." + n2, how: src.conv, ftype: ftype, pos: pos})
						}
					}
				}
			}
		}
	}
	// len(split) tests
	for _, tf := range w.Tree(fn) {
		for _, b := range tf.Blocks {
			for _, ins := range b.Instrs {
				bin, ok := ins.(*ssa.BinOp)
				if !ok || (bin.Op != token.NEQ && bin.Op != token.EQL) {
					continue
				}
				n, isK := intConst(bin.Y)
				la := lenArg(bin.X)
				if !isK || la == nil {
					continue
				}
				if sp, ok := w.canon(fn, la).(*ssa.Call); ok && splitsAll(sp) && (calleeName(sp) == "strings.Split" || splitNCount(sp) < 0 || splitNCount(sp) > n) {
					if s, ok := readSource(w, fn, sp.Call.Args[0], 0); ok {
						r.lenChecks[s.key] = n
					}
				}
			}
		}
	}
	// strings.Count(v, sep) ==/!= n: the value has exactly n+1 parts
	for _, tf := range w.Tree(fn) {
		for _, b := range tf.Blocks {
			for _, ins := range b.Instrs {
				bin, ok := ins.(*ssa.BinOp)
				if !ok || (bin.Op != token.NEQ && bin.Op != token.EQL) {
					continue
				}
				n, isK := intConst(bin.Y)
				cc, isCall := strip(bin.X).(*ssa.Call)
				if !isK || !isCall || calleeName(cc) != "strings.Count" || len(cc.Call.Args) != 2 {
					continue
				}
				if _, okSep := strConst(cc.Call.Args[1]); !okSep {
					continue
				}
				if s, ok := readSource(w, fn, cc.Call.Args[0], 0); ok {
					r.lenChecks[s.key] = n + 1
				}
			}
		}
	}
	// the Cut form of "exactly two parts": the found flag is tested and the second part is tested for a further
	// separator
	for _, tf := range w.Tree(fn) {
		for _, call := range callsTo(tf, "strings.Cut") {
			cv, ok := call.(*ssa.Call)
			if !ok || len(cv.Call.Args) != 2 {
				continue
			}
			sep, okSep := strConst(cv.Call.Args[1])
			found, after := extractOfV(cv, 2), extractOfV(cv, 1)
			if !okSep || found == nil || after == nil {
				continue
			}
			tested := false
			for _, u := range *found.Referrers() {
				switch u.(type) {
				case *ssa.If, *ssa.UnOp, *ssa.Phi, *ssa.BinOp:
					tested = true
				}
			}
			again := false
			for _, c2 := range callsTo(tf, "strings.Contains") {
				if a := c2.Common().Args; len(a) == 2 && a[0] == after {
					if s2, ok := strConst(a[1]); ok && s2 == sep {
						again = true
					}
				}
			}
			if tested && again {
				if s, ok := readSource(w, fn, cv.Call.Args[0], 0); ok {
					r.lenChecks[s.key] = 2
				}
			}
		}
	}
	return r
}

// fieldMentions: the receiver field paths that the value v is computed from (operands of comparisons, len, ...).
func (e *legacyEval) fieldMentions(v ssa.Value, depth int) []string {
	return e.fieldMentionsEnv(v, nil, depth)
}

func (e *legacyEval) fieldMentionsEnv(v ssa.Value, env *strEnv, depth int) []string {
	if v == nil || depth > 5 {
		return nil
	}
	if p, _, ok := e.fieldPath(v, env, 0); ok && p != "" {
		return []string{p}
	}
	var out []string
	switch x := strip(v).(type) {
	case *ssa.BinOp:
		out = append(out, e.fieldMentionsEnv(x.X, env, depth+1)...)
		out = append(out, e.fieldMentionsEnv(x.Y, env, depth+1)...)
	case *ssa.UnOp:
		out = append(out, e.fieldMentionsEnv(x.X, env, depth+1)...)
	case *ssa.Convert:
		out = append(out, e.fieldMentionsEnv(x.X, env, depth+1)...)
	case *ssa.Call:
		for _, a := range callArgs(x) {
			out = append(out, e.fieldMentionsEnv(a, env, depth+1)...)
		}
	case *ssa.Extract:
		out = append(out, e.fieldMentionsEnv(x.Tuple, env, depth+1)...)
	case *ssa.FieldAddr:
		out = append(out, e.fieldMentionsEnv(x.X, env, depth+1)...)
	}
	return out
}

// splitsAll: strings.Split(v, sep), or strings.SplitN(v, sep, n) with a count that leaves the first two parts what
// Split makes them (n >= 3 or negative); with a test len(parts) == k, k < n, the accepted values and their parts are
// the same as with Split.
func splitsAll(sp *ssa.Call) bool {
	switch calleeName(sp) {
	case "strings.Split":
		return len(sp.Call.Args) == 2
	case "strings.SplitN":
		n := splitNCount(sp)
		return len(sp.Call.Args) == 3 && (n < 0 || n >= 3)
	}
	return false
}

func splitNCount(sp *ssa.Call) int64 {
	if len(sp.Call.Args) == 3 {
		if n, isK := intConst(sp.Call.Args[2]); isK {
			return n
		}
	}
	return 0
}
