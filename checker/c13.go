package main

import (
	"fmt"
	"go/token"
	"go/types"
	"os"
	"strings"

	"golang.org/x/tools/go/ssa"
)

func init() {
	register(&property{
		ID: "C13",
		Meta: propMeta{
			Level:       "Structural necessary conditions of 'the client acts exactly as the served agent': (R1) message codes, sshtype tags and request/response struct layouts agree on the two sides of the wire, the smart-card codes have no arm of their own and fall to the raw forward, and the SUCCESS literal is one constant; (R2) on both sides arguments and results pass through unchanged: every standard operation of the client hands its parameters to the agent built on the connection and returns its results; the extended operations encode the caller's arguments (key blob, comment, slot, wait code) and turn a reply error string into a non-nil error; the server arms hand the decoded arguments to the same-named agent method and encode its results; (R3) the slot operations of the server run the PIV tool only under the must-fact 'not remote' and the remote edge returns a non-nil error; (R4) the slot-list parser appends line[5:7] only under the must-facts len(line) >= 7 and line[:4] == \"Slot\", for every line in order. Byte identity through x/crypto's codecs and the PIV tool are not decided.",
			Technique:   "static analysis: constant/struct-layout table comparison + value-flow pass-through tables + must-fact gating on go/ssa",
			Explanation: "Client methods are the methods of the repository type implementing yubiagent.YubiAgent that holds a connection; server arms are located by the agent method they invoke.",
			Assumptions: []string{"ssh.Marshal/Unmarshal are inverse on identical struct layouts", "x/crypto's agent client/server implement the standard operations faithfully"},
			Trusted:     []string{"go/packages", "go/types", "go/ssa", "golang.org/x/crypto/ssh"},
			RuleDoc: map[string]string{
				"R1.codes":       "code / tag / layout agreement between client and server",
				"R2.passthrough": "argument and result pass-through on both sides",
				"R3.remote":      "slot operations refuse in remote mode before running the tool",
				"R4.slots":       "slot-list parser guards and order",
				"R4.bounds":      "bounds obligations of the slot operations",
				"R5.frames":      "the framed writer both sides share puts the length prefix and then the whole payload on the wire",
				"R6.pem":         "the certificate bundle a slot reply carries is decoded by the PEM loop over the lenient certificate parser (C16's rules for that loop, imported)",
			},
		},
		Run: runC13,
	})
}

func runC13(c *Ctx) {
	w := c.w
	tablesC13(c)
	// slot reading / attestation hand the caller the certificates of the reply: every block of the bundle, in order, through
	// the parser that accepts what the YubiKey firmware emits (a stricter parser turns a good reply into an error)
	{
		seen, notes := map[string]bool{}, len(c.Notes)
		for k, v := range c.Analysed {
			seen[k] = v
		}
		nPem := c.WithRulesKept(map[string]string{"R5.pem": "R6.pem"}, func(construct, detail string) bool {
			return strings.HasPrefix(construct, "ParsePEMCertificates|")
		}, func() { c16Structure(c) })
		c.Analysed, c.Notes = seen, c.Notes[:notes]
		if pp := w.Func("agent/utils", "ParsePEMCertificates"); pp != nil {
			c.Saw(pp)
		}
		c.Floor("R6.pem", nPem, 3, "obligations of the PEM bundle loop")
	}
	frameWriteRule(c, "R5.frames", yubiPkg)
	client := w.NamedType(yubiPkg, "client")
	server := w.NamedType(yubiPkg, "server")
	if client == nil || server == nil {
		c.Unresolved("R2.passthrough", "yubiagent client / server types")
		return
	}
	// ---- R2: standard operations of the client ----
	agentField := ""
	cst := client.Underlying().(*types.Struct)
	for i := 0; i < cst.NumFields(); i++ {
		if strings.HasPrefix(cst.Field(i).Type().String(), "golang.org/x/crypto/ssh/agent.") {
			agentField = cst.Field(i).Name()
		}
	}
	std := map[string][]string{
		"List": nil, "Sign": {"p1", "p2"}, "SignWithFlags": {"p1", "p2", "p3"}, "Add": {"p1"}, "Remove": {"p1"}, "RemoveAll": nil,
		"Lock": {"p1"}, "Unlock": {"p1"}, "Signers": nil, "Extension": {"p1", "p2"},
	}
	n := 0
	for name, args := range std {
		fn := w.methodOfNamed(client, name)
		if fn == nil || fn.Blocks == nil {
			c.Unresolved("R2.passthrough", "client method "+name)
			continue
		}
		c.Saw(fn)
		var call *ssa.Call
		for _, cv := range invokeOf(fn, name) {
			if w.Expr(cv.Call.Value) == "p0."+agentField {
				call = cv
			}
		}
		if call == nil {
			c.Bad("R2.passthrough", "client."+name+"|delegates to the agent on the connection", w.FnPos(fn), "client."+name+" no longer calls the same operation of the agent built on the connection")
			continue
		}
		n++
		ok := len(call.Call.Args) == len(args)
		for i := range args {
			if ok && w.Expr(call.Call.Args[i]) != args[i] {
				ok = false
			}
		}
		c.Check(ok, "R2.passthrough", "client."+name+"|arguments unchanged", w.Pos(call.Pos()), "parameters handed over as received", "arguments differ from the caller's: "+exprList(w, call.Call.Args))
		okRet := true
		for _, r := range liveReturns(fn) {
			if !InstrDominates(call, r) {
				continue
			}
			for i, rv := range r.Results {
				for _, lf := range w.Leaves(rv, r) {
					want := ssa.Value(call)
					if len(r.Results) > 1 {
						want = extractOf(call, i)
					}
					if lf.Val != want {
						okRet = false
					}
				}
			}
		}
		c.Check(okRet, "R2.passthrough", "client."+name+"|result unchanged", w.Pos(call.Pos()), "the agent's result is returned as is", "the result is altered or replaced")
	}
	c.Floor("R2.passthrough", n, 10, "standard operations of the client")

	// client extended operations
	if fn := w.methodOfNamed(client, "AddHardCert"); fn != nil && fn.Blocks != nil {
		c.Saw(fn)
		okBlob, okComment := false, false
		for _, b := range fn.Blocks {
			for _, ins := range b.Instrs {
				if a, ok := ins.(*ssa.Alloc); ok && strings.HasSuffix(a.Type().String(), "agentAddHardCertReq") {
					for fld, vals := range FieldStores(fn, a) {
						for _, v := range vals {
							switch fld {
							case "KeyBlob":
								okBlob = strings.HasSuffix(w.Expr(v), "PublicKey).Marshal>(p1)")
							case "Comment":
								okComment = w.Expr(v) == "p2"
							}
						}
					}
				}
			}
		}
		c.Check(okBlob, "R2.passthrough", "client.AddHardCert|key blob is key.Marshal()", w.FnPos(fn), "KeyBlob: key.Marshal()", "the blob sent is not the caller's key")
		c.Check(okComment, "R2.passthrough", "client.AddHardCert|comment unchanged", w.FnPos(fn), "Comment: comment", "the comment sent is not the caller's comment")
		checkStringReply(c, fn, "client.AddHardCert")
	}
	if fn := w.methodOfNamed(client, "Wait"); fn != nil && fn.Blocks != nil {
		checkStringReply(c, fn, "client.Wait")
		c.Check(clientWaitCarriesCode(w, fn), "R2.passthrough", "client.Wait|code sent as the second request byte", w.FnPos(fn), "append([]byte{wait}, code)", "the wait request does not carry the caller's code as one byte (a string(code) conversion encodes codes above 127 as two bytes)")
	}
	for _, name := range []string{"ReadSlot", "AttestSlot"} {
		fn := w.methodOfNamed(client, name)
		if fn == nil || fn.Blocks == nil {
			c.Unresolved("R2.passthrough", "client method "+name)
			continue
		}
		c.Saw(fn)
		okReq := false
		w.Focus(fn)
		for _, call := range w.callsInDeep(fn) {
			if callee := call.Common().StaticCallee(); callee != nil && callee == clientExchange(w) {
				ex := w.Expr(call.Common().Args[1])
				okReq = strings.Contains(ex, "builtin:append") && strings.Contains(ex, "conv<[]byte>(p1)")
				if !okReq {
					// any way of writing code ++ slot
					if parts, ok := w.byteSeq(fn, call.Common().Args[1], 0); ok && len(parts) == 2 && parts[0].one != nil && parts[1].many != nil {
						_, isK := intConst(w.canon(fn, parts[0].one))
						me := w.Expr(w.canon(fn, parts[1].many))
						okReq = isK && (me == "p1" || me == "conv<[]byte>(p1)")
					}
				}
			}
		}
		c.Check(okReq, "R2.passthrough", "client."+name+"|slot name appended to the code", w.FnPos(fn), "append([]byte{code}, []byte(slot)...)", "the request does not carry the caller's slot name")
		checkErrField(c, fn, "client."+name)
		// result: ParsePEMCertificate(msg.Cert)
		okRes := false
		for _, r := range liveReturns(fn) {
			for _, lf := range w.Leaves(r.Results[0], r) {
				if ex := w.Expr(lf.Val); strings.Contains(ex, "agent/utils.ParsePEMCertificate>(") && strings.Contains(ex, ".Cert)") {
					okRes = true
				}
			}
		}
		c.Check(okRes, "R2.passthrough", "client."+name+"|certificate decoded from the reply", w.FnPos(fn), "utils.ParsePEMCertificate(msg.Cert)", "the certificate returned is not decoded from the reply's Cert field")
	}
	if fn := w.methodOfNamed(client, "ListSlots"); fn != nil && fn.Blocks != nil {
		c.Saw(fn)
		checkErrField(c, fn, "client.ListSlots")
		okRes := false
		for _, r := range liveReturns(fn) {
			if strings.HasSuffix(w.Expr(r.Results[0]), ".Slots") {
				okRes = true
			}
		}
		c.Check(okRes, "R2.passthrough", "client.ListSlots|slots from the reply", w.FnPos(fn), "msg.Slots", "the slots returned are not the reply's Slots field")
	}
	// Forward -> call(req) -> write(conn, req); read(conn)
	if fn := w.methodOfNamed(client, "Forward"); fn != nil && fn.Blocks != nil {
		ok := false
		for _, call := range callsIn(fn) {
			if callee := call.Common().StaticCallee(); callee != nil && callee == clientExchange(w) && w.ExprIn(fn, call.Common().Args[1]) == "p1" {
				for _, wc := range callsIn(callee) {
					if wcallee := wc.Common().StaticCallee(); wcallee != nil && isFramingWrite(w, wcallee) && w.ExprIn(callee, wc.Common().Args[1]) == "p1" {
						ok = true
					}
				}
			}
		}
		c.Check(ok, "R2.passthrough", "client.Forward|request relayed byte for byte", w.FnPos(fn), "call(req) -> write(conn, req)", "the raw request written is not the caller's")
	}

	// server arms: argument pass-through
	serve := w.Func(yubiPkg, "ServeAgent")
	if serve == nil {
		c.Unresolved("R2.passthrough", "yubiagent.ServeAgent")
		return
	}
	c.Saw(serve)
	w.Focus(serve)
	req := "call<" + RepoMod + "/agent/yubiagent.read>(p1)#0"
	for _, cv := range w.invokeOfDeep(serve, "ReadSlot") {
		c.Check(w.Expr(cv.Call.Args[0]) == "conv<string>("+req+")[const(1):]" || w.Expr(cv.Call.Args[0]) == "conv<string>("+req+"[const(1):])", "R2.passthrough", "server.ReadSlot arm|slot is the request body", w.Pos(cv.Pos()), "string(req)[1:]", "the slot name handed to the agent is not the request body: "+w.Short(cv.Call.Args[0]))
	}
	for _, cv := range w.invokeOfDeep(serve, "AttestSlot") {
		c.Check(w.Expr(cv.Call.Args[0]) == "conv<string>("+req+")[const(1):]" || w.Expr(cv.Call.Args[0]) == "conv<string>("+req+"[const(1):])", "R2.passthrough", "server.AttestSlot arm|slot is the request body", w.Pos(cv.Pos()), "string(req)[1:]", "the slot name handed to the agent is not the request body: "+w.Short(cv.Call.Args[0]))
	}
	for _, bc := range w.boundCalls(serve) {
		if (bc.Method == "ReadSlot" || bc.Method == "AttestSlot") && len(bc.Args) == 1 && w.canon(serve, bc.Recv) == ssa.Value(serve.Params[0]) {
			ex := w.Expr(bc.Args[0])
			c.Check(ex == "conv<string>("+req+")[const(1):]" || ex == "conv<string>("+req+"[const(1):])", "R2.passthrough", "server."+bc.Method+" arm|slot is the request body", w.Pos(bc.Site.Pos()), "string(req[1:])", "the slot handed to the agent is not the request body: "+w.Short(bc.Args[0]))
		}
	}
	for _, cv := range w.invokeOfDeep(serve, "AddHardCert") {
		// key: phi of ParsePublicKey(req[1:]) and ParsePublicKey(msg.KeyBlob); comment: "" or msg.Comment
		okKey := true
		for _, lf := range w.Leaves(cv.Call.Args[0], cv) {
			ex := w.Expr(lf.Val)
			if !(ex == "call<golang.org/x/crypto/ssh.ParsePublicKey>("+req+"[const(1):])#0" || (strings.HasPrefix(ex, "call<golang.org/x/crypto/ssh.ParsePublicKey>(") && strings.HasSuffix(ex, ".KeyBlob)#0"))) {
				okKey = false
			}
		}
		c.Check(okKey, "R2.passthrough", "server.AddHardCert arm|key parsed from the request", w.Pos(cv.Pos()), "ParsePublicKey(req[1:]) or ParsePublicKey(msg.KeyBlob)", "the key handed to the agent is not parsed from the request: "+w.Short(cv.Call.Args[0]))
		okC := true
		for _, lf := range w.Leaves(cv.Call.Args[1], cv) {
			ex := w.Expr(lf.Val)
			if !(ex == `const("")` || strings.HasSuffix(ex, ".Comment")) {
				okC = false
			}
		}
		c.Check(okC, "R2.passthrough", "server.AddHardCert arm|comment from the request", w.Pos(cv.Pos()), "msg.Comment (or none in the old format)", "the comment handed to the agent is not the request's: "+w.Short(cv.Call.Args[1]))
	}
	// what an arm hands to the served agent derives from the request being served, never from an earlier one
	{
		_, _ = framingFns(w, yubiPkg)
		yrd, _ := framingFns(w, yubiPkg)
		var readCall *ssa.Call
		for _, call := range callsIn(serve) {
			if cv, ok := call.(*ssa.Call); ok && yrd != nil && cv.Call.StaticCallee() == yrd {
				readCall = cv
			}
		}
		nArgs := 0
		if readCall != nil && len(serve.Params) > 0 {
			for _, call := range w.callsInDeep(serve) {
				cv, ok := call.(*ssa.Call)
				if !ok || !cv.Call.IsInvoke() || w.canon(serve, cv.Call.Value) != ssa.Value(serve.Params[0]) {
					continue
				}
				for i, a := range cv.Call.Args {
					nArgs++
					why := w.staleFrom(a, cv, readCall)
					c.Check(why == "", "R2.passthrough", fmt.Sprintf("server.%s arm|argument %d belongs to the request being served", cv.Call.Method.Name(), i), w.Pos(cv.Pos()), "defined in this iteration of the request loop",
						"an argument handed to the served agent can come from a previous request on the connection: "+why)
				}
			}
		}
		if readCall != nil && len(serve.Params) > 0 {
			for _, bc := range w.boundCalls(serve) {
				if w.canon(serve, bc.Recv) != ssa.Value(serve.Params[0]) {
					continue
				}
				for i, a := range bc.Args {
					nArgs++
					why := w.staleFrom(a, bc.Site, readCall)
					c.Check(why == "", "R2.passthrough", fmt.Sprintf("server.%s arm|argument %d belongs to the request being served", bc.Method, i), w.Pos(bc.Site.Pos()), "defined in this iteration from the request just read",
						"an argument handed to the served agent can come from a previous request on the connection: "+why)
				}
			}
		}
		c.Floor("R2.passthrough", nArgs, 5, "arguments of agent calls in the request loop")
		// ... and what an arm replies is built in this iteration: a reply struct that lives outside the request loop
		// must have every field written on every path from the read to its encoding, or a field set while serving an
		// earlier request (an error text, a certificate) is sent again
		if readCall != nil {
			head := readCall.Block()
			nRep := 0
			for _, call := range w.callsInDeep(serve) {
				cv, ok := call.(*ssa.Call)
				if !ok || calleeName(cv) != tbXSSHPath+".Marshal" || len(cv.Call.Args) != 1 {
					continue
				}
				nRep++
				al, isAl := throughCell(strip(cv.Call.Args[0])).(*ssa.Alloc)
				if !isAl {
					if mi, isMI := cv.Call.Args[0].(*ssa.MakeInterface); isMI {
						al, isAl = mi.X.(*ssa.Alloc)
					}
				}
				key := "server reply " + shortName(strip(cv.Call.Args[0]).Type().String()) + "|built while serving this request"
				if !isAl || al.Parent() != serve || al.Block() == head || !al.Block().Dominates(head) {
					c.Ok("R2.passthrough", key, w.Pos(cv.Pos()), "the encoded value is made in this iteration (or in a helper's activation)")
					continue
				}
				st, _ := al.Type().(*types.Pointer).Elem().Underlying().(*types.Struct)
				stale := ""
				for fi := 0; st != nil && fi < st.NumFields(); fi++ {
					barrier := map[ssa.Instruction]bool{}
					for _, r := range *al.Referrers() {
						switch u := r.(type) {
						case *ssa.Store:
							if u.Addr == ssa.Value(al) {
								barrier[u] = true
							}
						case *ssa.FieldAddr:
							if u.Field != fi {
								continue
							}
							for _, rr := range *u.Referrers() {
								if sv, isSt := rr.(*ssa.Store); isSt && sv.Addr == ssa.Value(u) {
									barrier[sv] = true
								}
							}
						}
					}
					if ReachableAvoiding(readCall, barrier)(cv) {
						stale = st.Field(fi).Name()
					}
				}
				c.Check(stale == "" && st != nil, "R2.passthrough", key, w.Pos(cv.Pos()), "every field written on every path of this iteration", "the reply variable "+al.Comment+" is declared outside the request loop and its field "+stale+" can still hold what an earlier request put there: the answer to one request leaks into the next")
			}
			c.Floor("R2.passthrough", nRep, 2, "structured replies encoded in the request loop")
		}
	}
	// the add-hardware-certificate arm gives up (ends the connection) only after BOTH encodings failed to parse
	{
		f := w.Facts(serve)
		var legacy *ssa.Call
		var newfmt *ssa.Call
		for _, call := range w.callsInDeep(serve) {
			cv, ok := call.(*ssa.Call)
			if !ok {
				continue
			}
			switch calleeName(cv) {
			case "golang.org/x/crypto/ssh.ParsePublicKey":
				if w.Expr(cv.Call.Args[0]) == req+"[const(1):]" {
					legacy = cv
				}
			case "golang.org/x/crypto/ssh.Unmarshal":
				if w.Expr(cv.Call.Args[0]) == req && strings.Contains(strip(cv.Call.Args[1]).Type().String(), "agentAddHardCertReq") {
					newfmt = cv
				}
			}
		}
		if legacy == nil || newfmt == nil {
			c.Bad("R2.passthrough", "server.AddHardCert arm|both wire formats decoded", w.FnPos(serve), "the arm no longer decodes both the bare-key and the key+comment encodings")
		} else {
			lerr := extractOf(legacy, 1)
			for _, r := range liveReturns(serve) {
				// error returns inside this arm: those that know the new-format decode (or its inner key parse) failed
				inArm := false
				if n, k := f.KnownNil(r.Block(), ssa.Value(newfmt)); k && !n {
					inArm = true
				}
				for l := range f.At(r.Block()) {
					if y, isNil, ok := nilTest(l); ok && !isNil {
						if ex, ok := throughCell(strip(y)).(*ssa.Extract); ok {
							if pc, ok := ex.Tuple.(*ssa.Call); ok && calleeName(pc) == "golang.org/x/crypto/ssh.ParsePublicKey" && strings.HasSuffix(w.Expr(pc.Call.Args[0]), ".KeyBlob") {
								inArm = true
							}
						}
					}
				}
				if inArm {
					n, k := f.KnownNil(r.Block(), lerr)
					c.Check(k && !n, "R2.passthrough", "server.AddHardCert arm|gives up only after both encodings failed", w.Pos(r.Pos()), "must-fact: the bare-key parse failed too", "the arm ends the connection because the key+comment decode failed without having tried the bare-key encoding (some keys in the old format are misread as the new one)")
					continue
				}
				// the error returned is, on some path, the failure of the new-format decode (or of its inner key parse): on that
				// path the bare-key parse must have failed too
				if len(r.Results) == 0 {
					continue
				}
				for _, lf := range w.LeavesErr(r.Results[len(r.Results)-1], r) {
					v := throughCell(strip(lf.Val))
					fromNew := v == ssa.Value(newfmt)
					if ex, ok := v.(*ssa.Extract); ok {
						if pc, ok := ex.Tuple.(*ssa.Call); ok && calleeName(pc) == "golang.org/x/crypto/ssh.ParsePublicKey" && strings.HasSuffix(w.Expr(pc.Call.Args[0]), ".KeyBlob") {
							fromNew = true
						}
					}
					if !fromNew {
						continue
					}
					facts := copyFacts(f.At(r.Block()))
					for l := range lf.Facts {
						facts[l] = true
					}
					n, k := f.knownNilIn(facts, lerr)
					c.Check(k && !n, "R2.passthrough", "server.AddHardCert arm|gives up only after both encodings failed", w.Pos(r.Pos()), "must-fact: the bare-key parse failed too", "the arm ends the connection because the key+comment decode failed without having tried the bare-key encoding (some keys in the old format are misread as the new one)")
				}
			}
		}
	}
	// encoded results: for each response struct alloc in ServeAgent, the field stores
	var serveBlocks []*ssa.BasicBlock
	for _, tf := range w.Tree(serve) {
		if tf == serve || w.transparent(tf) {
			serveBlocks = append(serveBlocks, tf.Blocks...)
		}
	}
	w.Focus(serve)
	for _, b := range serveBlocks {
		for _, ins := range b.Instrs {
			a, ok := ins.(*ssa.Alloc)
			if !ok {
				continue
			}
			tn := a.Type().(*types.Pointer).Elem().String()
			// a variable that only receives a whole response built elsewhere (msg := newResp(...)) is examined where it is built
			if stores, _ := cellStores(a); len(stores) > 0 && len(w.FieldStoresDeep(serve, a)) == 0 {
				copyOnly := true
				for _, st := range stores {
					src := w.canon(serve, st.Val)
					if ld, isLd := src.(*ssa.UnOp); !isLd || ld.Op != token.MUL {
						copyOnly = false
					} else if _, isAl := ld.X.(*ssa.Alloc); !isAl {
						copyOnly = false
					}
				}
				if copyOnly {
					continue
				}
			}
			switch {
			case strings.HasSuffix(tn, "agentListSlotsResp"):
				fs := w.FieldStoresDeep(serve, a)
				ok1 := len(fs["Slots"]) == 1 && strings.HasSuffix(w.Expr(fs["Slots"][0]), "YubiAgent).ListSlots>(p0)#0")
				c.Check(ok1, "R2.passthrough", "server.ListSlots arm|reply carries the agent's slots", w.Pos(a.Pos()), "msg.Slots = agent.ListSlots()", "the reply's Slots are not the agent's result")
				ok2 := len(fs["Err"]) >= 1 && someLeaf(w, a, fs["Err"][0], func(ex string) bool { return strings.Contains(ex, "error).Error>(") })
				c.Check(ok2, "R2.passthrough", "server.ListSlots arm|reply carries the error text", w.Pos(a.Pos()), "msg.Err = err.Error()", "an error of the agent is not reported in the reply")
			case strings.HasSuffix(tn, "agentReadSlotResp"), strings.HasSuffix(tn, "agentAttestSlotResp"):
				fs := w.FieldStoresDeep(serve, a)
				arm := "ReadSlot"
				if strings.HasSuffix(tn, "agentAttestSlotResp") {
					arm = "AttestSlot"
				}
				ok1 := len(fs["Cert"]) == 1 && someLeaf(w, a, fs["Cert"][0], func(ex string) bool { return strings.Contains(ex, "encoding/pem.EncodeToMemory") })
				c.Check(ok1, "R2.passthrough", "server."+arm+" arm|reply carries the PEM of the agent's certificate", w.Pos(a.Pos()), "msg.Cert = pem(cert.Raw)", "the reply's Cert is not the PEM encoding of the agent's certificate")
				ok2 := len(fs["Err"]) >= 1 && someLeaf(w, a, fs["Err"][0], func(ex string) bool { return strings.Contains(ex, "error).Error>(") })
				c.Check(ok2, "R2.passthrough", "server."+arm+" arm|reply carries the error text", w.Pos(a.Pos()), "msg.Err = err.Error()", "an error of the agent is not reported in the reply")
			}
		}
	}

	// ---- R3 ----
	sst := server.Underlying().(*types.Struct)
	remoteField := ""
	for i := 0; i < sst.NumFields(); i++ {
		if sst.Field(i).Type().String() == "bool" {
			remoteField = sst.Field(i).Name()
		}
	}
	nExec := 0
	for _, name := range []string{"ListSlots", "ReadSlot", "AttestSlot"} {
		fn := w.methodOfNamed(server, name)
		if fn == nil || fn.Blocks == nil {
			c.Unresolved("R3.remote", "server method "+name)
			continue
		}
		c.Saw(fn)
		f := w.Facts(fn)
		for _, call := range w.callsInDeep(fn) {
			if n := calleeName(call); n != "os/exec.Command" && n != "os/exec.CommandContext" {
				continue
			}
			nExec++
			// the points of the operation itself from which the tool is run (the call, or the call of the helper that runs it)
			at := []ssa.Instruction{call.(ssa.Instruction)}
			for hop := 0; hop < 4; hop++ {
				var next []ssa.Instruction
				moved := false
				for _, x := range at {
					if x.Parent() == fn {
						next = append(next, x)
						continue
					}
					moved = true
					for _, site := range w.sitesIn(fn, x.Parent()) {
						next = append(next, site.(ssa.Instruction))
					}
				}
				at = next
				if !moved {
					break
				}
			}
			ok := len(at) > 0
			for _, x := range at {
				if x.Parent() != fn || !f.Any(x.Block(), func(l Lit) bool { return !l.Pol && w.Expr(l.V) == "p0."+remoteField }) {
					ok = false
				}
			}
			// ... or the runner itself is a method of the server that refuses in remote mode before it runs the tool
			if !ok {
				if g := call.Parent(); g != fn && recvNamed(g) == recvNamed(fn) && len(g.Params) > 0 {
					handed := true
					for _, site := range w.sitesIn(fn, g) {
						if a := site.Common().Args; len(a) == 0 || w.Expr(a[0]) != "p0" {
							handed = false
						}
					}
					gf := w.Facts(g)
					if handed && gf.Any(call.Block(), func(l Lit) bool { return !l.Pol && w.ExprIn(g, l.V) == "p0."+remoteField }) {
						ok = true
					}
				}
			}
			c.Check(ok, "R3.remote", "server."+name+"|tool run only when not remote", w.Pos(call.Pos()), "must-fact remote == false", "the PIV tool can be run on a remote-mode server")
		}
		// a failure of the tool fails the operation: wherever the error of running it is non-nil, control reaches only
		// returns of a non-nil error (a partial output is not an answer)
		for _, call := range w.callsInDeep(fn) {
			cv, isCall := call.(*ssa.Call)
			if !isCall {
				continue
			}
			n := calleeName(cv)
			if n != "(*os/exec.Cmd).Output" && n != "(*os/exec.Cmd).CombinedOutput" && n != "(*os/exec.Cmd).Run" {
				continue
			}
			var ev ssa.Value = cv
			if cv.Call.Signature().Results().Len() == 2 {
				ev = extractOf(cv, 1)
			}
			g := cv.Parent()
			// a runner that hands the tool's results back as they are (return cmd.Output()): the error is judged where a
			// caller on the operation's tree first looks at it
			type frame struct {
				g  *ssa.Function
				ev ssa.Value
			}
			frames := []frame{{g, ev}}
			for hop := 0; hop < 4 && ev != nil; hop++ {
				var next []frame
				moved := false
				for _, fr := range frames {
					idx := errorResultIndex(fr.g)
					asIs := fr.g != fn && idx >= 0
					for _, u := range valueUsers(fr.ev) {
						if _, isDbg := u.(*ssa.DebugRef); isDbg {
							continue
						}
						if r, isRet := u.(*ssa.Return); !isRet || idx >= len(r.Results) || r.Results[idx] != fr.ev {
							asIs = false
						}
					}
					if asIs {
						for _, r := range liveReturns(fr.g) {
							if r.Results[idx] != fr.ev {
								// another way out of the runner that is a failure as well (the remote-mode refusal in front)
								for _, lf := range w.Leaves(r.Results[idx], r) {
									if !w.NonNil(lf.Val, lf.Facts) {
										asIs = false
									}
								}
							}
						}
					}
					sites := w.sitesIn(fn, fr.g)
					if !asIs || len(sites) == 0 {
						next = append(next, fr)
						continue
					}
					moved = true
					for _, site := range sites {
						sc, isCall := site.(*ssa.Call)
						if !isCall {
							next = append(next, fr)
							continue
						}
						var up ssa.Value = sc
						if sc.Call.Signature().Results().Len() > 1 {
							up = extractOf(sc, idx)
						}
						next = append(next, frame{sc.Parent(), up})
					}
				}
				frames = next
				if !moved {
					break
				}
			}
			ends := ev != nil
			if os.Getenv("YV_DEBUG") == "c13piv" {
				for _, fr := range frames {
					fmt.Fprintln(os.Stderr, "c13piv", name, shortFn(fr.g), fr.ev != nil, fr.ev != nil && w.ErrEdgeEnds(fr.g, fr.ev), fr.g == fn || w.failurePropagates(fn, fr.g))
				}
			}
			for _, fr := range frames {
				if fr.ev == nil || !w.ErrEdgeEnds(fr.g, fr.ev) || !(fr.g == fn || w.failurePropagates(fn, fr.g)) {
					ends = false
				}
			}
			c.Check(ends, "R4.slots", "server."+name+"|a failed tool run fails the operation", w.Pos(cv.Pos()), "the error edge of the tool's run reaches only returns of a non-nil error",
				"the slot operation can go on (and report success) although running the PIV tool failed: a truncated or partial output is taken for the answer")
		}
		for _, r := range liveReturns(fn) {
			if f.Any(r.Block(), func(l Lit) bool { return l.Pol && w.Expr(l.V) == "p0."+remoteField }) {
				ok := true
				for _, lf := range w.Leaves(r.Results[len(r.Results)-1], r) {
					if !w.NonNil(lf.Val, lf.Facts) {
						ok = false
					}
				}
				c.Check(ok, "R3.remote", "server."+name+"|remote mode refused with an error", w.Pos(r.Pos()), "non-nil error", "a slot operation on a remote-mode server does not fail")
			}
		}
	}
	c.Floor("R3.remote", nExec, 3, "PIV tool invocations")

	// ---- R4 ----
	if fn := w.methodOfNamed(server, "ListSlots"); fn != nil && fn.Blocks != nil {
		// the parser: ListSlots itself, or the repository function it hands the tool's output to and whose result it
		// returns
		pf := fn
		var pfSite *ssa.Call
		hasAppend := func(g *ssa.Function) bool {
			for _, call := range callsIn(g) {
				if b, ok := call.Common().Value.(*ssa.Builtin); ok && b.Name() == "append" {
					return true
				}
			}
			return false
		}
		if !hasAppend(fn) {
			for _, r := range w.MayBeNilReturns(fn) {
				if len(r.Results) == 0 {
					continue
				}
				for _, lf := range w.leaves(r.Results[0], r, false) {
					v := throughCell(strip(lf.Val))
					if ex, isEx := v.(*ssa.Extract); isEx {
						v = ex.Tuple
					}
					if hc, isCall := v.(*ssa.Call); isCall {
						if h := hc.Call.StaticCallee(); h != nil && w.InRepo(h) && h.Blocks != nil && hasAppend(h) {
							pf, pfSite = h, hc
						}
					}
				}
			}
		}
		fromTool := func(v ssa.Value) bool {
			ex := w.ExprIn(pf, v)
			if pfSite == nil {
				return strings.Contains(ex, "exec.Cmd).Output>")
			}
			// in the parser's own terms: a parameter, bound at the call in ListSlots to the tool's output
			for i, a := range pfSite.Call.Args {
				if strings.Contains(ex, "p"+itoa(i)) && strings.Contains(w.ExprIn(fn, a), "exec.Cmd).Output>") {
					return true
				}
			}
			return false
		}
		c.Saw(pf)
		f := w.Facts(pf)
		c.BoundsFns[fn.String()] = true
		if pf != fn {
			c.BoundsFns[pf.String()] = true
			reportSites(c, "R4.bounds", w.BoundsObligations([]*ssa.Function{fn, pf}, nil))
		} else {
			reportSites(c, "R4.bounds", w.BoundsObligations([]*ssa.Function{fn}, nil))
		}
		nApp := 0
		for _, call := range callsIn(pf) {
			b, ok := call.Common().Value.(*ssa.Builtin)
			if !ok || b.Name() != "append" {
				continue
			}
			nApp++
			// appended element
			var elem ssa.Value
			if sl, ok := call.Common().Args[1].(*ssa.Slice); ok {
				if a, ok := sl.X.(*ssa.Alloc); ok {
					for _, v := range storesInto(a) {
						elem = v
					}
				}
			}
			es, isSlice := elem.(*ssa.Slice)
			okElem := false
			var line ssa.Value
			var cutPrefix *ssa.Call // the prefix test and cut in one: strings.CutPrefix(line, "Slot")
			var cutRest ssa.Value
			if isSlice {
				lo, ok1 := intConst(es.Low)
				hi, ok2 := intConst(es.High)
				okElem = ok1 && ok2 && lo == 5 && hi == 7
				line = es.X
				// rest, ok := strings.CutPrefix(line, "Slot"); rest[1:3] is line[5:7] when ok
				if ex, isEx := es.X.(*ssa.Extract); isEx && ex.Index == 0 && ok1 && ok2 {
					if cp, isCall := ex.Tuple.(*ssa.Call); isCall && calleeName(cp) == "strings.CutPrefix" && len(cp.Call.Args) == 2 {
						if pfx, isK := strConst(cp.Call.Args[1]); isK && pfx == "Slot" {
							cutPrefix, cutRest = cp, es.X
							okElem = lo+int64(len(pfx)) == 5 && hi+int64(len(pfx)) == 7
							line = cp.Call.Args[0]
						}
					}
				}
			}
			c.Check(okElem, "R4.slots", "ListSlots|appends the two characters after 'Slot '", w.Pos(call.Pos()), "line[5:7]", "the slot name appended is not line[5:7]: "+w.Short(elem))
			if line == nil {
				continue
			}
			// line is element of a forward range over Split(output, "\n")
			okLine := false
			if ld, ok := line.(*ssa.UnOp); ok && ld.Op == token.MUL {
				if ia, ok := ld.X.(*ssa.IndexAddr); ok && isForwardRangeIndex(ia.Index) {
					if sp, ok := ia.X.(*ssa.Call); ok && calleeName(sp) == "strings.Split" {
						if sep, ok := strConst(sp.Call.Args[1]); ok && sep == "\n" && fromTool(sp.Call.Args[0]) {
							okLine = true
						}
					}
				}
			}
			// ... or walked in place: line, rest, more = strings.Cut(rest, "\n") while more, starting from the whole output
			var cutIter *ssa.Call
			if ex, ok := line.(*ssa.Extract); ok && ex.Index == 0 && !okLine {
				if cc, ok := ex.Tuple.(*ssa.Call); ok && calleeName(cc) == "strings.Cut" && len(cc.Call.Args) == 2 {
					sep, isSep := strConst(cc.Call.Args[1])
					phi, isPhi := throughCell(strip(cc.Call.Args[0])).(*ssa.Phi)
					if isSep && sep == "\n" && isPhi {
						fed, started, other := false, false, false
						for i, e := range phi.Edges {
							e = throughCell(strip(e))
							back := phi.Block().Dominates(phi.Block().Preds[i])
							if r, isEx := e.(*ssa.Extract); isEx && r.Tuple == ssa.Value(cc) && r.Index == 1 && back {
								fed = true
							} else if fromTool(e) && !back {
								started = true
							} else {
								other = true
							}
						}
						fed = fed && !other
						// the loop goes on exactly while the last cut found a separator
						cont := false
						if iff, isIf := phi.Block().Instrs[len(phi.Block().Instrs)-1].(*ssa.If); isIf {
							if mp, isMp := throughCell(strip(iff.Cond)).(*ssa.Phi); isMp && mp.Block() == phi.Block() {
								t, m, o := false, false, false
								for i, e := range mp.Edges {
									e = throughCell(strip(e))
									back := mp.Block().Dominates(mp.Block().Preds[i])
									if k, isK := e.(*ssa.Const); isK && k.Value != nil && k.Value.String() == "true" && !back {
										t = true
									} else if r, isEx := e.(*ssa.Extract); isEx && r.Tuple == ssa.Value(cc) && r.Index == 2 && back {
										m = true
									} else {
										o = true
									}
								}
								cont = t && m && !o && phi.Block().Succs[0] == cc.Block()
							}
						}
						if fed && started && cont {
							okLine, cutIter = true, cc
						}
					}
				}
			}
			// ... and nothing answers before the lines were walked: every successful return lies behind the loop's head (a
			// fast path that returns when some cheaper test of the whole output fails is a second, different parser)
			if okLine {
				var loopHead *ssa.BasicBlock
				if cutIter != nil {
					if phi, isPhi := throughCell(strip(cutIter.Call.Args[0])).(*ssa.Phi); isPhi {
						loopHead = phi.Block()
					}
				} else if ld, isLd := line.(*ssa.UnOp); isLd {
					if ia, isIA := ld.X.(*ssa.IndexAddr); isIA {
						if bin, isBin := ia.Index.(*ssa.BinOp); isBin {
							loopHead = bin.Block()
						} else if phi, isPhi := ia.Index.(*ssa.Phi); isPhi {
							loopHead = phi.Block()
						}
					}
				}
				if loopHead != nil {
					for _, r := range w.MayBeNilReturns(pf) {
						if pf.Recover != nil && r.Block() == pf.Recover {
							continue
						}
						c.Check(loopHead.Dominates(r.Block()), "R4.slots", "ListSlots|no answer before the lines were walked", w.Pos(r.Pos()), "the successful return lies behind the loop over the lines", "the parser can return successfully without walking the lines: output that the shortcut's test misjudges (a first line beginning with 'Slot', no later one) loses its slots")
					}
				}
			}
			c.Check(okLine, "R4.slots", "ListSlots|every line of the tool output in order", w.Pos(call.Pos()), "for _, line := range strings.Split(output, \"\\n\")", "lines are not taken in order from the tool's output split on newlines")
			// prefix test
			isHasPrefix := func(v ssa.Value) bool {
				hp, ok := v.(*ssa.Call)
				if !ok || calleeName(hp) != "strings.HasPrefix" || len(hp.Call.Args) != 2 || hp.Call.Args[0] != line {
					return false
				}
				k, isK := strConst(hp.Call.Args[1])
				return isK && k == "Slot"
			}
			okPrefix := f.Any(call.Block(), func(l Lit) bool {
				if l.Pol && isHasPrefix(l.V) {
					return true
				}
				if ex, isEx := l.V.(*ssa.Extract); isEx && cutPrefix != nil && l.Pol && ex.Tuple == ssa.Value(cutPrefix) && ex.Index == 1 {
					return true
				}
				bin, ok := l.V.(*ssa.BinOp)
				if !ok || !((l.Pol && bin.Op == token.EQL) || (!l.Pol && bin.Op == token.NEQ)) {
					return false
				}
				k, isK := strConst(bin.Y)
				sl, isSl := bin.X.(*ssa.Slice)
				if !isK || !isSl || k != "Slot" || sl.X != line {
					return false
				}
				hi, okh := intConst(sl.High)
				return okh && hi == 4 && sl.Low == nil
			})
			// ... and no line long enough to hold a slot name is left out: the facts at the append ask for exactly the seven
			// characters that line[5:7] needs (a stricter length test drops the line `Slot 9a`)
			if okElem {
				bcLen := &boundsCtx{w: w, fn: pf, root: pf, facts: f}
				need := bcLen.lenLB(line, call.Block())
				if cutPrefix != nil {
					need = bcLen.lenLB(cutRest, call.Block()) + 4 // what is left behind the four characters of the prefix
				}
				c.Check(need <= 7, "R4.slots", "ListSlots|every line holding a slot name is taken", w.Pos(call.Pos()), "the length required of a line is 7", "a line is taken only if it has at least "+itoa(int(need))+" characters: a status line that ends right after the two-character slot name is dropped")
			}
			c.Check(okPrefix, "R4.slots", "ListSlots|only lines beginning with Slot", w.Pos(call.Pos()), "must-fact line[:4] == \"Slot\"", "a line that does not begin with 'Slot' can contribute a slot name")
			// nothing else gates the append
			extra := ""
			var header *ssa.BasicBlock
			if ld, ok := line.(*ssa.UnOp); ok {
				header = ld.Block()
			}
			if cutIter != nil {
				header = cutIter.Block()
			}
			for l := range f.Primary(call.Block()) {
				if header != nil && f.Primary(header)[l] {
					continue
				}
				ex := w.Short(l.V)
				if isHasPrefix(l.V) {
					continue
				}
				if u, ok := l.V.(*ssa.UnOp); ok && u.Op == token.NOT && isHasPrefix(u.X) {
					continue
				}
				if ex, isEx := l.V.(*ssa.Extract); isEx && cutPrefix != nil && ex.Tuple == ssa.Value(cutPrefix) && ex.Index == 1 {
					continue
				}
				if bin, ok := l.V.(*ssa.BinOp); ok {
					if la := lenArg(bin.X); la != nil && (la == line || (cutRest != nil && la == cutRest)) {
						continue
					}
					if k, isK := strConst(bin.Y); isK && k == "Slot" {
						continue
					}
				}
				extra = ex
			}
			// ... and a line that passed both tests cannot bypass the append on its way back to the loop head
			if extra == "" && header != nil {
				for _, b := range pf.Blocks {
					ifi, ok := b.Instrs[len(b.Instrs)-1].(*ssa.If)
					if !ok {
						continue
					}
					bin, ok := ifi.Cond.(*ssa.BinOp)
					if !ok || bin.Op != token.EQL {
						continue
					}
					if k, isK := strConst(bin.Y); !isK || k != "Slot" {
						continue
					}
					succ := b.Succs[0]
					if len(succ.Instrs) == 0 {
						continue
					}
					first := succ.Instrs[0]
					appendIns := call.(ssa.Instruction)
					if first != appendIns && ReachableAvoiding(first, map[ssa.Instruction]bool{appendIns: true})(header.Instrs[0]) && !InstrDominates(first, appendIns) {
						extra = "a further condition after the prefix test"
					} else if ReachableAvoiding(first, map[ssa.Instruction]bool{appendIns: true})(header.Instrs[0]) && first != appendIns {
						extra = "a further condition after the prefix test"
					}
				}
			}
			c.Check(extra == "", "R4.slots", "ListSlots|every matching line contributes", w.Pos(call.Pos()), "gated by the length and prefix tests only", "appending a slot additionally depends on "+extra)
		}
		c.Floor("R4.slots", nApp, 1, "append of a slot name")
	}
}

// someLeaf: among the values that may reach v (helper results expanded), one has an expression satisfying pred and
// every other one is a zero value (nil / empty string).
func someLeaf(w *World, at ssa.Instruction, v ssa.Value, pred func(string) bool) bool {
	if ins, ok := v.(ssa.Instruction); ok && ins.Block() != nil {
		at = ins
	}
	found := false
	for _, lf := range w.Leaves(v, at) {
		ex := w.Expr(lf.Val)
		switch {
		case pred(ex):
			found = true
		case isNilConst(strip(lf.Val)) || ex == `const("")`:
		default:
			return false
		}
	}
	return found
}

// checkStringReply: `if string(resp) != "SUCCESS" { return errors.New(string(resp)) }; return nil`
func checkStringReply(c *Ctx, fn *ssa.Function, name string) {
	w := c.w
	f := w.Facts(fn)
	// differsLit: the literal states "the reply is not the success text" - string(resp) != "SUCCESS" or
	// !bytes.Equal(resp, []byte("SUCCESS")), in the method or in a helper it calls
	isSuccessConst := func(v ssa.Value) bool {
		v = w.canon(fn, v)
		if cv, ok := v.(*ssa.Convert); ok {
			v = w.canon(fn, cv.X)
		}
		k, isK := strConst(v)
		return isK && k == "SUCCESS"
	}
	differsLit := func(l Lit) bool {
		switch x := l.V.(type) {
		case *ssa.BinOp:
			if !isSuccessConst(x.Y) && !isSuccessConst(x.X) {
				return false
			}
			return (x.Op == token.NEQ && l.Pol) || (x.Op == token.EQL && !l.Pol)
		case *ssa.Call:
			if calleeName(x) == "bytes.Equal" && len(x.Call.Args) == 2 && (isSuccessConst(x.Call.Args[0]) || isSuccessConst(x.Call.Args[1])) {
				return !l.Pol
			}
		}
		return false
	}
	differsIn := func(facts map[Lit]bool) bool {
		for l := range facts {
			if differsLit(l) {
				return true
			}
		}
		return false
	}
	n := 0
	for _, r := range liveReturns(fn) {
		at := f.At(r.Block())
		for _, lf := range w.LeavesErr(r.Results[len(r.Results)-1], r) {
			all := copyFacts(lf.Facts)
			for l := range at {
				all[l] = true
			}
			if !differsIn(all) {
				continue
			}
			n++
			c.Check(w.NonNil(lf.Val, all), "R2.passthrough", name+"|failure text becomes an error", w.Pos(r.Pos()), "errors.New(string(resp))", "a reply other than SUCCESS does not produce an error")
		}
	}
	c.Floor("R2.passthrough", n, 1, "failure return of "+name)
	differsAt := func(b *ssa.BasicBlock) bool { return differsIn(f.Primary(b)) }
	okEnd := true
	for _, tf := range w.Tree(fn) {
		if tf != fn && !w.transparent(tf) {
			continue
		}
		for _, b := range tf.Blocks {
			if differsAt(b) && !leadsOnlyToReturns(b, differsAt) {
				dbgf("%s: differs block %d of %s does not lead only to returns", name, b.Index, tf.Name())
				okEnd = false
			}
		}
		if tf != fn && okEnd {
			// the helper's failure must end the method too
			hasDiff := false
			for _, b := range tf.Blocks {
				if differsAt(b) {
					hasDiff = true
				}
			}
			if hasDiff && !w.failurePropagates(fn, tf) {
				dbgf("%s: helper %s has differs blocks and does not propagate", name, tf.Name())
				okEnd = false
			}
		}
	}
	c.Check(okEnd, "R2.passthrough", name+"|every non-SUCCESS reply fails", w.FnPos(fn), "the != SUCCESS edge reaches only error returns", "some replies other than SUCCESS are treated as success")
}

// checkErrField: a non-empty Err field of the decoded reply makes the method fail.
func checkErrField(c *Ctx, fn *ssa.Function, name string) {
	w := c.w
	f := w.Facts(fn)
	n := 0
	var blocks []*ssa.BasicBlock
	for _, tf := range w.Tree(fn) {
		if tf.Parent() == nil && (tf == fn || w.transparent(tf)) {
			blocks = append(blocks, tf.Blocks...)
		}
	}
	for _, b := range blocks {
		hasErr := f.Any(b, func(l Lit) bool {
			bin, ok := l.V.(*ssa.BinOp)
			if !ok {
				return false
			}
			k, isK := strConst(bin.Y)
			if !isK || k != "" || !strings.HasSuffix(w.Expr(bin.X), ".Err") {
				return false
			}
			return (bin.Op == token.NEQ && l.Pol) || (bin.Op == token.EQL && !l.Pol)
		})
		if !hasErr {
			continue
		}
		n++
	}
	// every return reachable: the returned error is non-nil when Err != "" — decided on the leaves
	ok := n > 0
	for _, r := range liveReturns(fn) {
		for _, lf := range w.LeavesErr(r.Results[len(r.Results)-1], r) {
			errSet := false
			for l := range lf.Facts {
				if bin, isBin := l.V.(*ssa.BinOp); isBin {
					if k, isK := strConst(bin.Y); isK && k == "" && strings.HasSuffix(w.Expr(bin.X), ".Err") {
						if (bin.Op == token.NEQ && l.Pol) || (bin.Op == token.EQL && !l.Pol) {
							errSet = true
						}
					}
				}
			}
			if errSet && !w.NonNil(lf.Val, lf.Facts) {
				ok = false
			}
		}
	}
	errAt := func(b *ssa.BasicBlock) bool {
		return f.Any(b, func(l Lit) bool {
			bin, isBin := l.V.(*ssa.BinOp)
			if !isBin {
				return false
			}
			k, isK := strConst(bin.Y)
			return isK && k == "" && strings.HasSuffix(w.Expr(bin.X), ".Err") && ((bin.Op == token.NEQ && l.Pol) || (bin.Op == token.EQL && !l.Pol))
		})
	}
	for _, b := range blocks {
		if errAt(b) && !leadsOnlyToReturns(b, errAt) {
			// ListSlots stores the error and falls through to one return: accept when every return below is non-nil
			for _, r := range liveReturns(fn) {
				if !ReachableAvoiding(b.Instrs[0], nil)(r) {
					continue
				}
				for _, lf := range w.Leaves(r.Results[len(r.Results)-1], r) {
					viaErr := false
					for l := range lf.Facts {
						if bin, isBin := l.V.(*ssa.BinOp); isBin {
							if k, isK := strConst(bin.Y); isK && k == "" && strings.HasSuffix(w.Expr(bin.X), ".Err") && ((bin.Op == token.NEQ && l.Pol) || (bin.Op == token.EQL && !l.Pol)) {
								viaErr = true
							}
						}
					}
					if viaErr && !w.NonNil(lf.Val, lf.Facts) {
						ok = false
					}
					if !viaErr && !lf.Facts[Lit{}] {
						// a leaf that does not know the error is set: the error edge merged into a success path
						if !errEdgeMergesIntoPhi(w, fn, r, errAt) {
							ok = false
						}
					}
				}
			}
		}
	}
	c.Check(ok, "R2.passthrough", name+"|reply error text becomes an error", w.FnPos(fn), "msg.Err != \"\" => non-nil error", "an error reported in the reply is not returned as an error")
}

// errEdgeMergesIntoPhi: the returned error of r is a phi (or cell) whose edge coming from the error-known blocks is non-nil.
func errEdgeMergesIntoPhi(w *World, fn *ssa.Function, r *ssa.Return, errAt func(*ssa.BasicBlock) bool) bool {
	v := r.Results[len(r.Results)-1]
	phi, ok := v.(*ssa.Phi)
	if !ok {
		return false
	}
	seen := false
	for i, p := range phi.Block().Preds {
		if errAt(p) {
			seen = true
			if !w.NonNil(phi.Edges[i], w.factsOnEdge(p, phi.Block())) {
				return false
			}
		}
	}
	return seen
}
