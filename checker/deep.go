package main

import (
	"go/token"
	"go/types"
	"sort"
	"strings"

	"golang.org/x/tools/go/ssa"
)

// Interprocedural ("deep") primitives. Rules are written against an anchor function, but a maintainer may
// move part of it into a helper or inline a helper. These primitives make the rule's view independent of
// that choice for static calls between repository functions.
//
//   focus          the function whose frame the current rule reasons in (set by World.Facts / World.Focus);
//                  its parameters stay symbolic (p0, p1, ...);
//   Tree(fn)       fn and the repository functions it calls statically (depth <= 3), closures included;
//   sitesIn        static call sites of a helper inside Tree(focus);
//   Expr           a parameter of a helper prints as the argument at its call site(s) in Tree(focus) when they
//                  all print alike; a call to a transparent helper prints as the value its success returns
//                  yield when they all yield the same value (parameters bound to the arguments of that call);
//   deep facts     Facts.At(b) = local must-facts
//                  + "down": when a literal constrains the result of a helper call (err == nil, ok == true,
//                    p != nil), the facts common to all returns of the helper compatible with that outcome;
//                  + "up":   inside a helper, the facts common to all its call sites in Tree(root);
//   *Deep searches anchor searches over Tree(fn) instead of fn.
//
// A helper is "transparent" (looked through by Expr) when it is unexported and the rule set never asked for
// it by name; exported functions and functions fetched through World.Func/Method are named primitives of the
// rules and stay opaque.

// Focus sets the frame of reference for Expr.
func (w *World) Focus(fn *ssa.Function) {
	if fn != nil {
		for fn.Parent() != nil {
			fn = fn.Parent()
		}
	}
	w.focus = fn
}

func (w *World) restoreFocus(fn *ssa.Function) { w.focus = fn }

// ExprIn renders v in the frame of fn (fn's parameters symbolic, its helpers' parameters resolved).
func (w *World) ExprIn(fn *ssa.Function, v ssa.Value) string {
	old := w.focus
	w.Focus(fn)
	defer func() { w.focus = old }()
	return w.Expr(v)
}

// resetRuleState forgets everything a rule set registered or cached (checkall runs several properties on one World).
func (w *World) resetRuleState() {
	w.focus, w.opaque, w.roleOpaque = nil, nil, nil
	w.trees, w.ndBusy, w.succVal, w.mbn, w.mbnBusy, w.rootsInl = nil, nil, nil, nil, nil, nil
	w.facts = map[*ssa.Function]*Facts{}
}

// Opaque registers fn as a named primitive: Expr never looks through calls to it.
func (w *World) Opaque(fn *ssa.Function) *ssa.Function {
	if fn != nil {
		if w.opaque == nil {
			w.opaque = map[*ssa.Function]bool{}
		}
		w.opaque[fn] = true
	}
	return fn
}

func (w *World) transparent(h *ssa.Function) bool {
	if h == nil || h.Blocks == nil || !w.InRepo(h) || w.opaque[h] {
		return false
	}
	if h.Parent() != nil {
		return w.callback(h)
	}
	if w.roleOpaque == nil {
		w.roleOpaque = map[*ssa.Function]bool{}
		for _, f := range w.repoFns {
			if f.Parent() != nil || f.Pkg == nil {
				continue
			}
			ps, rs := f.Signature.Params(), f.Signature.Results()
			switch {
			// the framing primitives of the two agent protocols (roles.go: framingFns)
			case f.Signature.Recv() == nil && ps.Len() == 1 && rs.Len() == 2 && typeIs(ps.At(0).Type(), "io.Reader") && typeIs(rs.At(0).Type(), "[]byte") && isErrorType(rs.At(1).Type()):
				w.roleOpaque[f] = true
			case f.Signature.Recv() == nil && ps.Len() == 2 && rs.Len() == 1 && typeIs(ps.At(0).Type(), "io.Writer") && typeIs(ps.At(1).Type(), "[]byte") && isErrorType(rs.At(0).Type()):
				w.roleOpaque[f] = true
			}
			if namedPrimitives[f.String()] {
				w.roleOpaque[f] = true
			}
		}
	}
	if w.roleOpaque[h] {
		return false
	}
	if w.forceTransp[h] {
		return true // an exported function of the rule's own package that a rule asked to read like a helper
	}
	if h.Synthetic != "" {
		// the per-type entry of a generic helper (it only converts and calls the generic body) is as transparent as
		// the helper itself
		if strings.HasPrefix(h.Synthetic, "instantiation wrapper") {
			if o := h.Origin(); o != nil && o != h {
				return w.transparent(o)
			}
		}
		return false
	}
	return !token.IsExported(h.Name())
}

// namedPrimitives: unexported repository functions that rules identify by name in rendered expressions.
var namedPrimitives = map[string]bool{
	RepoMod + "/agent/shimagent.hash":           true,
	RepoMod + "/csr.parseForceCommand":          true,
	RepoMod + "/attestation/yubiattest.encrypt": true,
	RepoMod + "/attestation/yubiattest.leftPad": true,
}

// helperOf: the repository function with a body that call invokes statically (nil otherwise).
func (w *World) helperOf(call ssa.CallInstruction) *ssa.Function {
	h := call.Common().StaticCallee()
	if h == nil || h.Blocks == nil || !w.InRepo(h) {
		return nil
	}
	return h
}

func (w *World) buildCallSites() {
	if w.sites != nil {
		return
	}
	w.sites = map[*ssa.Function][]ssa.CallInstruction{}
	w.cbOK = map[*ssa.Function]bool{}
	for _, fn := range w.repoFns {
		if fn.Synthetic != "" && strings.HasPrefix(fn.Synthetic, "wrapper") {
			continue // the promoted-method wrapper the compiler adds for an embedded type: not a call in the source
		}
		for _, b := range fn.Blocks {
			for _, ins := range b.Instrs {
				if c, ok := ins.(ssa.CallInstruction); ok {
					if g := w.helperOf(c); g != nil {
						w.sites[g] = append(w.sites[g], c)
					}
				}
			}
		}
	}
	// callbacks: a closure whose only use is to be handed, as an argument, to repository helpers that do nothing
	// with the receiving parameter but call it. Its call sites are those dynamic calls.
	for _, fn := range w.repoFns {
		for _, b := range fn.Blocks {
			for _, ins := range b.Instrs {
				mc, ok := ins.(*ssa.MakeClosure)
				if !ok {
					continue
				}
				clo, _ := mc.Fn.(*ssa.Function)
				refs := mc.Referrers()
				if clo == nil || refs == nil || len(*refs) == 0 {
					continue
				}
				var sites []ssa.CallInstruction
				good := true
				for _, r := range *refs {
					if _, isDbg := r.(*ssa.DebugRef); isDbg {
						continue
					}
					call, isCall := r.(*ssa.Call)
					h := (*ssa.Function)(nil)
					if isCall {
						h = w.helperOf(call)
					}
					if h == nil || call.Call.IsInvoke() || call.Call.Value == ssa.Value(mc) {
						good = false
						break
					}
					for i, a := range call.Call.Args {
						if a != ssa.Value(mc) {
							continue
						}
						if i >= len(h.Params) || h.Params[i].Referrers() == nil {
							good = false
							break
						}
						for _, pr := range *h.Params[i].Referrers() {
							switch u := pr.(type) {
							case *ssa.DebugRef:
							case *ssa.Call:
								if u.Call.Value != ssa.Value(h.Params[i]) {
									good = false
								} else {
									sites = append(sites, u)
								}
							default:
								good = false
							}
						}
					}
				}
				// made once
				if good && len(sites) > 0 && len(w.sites[clo]) == 0 && !w.cbOK[clo] {
					w.cbOK[clo] = true
					w.sites[clo] = sites
				} else if w.cbOK[clo] {
					// a second MakeClosure of the same function: not followed
					w.cbOK[clo] = false
					delete(w.sites, clo)
				}
			}
		}
	}
}

// callback: g is a closure all of whose activations are the dynamic calls recorded as its call sites.
func (w *World) callback(g *ssa.Function) bool {
	w.buildCallSites()
	return g != nil && w.cbOK[g]
}

// callSites: static call sites (call, defer, go) of g in repository code.
func (w *World) callSites(g *ssa.Function) []ssa.CallInstruction {
	w.buildCallSites()
	return w.sites[g]
}

// addressTaken: g is used as a value somewhere (so it can be called from sites that are not static calls).
func (w *World) addressTaken(g *ssa.Function) bool {
	if w.addrTaken == nil {
		w.addrTaken = map[*ssa.Function]bool{}
		for _, fn := range w.repoFns {
			for _, b := range fn.Blocks {
				for _, ins := range b.Instrs {
					var calleePos *ssa.Value
					if c, isCall := ins.(ssa.CallInstruction); isCall && !c.Common().IsInvoke() {
						calleePos = &c.Common().Value
					}
					for _, op := range ins.Operands(nil) {
						if op == nil || *op == nil || op == calleePos {
							continue
						}
						if f, ok := (*op).(*ssa.Function); ok {
							w.addrTaken[f] = true
						}
					}
				}
			}
		}
	}
	return w.addrTaken[g]
}

// dynCallable: g may be reached other than through its static call sites (method value, interface method,
// function value).
func (w *World) dynCallable(g *ssa.Function) bool {
	if w.callback(g) {
		return false
	}
	if w.forceTransp[g] && !w.addressTaken(g) {
		return false
	}
	if w.addressTaken(g) {
		return true
	}
	if g.Signature.Recv() != nil {
		// a method can be invoked through any interface that has a method of that name
		if w.ifaceMethodNames == nil {
			w.ifaceMethodNames = map[string]bool{}
			for _, fn := range w.repoFns {
				for _, b := range fn.Blocks {
					for _, ins := range b.Instrs {
						if c, ok := ins.(ssa.CallInstruction); ok && c.Common().IsInvoke() {
							w.ifaceMethodNames[c.Common().Method.Name()] = true
						}
					}
				}
			}
		}
		if token.IsExported(g.Name()) {
			return true // may implement an interface of a dependency (io.Closer, agent.Agent, ...)
		}
		if !w.ifaceMethodNames[g.Name()] {
			return false
		}
		// the generic body of a method is entered through its instances only (their entries are functions of their own)
		if o := g.Origin(); (o == nil || o == g) && g.Signature.Recv() != nil {
			if n := derefNamedT(g.Signature.Recv().Type()); n != nil && n.TypeParams().Len() > 0 && n.TypeArgs().Len() == 0 {
				return false
			}
		}
		// an unexported method is reached through an interface only if its receiver's type implements one whose
		// method of that name is invoked somewhere in the repository
		if w.ifaceByMethod == nil {
			w.ifaceByMethod = map[string][]*types.Interface{}
			for _, fn := range w.repoFns {
				for _, b := range fn.Blocks {
					for _, ins := range b.Instrs {
						if c, ok := ins.(ssa.CallInstruction); ok && c.Common().IsInvoke() {
							if it, ok := c.Common().Value.Type().Underlying().(*types.Interface); ok {
								w.ifaceByMethod[c.Common().Method.Name()] = append(w.ifaceByMethod[c.Common().Method.Name()], it)
							}
						}
					}
				}
			}
		}
		rt := g.Signature.Recv().Type()
		for _, it := range w.ifaceByMethod[g.Name()] {
			if types.Implements(rt, it) {
				return true
			}
			if _, isPtr := rt.Underlying().(*types.Pointer); !isPtr && types.Implements(types.NewPointer(rt), it) {
				return true
			}
		}
		return false
	}
	return false
}

// Tree: fn and the repository helpers it calls statically (transitively, depth <= 3), closures included.
func (w *World) Tree(fn *ssa.Function) []*ssa.Function {
	if fn == nil {
		return nil
	}
	if t, ok := w.trees[fn]; ok {
		return t
	}
	if w.trees == nil {
		w.trees = map[*ssa.Function][]*ssa.Function{}
	}
	seen := map[*ssa.Function]bool{fn: true}
	out := []*ssa.Function{fn}
	var visit func(f *ssa.Function, d int)
	visit = func(f *ssa.Function, d int) {
		for _, a := range f.AnonFuncs {
			if !seen[a] {
				seen[a] = true
				out = append(out, a)
				visit(a, d)
			}
		}
		if d >= 3 {
			return
		}
		for _, call := range callsIn(f) {
			g := w.helperOf(call)
			if g == nil || seen[g] {
				continue
			}
			if g.Pkg != fn.Pkg && fnSize(g) > 150 {
				continue
			}
			seen[g] = true
			out = append(out, g)
			visit(g, d+1)
		}
	}
	visit(fn, 0)
	w.trees[fn] = out
	return out
}

func fnSize(g *ssa.Function) int {
	n := 0
	for _, b := range g.Blocks {
		n += len(b.Instrs)
	}
	return n
}

func (w *World) inTree(root, g *ssa.Function) bool {
	for _, f := range w.Tree(root) {
		if f == g {
			return true
		}
	}
	return false
}

// onlyVia: fn is root, or a helper that can only be entered (in repository code) through static calls made by
// functions that are themselves only entered through root.
func (w *World) onlyVia(root, fn *ssa.Function, d int) bool {
	for fn.Parent() != nil {
		fn = fn.Parent()
	}
	if fn == root {
		return true
	}
	if d > 4 || w.dynCallable(fn) || token.IsExported(fn.Name()) {
		return false
	}
	sites := w.callSites(fn)
	if len(sites) == 0 {
		return false
	}
	for _, s := range sites {
		if !w.onlyVia(root, s.Parent(), d+1) {
			return false
		}
	}
	return true
}

// soleEntry: when helper fn (unexported, not dynamically callable) is entered only from one function of the analysed
// set - directly or through a chain of such helpers - that function; else fn itself. Facts taken with it as root
// include what holds at fn's call sites.
func (w *World) soleEntry(fn *ssa.Function, analysed []*ssa.Function) *ssa.Function {
	in := map[*ssa.Function]bool{}
	for _, f := range analysed {
		in[f] = true
	}
	root := fn
	for hop := 0; hop < 3; hop++ {
		if root.Parent() != nil || !w.transparent(root) || w.dynCallable(root) {
			break
		}
		sites := w.callSites(root)
		if len(sites) == 0 {
			break
		}
		var parent *ssa.Function
		ok := true
		for _, s := range sites {
			p := s.Parent()
			for p.Parent() != nil {
				p = p.Parent()
			}
			if _, isCall := s.(*ssa.Call); !isCall || (parent != nil && p != parent) || !in[p] {
				ok = false
			}
			parent = p
		}
		if !ok || parent == nil || parent == root {
			break
		}
		root = parent
	}
	if root != fn && !w.inTree(root, fn) {
		return fn
	}
	return root
}

// entriesOf: the operations through which fn is reached - fn itself when it is not a transparent helper (or has no
// static call site); otherwise the nearest non-transparent callers, following static call sites upwards.
func (w *World) entriesOf(fn *ssa.Function, stops ...*ssa.Function) []*ssa.Function {
	seen := map[*ssa.Function]bool{}
	var out []*ssa.Function
	var up func(g *ssa.Function, depth int)
	up = func(g *ssa.Function, depth int) {
		for g.Parent() != nil {
			g = g.Parent()
		}
		if seen[g] {
			return
		}
		seen[g] = true
		sites := w.callSites(g)
		isStop := false
		for _, st := range stops {
			if st == g {
				isStop = true
			}
		}
		if isStop || depth >= 3 || !w.transparent(g) || w.dynCallable(g) || len(sites) == 0 {
			out = append(out, g)
			return
		}
		for _, s := range sites {
			up(s.Parent(), depth+1)
		}
	}
	up(fn, 0)
	sort.Slice(out, func(i, j int) bool { return out[i].String() < out[j].String() })
	return out
}

// failurePropagates: g is root, or g's error result at its single call site in Tree(root) ends the caller with a
// non-nil error, and so on up to root.
func (w *World) failurePropagates(root, g *ssa.Function) bool {
	for hop := 0; hop < 4; hop++ {
		if g == root {
			return true
		}
		sites := w.sitesIn(root, g)
		if len(sites) != 1 || errorResultIndex(g) < 0 {
			return false
		}
		cv, ok := sites[0].(*ssa.Call)
		if !ok {
			return false
		}
		var ev ssa.Value = cv
		if g.Signature.Results().Len() > 1 {
			ev = extractOf(cv, errorResultIndex(g))
		}
		if ev == nil {
			return false
		}
		if !w.ErrEdgeEnds(cv.Parent(), ev) {
			// or the caller hands the helper's error straight back: every return the call can reach returns that
			// very value as its error
			caller := cv.Parent()
			idx := errorResultIndex(caller)
			direct := idx >= 0
			n := 0
			reach := ReachableAvoiding(cv, nil)
			for _, r := range liveReturns(caller) {
				if !reach(r) {
					continue
				}
				n++
				if idx >= len(r.Results) || throughCell(strip(r.Results[idx])) != ev {
					direct = false
				}
			}
			if !direct || n == 0 {
				return false
			}
		}
		g = cv.Parent()
	}
	return false
}

// sitesIn: the static call sites of g located in Tree(root).
func (w *World) sitesIn(root, g *ssa.Function) []ssa.CallInstruction {
	if root == nil || g == nil {
		return nil
	}
	var out []ssa.CallInstruction
	for _, s := range w.callSites(g) {
		if w.inTree(root, s.Parent()) {
			out = append(out, s)
		}
	}
	// one activation selected (per-call-site analysis of a helper entered several times)
	if pin, ok := w.pinned[g]; ok {
		for _, s := range out {
			if s == pin {
				return []ssa.CallInstruction{s}
			}
		}
	}
	return out
}

// Pin selects one call site of helper g for the duration of f: parameters of g resolve to the arguments of that
// site, and the facts inside g are those of that site. The facts view returned to f is private to the activation.
func (w *World) Pin(root, g *ssa.Function, site ssa.CallInstruction, f func(facts *Facts)) {
	if w.pinned == nil {
		w.pinned = map[*ssa.Function]ssa.CallInstruction{}
	}
	old, had := w.pinned[g]
	w.pinned[g] = site
	base := w.factsOf(root)
	view := &Facts{fn: base.fn, w: w, in: base.in, nd: base.nd, deep: map[*ssa.BasicBlock]map[Lit]bool{}}
	// boolean parameters bound to constants by the selected call
	if site != nil {
		for i, a := range site.Common().Args {
			if i >= len(g.Params) || !isBoolType(g.Params[i].Type()) {
				continue
			}
			if v, ok := boolConst(a); ok {
				if view.spec == nil {
					view.spec, view.specFn = map[*ssa.Parameter]bool{}, g
				}
				view.spec[g.Params[i]] = v
			}
		}
	}
	defer func() {
		if had {
			w.pinned[g] = old
		} else {
			delete(w.pinned, g)
		}
	}()
	f(view)
}

func (w *World) callsInDeep(fn *ssa.Function) []ssa.CallInstruction {
	var out []ssa.CallInstruction
	for _, f := range w.Tree(fn) {
		out = append(out, callsIn(f)...)
	}
	return out
}

func (w *World) invokeOfDeep(fn *ssa.Function, method string) []*ssa.Call {
	var out []*ssa.Call
	for _, f := range w.Tree(fn) {
		out = append(out, invokeOf(f, method)...)
	}
	return out
}

func (w *World) callsToDeep(fn *ssa.Function, names ...string) []ssa.CallInstruction {
	var out []ssa.CallInstruction
	for _, f := range w.Tree(fn) {
		out = append(out, callsTo(f, names...)...)
	}
	return out
}

func (w *World) allocsOfDeep(fn *ssa.Function, typeSuffix string) []*ssa.Alloc {
	var out []*ssa.Alloc
	for _, f := range w.Tree(fn) {
		out = append(out, allocsOf(f, typeSuffix)...)
	}
	return out
}

// resolveUp: a parameter of a helper with exactly one call site in Tree(root) denotes that site's argument.
func (w *World) resolveUp(root *ssa.Function, v ssa.Value) ssa.Value {
	for i := 0; i < 6; i++ {
		p, ok := v.(*ssa.Parameter)
		if !ok {
			return v
		}
		g := p.Parent()
		if g == root || !w.transparent(g) || w.dynCallable(g) {
			return v
		}
		sites := w.sitesIn(root, g)
		idx := paramIndex(p)
		if len(sites) > 1 && len(sites) <= 8 && idx >= 0 && !w.upBusy[p] {
			// several call sites that all pass the same thing (a carrier record handed from method to method)
			if w.upBusy == nil {
				w.upBusy = map[*ssa.Parameter]bool{}
			}
			w.upBusy[p] = true
			var common ssa.Value
			same := true
			for _, site := range sites {
				args := site.Common().Args
				if idx >= len(args) {
					same = false
					break
				}
				a := w.recordOf(root, args[idx])
				if a == nil || (common != nil && a != common) {
					same = false
					break
				}
				common = a
			}
			delete(w.upBusy, p)
			if same && common != nil {
				return common
			}
			return v
		}
		if len(sites) != 1 {
			return v
		}
		args := sites[0].Common().Args
		if idx < 0 || idx >= len(args) {
			return v
		}
		v = throughCell(strip(args[idx]))
	}
	return v
}

// recordOf: the local struct allocation that v (a pointer to it, a whole-value load of it, or a helper parameter
// bound to one of these) denotes; nil when v is not such a record.
func (w *World) recordOf(root *ssa.Function, v ssa.Value) ssa.Value {
	for i := 0; i < 6 && v != nil; i++ {
		v = strip(v)
		switch x := v.(type) {
		case *ssa.Alloc:
			if _, isStruct := x.Type().(*types.Pointer).Elem().Underlying().(*types.Struct); !isStruct {
				return nil
			}
			if stores, ok := cellStores(x); ok && len(stores) == 1 && len(FieldStores(x.Parent(), x)) == 0 {
				v = stores[0].Val
				continue
			}
			return x
		case *ssa.UnOp:
			if x.Op != token.MUL {
				return nil
			}
			v = x.X
		case *ssa.Parameter:
			u := w.resolveUp(root, x)
			if u == ssa.Value(x) {
				return nil
			}
			v = u
		case *ssa.Call, *ssa.Extract:
			// built by a constructor helper
			_, h, idx := w.asCallResult(x)
			if h == nil || !w.transparent(h) || errorResultIndex(h) == idx {
				return nil
			}
			sv := w.successValue(h, idx)
			if sv == nil {
				return nil
			}
			v = sv
		default:
			return nil
		}
	}
	return nil
}

// canon: the SSA value that v denotes once value-preserving wrappers, single-store variables, helper parameters
// (argument at the unique call site in Tree(root)) and results of transparent helpers (the value all success
// returns yield) are looked through.
func (w *World) canon(root *ssa.Function, v ssa.Value) ssa.Value {
	for i := 0; i < 8 && v != nil; i++ {
		v = throughCell(strip(v))
		switch x := v.(type) {
		case *ssa.Parameter:
			u := w.resolveUp(root, x)
			if u == v {
				return v
			}
			v = u
			continue
		case *ssa.Call, *ssa.Extract:
			_, h, idx := w.asCallResult(x)
			if h == nil || !w.transparent(h) || errorResultIndex(h) == idx {
				return v
			}
			sv := w.successValue(h, idx)
			if sv == nil {
				return v
			}
			v = sv
			continue
		case *ssa.UnOp, *ssa.Field:
			if rv := w.recordField(root, x); rv != nil {
				v = rv
				continue
			}
		}
		return v
	}
	return v
}

// FieldStoresDeep: the values stored into the fields of the object allocated at alloc by any function of
// Tree(root), through the allocation itself or through a value that denotes it (helper result, helper parameter).
func (w *World) FieldStoresDeep(root *ssa.Function, alloc *ssa.Alloc) map[string][]ssa.Value {
	out := map[string][]ssa.Value{}
	for _, fn := range w.Tree(root) {
		for _, b := range fn.Blocks {
			for _, ins := range b.Instrs {
				fa, ok := ins.(*ssa.FieldAddr)
				if !ok {
					continue
				}
				if fa.X != ssa.Value(alloc) && w.canon(root, fa.X) != ssa.Value(alloc) {
					continue
				}
				name := fieldName(fa.X.Type(), fa.Field)
				if fr := fa.Referrers(); fr != nil {
					for _, u := range *fr {
						if st, ok := u.(*ssa.Store); ok && st.Addr == ssa.Value(fa) {
							out[name] = append(out[name], st.Val)
						}
					}
				}
			}
		}
	}
	return out
}

// SameValue: a and b denote the same SSA value once helper parameters are replaced by the arguments of their
// (unique) call sites in Tree(root).
func (w *World) SameValue(root *ssa.Function, a, b ssa.Value) bool {
	if a == nil || b == nil {
		return false
	}
	return w.canon(root, a) == w.canon(root, b)
}

// successValue: the single SSA value that result idx of h has on all its success returns (nil if they differ).
func (w *World) successValue(h *ssa.Function, idx int) ssa.Value {
	type key struct {
		h   *ssa.Function
		idx int
	}
	if w.succVal == nil {
		w.succVal = map[interface{}]ssa.Value{}
	}
	k := key{h, idx}
	if v, ok := w.succVal[k]; ok {
		return v
	}
	w.succVal[k] = nil // recursion guard
	var val ssa.Value
	rets := w.MayBeNilReturns(h)
	for _, r := range rets {
		if h.Recover != nil && r.Block() == h.Recover && !hasRecover(h) {
			continue
		}
		if idx >= len(r.Results) {
			return nil
		}
		rv := throughCell(strip(r.Results[idx]))
		if val == nil {
			val = rv
		} else if val != rv {
			return nil
		}
	}
	w.succVal[k] = val
	return val
}

// ---- deep facts ----

// asCallResult: v is result idx of a call to a repository function with a body.
func (w *World) asCallResult(v ssa.Value) (*ssa.Call, *ssa.Function, int) {
	switch x := v.(type) {
	case *ssa.Call:
		if h := w.helperOf(x); h != nil && h.Signature.Results().Len() == 1 {
			return x, h, 0
		}
	case *ssa.Extract:
		if c, ok := x.Tuple.(*ssa.Call); ok {
			if h := w.helperOf(c); h != nil {
				return c, h, x.Index
			}
		}
	}
	return nil, nil, 0
}

// noUp: local must-facts at b plus the facts derived from constrained helper results ("down"). These do not
// depend on who calls b's function and are cached on that function's Facts.
func (w *World) noUp(b *ssa.BasicBlock) map[Lit]bool {
	f := w.factsOf(b.Parent())
	if d, ok := f.nd[b]; ok {
		return d
	}
	local, ok := f.in[b]
	if !ok {
		return nil
	}
	out := copyFacts(local)
	f.nd[b] = out // recursion guard: a recursive helper sees its local facts only
	w.closeDown(out)
	return out
}

// outcomeReturns: the returns of h compatible with literal l constraining result idx of a call to h, each with
// the extra literal (if any) that then holds at that return.
func (w *World) outcomeReturns(h *ssa.Function, idx int, wantNil, nilKind bool, pol bool) (rets []*ssa.Return, extra map[*ssa.Return]Lit) {
	extra = map[*ssa.Return]Lit{}
	for _, r := range returnsOf(h) {
		if h.Recover != nil && r.Block() == h.Recover && !hasRecover(h) {
			continue
		}
		if w.factsOf(h).in[r.Block()] == nil {
			continue // unreachable
		}
		if idx >= len(r.Results) {
			return nil, nil
		}
		rv := r.Results[idx]
		compatible := false
		for _, lf := range w.leaves(rv, r, false) {
			if nilKind {
				nn := w.NonNil(lf.Val, lf.Facts)
				isNil := isNilConst(strip(lf.Val))
				if !isNil {
					if n, k := w.factsOf(h).knownNilIn(lf.Facts, lf.Val); k && n {
						isNil = true
					}
				}
				if wantNil && !nn {
					compatible = true
				}
				if !wantNil && !isNil {
					compatible = true
				}
			} else {
				if k, ok := boolConst(lf.Val); ok {
					if k == pol {
						compatible = true
					}
				} else {
					compatible = true
				}
			}
		}
		if !compatible {
			continue
		}
		rets = append(rets, r)
		if !nilKind {
			if _, ok := boolConst(rv); !ok {
				extra[r] = Lit{throughCell(strip(rv)), pol}
			}
		} else if cv := throughCell(strip(rv)); !isNilConst(cv) {
			// the returned value itself is then nil / non-nil (a literal over a non-boolean value states V != nil)
			extra[r] = Lit{cv, !wantNil}
		}
	}
	return rets, extra
}

// closeDown adds to out, for every literal constraining the outcome of a helper call, the literals common to
// all returns of the helper compatible with that outcome (to a fixpoint).
func (w *World) closeDown(out map[Lit]bool) {
	from := map[*ssa.Function]*ssa.Call{}
	tag := map[Lit]*ssa.Function{}
	poisoned := map[*ssa.Function]bool{}
	var work []Lit
	for l := range out {
		work = append(work, l)
	}
	sort.Slice(work, func(i, j int) bool { return litLess(work[i], work[j]) })
	for len(work) > 0 {
		l := work[0]
		work = work[1:]
		var call *ssa.Call
		var h *ssa.Function
		var idx int
		nilKind, wantNil := false, false
		if y, isNil, ok := nilTest(l); ok {
			call, h, idx = w.asCallResult(throughCell(strip(y)))
			nilKind, wantNil = true, isNil
		} else if _, isBool := l.V.Type().Underlying().(*types.Basic); isBool {
			call, h, idx = w.asCallResult(throughCell(strip(l.V)))
			if h != nil {
				if b, ok := h.Signature.Results().At(idx).Type().Underlying().(*types.Basic); !ok || b.Kind() != types.Bool {
					h = nil
				}
			}
		}
		// a comparison of an integer result with a constant (idx := indexOf(...); idx >= 0)
		cmpKind := false
		var cmpOp token.Token
		var cmpK int64
		if h == nil {
			if bin, ok := l.V.(*ssa.BinOp); ok {
				switch bin.Op {
				case token.LSS, token.LEQ, token.GTR, token.GEQ, token.EQL, token.NEQ:
					for _, pair := range [][2]ssa.Value{{bin.X, bin.Y}, {bin.Y, bin.X}} {
						k, isK := intConst(pair[1])
						if !isK {
							continue
						}
						c2, h2, i2 := w.asCallResult(throughCell(strip(pair[0])))
						if h2 == nil {
							continue
						}
						if bt, ok := h2.Signature.Results().At(i2).Type().Underlying().(*types.Basic); !ok || bt.Info()&types.IsInteger == 0 {
							continue
						}
						call, h, idx, cmpKind, cmpK = c2, h2, i2, true, k
						cmpOp = bin.Op
						if pair[0] == bin.Y {
							cmpOp = flipOp(bin.Op)
						}
						break
					}
				}
			}
		}
		if h == nil || poisoned[h] || w.ndBusy[h] {
			continue
		}
		if prev, ok := from[h]; ok && prev != call {
			// two activations of the same helper constrain this point: their frames cannot be told apart
			poisoned[h] = true
			for k, t := range tag {
				if t == h {
					delete(out, k)
				}
			}
			continue
		}
		rets, extra := []*ssa.Return(nil), map[*ssa.Return]Lit{}
		if cmpKind {
			rets = w.outcomeReturnsCmp(h, idx, cmpOp, cmpK, l.Pol)
		} else {
			rets, extra = w.outcomeReturns(h, idx, wantNil, nilKind, l.Pol)
		}
		if len(rets) == 0 {
			continue
		}
		if w.ndBusy == nil {
			w.ndBusy = map[*ssa.Function]bool{}
		}
		w.ndBusy[h] = true
		var acc map[Lit]bool
		for i, r := range rets {
			cur := copyFacts(w.noUp(r.Block()))
			if e, ok := extra[r]; ok {
				cur[e] = true
				if u, ok := e.V.(*ssa.UnOp); ok && u.Op == token.NOT {
					cur[Lit{u.X, !e.Pol}] = true
				}
			}
			if i == 0 {
				acc = cur
			} else {
				for k := range acc {
					if !cur[k] {
						delete(acc, k)
					}
				}
			}
		}
		delete(w.ndBusy, h)
		from[h] = call
		// the other results of the same call: non-nil (nil) when every compatible return yields a non-nil (nil) value
		if refs := call.Referrers(); refs != nil && acc != nil {
			for _, ref := range *refs {
				ex, ok := ref.(*ssa.Extract)
				if !ok || ex.Index == idx {
					continue
				}
				if _, basic := ex.Type().Underlying().(*types.Basic); basic {
					continue
				}
				allNonNil, allNil := true, true
				for _, r := range rets {
					if ex.Index >= len(r.Results) {
						allNonNil, allNil = false, false
						break
					}
					if !w.NonNil(r.Results[ex.Index], w.noUp(r.Block())) {
						allNonNil = false
					}
					if !isNilConst(throughCell(strip(r.Results[ex.Index]))) {
						allNil = false
					}
				}
				if allNonNil {
					acc[Lit{ex, true}] = true
				} else if allNil {
					acc[Lit{ex, false}] = true
				}
			}
		}
		var added []Lit
		for k := range acc {
			if !out[k] {
				out[k] = true
				tag[k] = h
				added = append(added, k)
			}
		}
		sort.Slice(added, func(i, j int) bool { return litLess(added[i], added[j]) })
		work = append(work, added...)
	}
}

func litLess(a, b Lit) bool {
	pa, pb := a.V.Pos(), b.V.Pos()
	if pa != pb {
		return pa < pb
	}
	if a.Pol != b.Pol {
		return !a.Pol
	}
	return a.V.Name() < b.V.Name()
}

// upFacts: the literals that hold at every call site of g inside Tree(root) (nil when g can be entered in a
// way the analysis does not see).
func (f *Facts) upFacts(g *ssa.Function) map[Lit]bool {
	w := f.w
	if g == f.fn || (g.Parent() != nil && !w.callback(g)) || w.dynCallable(g) {
		return nil
	}
	sites := w.sitesIn(f.fn, g)
	if len(sites) == 0 {
		return nil
	}
	var acc map[Lit]bool
	for i, s := range sites {
		if _, isCall := s.(*ssa.Call); !isCall {
			return nil
		}
		cur := f.At(s.Block())
		if i == 0 {
			acc = copyFacts(cur)
		} else {
			for k := range acc {
				if !cur[k] {
					delete(acc, k)
				}
			}
		}
	}
	return acc
}

// DeepDominates: a executes before b on every path from the entry of root's frame that reaches b.
//
//	same function: instruction dominance;
//	b in a helper: a dominates every call site (in Tree(root)) leading to b;
//	a in a helper: a lies on every path through the helper to its returns and the helper's call site
//	dominates b.
func (w *World) DeepDominates(root *ssa.Function, a, b ssa.Instruction) bool {
	return w.deepDom(root, a, b, 0)
}

func (w *World) deepDom(root *ssa.Function, a, b ssa.Instruction, d int) bool {
	if a.Parent() == b.Parent() {
		return InstrDominates(a, b)
	}
	if d > 4 {
		return false
	}
	// lift b to its call sites
	if g := b.Parent(); g != root && g.Parent() == nil {
		if sites := w.sitesIn(root, g); len(sites) > 0 && !w.dynCallable(g) {
			all := true
			for _, s := range sites {
				if !w.deepDom(root, a, s, d+1) {
					all = false
				}
			}
			if all {
				return true
			}
		}
	}
	// lift a: unavoidable on the way to the helper's success returns
	if g := a.Parent(); g != root && g.Parent() == nil {
		rets := liveReturns(g)
		if len(rets) == 0 {
			return false
		}
		for _, r := range rets {
			if !MustPassFromEntry(g, r, map[ssa.Instruction]bool{a: true}) {
				return false
			}
		}
		for _, s := range w.sitesIn(root, g) {
			if c, ok := s.(*ssa.Call); ok && w.deepDom(root, c, b, d+1) {
				return true
			}
		}
	}
	return false
}

// outcomeReturnsCmp: the returns of h whose integer result idx can make (result op k) have the truth value pol,
// judged by the interval of the returned value at that return.
func (w *World) outcomeReturnsCmp(h *ssa.Function, idx int, op token.Token, k int64, pol bool) []*ssa.Return {
	if !pol {
		op = negOp(op)
	}
	old := w.focus
	defer w.restoreFocus(old)
	bc := &boundsCtx{w: w, fn: h, root: h, facts: w.factsOf(h)}
	var rets []*ssa.Return
	for _, r := range returnsOf(h) {
		if h.Recover != nil && r.Block() == h.Recover && !hasRecover(h) {
			continue
		}
		if w.factsOf(h).in[r.Block()] == nil {
			continue
		}
		if idx >= len(r.Results) {
			return nil
		}
		rr := bc.rng(r.Results[idx], r.Block())
		possible := true
		switch op {
		case token.LSS:
			possible = rr.lo == negInf || rr.lo < k
		case token.LEQ:
			possible = rr.lo == negInf || rr.lo <= k
		case token.GTR:
			possible = rr.hi == posInf || rr.hi > k
		case token.GEQ:
			possible = rr.hi == posInf || rr.hi >= k
		case token.EQL:
			possible = (rr.lo == negInf || rr.lo <= k) && (rr.hi == posInf || rr.hi >= k)
		case token.NEQ:
			possible = !(rr.lo == k && rr.hi == k)
		}
		if possible {
			rets = append(rets, r)
		}
	}
	return rets
}

// recordField: v reads field F of a record that was built once - a struct (or &struct) literal of a named repository
// type whose field F is written nowhere else in the repository - directly, through a by-value copy, or through the
// parameter / receiver of a helper with one call site in Tree(root). Returns the value stored at construction (nil
// when v is no such read). State that used to live in locals or parameters and was moved into a small carrier struct
// (a session, a request, a draft) denotes the same values.
func (w *World) recordField(root *ssa.Function, v ssa.Value) ssa.Value {
	var base ssa.Value
	var name string
	switch x := v.(type) {
	case *ssa.UnOp:
		fa, ok := x.X.(*ssa.FieldAddr)
		if x.Op != token.MUL || !ok {
			return nil
		}
		base, name = fa.X, fieldName(fa.X.Type(), fa.Field)
	case *ssa.Field:
		base, name = x.X, fieldName(x.X.Type(), x.Field)
	default:
		return nil
	}
	if w.recBusy[v] {
		return nil
	}
	if w.recBusy == nil {
		w.recBusy = map[ssa.Value]bool{}
	}
	w.recBusy[v] = true
	defer delete(w.recBusy, v)
	var alloc *ssa.Alloc
	for i := 0; i < 6 && base != nil && alloc == nil; i++ {
		base = strip(base)
		switch b := base.(type) {
		case *ssa.Alloc:
			if _, isStruct := b.Type().(*types.Pointer).Elem().Underlying().(*types.Struct); !isStruct {
				return nil
			}
			// a cell holding one whole copy of a record (a by-value parameter spilled to a local)
			if stores, ok := cellStores(b); ok && len(stores) == 1 && len(FieldStores(b.Parent(), b)) == 0 {
				base = stores[0].Val
				continue
			}
			alloc = b
		case *ssa.UnOp:
			if b.Op != token.MUL {
				return nil
			}
			base = b.X // the whole record loaded from where it was built
		case *ssa.Parameter:
			u := w.resolveUp(root, b)
			if u == ssa.Value(b) {
				return nil
			}
			base = u
		case *ssa.Call, *ssa.Extract:
			u := w.canon(root, b)
			if u == base {
				return nil
			}
			base = u
		default:
			return nil
		}
	}
	if alloc == nil {
		return nil
	}
	named, _ := alloc.Type().(*types.Pointer).Elem().(*types.Named)
	if named == nil || !w.InRepoType(named) {
		return nil
	}
	vals := FieldStores(alloc.Parent(), alloc)[name]
	if len(vals) == 0 {
		// filled in later, once, by a method of the record (a phase of the draft): that store, when it comes before
		// this read on every path of the root's frame
		var only *ssa.Store
		n := 0
		for _, a := range w.FieldAccesses(named, name) {
			switch a.Kind {
			case "write":
				n++
				only, _ = a.Instr.(*ssa.Store)
			case "addr", "addrcall", "mapwrite", "mapdelete":
				n += 2
			}
		}
		rd, isIns := v.(ssa.Instruction)
		if n != 1 || only == nil || !isIns {
			return nil
		}
		fa, isFA := only.Addr.(*ssa.FieldAddr)
		if !isFA || w.recordOf(root, fa.X) != ssa.Value(alloc) || !w.DeepDominates(root, only, rd) {
			return nil
		}
		vals = []ssa.Value{only.Val}
	}
	if len(vals) != 1 {
		return nil
	}
	if esc, done := w.recEsc[alloc]; done {
		if esc {
			return nil
		}
	} else {
		if w.recEsc == nil {
			w.recEsc = map[*ssa.Alloc]bool{}
		}
		esc := w.recordEscapes(alloc, 0, map[ssa.Value]bool{})
		w.recEsc[alloc] = esc
		if esc {
			return nil
		}
	}
	nw := 0
	for _, a := range w.FieldAccesses(named, name) {
		switch a.Kind {
		case "write", "addr", "addrcall", "mapwrite", "mapdelete":
			nw++
		}
	}
	if nw != 1 {
		return nil
	}
	return vals[0]
}

// recordEscapes: the pointer v to a record may reach code that is not analysed field by field (a non-repository
// callee, an interface, a store into another object): its fields could then be written unseen.
func (w *World) recordEscapes(v ssa.Value, depth int, seen map[ssa.Value]bool) bool {
	if depth > 5 {
		return true
	}
	if seen[v] {
		return false
	}
	seen[v] = true
	refs := v.Referrers()
	if refs == nil {
		return false
	}
	for _, r := range *refs {
		switch x := r.(type) {
		case *ssa.FieldAddr, *ssa.DebugRef:
		case *ssa.UnOp:
			if x.Op != token.MUL {
				return true
			}
		case *ssa.Store:
			if x.Addr == v {
				return true // the whole record is overwritten
			}
			cell, ok := x.Addr.(*ssa.Alloc)
			if !ok {
				return true
			}
			// a local variable holding the pointer: every read of it
			if crefs := cell.Referrers(); crefs != nil {
				for _, cr := range *crefs {
					switch y := cr.(type) {
					case *ssa.Store, *ssa.DebugRef:
					case *ssa.UnOp:
						if w.recordEscapes(y, depth+1, seen) {
							return true
						}
					case *ssa.MakeClosure:
						return true
					default:
						return true
					}
				}
			}
		case ssa.CallInstruction:
			cm := x.Common()
			callee := cm.StaticCallee()
			if callee == nil || !w.InRepo(callee) || callee.Blocks == nil {
				return true
			}
			args := cm.Args
			for i, a := range args {
				if a != v {
					continue
				}
				if i >= len(callee.Params) {
					return true
				}
				if w.recordEscapes(callee.Params[i], depth+1, seen) {
					return true
				}
			}
			if cv, isVal := r.(ssa.Value); isVal && cm.Value == v {
				_ = cv
				return true
			}
		case *ssa.Return:
			fn := x.Parent()
			if fn.Parent() != nil || w.addressTaken(fn) {
				return true
			}
			idx := -1
			for i, res := range x.Results {
				if res == v {
					idx = i
				}
			}
			for _, site := range w.callSites(fn) {
				cv, ok := site.(*ssa.Call)
				if !ok {
					return true
				}
				var res ssa.Value = cv
				if fn.Signature.Results().Len() > 1 {
					res = extractOf(cv, idx)
				}
				if res != nil && w.recordEscapes(res, depth+1, seen) {
					return true
				}
			}
		case *ssa.MakeClosure:
			cf, _ := x.Fn.(*ssa.Function)
			if cf == nil {
				return true
			}
			for i, b := range x.Bindings {
				if b == v && i < len(cf.FreeVars) {
					if w.recordEscapes(cf.FreeVars[i], depth+1, seen) {
						return true
					}
				}
			}
		case *ssa.Phi:
			if w.recordEscapes(x, depth+1, seen) {
				return true
			}
		default:
			return true
		}
	}
	return false
}

// boundCall: a method value handed to a helper that calls it - `h(x.M, a)` with `func h(op func(T) R, a T) { op(a) }`
// is the call x.M(a). Args are the dynamic call's arguments with the helper's parameters replaced by the arguments of
// the call that handed the method value over.
type boundCall struct {
	Method string
	Recv   ssa.Value
	Site   *ssa.Call
	Dyn    *ssa.Call
	Args   []ssa.Value
}

// boundCalls: the calls of method values made in Tree(root) through helpers that receive them as parameters and do
// nothing with such a parameter but call it.
func (w *World) boundCalls(root *ssa.Function) []boundCall {
	var out []boundCall
	for _, fn := range w.Tree(root) {
		for _, call := range callsIn(fn) {
			site, ok := call.(*ssa.Call)
			if !ok {
				continue
			}
			h := site.Call.StaticCallee()
			if h == nil || !w.InRepo(h) || h.Blocks == nil || len(site.Call.Args) != len(h.Params) {
				continue
			}
			for i, a := range site.Call.Args {
				mc, isMC := throughCell(strip(a)).(*ssa.MakeClosure)
				if !isMC || len(mc.Bindings) != 1 {
					continue
				}
				bw, _ := mc.Fn.(*ssa.Function)
				if bw == nil || !strings.HasPrefix(bw.Synthetic, "bound method wrapper") {
					continue
				}
				p := h.Params[i]
				refs := p.Referrers()
				if refs == nil {
					continue
				}
				var dyns []*ssa.Call
				onlyCalled := true
				for _, r := range *refs {
					switch x := r.(type) {
					case *ssa.DebugRef:
					case *ssa.Call:
						if x.Call.Value == ssa.Value(p) && !x.Call.IsInvoke() {
							dyns = append(dyns, x)
						} else {
							onlyCalled = false
						}
					default:
						onlyCalled = false
					}
				}
				if !onlyCalled {
					continue
				}
				for _, d := range dyns {
					bc := boundCall{Method: strings.TrimSuffix(bw.Name(), "$bound"), Recv: mc.Bindings[0], Site: site, Dyn: d}
					for _, da := range d.Call.Args {
						v := throughCell(strip(da))
						if hp, isParam := v.(*ssa.Parameter); isParam && hp.Parent() == h {
							if j := paramIndex(hp); j >= 0 && j < len(site.Call.Args) {
								v = site.Call.Args[j]
							}
						}
						bc.Args = append(bc.Args, v)
					}
					out = append(out, bc)
				}
			}
		}
	}
	return out
}
