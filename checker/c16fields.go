package main

import (
	"go/token"
	"strings"

	"golang.org/x/tools/go/ssa"
)

// c16FieldSources: the field-source table of the certificate the lenient parser builds. Every scalar field named by
// the statement (raw bytes, signature, signature algorithm, serial number, validity, version) has exactly one store,
// whose value is the listed expression over the decoded ASN.1 structure (the parser's parameter); the two names are
// filled from RDN sequences decoded from the bytes of the field of the same name.
func c16FieldSources(c *Ctx) {
	const rule = "R6.fields"
	w := c.w
	pc := funcBySignature(w, attestPkg, "yubiattest.certificate")
	if pc == nil {
		c.Unresolved(rule, "the function building an x509.Certificate from the decoded *certificate")
		return
	}
	c.Saw(pc)
	w.Focus(pc)
	var out *ssa.Alloc
	for _, a := range w.allocsOfDeep(pc, "crypto/x509.Certificate") {
		out = a
	}
	if out == nil {
		c.Unresolved(rule, "the x509.Certificate value built by "+shortFn(pc))
		return
	}
	fs := w.FieldStoresDeep(pc, out)
	tbs := "p0.TBSCertificate"
	want := []struct{ field, expr, suffix string }{
		{"Raw", "p0.Raw", ""},
		{"RawTBSCertificate", tbs + ".Raw", ""},
		{"RawSubjectPublicKeyInfo", tbs + ".PublicKey.Raw", ""},
		{"RawSubject", tbs + ".Subject.FullBytes", ""},
		{"RawIssuer", tbs + ".Issuer.FullBytes", ""},
		{"Signature", "call<(encoding/asn1.BitString).RightAlign>(p0.SignatureValue)", ""},
		{"SerialNumber", tbs + ".SerialNumber", ""},
		{"NotBefore", tbs + ".Validity.NotBefore", ""},
		{"NotAfter", tbs + ".Validity.NotAfter", ""},
		{"Version", "(" + tbs + ".Version+const(1))", ""},
		{"SignatureAlgorithm", "", "(" + tbs + ".SignatureAlgorithm)"},
		{"PublicKeyAlgorithm", "", "(" + tbs + ".PublicKey.Algorithm.Algorithm)"},
	}
	n := 0
	for _, f := range want {
		key := "certificate." + f.field + "|source"
		vals := fs[f.field]
		if len(vals) != 1 {
			c.Bad(rule, key, w.FnPos(pc), "the field has "+itoa(len(vals))+" stores, expected exactly one")
			continue
		}
		n++
		got := w.Expr(w.canon(pc, vals[0]))
		if alt := w.Expr(vals[0]); alt != got && (alt == f.expr || (f.suffix != "" && strings.HasSuffix(alt, f.suffix))) {
			got = alt
		}
		ok := got == f.expr
		if f.suffix != "" {
			ok = strings.HasPrefix(got, "call<"+RepoMod+"/attestation/yubiattest.") && strings.HasSuffix(got, f.suffix)
		}
		exp := f.expr
		if exp == "" {
			exp = "<repository mapping function>" + f.suffix
		}
		c.Check(ok, rule, key, w.Pos(vals[0].Pos()), exp, "the parsed certificate's "+f.field+" is "+shortName(got)+", expected "+exp)
	}
	c.Floor(rule, n, 12, "scalar certificate fields with a single store")
	// names: out.<Name>.FillFromRDNSequence(seq) with seq decoded from TBSCertificate.<Name>.FullBytes
	nNames := 0
	for _, call := range w.callsToDeep(pc, "(*crypto/x509/pkix.Name).FillFromRDNSequence") {
		cv, ok := call.(*ssa.Call)
		if !ok || len(cv.Call.Args) != 2 {
			continue
		}
		fa, ok := strip(cv.Call.Args[0]).(*ssa.FieldAddr)
		if !ok || w.canon(pc, fa.X) != ssa.Value(out) {
			continue
		}
		name := fieldName(fa.X.Type(), fa.Field)
		nNames++
		key := "certificate." + name + "|decoded from the bytes of the same name"
		src := w.rdnSource(pc, cv.Call.Args[1], cv)
		c.Check(src == tbs+"."+name+".FullBytes", rule, key, w.Pos(cv.Pos()), tbs+"."+name+".FullBytes", "the "+name+" name of the parsed certificate is decoded from "+shortName(src)+", expected "+tbs+"."+name+".FullBytes")
	}
	c.Floor(rule, nNames, 2, "names filled from RDN sequences")
}

// rdnSource: the bytes that the RDN sequence seq (a pointer handed to FillFromRDNSequence at `at`) was decoded from by
// asn1.Unmarshal - in place, or in a helper that returns the pointer - rendered in root's frame ("" if unknown).
func (w *World) rdnSource(root *ssa.Function, seq ssa.Value, at ssa.Instruction) string {
	seq = throughCell(strip(seq))
	// decodedInto: the bytes from which fn decodes into target (asn1.Unmarshal(bytes, target) - directly or through
	// a repository helper that is handed both)
	var decodedInto func(fn *ssa.Function, target ssa.Value, depth int) ssa.Value
	decodedInto = func(fn *ssa.Function, target ssa.Value, depth int) ssa.Value {
		var src ssa.Value
		n := 0
		for _, call := range callsIn(fn) {
			args := call.Common().Args
			if calleeName(call) == "encoding/asn1.Unmarshal" && len(args) == 2 {
				if throughCell(strip(args[1])) == target {
					src = args[0]
					n++
				}
				continue
			}
			h := call.Common().StaticCallee()
			if h == nil || depth >= 2 || !w.InRepo(h) || len(h.Blocks) == 0 || call.Common().IsInvoke() {
				continue
			}
			for j, a := range args {
				if throughCell(strip(a)) != target || j >= len(h.Params) {
					continue
				}
				inner := decodedInto(h, h.Params[j], depth+1)
				if inner == nil {
					continue
				}
				if p, ok := throughCell(strip(inner)).(*ssa.Parameter); ok && p.Parent() == h && paramIndex(p) < len(args) {
					src = args[paramIndex(p)]
					n++
				}
			}
		}
		if n != 1 {
			return nil
		}
		return src
	}
	switch x := seq.(type) {
	case *ssa.Alloc:
		if src := decodedInto(x.Parent(), x, 0); src != nil {
			return w.ExprIn(root, src)
		}
		// a local that holds the value a decoding helper returns (seq, err := unmarshalExact[T](bytes, ...)): the helper
		// decodes into a variable of its own and hands back its value
		if stores, okc := cellStores(x); okc && len(stores) == 1 {
			if call, h, idx := w.asCallResult(throughCell(strip(stores[0].Val))); h != nil && call != nil {
				body := h
				if o := h.Origin(); o != nil && len(o.Blocks) > 0 {
					body = o
				}
				if rv := w.successValue(body, idx); rv != nil {
					if ld, isLd := strip(rv).(*ssa.UnOp); isLd && ld.Op == token.MUL {
						if al, isAl := ld.X.(*ssa.Alloc); isAl {
							if src := decodedInto(body, al, 0); src != nil {
								if p, isParam := throughCell(strip(src)).(*ssa.Parameter); isParam && paramIndex(p) < len(call.Call.Args) {
									return w.ExprIn(root, call.Call.Args[paramIndex(p)])
								}
							}
						}
					}
				}
			}
		}
	case *ssa.Extract, *ssa.Call:
		call, h, idx := w.asCallResult(x)
		if h == nil || call == nil {
			return ""
		}
		rv := w.successValue(h, idx)
		if rv == nil {
			return ""
		}
		al, ok := throughCell(strip(rv)).(*ssa.Alloc)
		if !ok {
			return ""
		}
		src := decodedInto(h, al, 0)
		p, isParam := throughCell(strip(src)).(*ssa.Parameter)
		if src == nil || !isParam || paramIndex(p) >= len(call.Call.Args) {
			return ""
		}
		return w.ExprIn(root, call.Call.Args[paramIndex(p)])
	}
	return ""
}

// c16FreshTargets: every asn1.Unmarshal of the attestation package decodes into storage created for that call - a
// local variable or a new(T) of the calling function (through a helper: of each of the helper's callers). encoding/asn1
// leaves the fields of absent OPTIONAL elements untouched, so a recycled or shared target carries one certificate's
// extensions, validity or key into the next parse.
func c16FreshTargets(c *Ctx) {
	const rule = "R6.fields"
	w := c.w
	n := 0
	var fresh func(v ssa.Value, depth int) (bool, string)
	fresh = func(v ssa.Value, depth int) (bool, string) {
		v = throughCell(strip(v))
		switch x := v.(type) {
		case *ssa.Alloc:
			return true, ""
		case *ssa.FieldAddr:
			return fresh(x.X, depth)
		case *ssa.IndexAddr:
			return fresh(x.X, depth)
		case *ssa.Parameter:
			h := x.Parent()
			sites := w.callSites(h)
			if depth > 2 || len(sites) == 0 || w.dynCallable(h) || token.IsExported(h.Name()) {
				return false, "the target is parameter " + x.Name() + " of " + shortFn(h)
			}
			i := paramIndex(x)
			for _, s := range sites {
				if i < 0 || i >= len(s.Common().Args) {
					return false, "the target is parameter " + x.Name() + " of " + shortFn(h)
				}
				if ok, why := fresh(s.Common().Args[i], depth+1); !ok {
					return false, why
				}
			}
			return true, ""
		}
		return false, "the target is " + w.Short(v)
	}
	for _, fn := range w.FuncsOfPkg("attestation/yubiattest") {
		for _, call := range callsTo(fn, "encoding/asn1.Unmarshal") {
			if len(call.Common().Args) < 2 {
				continue
			}
			n++
			ok, why := fresh(call.Common().Args[1], 0)
			c.Check(ok, rule, shortFn(fn)+"|asn1 decodes into fresh storage", w.Pos(call.Pos()), "a local variable / new(T) of the call", "asn1.Unmarshal decodes into storage that outlives the call ("+why+"): fields of absent optional elements keep the previous certificate's values")
		}
	}
	c.Floor(rule, n, 5, "asn1.Unmarshal calls in the attestation package")
}
