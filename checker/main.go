// yverif: repository-specific static checker for the ysshra properties C01..C20.
// It never executes repository code: every verdict is computed from the type-checked packages,
// their go/ssa form, the call graph and constant tables.
package main

import (
	"encoding/json"
	"flag"
	"fmt"
	"os"
	"runtime/debug"
	"sort"
	"strconv"
	"strings"
	"time"
)

type property struct {
	ID   string
	Meta propMeta
	Run  func(c *Ctx)
	// NeedsAgentOnlyCrossOS: thorough tier re-runs the rules on ./agent/... for other GOOS values.
	CrossOS bool
}

var registry = map[string]*property{}

func register(p *property) { registry[p.ID] = p }

func main() {
	if len(os.Args) < 2 {
		usage()
	}
	switch os.Args[1] {
	case "check":
		os.Exit(cmdCheck(os.Args[2:]))
	case "checkall":
		os.Exit(cmdCheckAll(os.Args[2:]))
	case "explain":
		os.Exit(cmdExplain(os.Args[2:]))
	case "list":
		var ids []string
		for id := range registry {
			ids = append(ids, id)
		}
		sort.Strings(ids)
		fmt.Println(strings.Join(ids, " "))
	case "dump":
		os.Exit(cmdDump(os.Args[2:]))
	case "manifest":
		os.Exit(cmdManifest())
	default:
		usage()
	}
}

func usage() {
	fmt.Fprintln(os.Stderr, "usage: yverif check <ID> [quick|thorough] [-repo dir] [-verif dir] | explain -replay <path> | list | dump ...")
	os.Exit(2)
}

func cmdCheck(args []string) int {
	if len(args) < 1 {
		usage()
	}
	id := args[0]
	tier := "quick"
	rest := args[1:]
	if len(rest) > 0 && !strings.HasPrefix(rest[0], "-") {
		tier = rest[0]
		rest = rest[1:]
	}
	fs := flag.NewFlagSet("check", flag.ExitOnError)
	repo := fs.String("repo", "/repo", "repository working tree")
	verif := fs.String("verif", "/verif", "verification directory")
	fs.Parse(rest)
	if t := os.Getenv("VERIF_TIER"); t == "quick" || t == "thorough" {
		tier = t
	}
	if tier != "quick" && tier != "thorough" {
		usage()
	}
	var seed int64
	if s := os.Getenv("VERIF_SEED"); s != "" {
		seed, _ = strconv.ParseInt(s, 10, 64)
	}
	p := registry[id]
	if p == nil {
		fmt.Printf("ERROR unknown property %s\n", id)
		return 2
	}
	return runProperty(p, tier, *repo, *verif, seed)
}

// cmdCheckAll (development aid used by tools/): load the tree once and run the quick tier of the listed
// properties (default all) on it, one after the other, with the per-property state reset in between. The
// registered commands always use `check`, one process per property.
var dbgHook func(w *World)

func cmdCheckAll(args []string) int {
	fs := flag.NewFlagSet("checkall", flag.ExitOnError)
	repo := fs.String("repo", "/repo", "repository working tree")
	verif := fs.String("verif", "/verif", "verification directory")
	props := fs.String("props", "", "comma separated property ids (default: all)")
	fs.Parse(args)
	var ids []string
	if *props != "" {
		ids = strings.Split(*props, ",")
	} else {
		for id := range registry {
			ids = append(ids, id)
		}
	}
	sort.Strings(ids)
	w, err := Load(*repo, []string{"./..."}, nil)
	if err != nil {
		fmt.Printf("ERROR %v\n", err)
		return 2
	}
	w.GOOS = "linux/amd64"
	if dbgHook != nil {
		dbgHook(w)
	}
	worst := 0
	for _, id := range ids {
		p := registry[id]
		if p == nil {
			fmt.Printf("ERROR unknown property %s\n", id)
			return 2
		}
		code := func() (code int) {
			started := time.Now()
			defer func() {
				if r := recover(); r != nil {
					fmt.Printf("ERROR property=%s analysis panic: %v\n%s\n", p.ID, r, debug.Stack())
					code = 2
				}
			}()
			w.resetRuleState()
			c := newCtx(w, p.ID, "quick")
			globalRules(c)
			p.Run(c)
			return finish(c, p.Meta, *verif, started, 0)
		}()
		if code > worst {
			worst = code
		}
	}
	return worst
}

func runProperty(p *property, tier, repo, verif string, seed int64) (code int) {
	started := time.Now()
	defer func() {
		if r := recover(); r != nil {
			fmt.Printf("ERROR property=%s analysis panic: %v\n%s\n", p.ID, r, debug.Stack())
			code = 2
		}
	}()
	w, err := Load(repo, []string{"./..."}, nil)
	if err != nil {
		fmt.Printf("ERROR property=%s %v\n", p.ID, err)
		return 2
	}
	w.GOOS = "linux/amd64"
	c := newCtx(w, p.ID, tier)
	globalRules(c)
	p.Run(c)
	if tier == "thorough" {
		thoroughExtras(c, p, repo)
	}
	return finish(c, p.Meta, verif, started, seed)
}

func cmdExplain(args []string) int {
	fs := flag.NewFlagSet("explain", flag.ExitOnError)
	replay := fs.String("replay", "", "replay file written by a failing check")
	repo := fs.String("repo", "/repo", "repository working tree")
	verif := fs.String("verif", "/verif", "verification directory")
	fs.Parse(args)
	b, err := os.ReadFile(*replay)
	if err != nil {
		fmt.Printf("ERROR cannot read replay file: %v\n", err)
		return 2
	}
	var rf replayFile
	if err := json.Unmarshal(b, &rf); err != nil {
		fmt.Printf("ERROR bad replay file: %v\n", err)
		return 2
	}
	p := registry[rf.Property]
	if p == nil {
		fmt.Printf("ERROR unknown property %q in replay file\n", rf.Property)
		return 2
	}
	fmt.Printf("replaying %d recorded obligation(s) of %s against the current tree\n", len(rf.Obligations), rf.Property)
	for _, o := range rf.Obligations {
		fmt.Printf("  recorded: %s %s at %s: %s\n", strings.ToUpper(o.Status), o.Key, o.Pos, o.Detail)
	}
	tier := rf.Tier
	if tier == "" {
		tier = "quick"
	}
	return runProperty(p, tier, *repo, *verif, 0)
}
