package main

import (
	"fmt"
	"go/token"
	"go/types"
	"os"
	"sort"
	"strings"

	"golang.org/x/tools/go/ssa"
)

const shimPkg = "agent/shimagent"

// shimModel resolves the shim agent's state fields by type, not by name.
type shimModel struct {
	w        *World
	pure     map[*ssa.Function]bool
	Server   *types.Named
	fLocked  string                  // the field tested before operations: a bool or small-integer state written by Lock/Unlock
	flagEnum bool                    // the lock flag is an integer state, not a bool
	lockedK  int64                   // ... whose value "locked" is the constant Lock stores
	flagVals map[int64]bool          // ... and these are all the values it can hold (zero value and every stored constant)
	owners   map[string]*types.Named // the struct type declaring each role field (the server, or a helper type it holds)
	modeEnum bool                    // the mode flag is an integer state set once by the constructor
	modeOnK  int64                   // ... whose value "no-upstream mode on" is this constant
	modeVals map[int64]bool
	modeSrc  *ssa.Parameter // the constructor's bool parameter the mode is derived from (enum form)
	fCerts   string         // map[hashcode]*certificate
	fCache   string         // map[hashcode]struct{}
	fAgent   string         // agent.ExtendedAgent
	fConn    string         // io.ReadWriteCloser
	fMu      string         // sync.RWMutex
	fNoUp    string         // the other bool field (no-upstream mode)
	fConds   string
	Methods  map[string]*ssa.Function // exported + unexported methods of *Server by name
	problems []string
}

func resolveShim(w *World) *shimModel {
	m := &shimModel{w: w, Methods: map[string]*ssa.Function{}}
	// the named struct type of package shimagent that implements agent.ExtendedAgent
	p := w.Pkg(shimPkg)
	if p == nil {
		m.problems = append(m.problems, "package "+shimPkg)
		return m
	}
	var extAgent *types.Interface
	if ap := w.ByPath["golang.org/x/crypto/ssh/agent"]; ap != nil && ap.Types != nil {
		if o := ap.Types.Scope().Lookup("ExtendedAgent"); o != nil {
			extAgent, _ = o.Type().Underlying().(*types.Interface)
		}
	}
	if extAgent == nil {
		m.problems = append(m.problems, "agent.ExtendedAgent")
		return m
	}
	for _, name := range p.Pkg.Scope().Names() {
		tn, ok := p.Pkg.Scope().Lookup(name).(*types.TypeName)
		if !ok {
			continue
		}
		n, ok := tn.Type().(*types.Named)
		if !ok {
			continue
		}
		st, ok := n.Underlying().(*types.Struct)
		if !ok {
			continue
		}
		if !types.Implements(types.NewPointer(n), extAgent) {
			continue
		}
		// the server has a mutex and map fields; the `signer` helper type does not implement ExtendedAgent
		hasMu := false
		for i := 0; i < st.NumFields(); i++ {
			if strings.HasSuffix(st.Field(i).Type().String(), "sync.RWMutex") || strings.HasSuffix(st.Field(i).Type().String(), "sync.Mutex") {
				hasMu = true
			}
		}
		if hasMu {
			m.Server = n
		}
	}
	if m.Server == nil {
		m.problems = append(m.problems, "shim server type (struct implementing agent.ExtendedAgent with a mutex)")
		return m
	}
	st := m.Server.Underlying().(*types.Struct)
	var bools []string
	// the role fields may sit in the server struct or one level down, in a repository struct type the server holds
	// (embedded or as a field, by value or by pointer): a lock-state, a notifier, an upstream-certificate helper
	type fieldAt struct {
		f     *types.Var
		owner *types.Named
	}
	var all []fieldAt
	for i := 0; i < st.NumFields(); i++ {
		f := st.Field(i)
		all = append(all, fieldAt{f, m.Server})
		ft := f.Type()
		if p, ok := ft.(*types.Pointer); ok {
			ft = p.Elem()
		}
		if n, ok := ft.(*types.Named); ok && w.InRepoType(n) {
			if ns, ok := n.Underlying().(*types.Struct); ok {
				for j := 0; j < ns.NumFields(); j++ {
					all = append(all, fieldAt{ns.Field(j), n})
				}
			}
		}
	}
	m.owners = map[string]*types.Named{}
	for _, fa := range all {
		f := fa.f
		if _, dup := m.owners[f.Name()]; !dup {
			m.owners[f.Name()] = fa.owner
		}
		ts := f.Type().String()
		switch {
		case strings.HasSuffix(ts, "sync.RWMutex") || strings.HasSuffix(ts, "sync.Mutex"):
			m.fMu = f.Name()
		case ts == "golang.org/x/crypto/ssh/agent.ExtendedAgent" || ts == "golang.org/x/crypto/ssh/agent.Agent":
			m.fAgent = f.Name()
		case ts == "io.ReadWriteCloser" || ts == "net.Conn" || ts == "io.ReadWriter":
			m.fConn = f.Name()
		case ts == "bool":
			bools = append(bools, f.Name())
		default:
			if mp, ok := f.Type().Underlying().(*types.Map); ok {
				if _, isPtr := mp.Elem().Underlying().(*types.Pointer); isPtr {
					m.fCerts = f.Name()
				} else if s, isStruct := mp.Elem().Underlying().(*types.Struct); isStruct && s.NumFields() == 0 {
					m.fCache = f.Name()
				}
			}
			if arr, ok := f.Type().Underlying().(*types.Array); ok {
				if strings.HasSuffix(arr.Elem().String(), "sync.Cond") {
					m.fConds = f.Name()
				}
			}
		}
	}
	// methods
	ms := w.Prog.MethodSets.MethodSet(types.NewPointer(m.Server))
	for i := 0; i < ms.Len(); i++ {
		sel := ms.At(i)
		if fn := w.Prog.MethodValue(sel); fn != nil {
			if fn.Synthetic != "" {
				if o, ok := sel.Obj().(*types.Func); ok {
					if d := w.Prog.FuncValue(o); d != nil {
						fn = d
					}
				}
			}
			if fn.Blocks != nil && recvNamed(fn) == m.Server {
				m.Methods[fn.Name()] = w.unwrapObserver(fn)
			}
		}
	}
	// the lock flag is the bool field written by the Lock method; the other bool is the mode flag
	if lock := m.Methods["Lock"]; lock != nil {
		for _, b := range bools {
			for _, a := range w.FieldAccesses(m.Owner(b), b) {
				if (a.Fn == lock || w.inTree(lock, a.Fn)) && a.Kind == "write" {
					m.fLocked = b
				}
			}
		}
	}
	if lock := m.Methods["Lock"]; lock != nil && m.fLocked == "" {
		// ... or a state field of a basic integer type that Lock writes a constant into; every writer stores a constant
		for _, fat := range all {
			f := fat.f
			if bt, ok := f.Type().Underlying().(*types.Basic); !ok || bt.Info()&types.IsInteger == 0 {
				continue
			}
			vals := map[int64]bool{0: true}
			lockK, nLock, allConst := int64(0), 0, true
			for _, a := range w.FieldAccesses(m.Owner(f.Name()), f.Name()) {
				switch a.Kind {
				case "write":
					k, isK := intConst(a.Instr.(*ssa.Store).Val)
					if !isK {
						if p, isParam := a.Instr.(*ssa.Store).Val.(*ssa.Parameter); isParam {
							// a shared body storing its parameter: the constants its call sites pass
							for _, site := range w.callSites(a.Fn) {
								if i := paramIndex(p); i >= 0 && i < len(site.Common().Args) {
									if k2, ok := intConst(site.Common().Args[i]); ok {
										vals[k2] = true
										if site.Parent() == lock {
											lockK, nLock = k2, nLock+1
										}
										continue
									}
								}
								allConst = false
							}
							continue
						}
						allConst = false
						continue
					}
					vals[k] = true
					if a.Fn == lock || w.inTree(lock, a.Fn) && len(w.callSites(a.Fn)) == 1 {
						lockK, nLock = k, nLock+1
					}
				case "addr", "addrcall":
					allConst = false
				}
			}
			if nLock == 1 && allConst && lockK != 0 {
				m.fLocked, m.flagEnum, m.lockedK, m.flagVals = f.Name(), true, lockK, vals
			}
		}
	}
	for _, b := range bools {
		if b != m.fLocked {
			m.fNoUp = b
		}
	}
	if m.fNoUp == "" {
		// ... or a small integer state written once, by the constructor, from a value decided by one of its bool
		// parameters: the constant it takes when that parameter is true means "mode on"
		for _, fat := range all {
			f := fat.f
			if f.Name() == m.fLocked {
				continue
			}
			if bt, ok := f.Type().Underlying().(*types.Basic); !ok || bt.Info()&types.IsInteger == 0 {
				continue
			}
			var st *ssa.Store
			n := 0
			var ctor *ssa.Function
			for _, a := range w.FieldAccesses(fat.owner, f.Name()) {
				switch a.Kind {
				case "write":
					st, _ = a.Instr.(*ssa.Store)
					ctor = a.Fn
					n++
				case "addr", "addrcall":
					n += 2
				}
			}
			if n != 1 || st == nil || ctor == nil || ctor.Signature.Recv() != nil {
				continue
			}
			old := w.focus
			w.Focus(ctor)
			byPol := map[bool]int64{}
			var src *ssa.Parameter
			okAll := true
			for _, lf := range w.Leaves(st.Val, st) {
				k, isK := intConst(lf.Val)
				if !isK {
					okAll = false
					break
				}
				found := false
				for l := range lf.Facts {
					if p, isParam := w.canon(ctor, l.V).(*ssa.Parameter); isParam && isBoolType(p.Type()) && (p.Parent() == ctor || w.resolveUp(ctor, p) != ssa.Value(p)) {
						rp := p
						if p.Parent() != ctor {
							rp, _ = w.resolveUp(ctor, p).(*ssa.Parameter)
						}
						if rp == nil || rp.Parent() != ctor || (src != nil && src != rp) {
							continue
						}
						src = rp
						byPol[l.Pol] = k
						found = true
					}
				}
				if !found {
					okAll = false
				}
			}
			w.restoreFocus(old)
			onK, hasOn := byPol[true]
			offK, hasOff := byPol[false]
			if okAll && hasOn && hasOff && onK != offK && src != nil {
				m.fNoUp, m.modeEnum, m.modeOnK, m.modeSrc = f.Name(), true, onK, src
				m.modeVals = map[int64]bool{onK: true, offK: true}
			}
		}
	}
	for role, v := range map[string]string{"lock flag field": m.fLocked, "certificate table field": m.fCerts, "upstream cache field": m.fCache,
		"underlying agent field": m.fAgent, "connection field": m.fConn, "mutex field": m.fMu, "mode flag field": m.fNoUp, "condition table field": m.fConds} {
		if v == "" {
			m.problems = append(m.problems, role)
		}
	}
	sort.Strings(m.problems)
	return m
}

// recvParam returns the receiver parameter of a method.
func recvParam(fn *ssa.Function) *ssa.Parameter {
	if fn.Signature.Recv() == nil || len(fn.Params) == 0 {
		return nil
	}
	return fn.Params[0]
}

// isLoadOfRecvField: v is `*(&recv.field)` inside method fn (recv possibly through a closure capture).
func (m *shimModel) isLoadOfField(v ssa.Value, field string) bool {
	u, ok := v.(*ssa.UnOp)
	if !ok || u.Op != token.MUL {
		return false
	}
	fa, ok := u.X.(*ssa.FieldAddr)
	if !ok {
		return false
	}
	return isFieldOf(fa.X.Type(), m.Owner(field), field, fa.Field)
}

// shimEffect classifies instruction ins of a server method as an effect on the agent's identities /
// disclosure of them: a call on the underlying agent or the raw connection, a call of another
// (unexported, hence ungated) server method or of a closure/function receiving the server, or a write to the tables / flag.
func (m *shimModel) effect(fn *ssa.Function, ins ssa.Instruction) (string, bool) {
	switch x := ins.(type) {
	case *ssa.Store:
		if fa, ok := x.Addr.(*ssa.FieldAddr); ok {
			for _, f := range []string{m.fCerts, m.fCache, m.fLocked, m.fAgent, m.fConn} {
				if isFieldOf(fa.X.Type(), m.Owner(f), f, fa.Field) {
					return "write " + f, true
				}
			}
		}
	case *ssa.MapUpdate:
		for _, f := range []string{m.fCerts, m.fCache} {
			if m.isLoadOfField(x.Map, f) {
				return "map update " + f, true
			}
		}
	case ssa.CallInstruction:
		c := x.Common()
		if b, ok := c.Value.(*ssa.Builtin); ok {
			if b.Name() == "delete" {
				for _, f := range []string{m.fCerts, m.fCache} {
					if m.isLoadOfField(c.Args[0], f) {
						return "map delete " + f, true
					}
				}
			}
			return "", false
		}
		name := calleeName(x)
		if strings.HasPrefix(name, "(*sync.") {
			return "", false
		}
		for _, a := range callArgs(x) {
			if m.isLoadOfField(a, m.fAgent) {
				return "call " + name + " on the underlying agent", true
			}
			if m.isLoadOfField(a, m.fConn) {
				return "call " + name + " on the raw connection", true
			}
		}
		// a table handed to a function that is not known to leave it alone
		for _, a := range callArgs(x) {
			for _, f := range []string{m.fCerts, m.fCache} {
				if !m.isLoadOfField(a, f) {
					continue
				}
				if callee := c.StaticCallee(); callee != nil && m.w.InRepo(callee) && m.effectFree(callee, 0) {
					continue
				}
				return "call " + name + " on table " + f, true
			}
		}
		// calls of server methods
		if callee := c.StaticCallee(); callee != nil && recvNamed(callee) == m.Server {
			if m.effectFree(callee, 0) {
				return "", false // a helper that only reads (e.g. a guard returning the refusal error)
			}
			return "call of (*Server)." + callee.Name(), true
		}
	}
	return "", false
}

// effectFree: neither fn nor any repository function it calls statically performs an effect (as classified above),
// makes a dynamic call or starts a goroutine.
func (m *shimModel) effectFree(fn *ssa.Function, depth int) bool {
	if fn == nil || fn.Blocks == nil || depth > 3 {
		return false
	}
	if v, ok := m.pure[fn]; ok {
		return v
	}
	if m.pure == nil {
		m.pure = map[*ssa.Function]bool{}
	}
	m.pure[fn] = false // recursion: not pure
	ok := true
	for _, b := range fn.Blocks {
		for _, ins := range b.Instrs {
			switch x := ins.(type) {
			case *ssa.Go, *ssa.Defer, *ssa.Send, *ssa.MakeClosure:
				ok = false
			case *ssa.Store:
				// stores into fresh locals only
				if _, isAlloc := x.Addr.(*ssa.Alloc); !isAlloc {
					ok = false
				}
			case *ssa.MapUpdate:
				ok = false
			case *ssa.Call:
				if _, isB := x.Call.Value.(*ssa.Builtin); isB {
					if n := x.Call.Value.Name(); n != "len" && n != "cap" {
						ok = false
					}
					continue
				}
				callee := x.Call.StaticCallee()
				switch {
				case callee == nil:
					ok = false
				case m.w.InRepo(callee):
					if !m.effectFree(callee, depth+1) {
						ok = false
					}
				default:
					if n := calleeName(x); n != "errors.New" && n != "fmt.Errorf" && n != "fmt.Sprintf" {
						ok = false
					}
				}
			}
		}
	}
	m.pure[fn] = ok
	return ok
}

// Owner: the struct type declaring role field f.
func (m *shimModel) Owner(f string) *types.Named {
	if n := m.owners[f]; n != nil {
		return n
	}
	return m.Server
}

// lockedLit: literal l decides the lock flag; locked is its value.
func (m *shimModel) lockedLit(l Lit) (locked bool, ok bool) {
	if !m.flagEnum {
		if m.isLoadOfField(l.V, m.fLocked) {
			return l.Pol, true
		}
		return false, false
	}
	bin, isBin := l.V.(*ssa.BinOp)
	if !isBin || (bin.Op != token.EQL && bin.Op != token.NEQ) {
		return false, false
	}
	x, y := bin.X, bin.Y
	if _, isK := intConst(x); isK {
		x, y = y, x
	}
	k, isK := intConst(y)
	if !isK || !m.isLoadOfField(strip(x), m.fLocked) {
		return false, false
	}
	eq := l.Pol == (bin.Op == token.EQL) // the state equals k
	switch {
	case k == m.lockedK:
		return eq, true
	case eq:
		return false, true // some other value than "locked"
	default:
		// not k: locked when "locked" is the only other value the field can hold
		for v := range m.flagVals {
			if v != k && v != m.lockedK {
				return false, false
			}
		}
		return true, true
	}
}

// lockedLits returns whether the lock flag is known (true/false) at block b of fn.
func (m *shimModel) lockedKnown(fn *ssa.Function, b *ssa.BasicBlock) (val bool, known bool) {
	f := m.w.Facts(fn)
	for l := range f.At(b) {
		if v, ok := m.lockedLit(l); ok {
			return v, true
		}
	}
	return false, false
}

// modeLit: literal l decides the no-upstream mode; on is its value.
func (m *shimModel) modeLit(l Lit) (on bool, ok bool) {
	if !m.modeEnum {
		if m.isLoadOfField(l.V, m.fNoUp) {
			return l.Pol, true
		}
		return false, false
	}
	bin, isBin := l.V.(*ssa.BinOp)
	if !isBin || (bin.Op != token.EQL && bin.Op != token.NEQ) {
		return false, false
	}
	x, y := bin.X, bin.Y
	if _, isK := intConst(x); isK {
		x, y = y, x
	}
	k, isK := intConst(y)
	if !isK || !m.isLoadOfField(strip(x), m.fNoUp) {
		return false, false
	}
	eq := l.Pol == (bin.Op == token.EQL)
	switch {
	case k == m.modeOnK:
		return eq, true
	case eq:
		return false, true
	default:
		for v := range m.modeVals {
			if v != k && v != m.modeOnK {
				return false, false
			}
		}
		return true, true
	}
}

// flagConst: the value v stored into the lock flag, as locked / not locked.
func (m *shimModel) flagConst(v ssa.Value) (locked bool, ok bool) {
	if !m.flagEnum {
		return boolConst(v)
	}
	k, isK := intConst(v)
	return k == m.lockedK, isK
}

// liveReturns: returns of fn, skipping the synthetic recover block when nothing can recover.
func liveReturns(fn *ssa.Function) []*ssa.Return {
	var out []*ssa.Return
	for _, r := range returnsOf(fn) {
		if fn.Recover != nil && r.Block() == fn.Recover && !hasRecover(fn) {
			continue
		}
		out = append(out, r)
	}
	return out
}

func hasRecover(fn *ssa.Function) bool {
	var visit func(f *ssa.Function) bool
	visit = func(f *ssa.Function) bool {
		for _, b := range f.Blocks {
			for _, ins := range b.Instrs {
				if c, ok := ins.(ssa.CallInstruction); ok {
					if bi, ok := c.Common().Value.(*ssa.Builtin); ok && bi.Name() == "recover" {
						return true
					}
				}
			}
		}
		for _, a := range f.AnonFuncs {
			if visit(a) {
				return true
			}
		}
		return false
	}
	return visit(fn)
}

func init() {
	register(&property{
		ID: "C08",
		Meta: propMeta{
			Level:       "Structural necessary conditions of the lock discipline, decided on every path of every shim-server method: each effect (call on the underlying agent or raw connection, call of an internal server method, write to the certificate tables or the lock flag) is reached only under the must-fact 'lock flag is false' (true in Unlock); the locked edge returns a certainly-non-nil error (List: an empty list and nil); the flag is written only by Lock/Unlock, only with the right constant, only under the must-fact that the underlying agent's Lock/Unlock returned nil, and the passphrase reaches the underlying agent unchanged. It does not decide the underlying agent's own lock semantics.",
			Technique:   "static analysis: must-fact dataflow over branch conditions on go/ssa + field-writer census",
			Explanation: "For the shim server type (resolved as the struct of agent/shimagent implementing agent.ExtendedAgent with a mutex; its fields resolved by type) every method body is scanned for effect sites; for each the set of branch literals holding on ALL paths from entry (forward must-dataflow over the SSA CFG) must contain the lock-flag literal with the right polarity. Returns reachable under the 'locked' literal are checked for certainly-non-nil errors by value-flow through cells/phis. The writers of the flag are enumerated over the whole repository.",
			Assumptions: []string{"the underlying agent's Lock/Unlock implement the passphrase check (x/crypto, ssh-agent)", "go/types, go/ssa are correct; no unsafe/linkname in the repository (checked)", "mutual exclusion of operations is C11's concern"},
			Trusted:     []string{"go/packages", "go/types", "go/ssa", "golang.org/x/crypto/ssh/agent client"},
			RuleDoc: map[string]string{
				"R1.gate":    "every effect site of a gated method holds the lock-flag literal (false; true for Unlock) on all paths",
				"R1.locked":  "every return reachable with the flag known set yields a non-nil error (List: empty slice, nil error) ",
				"R2.flip":    "the flag store writes the right constant under the must-fact <agent>.Lock/Unlock(p)==nil with p the method's own parameter; the method returns that call's result",
				"R3.writers": "census of writers of the lock flag over all repository functions = {Lock, Unlock}; neither writes the tables",
			},
		},
		Run: runC08,
	})
}

// gated methods and the polarity of the flag required at their effects.
var c08Gated = []string{"List", "SignWithFlags", "Signers", "Add", "Remove", "RemoveAll", "AddHardCert", "Lock", "Unlock", "Close", "Sign"}

// delegate: the exported method hands its whole work - after taking the mutex - to one unexported method of the same
// receiver, passing its own parameters or constants, and returns that method's results unchanged. Two exported
// methods may share the helper (Lock and Unlock merged into one function with a boolean parameter): the helper is
// then analysed once per call, with the constant arguments of that call.
func (m *shimModel) delegate(fn *ssa.Function) (*ssa.Function, *ssa.Call) {
	w := m.w
	var target *ssa.Call
	for _, r := range liveReturns(fn) {
		var call *ssa.Call
		for i, res := range r.Results {
			if lv := w.leaves(res, r, false); len(lv) == 1 {
				res = lv[0].Val
			}
			var cv *ssa.Call
			switch x := res.(type) {
			case *ssa.Call:
				if len(r.Results) == 1 {
					cv = x
				}
			case *ssa.Extract:
				if c2, isC := x.Tuple.(*ssa.Call); isC && x.Index == i {
					cv = c2
				}
			}
			if cv == nil || (call != nil && cv != call) {
				return nil, nil
			}
			call = cv
		}
		if call == nil || (target != nil && call != target) {
			return nil, nil
		}
		target = call
	}
	if target == nil {
		return nil, nil
	}
	h := w.helperOf(target)
	if h == nil || h.Parent() != nil || token.IsExported(h.Name()) || w.dynCallable(h) || recvNamed(h) != m.Server {
		return nil, nil
	}
	for i, a := range target.Call.Args {
		if i == 0 {
			if a != ssa.Value(fn.Params[0]) {
				return nil, nil
			}
			continue
		}
		_, isParam := a.(*ssa.Parameter)
		_, isConst := a.(*ssa.Const)
		if !isParam && !isConst {
			// a package-level value read as it is (the refusal error of this operation), or a function named on the
			// spot (the underlying operation as a method expression)
			sa := throughCell(strip(a))
			if ld, isLd := sa.(*ssa.UnOp); isLd && ld.Op == token.MUL {
				if _, isG := ld.X.(*ssa.Global); isG {
					continue
				}
			}
			if _, isF := sa.(*ssa.Function); isF {
				continue
			}
			return nil, nil
		}
	}
	for _, call := range callsIn(fn) {
		if call == ssa.CallInstruction(target) {
			continue
		}
		if n := calleeName(call); !strings.HasPrefix(n, "(*sync.") {
			return nil, nil
		}
	}
	return h, target
}

func runC08(c *Ctx) {
	w := c.w
	m := resolveShim(w)
	for _, p := range m.problems {
		c.Unresolved("R0", p)
	}
	if m.Server == nil || m.fLocked == "" {
		return
	}
	nEffects := 0
	// frames: the function whose body does the work of each gated method, and the facts to read it under
	type frame struct {
		entry, body *ssa.Function
		site        *ssa.Call
	}
	frames := map[string]frame{}
	flagWriters := map[*ssa.Function]bool{}
	for _, name := range c08Gated {
		fn := m.Methods[name]
		if fn == nil {
			continue
		}
		fr := frame{entry: fn, body: fn}
		testsFlag := false
		for _, b := range fn.Blocks {
			if _, known := m.lockedKnown(fn, b); known {
				testsFlag = true
			}
		}
		if h, site := m.delegate(fn); h != nil && !testsFlag {
			fr.body, fr.site = h, site
		}
		frames[name] = fr
		if name == "Lock" || name == "Unlock" {
			flagWriters[fr.body] = true
		}
	}
	// within: run f with the facts of the method's frame (one activation of a shared body)
	within := func(fr frame, f func(fn *ssa.Function, view *Facts)) {
		if fr.site == nil {
			f(fr.body, w.Facts(fr.entry))
			return
		}
		old := w.focus
		defer w.restoreFocus(old)
		w.Focus(fr.entry)
		w.Pin(fr.entry, fr.body, fr.site, func(view *Facts) { f(fr.body, view) })
	}
	lockedIn := func(view *Facts, b *ssa.BasicBlock) (bool, bool) {
		for l := range view.At(b) {
			if v, ok := m.lockedLit(l); ok {
				return v, true
			}
		}
		return false, false
	}
	for _, name := range c08Gated {
		fr, ok := frames[name]
		if !ok {
			c.Unresolved("R1.gate", "method "+name+" of the shim server")
			continue
		}
		c.Saw(fr.entry)
		c.Saw(fr.body)
		want := name == "Unlock" // required value of the flag at effects
		// viaSite: a parameter of a shared body denotes what this activation's call passes for it
		viaSite := func(v ssa.Value) ssa.Value {
			if p, isP := v.(*ssa.Parameter); isP && fr.site != nil && p.Parent() == fr.body {
				if i := paramIndex(p); i >= 0 && i < len(fr.site.Call.Args) {
					return throughCell(strip(fr.site.Call.Args[i]))
				}
			}
			return v
		}
		within(fr, func(fn *ssa.Function, view *Facts) {
			live := func(b *ssa.BasicBlock) bool { return fr.site == nil || view.At(b) != nil }
			// Sign-like delegation: a method whose only effect is a call of another gated method needs no test of its own
			scanned := map[*ssa.Function]bool{}
			var scan func(g *ssa.Function, depth int)
			scan = func(g *ssa.Function, depth int) {
				if scanned[g] {
					return
				}
				scanned[g] = true
				for _, b := range g.Blocks {
					if g.Recover == b || (g == fn && !live(b)) || (g != fn && view.At(b) == nil) {
						continue
					}
					for _, ins := range b.Instrs {
						what, ok := m.effect(g, ins)
						if !ok {
							continue
						}
						// an ungated call of a helper of the server that performs the test itself (a guard taking the operation as
						// a closure, a shared body): the effects are those inside it - and inside the closures handed to it, which
						// run where it calls them - each judged with the facts that hold there
						if call, isCall := ins.(*ssa.Call); isCall && depth < 3 {
							if _, known := lockedIn(view, b); !known {
								if h := w.helperOf(call); h != nil && w.transparent(h) && !w.dynCallable(h) && len(w.sitesIn(fr.entry, h)) == 1 {
									scan(h, depth+1)
									for _, a := range call.Call.Args {
										if mc, isMC := throughCell(strip(a)).(*ssa.MakeClosure); isMC {
											if clo, _ := mc.Fn.(*ssa.Function); clo != nil && w.callback(clo) {
												scan(clo, depth+1)
											}
										}
									}
									continue
								}
							}
						}
						if call, isCall := ins.(ssa.CallInstruction); isCall {
							if callee := call.Common().StaticCallee(); callee != nil && recvNamed(callee) == m.Server && isGated(callee.Name()) && callee.Name() != name {
								// delegation to a method that performs the test itself (same receiver)
								if w.Expr(call.Common().Args[0]) == "p0" {
									c.Ok("R1.gate", name+"|delegates to gated "+callee.Name(), w.Pos(ins.Pos()), "effect is a call of another gated method on the same receiver")
									nEffects++
									continue
								}
							}
						}
						if _, isDefer := ins.(*ssa.Defer); isDefer {
							continue
						}
						nEffects++
						val, known := lockedIn(view, b)
						key := name + "|" + what
						switch {
						case !known:
							c.Bad("R1.gate", key, w.Pos(ins.Pos()), "effect reachable on a path where the lock flag was not tested (block trail: "+blockTrail(b)+")")
						case val != want:
							c.Bad("R1.gate", key, w.Pos(ins.Pos()), "effect reachable with the lock flag known to be "+boolStr(val))
						default:
							c.Ok("R1.gate", key, w.Pos(ins.Pos()), "must-fact lock flag == "+boolStr(val)+" at "+blockTrail(b))
						}
					}
				}
			}
			scan(fn, 0)
			// the flag as known for one value that may be returned: at the return, or where a helper produced it
			lockedFor := func(r *ssa.Return, lf Leaf) (bool, bool) {
				if v, k := lockedIn(view, r.Block()); k {
					return v, true
				}
				for l := range lf.Facts {
					if v, ok := m.lockedLit(l); ok {
						return v, true
					}
				}
				return false, false
			}
			// returns under the 'wrong' flag value
			nLockedRet := 0
			for _, r := range liveReturns(fn) {
				if !live(r.Block()) {
					continue
				}
				val, known := lockedIn(view, r.Block())
				if !known || val == want {
					continue
				}
				nLockedRet++
				key := name + "|return under flag=" + boolStr(val)
				if name == "List" {
					okList := len(r.Results) >= 2 && errorResultIndex(fn) >= 1
					if okList {
						for _, lf := range w.Leaves(r.Results[errorResultIndex(fn)], r) {
							if !isNilConst(lf.Val) {
								okList = false
							}
						}
						for _, lf := range w.Leaves(r.Results[0], r) {
							if !isEmptySlice(lf.Val) {
								okList = false
							}
						}
					}
					c.Check(okList, "R1.locked", key, w.Pos(r.Pos()), "locked List returns an empty list and nil", "locked List must return a zero-length list and a nil error")
					continue
				}
				idx := errorResultIndex(fn)
				okRet := idx >= 0
				if okRet {
					for _, lf := range w.Leaves(r.Results[idx], r) {
						if !w.NonNil(viaSite(lf.Val), lf.Facts) {
							okRet = false
						}
					}
				}
				c.Check(okRet, "R1.locked", key, w.Pos(r.Pos()), "returns a certainly non-nil error", "a return reachable while locked (not locked for Unlock) may yield a nil error: "+w.Expr(r.Results[max(idx, 0)]))
			}
			if name != "Sign" {
				// the refusal produced by a guard helper whose result the method returns: counted, and certainly non-nil
				if idx := errorResultIndex(fn); nLockedRet == 0 && idx >= 0 {
					for _, r := range liveReturns(fn) {
						if !live(r.Block()) {
							continue
						}
						if _, k := lockedIn(view, r.Block()); k {
							continue
						}
						for _, lf := range w.LeavesErr(r.Results[idx], r) {
							if v, k := lockedFor(r, lf); k && v != want {
								nLockedRet++
								c.Check(w.NonNil(lf.Val, lf.Facts), "R1.locked", name+"|return under flag="+boolStr(v), w.Pos(r.Pos()), "returns a certainly non-nil error", "a value returned while locked (not locked for Unlock) may be a nil error: "+w.Short(lf.Val))
							}
						}
					}
				}
				c.Floor("R1.locked", nLockedRet, 1, "refusing return in "+name)
				// success only with the flag known to have the required value (List's empty answer excepted)
				for _, r := range w.MayBeNilReturns(fn) {
					if (fn.Recover != nil && r.Block() == fn.Recover) || !live(r.Block()) {
						continue
					}
					val, known := lockedIn(view, r.Block())
					if name == "List" && known && val {
						continue
					}
					if idx := errorResultIndex(fn); fr.site != nil && idx >= 0 {
						// a shared body returning one of its parameters: what this activation's call passed for it
						allNonNil := true
						for _, lf := range w.Leaves(r.Results[idx], r) {
							if !w.NonNil(viaSite(lf.Val), lf.Facts) {
								allNonNil = false
							}
						}
						if allNonNil {
							continue
						}
					}
					if idx := errorResultIndex(fn); !known && idx >= 0 {
						// decided value by value: every value that may be nil was produced with the flag known
						all, some := true, false
						for _, lf := range w.LeavesErr(r.Results[idx], r) {
							if w.NonNil(lf.Val, lf.Facts) {
								continue
							}
							some = true
							if v, k := lockedFor(r, lf); !k || v != want {
								all = false
							}
						}
						if all && some {
							val, known = want, true
						}
					}
					c.Check(known && val == want, "R1.locked", name+"|success only after the flag was tested", w.Pos(r.Pos()), "must-fact lock flag == "+boolStr(want), name+" can return success on a path where the lock flag was not tested (or has the wrong value): a locked agent answers")
				}
			}
		})
	}
	c.Floor("R1.gate", nEffects, 10, "effect sites in gated methods")

	// R2: flag flips
	for _, spec := range []struct {
		name string
		val  bool
	}{{"Lock", true}, {"Unlock", false}} {
		fr, ok := frames[spec.name]
		if !ok {
			continue
		}
		within(fr, func(fn0 *ssa.Function, view *Facts) {
			fn := fn0
			live := func(b *ssa.BasicBlock) bool { return fr.site == nil || view.At(b) != nil }
			var agentCall *ssa.Call
			for _, call := range callsIn(fn) {
				if cc, ok := call.(*ssa.Call); ok && cc.Call.IsInvoke() && cc.Call.Method.Name() == spec.name && m.isLoadOfField(cc.Call.Value, m.fAgent) && live(cc.Block()) {
					agentCall = cc
				}
			}
			if agentCall == nil {
				// the operation's body handed as a closure to a guard helper that runs it (R1 judged the guard): the flip
				// rules are read in the closure; the method returns what the guard returns, which is the closure's result
				for _, ins := range instrsOf(fn0) {
					mc, isMC := ins.(*ssa.MakeClosure)
					if !isMC {
						continue
					}
					clo, _ := mc.Fn.(*ssa.Function)
					if clo == nil || !w.callback(clo) {
						continue
					}
					for _, call := range callsIn(clo) {
						if cc, ok := call.(*ssa.Call); ok && cc.Call.IsInvoke() && cc.Call.Method.Name() == spec.name && m.isLoadOfField(cc.Call.Value, m.fAgent) {
							agentCall, fn = cc, clo
						}
					}
				}
				if fn != fn0 {
					c.Saw(fn)
					idx := errorResultIndex(fn0)
					for _, r := range w.MayBeNilReturns(fn0) {
						if fn0.Recover != nil && r.Block() == fn0.Recover {
							continue
						}
						okBack := idx >= 0
						for _, lf := range w.LeavesErr(r.Results[max(idx, 0)], r) {
							if w.NonNil(lf.Val, lf.Facts) {
								continue
							}
							dc, isCall := throughCell(strip(lf.Val)).(*ssa.Call)
							if !isCall || dc.Call.StaticCallee() != nil || dc.Call.IsInvoke() {
								okBack = false
								continue
							}
							if p, isParam := dc.Call.Value.(*ssa.Parameter); !isParam || !w.inTree(fn0, p.Parent()) {
								okBack = false
							}
						}
						c.Check(okBack, "R2.flip", spec.name+"|returns the guarded operation's result", w.Pos(r.Pos()), "every possibly-nil result is what the operation closure returned", spec.name+" can report success with something other than the result of the operation it hands to the guard")
					}
				}
			}
			// ... or the shared body is handed the underlying operation as a method expression and calls it on the agent:
			// request(s.agent, passphrase) with request bound, at this activation's call, to ExtendedAgent.Lock
			if agentCall == nil && fr.site != nil {
				for _, call := range callsIn(fn) {
					cc, ok := call.(*ssa.Call)
					if !ok || cc.Call.IsInvoke() || !live(cc.Block()) || len(cc.Call.Args) != 2 {
						continue
					}
					p, isP := cc.Call.Value.(*ssa.Parameter)
					if !isP || p.Parent() != fn || paramIndex(p) >= len(fr.site.Call.Args) || !m.isLoadOfField(cc.Call.Args[0], m.fAgent) {
						continue
					}
					tf, isF := throughCell(strip(fr.site.Call.Args[paramIndex(p)])).(*ssa.Function)
					if !isF || tf.Name() != spec.name+"$thunk" {
						continue
					}
					// the thunk of an interface method expression invokes that method on its first argument
					okThunk := false
					for _, tc := range callsIn(tf) {
						if tcc, ok := tc.(*ssa.Call); ok && tcc.Call.IsInvoke() && tcc.Call.Method.Name() == spec.name && len(tf.Params) > 0 && tcc.Call.Value == ssa.Value(tf.Params[0]) {
							okThunk = true
						}
					}
					if okThunk {
						agentCall = cc
					}
				}
			}
			// ... or the method hands the underlying agent's operation, as a bound method value, to a helper that only the
			// flag-writing methods call and that calls it once and returns its result (Lock and Unlock sharing a tail):
			// the helper's call stands for the underlying call in the method, the call inside it for its result
			var innerCall *ssa.Call
			if agentCall == nil {
				for _, call := range callsIn(fn) {
					sc, ok := call.(*ssa.Call)
					if !ok || !live(sc.Block()) {
						continue
					}
					h := w.helperOf(sc)
					if h == nil || !m.flagHelper(h, flagWriters) || len(sc.Call.Args) != len(h.Params) {
						continue
					}
					for k, a := range sc.Call.Args {
						mc, isMC := throughCell(strip(a)).(*ssa.MakeClosure)
						if !isMC || len(mc.Bindings) != 1 || !m.isLoadOfField(mc.Bindings[0], m.fAgent) {
							continue
						}
						bf, _ := mc.Fn.(*ssa.Function)
						if bf == nil || !strings.HasSuffix(bf.Name(), "."+spec.name+"$bound") && bf.Name() != spec.name+"$bound" {
							continue
						}
						// the helper calls that parameter exactly once, with one of its own parameters, and returns the result
						var dc *ssa.Call
						n := 0
						for _, hcall := range callsIn(h) {
							if hv, isCall := hcall.(*ssa.Call); isCall && !hv.Call.IsInvoke() && hv.Call.Value == ssa.Value(h.Params[k]) {
								dc = hv
								n++
							}
						}
						if n != 1 || dc == nil || len(dc.Call.Args) != 1 {
							continue
						}
						pp, isP := throughCell(strip(dc.Call.Args[0])).(*ssa.Parameter)
						if !isP || pp.Parent() != h || paramIndex(pp) >= len(sc.Call.Args) || w.ExprIn(fr.entry, sc.Call.Args[paramIndex(pp)]) != "p1" {
							continue
						}
						okRet := errorResultIndex(h) == 0 && h.Signature.Results().Len() == 1
						for _, r := range liveReturns(h) {
							for _, lf := range w.LeavesErr(r.Results[0], r) {
								if lf.Val != ssa.Value(dc) {
									okRet = false
								}
							}
						}
						if okRet {
							agentCall, innerCall = sc, dc
							c.Saw(h)
						}
					}
				}
			}
			// ... or Lock and Unlock share a tail that is told the new flag value, asks the underlying agent for the matching
			// operation and stores the value on success: read per call site, with the constant this method passes deciding
			// which of the two calls runs
			var tailView *Facts
			if agentCall == nil {
				for _, call := range callsIn(fn) {
					sc, ok := call.(*ssa.Call)
					if !ok || !live(sc.Block()) {
						continue
					}
					h := w.helperOf(sc)
					if h == nil || !m.flagHelper(h, flagWriters) || len(sc.Call.Args) != len(h.Params) {
						continue
					}
					w.Pin(fn, h, sc, func(hv *Facts) {
						var mine *ssa.Call
						other := false
						for _, hcall := range callsIn(h) {
							cc, isCall := hcall.(*ssa.Call)
							if !isCall || !cc.Call.IsInvoke() || !m.isLoadOfField(cc.Call.Value, m.fAgent) || hv.At(cc.Block()) == nil {
								continue
							}
							switch cc.Call.Method.Name() {
							case spec.name:
								mine = cc
							case "Lock", "Unlock":
								other = true
							}
						}
						if mine == nil || other || len(mine.Call.Args) != 1 {
							return
						}
						pp, isP := throughCell(strip(mine.Call.Args[0])).(*ssa.Parameter)
						if !isP || pp.Parent() != h || paramIndex(pp) >= len(sc.Call.Args) || w.ExprIn(fr.entry, sc.Call.Args[paramIndex(pp)]) != "p1" {
							return
						}
						// what the tail returns in this activation is that call's result (or nil where it is known nil)
						okRet := errorResultIndex(h) == 0 && h.Signature.Results().Len() == 1
						for _, r := range liveReturns(h) {
							if hv.At(r.Block()) == nil {
								continue
							}
							for _, lf := range w.LeavesErr(r.Results[0], r) {
								if lf.Val == ssa.Value(mine) {
									continue
								}
								if cv, isCall := lf.Val.(*ssa.Call); isCall && hv.At(cv.Block()) == nil {
									continue // the other activation's call
								}
								if isNilConst(lf.Val) {
									if n, k := hv.KnownNil(r.Block(), mine); k && n {
										continue
									}
									known := false
									for l := range hv.At(r.Block()) {
										if y, isNil, ok := nilTest(l); ok && isNil {
											all := true
											for _, l2 := range w.leaves(y, r, false) {
												if cv, isCall := l2.Val.(*ssa.Call); isCall && hv.At(cv.Block()) == nil {
													continue
												}
												if l2.Val != ssa.Value(mine) {
													all = false
												}
											}
											if all {
												known = true
											}
										}
									}
									if known {
										continue
									}
								}
								okRet = false
							}
						}
						if okRet {
							agentCall, innerCall, tailView = sc, mine, hv
							c.Saw(h)
						}
					})
				}
			}
			_ = tailView
			if agentCall == nil {
				c.Bad("R2.flip", spec.name+"|underlying call", w.FnPos(fr.entry), "no call of the underlying agent's "+spec.name)
				return
			}
			// once the flag test has passed, the operation is decided by the underlying agent alone: no return with the
			// flag at the required value is reachable without going through that call
			{
				// blocks reachable from the entry through blocks that can execute in this activation, not going past the
				// block of the underlying call
				reached := map[*ssa.BasicBlock]bool{}
				work := []*ssa.BasicBlock{fn.Blocks[0]}
				for len(work) > 0 {
					b := work[len(work)-1]
					work = work[:len(work)-1]
					if reached[b] || !live(b) {
						continue
					}
					reached[b] = true
					if b == agentCall.Block() {
						continue
					}
					work = append(work, b.Succs...)
				}
				reach := func(r *ssa.Return) bool { return reached[r.Block()] && r.Block() != agentCall.Block() }
				for _, r := range liveReturns(fn) {
					if !live(r.Block()) {
						continue
					}
					if val, known := lockedIn(view, r.Block()); known && val == (spec.name == "Unlock") && reach(r) {
						c.Bad("R2.flip", spec.name+"|decided by the underlying agent", w.Pos(r.Pos()), spec.name+" can answer, with the flag test passed, without asking the underlying agent (its own judgement of the passphrase or state replaces the agent's)")
					}
				}
				c.Ok("R2.flip", spec.name+"|decided by the underlying agent: every other return", w.Pos(agentCall.Pos()), "returns under the passed flag test are reached through the underlying call only")
			}
			c.Check(innerCall != nil || (len(agentCall.Call.Args) >= 1 && len(agentCall.Call.Args) <= 2 && w.ExprIn(fr.entry, agentCall.Call.Args[len(agentCall.Call.Args)-1]) == "p1"), "R2.flip", spec.name+"|passphrase pass-through", w.Pos(agentCall.Pos()),
				"passphrase parameter forwarded unchanged", "the passphrase handed to the underlying agent is not the method's parameter: "+w.Expr(agentCall.Call.Args[0]))
			nStores := 0
			for _, a := range w.FieldAccesses(m.Owner(m.fLocked), m.fLocked) {
				if a.Fn != fn || a.Kind != "write" || !live(a.Instr.Block()) {
					continue
				}
				nStores++
				st := a.Instr.(*ssa.Store)
				bv, isConst := m.flagConst(st.Val)
				if p, isParam := st.Val.(*ssa.Parameter); isParam && fr.site != nil {
					// the shared body stores its parameter: the constant this call passes
					if i := paramIndex(p); i >= 0 && i < len(fr.site.Call.Args) {
						bv, isConst = m.flagConst(fr.site.Call.Args[i])
					}
				}
				okVal := isConst && bv == spec.val
				c.Check(okVal, "R2.flip", spec.name+"|stored constant", w.Pos(st.Pos()), "stores "+boolStr(spec.val), "stores "+w.Expr(st.Val)+" into the lock flag")
				// fact agentCall == nil
				isNil, known := view.KnownNil(st.Block(), agentCall)
				if !known {
					// the result joined with the other branch's (a shared body): every value that can reach the test is this
					// activation's call
					for l := range view.At(st.Block()) {
						if y, n, ok := nilTest(l); ok {
							all := true
							for _, lf := range w.leaves(y, st, false) {
								if cv, isCall := lf.Val.(*ssa.Call); isCall && cv != agentCall && !live(cv.Block()) {
									continue // the other activation's call
								}
								if lf.Val != ssa.Value(agentCall) {
									all = false
								}
							}
							if all {
								isNil, known = n, true
							}
						}
					}
				}
				c.Check(known && isNil, "R2.flip", spec.name+"|store gated on underlying success", w.Pos(st.Pos()),
					"must-fact: underlying "+spec.name+" returned nil", "the lock flag is changed on a path where the underlying agent's "+spec.name+" result is not known to be nil")
			}
			// ... or the store sits in a helper that only the flag-writing methods call: read per call site, the stored
			// value and the tested result being the arguments of that site
			for _, a := range w.FieldAccesses(m.Owner(m.fLocked), m.fLocked) {
				if a.Fn == fn || a.Kind != "write" || !m.flagHelper(a.Fn, flagWriters) {
					continue
				}
				st := a.Instr.(*ssa.Store)
				for _, site := range w.callSites(a.Fn) {
					sc, isCall := site.(*ssa.Call)
					if !isCall || sc.Parent() != fn || !live(sc.Block()) {
						continue
					}
					up := func(v ssa.Value) ssa.Value {
						if p, isParam := strip(v).(*ssa.Parameter); isParam && p.Parent() == a.Fn {
							if i := paramIndex(p); i >= 0 && i < len(sc.Call.Args) {
								return throughCell(strip(sc.Call.Args[i]))
							}
						}
						return v
					}
					w.Pin(fn, a.Fn, sc, func(hv *Facts) {
						if hv.At(st.Block()) == nil {
							return // not executed in this activation
						}
						nStores++
						bv, isConst := m.flagConst(up(st.Val))
						c.Check(isConst && bv == spec.val, "R2.flip", spec.name+"|stored constant", w.Pos(st.Pos()), "stores "+boolStr(spec.val)+" (argument of the call at "+w.Pos(sc.Pos())+")", "stores "+w.Expr(up(st.Val))+" into the lock flag")
						isNil, known := false, false
						for l := range hv.At(st.Block()) {
							if y, n, ok := nilTest(l); ok && (up(y) == ssa.Value(agentCall) || (innerCall != nil && throughCell(strip(y)) == ssa.Value(innerCall))) {
								isNil, known = n, true
							} else if ok && innerCall != nil && !known {
								// the result joined with the other operation's (one variable for both calls): every value that
								// can reach the test in this activation is this activation's call
								all, some := true, false
								for _, lf := range w.leaves(y, st, false) {
									if cv, isCall := lf.Val.(*ssa.Call); isCall && hv.At(cv.Block()) == nil {
										continue
									}
									some = true
									if lf.Val != ssa.Value(innerCall) {
										all = false
									}
								}
								if all && some {
									isNil, known = n, true
								}
							}
						}
						// the call is made before the helper runs
						c.Check(known && isNil && (InstrDominates(agentCall, sc) || (innerCall != nil && agentCall == sc)), "R2.flip", spec.name+"|store gated on underlying success", w.Pos(st.Pos()),
							"must-fact in "+shortFn(a.Fn)+": its argument, the underlying "+spec.name+"'s result, is nil", "the lock flag is changed on a path where the underlying agent's "+spec.name+" result is not known to be nil")
					})
				}
			}
			c.Floor("R2.flip", nStores, 1, "flag store in "+spec.name)
			// returns after the call yield the call's result
			for _, r := range liveReturns(fn) {
				if !live(r.Block()) || !ReachableAvoiding(agentCall, nil)(r) {
					continue
				}
				if fr.site == nil && !InstrDominates(agentCall, r) {
					continue
				}
				okR := true
				for _, lf := range w.LeavesErr(r.Results[0], r) {
					if lf.Val == ssa.Value(agentCall) || w.resolveUp(fn, lf.Val) == ssa.Value(agentCall) || (innerCall != nil && lf.Val == ssa.Value(innerCall)) {
						continue
					}
					if cv, isCall := lf.Val.(*ssa.Call); isCall && fr.site != nil && !live(cv.Block()) {
						continue // the other activation's call
					}
					if cv, isCall := lf.Val.(*ssa.Call); isCall && tailView != nil && cv.Parent() == innerCall.Parent() && tailView.At(cv.Block()) == nil {
						continue // the call the shared tail makes for the other flag value
					}
					// equivalent forms: nil under the must-fact result==nil, a non-nil error under result!=nil
					resNil, known := false, false
					for l := range lf.Facts {
						if y, isNil, ok := nilTest(l); ok {
							if strip(y) == ssa.Value(agentCall) {
								resNil, known = isNil, true
							} else if tailView != nil {
								all, some := true, false
								for _, l2 := range w.leaves(y, innerCall, false) {
									if cv, isCall := l2.Val.(*ssa.Call); isCall && tailView.At(cv.Block()) == nil {
										continue
									}
									some = true
									if l2.Val != ssa.Value(innerCall) {
										all = false
									}
								}
								if all && some {
									resNil, known = isNil, true
								}
							} else if fr.site != nil {
								for _, l2 := range w.leaves(y, r, false) {
									if l2.Val == ssa.Value(agentCall) {
										resNil, known = isNil, true
									}
								}
							}
						}
					}
					if known && resNil && isNilConst(lf.Val) {
						continue
					}
					if known && !resNil && w.NonNil(lf.Val, lf.Facts) {
						continue
					}
					okR = false
				}
				c.Check(okR, "R2.flip", spec.name+"|returns underlying result", w.Pos(r.Pos()), "returns the underlying agent's result", "after calling the underlying agent the method does not return its result: "+w.Expr(r.Results[0]))
			}
		})
	}

	// R3: writers census
	writers := map[string]bool{}
	for _, a := range w.FieldAccesses(m.Owner(m.fLocked), m.fLocked) {
		if a.Kind == "write" || a.Kind == "addr" || a.Kind == "addrcall" {
			okW := flagWriters[a.Fn] && a.Kind == "write"
			if p := a.Fn.Parent(); !okW && p != nil && flagWriters[p] && w.callback(a.Fn) && a.Kind == "write" {
				okW = true // the operation's own body, run by a guard helper
				writers[p.Name()] = true
			}
			if !flagWriters[a.Fn] && a.Kind == "write" && m.flagHelper(a.Fn, flagWriters) {
				// a helper only Lock/Unlock call (R2.flip reads it per call site)
				okW = true
				for _, site := range w.callSites(a.Fn) {
					writers[site.Parent().Name()] = true
				}
			} else {
				writers[a.Fn.Name()] = true
			}
			c.Check(okW, "R3.writers", "flag writer "+fnName(a.Fn), w.Pos(a.Instr.Pos()), "writer is Lock/Unlock", "the lock flag is written (or its address taken) outside Lock/Unlock")
		}
	}
	nWriterOps := len(writers)
	if fl, fu := frames["Lock"], frames["Unlock"]; fl.body != nil && fl.body == fu.body && fl.site != nil {
		nWriterOps = 2 // one shared body serving both operations
	}
	c.Floor("R3.writers", nWriterOps, 2, "writers of the lock flag")
	for _, name := range []string{"Lock", "Unlock"} {
		fr, ok := frames[name]
		if !ok {
			continue
		}
		fn := fr.body
		for _, f := range []string{m.fCerts, m.fCache} {
			clean := true
			for _, a := range w.FieldAccesses(m.Owner(f), f) {
				if (a.Fn == fn || a.Fn == fr.entry) && (a.Kind == "write" || a.Kind == "mapwrite" || a.Kind == "mapdelete") {
					clean = false
					c.Bad("R3.writers", name+"|writes "+f, w.Pos(a.Instr.Pos()), name+" modifies the certificate tables: the pre-lock view would not be what unlock reveals")
				}
			}
			if clean {
				c.Ok("R3.writers", name+"|leaves "+f, w.FnPos(fr.entry), "no write to "+f)
			}
		}
	}
}

// flagHelper: h is an unexported, statically called method of the server whose every call site is in the body of a
// flag-writing method (Lock / Unlock).
func (m *shimModel) flagHelper(h *ssa.Function, flagWriters map[*ssa.Function]bool) bool {
	w := m.w
	if h == nil || h.Parent() != nil || token.IsExported(h.Name()) || w.dynCallable(h) || (recvNamed(h) != m.Server && recvNamed(h) != m.Owner(m.fLocked)) {
		return false
	}
	sites := w.callSites(h)
	if os.Getenv("YV_DEBUG") != "" {
		fmt.Fprintln(os.Stderr, "flagHelper", h, len(sites), w.dynCallable(h), recvNamed(h), m.Owner(m.fLocked))
		for _, s := range sites {
			fmt.Fprintln(os.Stderr, "  site in", s.Parent(), flagWriters[s.Parent()])
		}
	}
	for _, s := range sites {
		if _, isCall := s.(*ssa.Call); !isCall || !flagWriters[s.Parent()] {
			return false
		}
	}
	return len(sites) > 0
}

func isGated(name string) bool {
	for _, g := range c08Gated {
		if g == name && name != "Sign" {
			return true
		}
	}
	return false
}

func boolStr(b bool) string {
	if b {
		return "true"
	}
	return "false"
}

// isEmptySlice: nil slice constant, make(T,0), or a slice of a zero-length array literal.

func isEmptySlice(v ssa.Value) bool {
	switch x := v.(type) {
	case *ssa.Const:
		return x.Value == nil
	case *ssa.MakeSlice:
		n, ok := intConst(x.Len)
		return ok && n == 0
	case *ssa.Slice:
		if a, ok := x.X.(*ssa.Alloc); ok {
			if arr, ok := a.Type().(*types.Pointer).Elem().Underlying().(*types.Array); ok {
				return arr.Len() == 0
			}
		}
	}
	return false
}

// Body: the function holding the work of server method `name`. It is the method itself, unless the method - after
// taking the mutex and refusing under the lock flag - only delegates: every return that is not under the flag's
// refusing value hands back, unchanged, the results of one call of an unexported method of the same receiver that
// gets the method's own parameters in order and has no other call site. Then it is that method (the rules about
// what the operation does reason in its frame; the rules about locking and refusal stay on the exported method).
func (m *shimModel) Body(name string) *ssa.Function {
	fn := m.Methods[name]
	if fn == nil {
		return nil
	}
	w := m.w
	for hop := 0; hop < 2; hop++ {
		var target *ssa.Call
		ok := true
		for _, r := range liveReturns(fn) {
			if v, known := m.lockedKnown(fn, r.Block()); known && v {
				continue // the refusal under the lock flag
			}
			// the results are those of one call, in order
			var call *ssa.Call
			for i, res := range r.Results {
				var cv *ssa.Call
				// results of a function with defers are spilled to cells: the value stored on this path
				if lv := w.leaves(res, r, false); len(lv) == 1 {
					res = lv[0].Val
				}
				switch x := res.(type) {
				case *ssa.Call:
					if len(r.Results) == 1 {
						cv = x
					}
				case *ssa.Extract:
					if c2, isC := x.Tuple.(*ssa.Call); isC && x.Index == i {
						cv = c2
					}
				}
				if cv == nil || (call != nil && cv != call) {
					dbgf("Body(%s): result %d of %v is %T %v", name, i, r, res, res)
					ok = false
					break
				}
				call = cv
			}
			if !ok || call == nil || (target != nil && call != target) {
				ok = false
				break
			}
			target = call
		}
		if !ok || target == nil {
			dbgf("Body(%s): no delegation in %s (ok=%v)", name, fn.Name(), ok)
			return fn
		}
		h := w.helperOf(target)
		// the guard form: the body handed as a closure to a helper of the server that runs it once the refusal test has
		// passed (`return s.whileUnlocked(func() error { ... })`): the operation's frame is the closure
		if h != nil && w.transparent(h) && !w.dynCallable(h) && recvNamed(h) == m.Server {
			var clo *ssa.Function
			nClo, plain := 0, true
			for i, a := range target.Call.Args {
				if i == 0 {
					if a != ssa.Value(fn.Params[0]) {
						plain = false
					}
					continue
				}
				if mc, isMC := throughCell(strip(a)).(*ssa.MakeClosure); isMC {
					if cf, _ := mc.Fn.(*ssa.Function); cf != nil && w.callback(cf) {
						clo = cf
						nClo++
						continue
					}
				}
				plain = false
			}
			if nClo == 1 && plain {
				onlyGuard := true
				for _, call := range callsIn(fn) {
					if call == ssa.CallInstruction(target) {
						continue
					}
					if n := calleeName(call); !strings.HasPrefix(n, "(*sync.") && n != "errors.New" && n != "fmt.Errorf" {
						onlyGuard = false
					}
				}
				if onlyGuard {
					return clo
				}
			}
		}
		if h == nil || !w.transparent(h) || w.dynCallable(h) || recvNamed(h) != m.Server || len(w.callSites(h)) != 1 || len(target.Call.Args) != len(fn.Params) {
			return fn
		}
		for i, a := range target.Call.Args {
			if a != ssa.Value(fn.Params[i]) {
				return fn
			}
		}
		// nothing but the mutex and the flag test happens before the delegation
		for _, call := range callsIn(fn) {
			if call == ssa.CallInstruction(target) {
				continue
			}
			if n := calleeName(call); !strings.HasPrefix(n, "(*sync.") && n != "errors.New" && n != "fmt.Errorf" {
				return fn
			}
		}
		fn = h
	}
	return fn
}
