package main

import (
	"fmt"
	"go/token"
	"go/types"
	"sort"

	"golang.org/x/tools/go/ssa"
)

// SSA view of the yubiagent wire protocol, used by the C12/C13 code tables (tables1.go) for everything that a
// maintainer may move into helpers or rename: which ssh codec structs, framing writes and agent calls belong to
// which dispatch arm of ServeAgent, and what a client method sends first / decodes / compares.

type wireView struct {
	w     *World
	serve *ssa.Function
	rd    *ssa.Function
	wr    *ssa.Function
	send  *ssa.Function // the client's request/response exchange method
	flow  *byteFlow     // value sets of the dispatch byte over Tree(serve)
}

func newWireView(w *World) *wireView {
	v := &wireView{w: w, serve: w.Func(yubiPkg, "ServeAgent")}
	v.rd, v.wr = framingFns(w, yubiPkg)
	v.send = clientExchange(w)
	if v.serve != nil {
		v.flow = w.newByteFlow(v.serve, v.isDispatchByte, func(ins ssa.Instruction) bool {
			call, ok := ins.(*ssa.Call)
			return ok && v.rd != nil && call.Call.StaticCallee() == v.rd
		})
	}
	return v
}

// isDispatchByte: val is req[0], req being what the framed read of the connection returned (possibly handed to a
// helper).
func (v *wireView) isDispatchByte(val ssa.Value) bool {
	ld, ok := throughCell(strip(val)).(*ssa.UnOp)
	if !ok || ld.Op != token.MUL {
		return false
	}
	ia, ok := ld.X.(*ssa.IndexAddr)
	if !ok {
		return false
	}
	if z, isZ := intConst(ia.Index); !isZ || z != 0 {
		return false
	}
	ex, ok := v.w.resolveUp(v.serve, throughCell(strip(ia.X))).(*ssa.Extract)
	if !ok || ex.Index != 0 {
		return false
	}
	cv, ok := ex.Tuple.(*ssa.Call)
	return ok && v.rd != nil && cv.Call.StaticCallee() == v.rd
}

// dispatchCode: literal l states req[0] == K (true edge of the dispatch comparison); returns K.
func (v *wireView) dispatchCode(l Lit) (int64, bool) {
	bin, ok := l.V.(*ssa.BinOp)
	if !ok || bin.Op != token.EQL || !l.Pol {
		return 0, false
	}
	k, isK := intConst(bin.Y)
	other := bin.X
	if !isK {
		k, isK = intConst(bin.X)
		other = bin.Y
	}
	if !isK {
		return 0, false
	}
	ld, ok := throughCell(strip(other)).(*ssa.UnOp)
	if !ok || ld.Op != token.MUL {
		return 0, false
	}
	ia, ok := ld.X.(*ssa.IndexAddr)
	if !ok {
		return 0, false
	}
	if z, isZ := intConst(ia.Index); !isZ || z != 0 {
		return 0, false
	}
	// the indexed slice is what the framed read of the connection returned (possibly handed to a helper)
	ex, ok := v.w.resolveUp(v.serve, throughCell(strip(ia.X))).(*ssa.Extract)
	if !ok || ex.Index != 0 {
		return 0, false
	}
	if cv, ok := ex.Tuple.(*ssa.Call); !ok || cv.Call.StaticCallee() != v.rd {
		return 0, false
	}
	return k, true
}

// inArm: instruction ins (of ServeAgent or of a helper on its tree) executes only in the arm of code k: the
// must-facts at its block - or, inside a helper, at some call site of the helper - contain req[0] == k.
func (v *wireView) inArm(ins ssa.Instruction, k int64) bool {
	return v.inArmD(ins, k, 0)
}

func (v *wireView) inArmD(ins ssa.Instruction, k int64, depth int) bool {
	if v.serve == nil || v.flow == nil {
		return false
	}
	// ins can execute for code k, and only for codes that some test names (code shared by all requests, or by
	// the requests no test names, belongs to no arm)
	s := v.flow.At(ins)
	return s.has(k) && s.subsetOf(v.flow.Mentioned)
}

// treeCalls: every call instruction of Tree(root).
func (v *wireView) treeCalls(root *ssa.Function) []*ssa.Call {
	var out []*ssa.Call
	for _, call := range v.w.callsInDeep(root) {
		if cv, ok := call.(*ssa.Call); ok {
			out = append(out, cv)
		}
	}
	return out
}

func derefNamedT(t types.Type) *types.Named {
	if p, ok := t.Underlying().(*types.Pointer); ok {
		t = p.Elem()
	}
	n, _ := types.Unalias(t).(*types.Named)
	return n
}

// codecTypes: struct types handed to ssh.Marshal / ssh.Unmarshal by the calls accepted by keep.
func (v *wireView) codecTypes(root *ssa.Function, keep func(*ssa.Call) bool) (marshalled, unmarshalled []*types.Named) {
	seenM, seenU := map[*types.Named]bool{}, map[*types.Named]bool{}
	for _, cv := range v.treeCalls(root) {
		// a generic encoder: the value marshalled is of the helper's type parameter; what it stands for in this part of
		// the tree is read off the instances of the helper that the kept calls reach
		if calleeName(cv) == tbXSSHPath+".Marshal" && len(cv.Call.Args) == 1 {
			at := types.Unalias(strip(cv.Call.Args[0]).Type())
			if p, isPtr := at.Underlying().(*types.Pointer); isPtr {
				if _, isTP := types.Unalias(p.Elem()).(*types.TypeParam); isTP {
					at = types.Unalias(p.Elem())
				}
			}
			if tp, isTP := at.(*types.TypeParam); isTP {
				gen := cv.Parent()
				for _, sc := range v.treeCalls(root) {
					g := sc.Call.StaticCallee()
					if g == nil || g == gen || g.Origin() != gen || !keep(sc) {
						continue
					}
					tps, targs := gen.TypeParams(), g.TypeArgs()
					for i := 0; i < tps.Len() && i < len(targs); i++ {
						if tps.At(i) == tp {
							if t := derefNamedT(targs[i]); t != nil && !seenM[t] {
								seenM[t] = true
								marshalled = append(marshalled, t)
							}
						}
					}
				}
				continue
			}
		}
		if !keep(cv) {
			continue
		}
		switch calleeName(cv) {
		case tbXSSHPath + ".Marshal":
			if len(cv.Call.Args) == 1 {
				if t := derefNamedT(strip(cv.Call.Args[0]).Type()); t != nil && !seenM[t] {
					seenM[t] = true
					marshalled = append(marshalled, t)
				}
			}
		case tbXSSHPath + ".Unmarshal":
			if len(cv.Call.Args) == 2 {
				tt := strip(cv.Call.Args[1]).Type()
				if t := derefNamedT(tt); t != nil && !seenU[t] {
					seenU[t] = true
					unmarshalled = append(unmarshalled, t)
				} else if p, ok := tt.Underlying().(*types.Pointer); ok {
					// a generic decoder: the target is of the helper's type parameter; what it stands for is read off
					// the instances of the helper that root's tree calls
					if tp, isTP := types.Unalias(p.Elem()).(*types.TypeParam); isTP {
						gen := cv.Parent()
						for _, g := range v.w.Tree(root) {
							if g.Origin() != gen || g == gen {
								continue
							}
							tps, targs := gen.TypeParams(), g.TypeArgs()
							for i := 0; i < tps.Len() && i < len(targs); i++ {
								if tps.At(i) == tp {
									if t := derefNamedT(targs[i]); t != nil && !seenU[t] {
										seenU[t] = true
										unmarshalled = append(unmarshalled, t)
									}
								}
							}
						}
					}
				}
			}
		}
	}
	return
}

// writtenLits: constant strings that the framing writes accepted by keep may send.
func (v *wireView) writtenLits(root *ssa.Function, keep func(*ssa.Call) bool) map[string]bool {
	out := map[string]bool{}
	for _, cv := range v.treeCalls(root) {
		if cv.Call.StaticCallee() != v.wr || v.wr == nil || len(cv.Call.Args) != 2 || !keep(cv) {
			continue
		}
		v.constStrings(root, cv.Call.Args[1], cv, out, 0)
	}
	return out
}

// constStrings collects the constant strings among the values that may reach val (a []byte or string).
func (v *wireView) constStrings(root *ssa.Function, val ssa.Value, at ssa.Instruction, out map[string]bool, depth int) {
	if depth > 4 {
		return
	}
	for _, lf := range v.w.Leaves(val, at) {
		x := v.w.canon(root, lf.Val)
		switch y := x.(type) {
		case *ssa.Convert:
			if s, ok := strConst(y.X); ok {
				out[s] = true
			} else if y.X != val {
				v.constStrings(root, y.X, at, out, depth+1)
			}
		case *ssa.Const:
			if s, ok := strConst(y); ok {
				out[s] = true
			}
		case *ssa.Parameter:
			// a helper's parameter with several call sites: the argument of each site
			g := y.Parent()
			idx := paramIndex(y)
			for _, s := range v.w.sitesIn(root, g) {
				if args := s.Common().Args; idx >= 0 && idx < len(args) {
					v.constStrings(root, args[idx], s, out, depth+1)
				}
			}
		}
	}
}

// comparedLits: constant strings that string(<[]byte>) is compared with (== / !=) in Tree(root).
func (v *wireView) comparedLits(root *ssa.Function) map[string]bool {
	out := map[string]bool{}
	for _, fn := range v.w.Tree(root) {
		for _, b := range fn.Blocks {
			for _, ins := range b.Instrs {
				// bytes.Equal(<[]byte>, []byte("..."))
				if be, ok := ins.(*ssa.Call); ok && calleeName(be) == "bytes.Equal" && len(be.Call.Args) == 2 {
					for _, a := range be.Call.Args {
						if cv, ok := v.w.canon(root, a).(*ssa.Convert); ok {
							if s, ok := strConst(v.w.canon(root, cv.X)); ok {
								out[s] = true
							}
						}
					}
				}
				bin, ok := ins.(*ssa.BinOp)
				if !ok || (bin.Op != token.EQL && bin.Op != token.NEQ) {
					continue
				}
				for _, pr := range [][2]ssa.Value{{bin.X, bin.Y}, {bin.Y, bin.X}} {
					cv, ok := v.w.canon(root, pr[0]).(*ssa.Convert)
					if !ok {
						continue
					}
					if s, ok := cv.X.Type().Underlying().(*types.Slice); !ok || !tbIsBasic(s.Elem().Underlying(), types.Uint8) {
						continue
					}
					if s, ok := strConst(v.w.canon(root, pr[1])); ok {
						out[s] = true
					}
				}
			}
		}
	}
	return out
}

// agentMethodsIn: names of the methods invoked on ServeAgent's agent parameter in the arm of code k.
func (v *wireView) agentMethodsIn(k int64) map[string]bool {
	out := map[string]bool{}
	if v.serve == nil || len(v.serve.Params) == 0 {
		return out
	}
	agent := ssa.Value(v.serve.Params[0])
	for _, cv := range v.treeCalls(v.serve) {
		if cv.Call.IsInvoke() && v.w.canon(v.serve, cv.Call.Value) == agent && v.inArm(cv, k) {
			out[cv.Call.Method.Name()] = true
		}
	}
	// ... or as a method value of the agent handed to a helper that calls it
	for _, bc := range v.w.boundCalls(v.serve) {
		if v.w.canon(v.serve, bc.Recv) == agent && v.inArm(bc.Site, k) {
			out[bc.Method] = true
		}
	}
	return out
}

type wireFirst struct {
	val int64
	how string
	via *types.Named
}

// firstByte evaluates the first byte of the request value val built in Tree(root): []byte{K,...},
// append([]byte{K},...), ssh.Marshal(<struct with a numeric sshtype tag on its first field>), through single-store
// locals and helper parameters.
func (v *wireView) firstByte(root *ssa.Function, val ssa.Value, depth int) (*wireFirst, string) {
	if depth > 6 {
		return nil, "definition chain too long"
	}
	x := v.w.canon(root, val)
	if _, isMake := x.(*ssa.MakeSlice); isMake {
		// a buffer of the exact size filled in place
		if parts, ok := v.w.byteSeq(root, x, 0); ok && len(parts) > 0 && parts[0].one != nil {
			if k, isK := intConst(v.w.canon(root, parts[0].one)); isK {
				return &wireFirst{val: k, how: fmt.Sprintf("buffer with first byte %d", k)}, ""
			}
			return nil, "first byte of the assembled request is not constant"
		}
	}
	switch y := x.(type) {
	case *ssa.Slice:
		a, ok := y.X.(*ssa.Alloc)
		if !ok || arrayLen(a.Type()) < 1 || y.Low != nil {
			return nil, "not a []byte literal"
		}
		// the element stored at index 0
		var first ssa.Value
		n := 0
		if refs := a.Referrers(); refs != nil {
			for _, r := range *refs {
				ia, ok := r.(*ssa.IndexAddr)
				if !ok {
					continue
				}
				if z, isZ := intConst(ia.Index); !isZ || z != 0 {
					continue
				}
				if rr := ia.Referrers(); rr != nil {
					for _, u := range *rr {
						if st, ok := u.(*ssa.Store); ok && st.Addr == ssa.Value(ia) {
							first = st.Val
							n++
						}
					}
				}
			}
		}
		if n != 1 {
			return nil, "first element of the []byte literal is not set exactly once"
		}
		k, ok := intConst(v.w.canon(root, first))
		if !ok {
			return nil, "first element of the []byte literal is not constant"
		}
		return &wireFirst{val: k, how: fmt.Sprintf("[]byte{%d,...}", k)}, ""
	case *ssa.Call:
		if b, ok := y.Call.Value.(*ssa.Builtin); ok && b.Name() == "append" && len(y.Call.Args) >= 1 {
			// onto an empty buffer (make([]byte, 0, n) / nil): the first byte is the first one appended
			base := v.w.canon(root, y.Call.Args[0])
			empty := isNilConst(base)
			if ms, isMake := base.(*ssa.MakeSlice); isMake {
				if k, isK := intConst(ms.Len); isK && k == 0 {
					empty = true
				}
			}
			if empty && len(y.Call.Args) == 2 {
				return v.firstByte(root, y.Call.Args[1], depth+1)
			}
			return v.firstByte(root, y.Call.Args[0], depth+1)
		}
		cv := y
		if calleeName(cv) == tbXSSHPath+".Marshal" && len(cv.Call.Args) == 1 {
			n := derefNamedT(strip(cv.Call.Args[0]).Type())
			if n == nil {
				return nil, "ssh.Marshal of an unnamed type"
			}
			idx, k, raw, ok := tbSSHType(n)
			if !ok || idx != 0 || k < 0 {
				return nil, fmt.Sprintf("ssh.Marshal(%s): no numeric sshtype tag on the first field (tag %q on field %d)", n.Obj().Name(), raw, idx)
			}
			return &wireFirst{val: k, how: fmt.Sprintf("ssh.Marshal(%s) with sshtype:%q", n.Obj().Name(), raw), via: n}, ""
		}
		return nil, "unsupported call " + shortName(calleeName(y))
	}
	return nil, fmt.Sprintf("unsupported expression %T", x)
}

// clientRequest: the request value of the single exchange made in Tree(m), or a reason.
func (v *wireView) clientRequest(m *ssa.Function) (ssa.Value, string) {
	var reqs []ssa.Value
	for _, cv := range v.treeCalls(m) {
		if v.send != nil && cv.Call.StaticCallee() == v.send && len(cv.Call.Args) == 2 {
			reqs = append(reqs, cv.Call.Args[1])
		}
	}
	switch len(reqs) {
	case 0:
		return nil, "no request is sent through the connection"
	case 1:
		return reqs[0], ""
	}
	return nil, "more than one request is sent"
}

func sortedKeys(m map[string]bool) []string {
	var out []string
	for k := range m {
		out = append(out, k)
	}
	sort.Strings(out)
	return out
}

// evalStringPredicate runs the one-parameter predicate fn on the concrete string d (other=true: a string equal to
// none of the constants fn compares with). Only branches on `param == const` / `param != const`, jumps, phis of
// boolean constants and direct returns are interpreted; anything else gives ok=false.
func evalStringPredicate(w *World, fn *ssa.Function, d string, other bool) (result bool, ok bool) {
	if fn == nil || len(fn.Blocks) == 0 || len(fn.Params) != 1 {
		return false, false
	}
	param := ssa.Value(fn.Params[0])
	var evalCond func(v ssa.Value, depth int) (bool, bool)
	evalCond = func(v ssa.Value, depth int) (bool, bool) {
		if depth > 8 {
			return false, false
		}
		switch x := v.(type) {
		case *ssa.Const:
			return boolConst(x)
		case *ssa.UnOp:
			if x.Op == token.NOT {
				b, ok := evalCond(x.X, depth+1)
				return !b, ok
			}
		case *ssa.BinOp:
			if x.Op != token.EQL && x.Op != token.NEQ {
				return false, false
			}
			a, b := x.X, x.Y
			if throughCell(strip(b)) == param {
				a, b = b, a
			}
			if throughCell(strip(a)) != param {
				return false, false
			}
			k, isK := strConst(b)
			if !isK {
				return false, false
			}
			eq := !other && d == k
			if x.Op == token.NEQ {
				return !eq, true
			}
			return eq, true
		}
		return false, false
	}
	var prev *ssa.BasicBlock
	b := fn.Blocks[0]
	for steps := 0; steps < 200; steps++ {
		last := b.Instrs[len(b.Instrs)-1]
		switch t := last.(type) {
		case *ssa.Return:
			if len(t.Results) != 1 {
				return false, false
			}
			rv := t.Results[0]
			for hop := 0; hop < 4; hop++ {
				phi, isPhi := rv.(*ssa.Phi)
				if !isPhi || phi.Block() != b || prev == nil {
					break
				}
				found := false
				for i, p := range b.Preds {
					if p == prev {
						rv, found = phi.Edges[i], true
					}
				}
				if !found {
					return false, false
				}
			}
			return evalCond(rv, 0)
		case *ssa.If:
			cond := t.Cond
			if phi, isPhi := cond.(*ssa.Phi); isPhi && phi.Block() == b && prev != nil {
				for i, p := range b.Preds {
					if p == prev {
						cond = phi.Edges[i]
					}
				}
			}
			v, ok := evalCond(cond, 0)
			if !ok {
				return false, false
			}
			prev = b
			if v {
				b = b.Succs[0]
			} else {
				b = b.Succs[1]
			}
		case *ssa.Jump:
			prev = b
			b = b.Succs[0]
		default:
			return false, false
		}
	}
	return false, false
}

// comparedStrings: the string constants fn's parameter is compared with.
func comparedStrings(fn *ssa.Function) []string {
	set := map[string]bool{}
	for _, b := range fn.Blocks {
		for _, ins := range b.Instrs {
			if bin, ok := ins.(*ssa.BinOp); ok && (bin.Op == token.EQL || bin.Op == token.NEQ) {
				for _, s := range []ssa.Value{bin.X, bin.Y} {
					if k, isK := strConst(s); isK {
						set[k] = true
					}
				}
			}
		}
	}
	return sortedKeys(set)
}
