package main

import (
	"fmt"
	"go/token"
	"os"
	"sort"
	"strings"

	"golang.org/x/tools/go/ssa"
)

func init() {
	register(&property{
		ID: "C09",
		Meta: propMeta{
			Level:       "Structural necessary conditions of 'no-upstream mode hides the underlying agent's YSSHCA certificates and nothing else': (R1) every write to the hidden-certificate cache carries the must-facts mode on, cast to certificate succeeded and keyid.Unmarshal(cert.KeyId) == nil for the very certificate whose blob hash is written, and the mode field has one writer, the constructor parameter; (R2) the fate of an in-agent identity in the key listing and in the signer listing, extracted as a decision table over {cast fails, cache hit, mode on, KeyID decodes} (feasibility: cache hit implies mode on), is 'listed iff cast fails or (no cache hit and not (mode on and KeyID decodes))', identical in both siblings, and depends on nothing else; (R3) the signing method's outcome over {locked, pruning failed, cast fails, in-memory hit, KeyID decodes, mode on} is: in-memory certificate -> sign with its plain key; else upstream YSSHCA certificate in no-upstream mode -> the key-not-found error; else forward the caller's key; (R4) removal drops the cache entry, RemoveAll re-makes the cache, and no cache lookup gates removal. What a valid YSSHCA KeyID is belongs to C05.",
			Technique:   "static analysis: must-fact gating + decision-table extraction over loop-body regions of the CFG (finite atom valuation, no solver)",
			Explanation: "The loop bodies of List and Signers over the agent's identities are interpreted as single-entry regions: every path from the body's first block back to the loop head is classified by whether it appends to the result; conditions outside the four atoms (label errors, empty comments) are explored on both edges and must not change the classification.",
			Assumptions: []string{"keyid.Unmarshal decides what a YSSHCA KeyID is (C05)", "the hash of the certificate blob identifies the certificate"},
			Trusted:     []string{"go/packages", "go/types", "go/ssa"},
			RuleDoc: map[string]string{
				"R1.cachewrites": "every cache write is gated on mode, cast success and KeyID decode of the same certificate; single writer of the mode field",
				"R2.listing":     "decision table of the listing fate in List and Signers",
				"R3.sign":        "decision table of SignWithFlags",
				"R4.maintenance": "cache maintenance in remove / RemoveAll; removal not gated by the cache",
				"R6.decodes":     "the statement is phrased over 'a certificate whose KeyID decodes as a YSSHCA KeyID': the rules of C05 that fix what decodes (truth table of the version checker, gates of keyid.Unmarshal / Marshal) are imported, so that a change to the decoder that makes valid KeyIDs undecodable (and their certificates visible) is reported here too",
				"R5.hardcert":    "in-memory hardware certificates stay listed and usable: AddHardCert succeeds only when the certificate is already in the in-memory table or was inserted on this path (nothing outside the table - e.g. a copy in the underlying agent, which this mode hides - may stand in for it)",
			},
		},
		Run: runC09,
	})
}

func runC09(c *Ctx) {
	w := c.w
	m := resolveShim(w)
	for _, p := range m.problems {
		c.Unresolved("R1.cachewrites", p)
	}
	if m.Server == nil || len(m.problems) > 0 {
		return
	}
	ctor := shimConstructor(w, m)
	// ---- R6: what "decodes as a YSSHCA KeyID" means (imported from C05) ----
	c.WithRules(map[string]string{"R2.truth": "R6.decodes", "R3.gate": "R6.decodes"}, func() { keyidDecodeRules(c) })
	// ---- R5 ----
	if ah := m.Body("AddHardCert"); ah != nil {
		c.Saw(ah)
		hardCertHeld(c, m, ah, "R5.hardcert")
	} else {
		c.Unresolved("R5.hardcert", "method AddHardCert")
	}
	// ---- R1 ----
	// single writer of the mode field: the constructor, storing its bool parameter
	nW := 0
	var ctorFn *ssa.Function
	for _, a := range w.FieldAccesses(m.Owner(m.fNoUp), m.fNoUp) {
		if a.Kind != "write" && a.Kind != "addr" && a.Kind != "addrcall" {
			continue
		}
		nW++
		st, isStore := a.Instr.(*ssa.Store)
		ok := isStore && a.Kind == "write"
		if ok {
			_, isParam := st.Val.(*ssa.Parameter)
			// (enum form: a value decided by the constructor's bool parameter, resolved with the model)
			ok = isParam || (m.modeEnum && m.modeSrc != nil && m.modeSrc.Parent() == a.Fn)
			ctorFn = a.Fn
		}
		c.Check(ok, "R1.cachewrites", "mode flag writer "+shortFn(a.Fn), w.Pos(a.Instr.Pos()), "the constructor stores its mode parameter", "the no-upstream flag is written outside the constructor or not from the constructor's parameter")
	}
	c.Check(nW == 1, "R1.cachewrites", "mode flag|single writer", "-", "one writer", "the no-upstream flag has "+itoa(nW)+" writers")
	if ctor == nil {
		ctor = ctorFn
	}
	nCW := 0
	for _, a := range w.FieldAccesses(m.Owner(m.fCache), m.fCache) {
		if a.Kind != "mapwrite" {
			continue
		}
		// a write made in a helper is examined once per operation (entry function) through which the helper is reached,
		// in that operation's frame: the helper's parameters are then the operation's values and the must-facts at
		// the operation's call site hold
		for _, fn := range w.entriesOf(a.Home(), ctorFn, ctor) {
			w.WithAccess(fn, a, func(f *Facts) {
				nCW++
				c.Saw(fn)
				mu := a.Instr.(*ssa.MapUpdate)
				b := mu.Block()
				key := shortFn(fn)
				// mode on: field load true, or (constructor) the mode parameter true
				modeOn := f.Any(b, func(l Lit) bool {
					if on, ok := m.modeLit(l); ok {
						return on
					}
					if p, ok := w.canon(fn, l.V).(*ssa.Parameter); ok && fn == ctorFn && l.Pol && m.modeEnum && p == m.modeSrc {
						return true
					}
					if p, ok := w.canon(fn, l.V).(*ssa.Parameter); ok && fn == ctorFn && l.Pol {
						// it is the parameter stored into the mode field
						for _, acc := range w.FieldAccesses(m.Owner(m.fNoUp), m.fNoUp) {
							if st, ok := acc.Instr.(*ssa.Store); ok && acc.Fn == fn && st.Val == ssa.Value(p) {
								return true
							}
						}
					}
					return false
				})
				c.Check(modeOn, "R1.cachewrites", key+"|cache written only in no-upstream mode", w.Pos(mu.Pos()), "must-fact: mode on", "the hidden-certificate cache can be filled with the mode off: certificates would be hidden although nothing should be")
				// the key: hash(cert.Marshal()) with cert = result 0 of the cast
				var cast *ssa.Call
				hk := w.Expr(mu.Key)
				for _, call := range w.callsInDeep(fn) {
					if cv, ok := call.(*ssa.Call); ok && strings.HasSuffix(calleeName(cv), "sshutils/key.CastSSHPublicKeyToCertificate") {
						if ex := extractOf(cv, 0); ex != nil && strings.Contains(hk, "Certificate).Marshal>("+w.Expr(ex)+")") {
							cast = cv
						}
					}
				}
				// by identity where the values can be followed: key = hash(X.Marshal()) with X result 0 of the cast
				if kc, ok := w.canon(fn, mu.Key).(*ssa.Call); ok && len(kc.Call.Args) == 1 {
					if mc, ok := w.canon(fn, kc.Call.Args[0]).(*ssa.Call); ok && strings.HasSuffix(calleeName(mc), "Certificate).Marshal") && len(mc.Call.Args) >= 1 {
						if ex, ok := w.canon(fn, mc.Call.Args[0]).(*ssa.Extract); ok && ex.Index == 0 {
							if cv, ok := ex.Tuple.(*ssa.Call); ok && strings.HasSuffix(calleeName(cv), "sshutils/key.CastSSHPublicKeyToCertificate") {
								cast = cv
							}
						}
					}
				}
				if cast == nil {
					c.Bad("R1.cachewrites", key+"|cache key is the hash of a cast certificate", w.Pos(mu.Pos()), "the cache key is not hash(cert.Marshal()) of a certificate obtained from the cast: "+w.Short(mu.Key))
					return
				}
				certV := extractOf(cast, 0)
				isNil, known := f.KnownNil(b, extractOf(cast, 1))
				c.Check(known && isNil, "R1.cachewrites", key+"|only certificates are cached", w.Pos(mu.Pos()), "must-fact: cast err == nil", "a cache entry can be written although the cast to a certificate failed")
				okKid := f.Any(b, func(l Lit) bool {
					y, isNil, ok := nilTest(l)
					if !ok || !isNil {
						return false
					}
					ex, isEx := strip(y).(*ssa.Extract)
					if !isEx {
						return false
					}
					cv, isCall := ex.Tuple.(*ssa.Call)
					if !isCall || !strings.HasSuffix(calleeName(cv), "keyid.Unmarshal") {
						return false
					}
					// argument is certV.KeyId
					return w.Expr(cv.Call.Args[0]) == w.Expr(certV)+".KeyId"
				})
				c.Check(okKid, "R1.cachewrites", key+"|only YSSHCA certificates are hidden", w.Pos(mu.Pos()), "must-fact: keyid.Unmarshal(cert.KeyId) == nil for the cached certificate", "a certificate can be cached (hidden) without the must-fact that ITS KeyID decodes as a YSSHCA KeyID")
			})
		}
	}
	c.Floor("R1.cachewrites", nCW, 3, "writes to the hidden-certificate cache")

	// ---- R2 ----
	tables := map[string]map[string]bool{}
	for _, name := range []string{"List", "Signers"} {
		fn := m.Body(name)
		if fn == nil {
			c.Unresolved("R2.listing", "method "+name)
			continue
		}
		tbl := listingTable(c, m, fn, name)
		if tbl != nil {
			tables[name] = tbl
		}
	}
	if len(tables) == 2 {
		same := true
		for k, v := range tables["List"] {
			if tables["Signers"][k] != v {
				same = false
			}
		}
		c.Check(same, "R2.listing", "List vs Signers|sibling tables equal", "-", "identical listing rule", "List and Signers apply different hiding rules")
	}

	// ---- R3 ----
	signTable(c, m)

	// ---- R4 ----
	var remove *ssa.Function
	for _, a := range w.FieldAccesses(m.Owner(m.fCerts), m.fCerts) {
		if a.Kind == "mapdelete" {
			remove = a.Fn
		}
	}
	nDel := 0
	for _, a := range w.FieldAccesses(m.Owner(m.fCache), m.fCache) {
		switch a.Kind {
		case "mapdelete":
			nDel++
			call := a.Instr.(ssa.CallInstruction)
			home := a.Home()
			okKey, extra := false, ""
			w.WithAccess(home, a, func(f *Facts) {
				okKey = strings.Contains(w.Expr(call.Common().Args[1]), "Marshal>(p1)")
				if os.Getenv("YV_DEBUG") == "c09del" {
					fmt.Fprintln(os.Stderr, "C09 del:", shortFn(home), shortFn(remove), w.Expr(call.Common().Args[1]), a.Site, a.Via)
				}
				c.Check(home == remove && okKey, "R4.maintenance", "remove|cache entry dropped with the key", w.Pos(a.Instr.Pos()), "delete(cache, hash(key.Marshal())) in the removal helper", "the cache entry deleted is not the removed key's")
				// gating: only the mode flag and the success of the removal may gate the delete
				gate := f.Primary(a.Instr.Block())
				if a.Via != nil {
					gate = f.Primary(a.Via.Block())
					for l := range w.factsOf(a.Fn).Local(a.Instr.Block()) {
						gate[l] = true
					}
				}
				for l := range gate {
					if on, isMode := m.modeLit(l); isMode {
						if !on {
							extra = "the mode being off (in no-upstream mode the entry of a removed certificate would stay)"
						}
						continue
					}
					ex := w.Short(l.V)
					if strings.Contains(ex, "Agent).Remove>") || strings.Contains(ex, "ok") || strings.Contains(ex, "alloc<bool>") || strings.Contains(ex, "var<bool>") || strings.Contains(ex, "phi{") || strings.Contains(ex, "const(") {
						continue
					}
					extra = ex
				}
			})
			c.Check(extra == "", "R4.maintenance", "remove|cache entry dropped on every successful removal", w.Pos(a.Instr.Pos()), "gated by the mode flag / removal success only", "dropping the cache entry additionally depends on "+extra)
		case "mapread":
			if a.Home() == remove || a.Home() == m.Methods["Remove"] {
				c.Bad("R4.maintenance", shortFn(a.Home())+"|removal not gated by the cache", w.Pos(a.Instr.Pos()), "a cache lookup in the removal path: hidden certificates could become unremovable")
			}
		}
	}
	c.Floor("R4.maintenance", nDel, 1, "cache deletions")
	// a removal request always reaches the underlying agent: whatever the shim holds or hides for the key, Remove
	// succeeds only after the underlying agent's Remove ran (a hidden certificate lives there)
	if rm := m.Methods["Remove"]; rm != nil {
		var under []*ssa.Call
		for _, cv := range w.invokeOfDeep(rm, "Remove") {
			if m.isLoadOfField(cv.Call.Value, m.fAgent) {
				under = append(under, cv)
			}
		}
		nRet := 0
		for _, r := range w.MayBeNilReturns(rm) {
			if rm.Recover != nil && r.Block() == rm.Recover {
				continue
			}
			nRet++
			ok := false
			for _, u := range under {
				if w.DeepDominates(rm, u, r) {
					ok = true
				}
			}
			c.Check(ok, "R4.maintenance", "Remove|success only after the underlying agent's Remove", w.Pos(r.Pos()), "the underlying call is unavoidable on the way to this return", "Remove can report success without forwarding the removal to the underlying agent: a certificate the shim hides (or also holds in memory) stays there")
		}
		c.Floor("R4.maintenance", nRet, 1, "successful returns of Remove")
	}
	if ra := m.Methods["RemoveAll"]; ra != nil {
		ok := false
		callees := map[*ssa.Function]bool{ra: true}
		for _, call := range callsIn(ra) {
			if cal := call.Common().StaticCallee(); cal != nil && recvNamed(cal) == m.Server && w.Expr(call.Common().Args[0]) == "p0" {
				callees[cal] = true
			}
		}
		for _, a := range w.FieldAccesses(m.Owner(m.fCache), m.fCache) {
			if callees[a.Fn] && a.Kind == "write" {
				if _, isMM := a.Instr.(*ssa.Store).Val.(*ssa.MakeMap); isMM {
					ok = true
				}
			}
		}
		c.Check(ok, "R4.maintenance", "RemoveAll|cache re-made", w.FnPos(ra), "cache = make(map)", "RemoveAll leaves the hidden-certificate cache as it was")
	}
}

// shimSpec builds the abstract model shared by the listing and signing tables.
func shimSpec(c *Ctx, m *shimModel, onAgentCall func(method string, args []ssa.Value) absVal) *dtSpec {
	w := c.w
	domain := map[string][]absVal{
		"casterr": {{K: avNil}, {K: avNonNil}},
		"kiderr":  {{K: avNil}, {K: avNonNil}},
		"filterr": {{K: avNil}, {K: avNonNil}},
	}
	if m.flagEnum {
		// the lock state ranges over the values the field can hold
		var ks []int64
		for k := range m.flagVals {
			ks = append(ks, k)
		}
		sort.Slice(ks, func(i, j int) bool { return ks[i] < ks[j] })
		for _, k := range ks {
			domain["locked"] = append(domain["locked"], absVal{K: avInt, I: k})
		}
	}
	if m.modeEnum {
		var ks []int64
		for k := range m.modeVals {
			ks = append(ks, k)
		}
		sort.Slice(ks, func(i, j int) bool { return ks[i] < ks[j] })
		for _, k := range ks {
			domain["noup"] = append(domain["noup"], absVal{K: avInt, I: k})
		}
	}
	return &dtSpec{
		Domain:   domain,
		MaxDepth: 2,
		NoInline: map[string]bool{},
		FieldAtom: func(obj, field string) string {
			// the server's own field, or a field of the helper struct the server holds it in
			if obj == "s" || (strings.HasPrefix(obj, "s.") && !strings.Contains(obj[2:], ".") && m.Owner(field) != m.Server) {
				switch field {
				case m.fNoUp:
					return "noup"
				case m.fLocked:
					return "locked"
				}
			}
			return ""
		},
		OnCall: func(e *dtRun, call ssa.CallInstruction, args []absVal) (absVal, bool) {
			name := calleeName(call)
			switch {
			case strings.HasSuffix(name, "sshutils/key.CastSSHPublicKeyToCertificate"):
				ev := e.resolve(absVal{K: avAtom, Name: "casterr"})
				if e.need != "" {
					return absVal{}, true
				}
				if ev.K == avNil {
					return absVal{K: avTuple, Tuple: []absVal{{K: avObject, Obj: "cert"}, {K: avNil}}}, true
				}
				return absVal{K: avTuple, Tuple: []absVal{{K: avNil}, {K: avNonNil}}}, true
			case strings.HasSuffix(name, "keyid.Unmarshal"):
				// must be the cast certificate's KeyId
				if w.Expr(call.Common().Args[0]) == "" {
					return absVal{}, true
				}
				ev := e.resolve(absVal{K: avAtom, Name: "kiderr"})
				if e.need != "" {
					return absVal{}, true
				}
				if ev.K == avNil {
					return absVal{K: avTuple, Tuple: []absVal{{K: avObject, Obj: "k"}, {K: avNil}}}, true
				}
				return absVal{K: avTuple, Tuple: []absVal{{K: avNil}, {K: avNonNil}}}, true
			case strings.HasSuffix(name, "shimagent.hash"):
				return absVal{K: avStr, S: "H"}, true
			case strings.HasSuffix(name, ".Marshal") || strings.HasSuffix(name, ".PublicKey"):
				return absVal{K: avNonNil, Tag: "blob"}, true
			}
			cm := call.Common()
			if cm.IsInvoke() && onAgentCall != nil && m.isLoadOfField(cm.Value, m.fAgent) {
				return onAgentCall(cm.Method.Name(), cm.Args), true
			}
			if callee := cm.StaticCallee(); callee != nil && recvNamed(callee) == m.Server {
				// filter(): (map, slice, err)
				if callee.Signature.Results().Len() == 3 {
					ev := e.resolve(absVal{K: avAtom, Name: "filterr"})
					if e.need != "" {
						return absVal{}, true
					}
					return absVal{K: avTuple, Tuple: []absVal{{K: avNonNil}, {K: avNonNil}, ev}}, true
				}
			}
			if strings.HasPrefix(name, "(*sync.") {
				return absVal{K: avNonNil}, true
			}
			if name == "errors.New" || name == "fmt.Errorf" || strings.HasPrefix(name, "builtin:") {
				return absVal{}, false
			}
			if callee := cm.StaticCallee(); callee != nil && w.transparent(callee) {
				return absVal{}, false // a local helper: interpreted in place (MaxDepth bounds the nesting)
			}
			return absVal{K: avUnknown, Tag: "call " + shortName(name)}, true
		},
	}
}

// listingTable extracts listed/hidden for the loop body over the agent's identities in fn.
func listingTable(c *Ctx, m *shimModel, fn *ssa.Function, name string) map[string]bool {
	w := c.w
	c.Saw(fn)
	// the loop: the block containing the cast call; its loop header is the rangeindex.loop block that dominates it
	var castBlock *ssa.BasicBlock
	for _, call := range callsIn(fn) {
		if strings.HasSuffix(calleeName(call), "sshutils/key.CastSSHPublicKeyToCertificate") {
			castBlock = call.Block()
		}
	}
	if castBlock == nil {
		c.Unresolved("R2.listing", name+": cast of an agent identity to a certificate")
		return nil
	}
	// loop head: nearest dominator that has a back edge from a block dominated by it
	var head *ssa.BasicBlock
	for d := castBlock; d != nil; d = d.Idom() {
		isHead := false
		for _, p := range d.Preds {
			if d.Dominates(p) {
				isHead = true
			}
		}
		if isHead {
			head = d
			break
		}
	}
	if head == nil {
		c.Unresolved("R2.listing", name+": loop over the agent's identities")
		return nil
	}
	// body start: the successor of head inside the loop
	var body *ssa.BasicBlock
	for _, s := range head.Succs {
		if s.Dominates(castBlock) {
			body = s
		}
	}
	if body == nil {
		c.Unresolved("R2.listing", name+": loop body")
		return nil
	}
	// A hand-written loop may test more than the index in its condition: `for i := 0; hide && i < len(xs); i++`.
	// Leading exit tests on the (loop-invariant) mode flag or on the forward index bound are part of the loop
	// condition, not of the per-identity decision; the mode is then known inside the loop and the mode-off case is
	// decided outside it (bulk append, checked below).
	isModeValue := func(v ssa.Value) bool {
		v = w.canon(fn, v)
		if m.modeEnum {
			// the comparison of the state with the constant meaning "on" (polarity: equal)
			if on, ok := m.modeLit(Lit{v, true}); ok {
				return on
			}
			return false
		}
		return m.isLoadOfField(v, m.fNoUp)
	}
	modeHoisted := false
	pureBlock := func(b *ssa.BasicBlock) bool {
		for _, ins := range b.Instrs {
			switch x := ins.(type) {
			case *ssa.Call:
				if bi, ok := x.Call.Value.(*ssa.Builtin); !ok || (bi.Name() != "len" && bi.Name() != "cap") {
					return false
				}
			case *ssa.Store, *ssa.MapUpdate, *ssa.Go, *ssa.Defer, *ssa.Send:
				return false
			}
		}
		return true
	}
	condBlocks := []*ssa.BasicBlock{head}
	for cur := body; cur != nil && cur != castBlock && pureBlock(cur); {
		ifi, ok := cur.Instrs[len(cur.Instrs)-1].(*ssa.If)
		if !ok || !cur.Succs[0].Dominates(castBlock) && cur.Succs[0] != castBlock {
			break
		}
		// an exit test: the other successor leaves the loop (it cannot get back to the loop head)
		dbgf("%s cur=%d succs=%d,%d head=%d reaches=%v", name, cur.Index, cur.Succs[0].Index, cur.Succs[1].Index, head.Index, blockReaches(cur.Succs[1], head))
		if blockReaches(cur.Succs[1], head) {
			break
		}
		isBound := false
		if bin, ok := ifi.Cond.(*ssa.BinOp); ok && bin.Op == token.LSS && isForwardRangeIndex(bin.X) && lenArg(bin.Y) != nil {
			isBound = true
		}
		if !isBound && !isModeValue(ifi.Cond) {
			break
		}
		condBlocks = append(condBlocks, cur)
		body = cur.Succs[0]
		cur = body
	}
	for _, cb := range condBlocks {
		if ifi, ok := cb.Instrs[len(cb.Instrs)-1].(*ssa.If); ok && isModeValue(ifi.Cond) && (cb.Succs[0] == body || cb.Succs[0].Dominates(body)) && !blockReaches(cb.Succs[1], head) {
			modeHoisted = true
			dbgf("%s hoisted by block %d cond %s", name, cb.Index, w.Short(ifi.Cond))
		}
	}
	// mode-off case of a hoisted test: the whole upstream listing is appended to the result under the fact mode == off
	bulkOK := false
	if modeHoisted {
		var ranged ssa.Value
		for _, ins := range castBlock.Instrs {
			if ia, ok := ins.(*ssa.IndexAddr); ok && isForwardRangeIndex(ia.Index) {
				ranged = ia.X
			}
		}
		ff := w.Facts(fn)
		dbgf("%s hoisted; ranged=%v", name, ranged)
		for _, call := range callsIn(fn) {
			cv, ok := call.(*ssa.Call)
			if !ok {
				continue
			}
			if b, isB := cv.Call.Value.(*ssa.Builtin); !isB || b.Name() != "append" || len(cv.Call.Args) != 2 || ranged == nil {
				continue
			}
			if !w.SameValue(fn, cv.Call.Args[1], ranged) {
				continue
			}
			off := ff.Any(cv.Block(), func(l Lit) bool { return isModeValue(l.V) && !l.Pol })
			// the appended-to slice is the one the loop goes on with: the call's result reaches a phi of a loop-condition block
			flows := false
			seenPhi := map[*ssa.Phi]bool{}
			var reach func(v ssa.Value, depth int) bool
			reach = func(v ssa.Value, depth int) bool {
				v = throughCell(strip(v))
				if v == ssa.Value(cv) {
					return true
				}
				phi, ok := v.(*ssa.Phi)
				if !ok || seenPhi[phi] || depth > 6 {
					return false
				}
				seenPhi[phi] = true
				for _, e := range phi.Edges {
					if reach(e, depth+1) {
						return true
					}
				}
				return false
			}
			for _, cb := range condBlocks {
				for _, ins := range cb.Instrs {
					if phi, ok := ins.(*ssa.Phi); ok && reach(phi, 0) {
						flows = true
					}
				}
			}
			// or the result lives in a variable (captured by a closure): the bulk append is stored into the variable
			// the appends of the loop body are stored into
			storedTo := func(call *ssa.Call) map[*ssa.Alloc]bool {
				out := map[*ssa.Alloc]bool{}
				if refs := call.Referrers(); refs != nil {
					for _, r := range *refs {
						if st, ok := r.(*ssa.Store); ok && st.Val == ssa.Value(call) {
							if a, ok := st.Addr.(*ssa.Alloc); ok {
								out[a] = true
							}
						}
					}
				}
				return out
			}
			mine := storedTo(cv)
			for _, other := range callsIn(fn) {
				oc, ok := other.(*ssa.Call)
				if !ok || oc == cv || !(body.Dominates(oc.Block()) || oc.Block() == body) {
					continue
				}
				if b, isB := oc.Call.Value.(*ssa.Builtin); isB && b.Name() == "append" {
					for a := range storedTo(oc) {
						if mine[a] {
							flows = true
						}
					}
				}
			}
			dbgf("%s bulk append at %s off=%v flows=%v", name, w.Pos(cv.Pos()), off, flows)
			if off && flows {
				bulkOK = true
			}
		}
		c.Check(bulkOK, "R2.listing", name+"|mode off: every upstream identity is listed (mode test hoisted out of the loop)", w.FnPos(fn), "append(result, <the whole upstream listing>...) under the fact mode == off", "the mode test is made outside the loop, but on the mode-off path the whole upstream listing is not appended to the result")
	}
	spec := shimSpec(c, m, func(method string, args []ssa.Value) absVal { return absVal{K: avUnknown, Tag: "agent." + method} })
	spec.OnInstr = func(e *dtRun, ins ssa.Instruction) string {
		if call, ok := ins.(*ssa.Call); ok {
			if b, ok := call.Call.Value.(*ssa.Builtin); ok && b.Name() == "append" {
				return "append"
			}
		}
		if mu, ok := ins.(*ssa.MapUpdate); ok && m.isLoadOfField(mu.Map, m.fCache) {
			return "cache"
		}
		return ""
	}
	leaves, und := w.DecisionRegion(fn, []absVal{{K: avObject, Obj: "s"}}, spec, body, map[*ssa.BasicBlock]string{head: "next"})
	for _, u := range und {
		c.Und("R2.listing", name+"|interpretable", w.FnPos(fn), u)
	}
	cacheAtom := `s.` + m.fCache + `["H"].ok`
	named, anonA := dtAtomsUsed(leaves)
	if debugDT {
		println("atoms", strings.Join(named, " | "), "anon", strings.Join(anonA, " | "))
		for _, l := range leaves {
			println("  leaf", valString(l.Assign), "events", strings.Join(l.Events, ","), "note", l.Note)
		}
	}
	allowed := map[string]bool{"casterr": true, "kiderr": true, "noup": true, cacheAtom: true}
	for _, a := range named {
		if !allowed[a] {
			// other named atoms may appear (label, comment); they must not change the fate: checked row by row below
			continue
		}
	}
	tbl := map[string]bool{}
	dom := map[string][]absVal{"casterr": spec.Domain["casterr"], "kiderr": spec.Domain["kiderr"], "noup": spec.Domain["noup"]}
	rows := 0
	for _, val := range dtValuations([]string{"casterr", "kiderr", "noup", cacheAtom}, dom) {
		castFails := val["casterr"].K == avNonNil
		kidOK := val["kiderr"].K == avNil
		noup := val["noup"].B
		if m.modeEnum {
			noup = val["noup"].I == m.modeOnK
		}
		hit := val[cacheAtom].B
		if hit && !noup {
			continue // infeasible: the cache is only written in no-upstream mode (R1)
		}
		rows++
		want := castFails || (!hit && !(noup && kidOK))
		ms := dtMatch(leaves, val)
		rowKey := "castFails=" + boolStr(castFails) + " cacheHit=" + boolStr(hit) + " modeOn=" + boolStr(noup) + " keyidOK=" + boolStr(kidOK)
		if modeHoisted && !noup {
			// decided by the bulk append above: the loop does not run with the mode off
			tbl[rowKey] = want
			c.Check(bulkOK && want, "R2.listing", name+"|"+rowKey, w.FnPos(fn), "listed (bulk append on the mode-off path)", "an in-agent identity in this case is not listed although the mode is off")
			continue
		}
		if len(ms) == 0 {
			c.Und("R2.listing", name+"|"+rowKey, w.FnPos(fn), "no path of the loop body covers this case")
			continue
		}
		ok := true
		got := ""
		for _, l := range ms {
			listed := false
			for _, ev := range l.Events {
				if ev == "append" {
					listed = true
				}
			}
			got = boolStr(listed)
			if listed != want || l.Note != "next" {
				ok = false
			}
		}
		tbl[rowKey] = want
		wantS := "listed"
		if !want {
			wantS = "hidden"
		}
		c.Check(ok, "R2.listing", name+"|"+rowKey, w.FnPos(fn), wantS, "an in-agent identity in this case is listed="+got+", the statement requires "+wantS)
	}
	c.Floor("R2.listing", rows, 12, "listing cases of "+name)
	// in-memory certificates are appended unconditionally: a range over the certificate table whose body appends with no branch
	return tbl
}

// blockReaches: to is reachable from from along CFG edges.
func blockReaches(from, to *ssa.BasicBlock) bool {
	seen := map[*ssa.BasicBlock]bool{}
	var visit func(b *ssa.BasicBlock) bool
	visit = func(b *ssa.BasicBlock) bool {
		if b == to {
			return true
		}
		if seen[b] {
			return false
		}
		seen[b] = true
		for _, s := range b.Succs {
			if visit(s) {
				return true
			}
		}
		return false
	}
	return visit(from)
}

func signTable(c *Ctx, m *shimModel) {
	w := c.w
	fn := m.Methods["SignWithFlags"]
	if fn == nil {
		c.Unresolved("R3.sign", "method SignWithFlags")
		return
	}
	c.Saw(fn)
	spec := shimSpec(c, m, func(method string, args []ssa.Value) absVal {
		tag := "agent." + method + "("
		for i, a := range args {
			if i > 0 {
				tag += ","
			}
			tag += w.Short(a)
		}
		tag += ")"
		return absVal{K: avTuple, Tuple: []absVal{{K: avUnknown, Tag: tag}, {K: avUnknown, Tag: tag}}}
	})
	// the key-not-found sentinel: the package error variable AddHardCert returns when no listed key matches
	notFoundSentinel := ""
	if ah := m.Body("AddHardCert"); ah != nil {
		for _, r := range liveReturns(ah) {
			for _, lf := range w.Leaves(r.Results[0], r) {
				if ex := w.Expr(lf.Val); strings.HasPrefix(ex, "global:"+RepoMod+"/"+shimPkg+".") {
					// not the refusal under the lock flag (in a delegated body the flag was tested by the caller)
					v, known := m.lockedKnown(ah, r.Block())
					if (known && !v) || (!known && ah != m.Methods["AddHardCert"]) {
						notFoundSentinel = ex
					}
				}
			}
		}
	}
	memAtom := `s.` + m.fCerts + `["H"].ok`
	leaves, und := w.DecisionTable(fn, []absVal{{K: avObject, Obj: "s"}, {K: avObject, Obj: "key"}, {K: avNonNil, Tag: "data"}, {K: avAtom, Name: "?flags"}}, spec)
	for _, u := range und {
		c.Und("R3.sign", "SignWithFlags|interpretable", w.FnPos(fn), u)
	}
	dom := map[string][]absVal{"casterr": spec.Domain["casterr"], "kiderr": spec.Domain["kiderr"], "filterr": spec.Domain["filterr"], "locked": spec.Domain["locked"], "noup": spec.Domain["noup"]}
	rows := 0
	for _, val := range dtValuations([]string{"locked", "filterr", "casterr", memAtom, "kiderr", "noup"}, dom) {
		rows++
		locked := val["locked"].B
		if m.flagEnum {
			locked = val["locked"].I == m.lockedK
		}
		ferr := val["filterr"].K == avNonNil
		castOK := val["casterr"].K == avNil
		mem := val[memAtom].B
		kidOK := val["kiderr"].K == avNil
		noup := val["noup"].B
		if m.modeEnum {
			noup = val["noup"].I == m.modeOnK
		}
		want := "forward"
		switch {
		case locked || ferr:
			want = "error"
		case castOK && mem:
			want = "memory"
		case castOK && kidOK && noup:
			want = "refuse"
		}
		rowKey := "locked=" + boolStr(locked) + " pruneFails=" + boolStr(ferr) + " castOK=" + boolStr(castOK) + " inMemory=" + boolStr(mem) + " keyidOK=" + boolStr(kidOK) + " modeOn=" + boolStr(noup)
		ms := dtMatch(leaves, val)
		if len(ms) == 0 {
			c.Und("R3.sign", "SignWithFlags|"+rowKey, w.FnPos(fn), "no path covers this case")
			continue
		}
		ok := true
		got := ""
		for _, l := range ms {
			g := "?"
			if len(l.Result) == 2 {
				r0, r1 := l.Result[0], l.Result[1]
				switch {
				case strings.HasPrefix(r0.Tag, "agent.SignWithFlags(") && strings.Contains(r0.Tag, ".Key,p2,p3)"):
					g = "memory"
				case strings.HasPrefix(r0.Tag, "agent.SignWithFlags(p1,p2,p3)"):
					g = "forward"
				case r1.K == avObject && strings.HasPrefix(r1.Obj, "global:") && notFoundSentinel != "" && strings.HasSuffix(notFoundSentinel, "."+strings.TrimPrefix(r1.Obj, "global:")):
					g = "refuse"
				case r0.K == avNil && (r1.K == avNonNil || r1.K == avObject):
					g = "error"
				default:
					g = r0.String() + "/" + r1.String()
				}
			}
			got = g
			if g != want {
				ok = false
			}
		}
		c.Check(ok, "R3.sign", "SignWithFlags|"+rowKey, w.FnPos(fn), want, "the signing request is handled as '"+got+"', the statement requires '"+want+"'")
	}
	c.Floor("R3.sign", rows, 64, "cases of SignWithFlags")
}

var debugDT = os.Getenv("YDEBUGDT") != ""
