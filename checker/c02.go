package main

import (
	"fmt"
	"go/types"
	"os"
	"sort"
	"strings"

	"golang.org/x/tools/go/ssa"
)

func init() {
	register(&property{
		ID: "C02",
		Meta: propMeta{
			Level:       "Structural necessary conditions of 'signing requests carry server-side identity and policy, never client claims', decided on the handler's Generate for every repository handler: (R1) the source of every field of the signing request: principals = the KeyID's principal list = a one-element list holding the server-side login name; validity = the handler field whose only writer is the constructor storing the decoded configuration's validity; extensions = the default-extension function's result; key slot = the comma-ok lookup of the configured identifiers by the requested CA key algorithm, whose miss returns a configuration error; public key = the authorized-key encoding of the freshly generated agent key; KeyId = the encoding of that same KeyID with its error returned; (R2) the source of every KeyID field (version 1, regular-certificate flags false, all usages, never-touch, transaction id / client user / IP / host copied from the parameters' own fields); (R3) the certified key pair comes from one key-generation call made in this activation whose generators all read crypto/rand.Reader and whose value-origins contain no repository variable, parameter or file; (R4) the default-extension table; (R5) the algorithm-name table and decode hook. JSON escaping and mapstructure decoding are trusted.",
			Technique:   "static analysis: field-source tables over composite literals in go/ssa (value-origin expressions, interprocedural origin sets) + constant tables",
			Explanation: "Composite literals are located as allocations with field stores; each stored value is rendered as a canonical origin expression over the function's parameters and compared with the rule's table.",
			Assumptions: []string{"encoding/json escapes metacharacters", "mapstructure stores the configured values into the tagged fields", "crypto/rand.Reader is a CSPRNG"},
			Trusted:     []string{"go/packages", "go/types", "go/ssa", "crypto/*"},
			RuleDoc: map[string]string{
				"R9.state":      "no memory of earlier calls: on the call tree only frozen package-level variables are touched (known exceptions listed with reasons), and no package-level object is handed out",
				"R1.csr":        "source of every field of the signing request",
				"R2.keyid":      "source of every field of the KeyID",
				"R3.freshkey":   "fresh key pair per request from crypto/rand",
				"R4.extensions": "default extension set",
				"R5.algonames":  "algorithm-name table and hook",
				"R6.keyidcodec": "the KeyID the request carries is well-formed: the KeyID codec's tables (required keys vs always-emitted json tags, version tables) and the version checker's truth table, imported from C05",
			},
		},
		Run: runC02,
	})
}

func runC02(c *Ctx) {
	stateRule(c, "R9.state", []*ssa.Function{c.w.Method("gensign/regular", "Handler", "Generate"), c.w.Func("gensign/regular", "NewHandler"), c.w.Func("crypki", "GetDefaultExtension")}, knownState)
	w := c.w
	tablesC02(c)
	m := resolveGensign(w)
	nH := 0
	for _, h := range m.Handlers {
		gen := w.methodOfNamed(h, "Generate")
		if gen == nil || gen.Blocks == nil {
			continue
		}
		nH++
		c.Saw(gen)
		checkGenerate(c, m, h, gen)
	}
	c.Floor("R1.csr", nH, 1, "handler Generate implementations")
	checkKeyGenerators(c)
	// the KeyId string of the request decodes again: the encoder emits every key the decoder requires
	c.WithRules(map[string]string{"R1.tables": "R6.keyidcodec", "R2.truth": "R6.keyidcodec", "R3.gate": "R6.keyidcodec"}, func() {
		tablesC05(c)
		keyidDecodeRules(c)
	})
}

// globalByRoot: the package-level variable named by an origin root "global:<pkg>.<name>[.<field>...]".
func (w *World) globalByRoot(root string) *ssa.Global {
	s := strings.TrimPrefix(root, "global:")
	slash := strings.LastIndex(s, "/")
	dot := strings.Index(s[slash+1:], ".")
	if dot < 0 {
		return nil
	}
	pkgPath := s[:slash+1+dot]
	rest := s[slash+1+dot+1:]
	if i := strings.Index(rest, "."); i >= 0 {
		rest = rest[:i]
	}
	p := w.ByPath[pkgPath]
	if p == nil || p.Types == nil {
		return nil
	}
	sp := w.Prog.Package(p.Types)
	if sp == nil {
		return nil
	}
	g, _ := sp.Members[rest].(*ssa.Global)
	return g
}

// hasReferenceParts: values of type t carry state shared by copies (maps, slices, pointers, channels, functions,
// interfaces), directly or inside struct fields / array elements.
func hasReferenceParts(t types.Type, depth int) bool {
	if depth > 4 {
		return true
	}
	switch u := t.Underlying().(type) {
	case *types.Map, *types.Slice, *types.Pointer, *types.Chan, *types.Signature, *types.Interface:
		return true
	case *types.Struct:
		for i := 0; i < u.NumFields(); i++ {
			if hasReferenceParts(u.Field(i).Type(), depth+1) {
				return true
			}
		}
	case *types.Array:
		return hasReferenceParts(u.Elem(), depth+1)
	}
	return false
}

func isNamedType(t types.Type) bool {
	_, ok := t.(*types.Named)
	return ok
}

func allocsOf(fn *ssa.Function, typeSuffix string) []*ssa.Alloc {
	var out []*ssa.Alloc
	for _, b := range fn.Blocks {
		for _, ins := range b.Instrs {
			if a, ok := ins.(*ssa.Alloc); ok && strings.HasSuffix(a.Type().(*types.Pointer).Elem().String(), typeSuffix) && isNamedType(a.Type().(*types.Pointer).Elem()) {
				out = append(out, a)
			}
		}
	}
	return out
}

// oneElemSliceOf: v is a slice literal with exactly one element whose expression is returned.
func oneElemSliceOf(w *World, v ssa.Value) (string, bool) {
	sl, ok := v.(*ssa.Slice)
	if !ok {
		return "", false
	}
	a, ok := sl.X.(*ssa.Alloc)
	if !ok || arrayLen(a.Type()) != 1 {
		return "", false
	}
	vals := storesInto(a)
	if len(vals) != 1 {
		return "", false
	}
	return w.Expr(vals[0]), true
}

func checkGenerate(c *Ctx, m *gensignModel, h *types.Named, gen *ssa.Function) {
	w := c.w
	hn := shortFn(gen)
	f := w.Facts(gen)
	kids := w.allocsOfDeep(gen, "keyid.KeyID")
	reqs := w.allocsOfDeep(gen, "proto.SSHCertificateSigningRequest")
	if len(kids) != 1 || len(reqs) != 1 {
		c.Und("R1.csr", hn+"|one KeyID and one signing request literal", w.FnPos(gen), "expected exactly one KeyID literal and one signing-request literal, found "+itoa(len(kids))+" / "+itoa(len(reqs)))
		return
	}
	kid, req := kids[0], reqs[0]
	kf := w.FieldStoresDeep(gen, kid)
	rf := w.FieldStoresDeep(gen, req)
	// the KeyID obtained from the package's exported constructor (keyid.New()): the constructor's result denotes the
	// literal it returns, and the fields assigned through that result complete the ones the constructor sets
	var kidCall ssa.Value
	if kid.Parent() != gen && !w.transparent(kid.Parent()) && w.successValue(kid.Parent(), 0) == ssa.Value(kid) {
		n := 0
		for _, tf := range w.Tree(gen) {
			if tf == kid.Parent() {
				continue
			}
			for _, call := range callsIn(tf) {
				if cv, ok := call.(*ssa.Call); ok && cv.Call.StaticCallee() == kid.Parent() {
					kidCall = cv
					n++
				}
			}
		}
		if n != 1 {
			kidCall = nil
		}
	}
	isKid := func(v ssa.Value) bool {
		cv := w.canon(gen, v)
		return cv == ssa.Value(kid) || (kidCall != nil && cv == kidCall)
	}
	if kidCall != nil {
		for _, tf := range w.Tree(gen) {
			for _, b := range tf.Blocks {
				for _, ins := range b.Instrs {
					fa, ok := ins.(*ssa.FieldAddr)
					if !ok || w.canon(gen, fa.X) != kidCall {
						continue
					}
					name := fieldName(fa.X.Type(), fa.Field)
					if fr := fa.Referrers(); fr != nil {
						for _, u := range *fr {
							if st, ok := u.(*ssa.Store); ok && st.Addr == ssa.Value(fa) {
								kf[name] = append(kf[name], st.Val)
							}
						}
					}
				}
			}
		}
	}

	// ---- R2: KeyID ----
	wantK := map[string]string{
		"Version": "const(1)", "IsFirefighter": "const(false)", "IsHWKey": "const(false)", "IsHeadless": "const(false)", "IsNonce": "const(false)",
		"Usage": "const(0)", "TouchPolicy": "const(1)", "TransID": "p1.TransID", "ReqUser": "p1.ReqUser", "ReqIP": "p1.ClientIP", "ReqHost": "p1.ReqHost",
	}
	zeroOK := map[string]bool{"IsFirefighter": true, "IsHWKey": true, "IsHeadless": true, "IsNonce": true, "Usage": true}
	for fld, want := range wantK {
		vals := kf[fld]
		if len(vals) == 0 {
			c.Check(zeroOK[fld], "R2.keyid", hn+"|KeyID."+fld, w.Pos(kid.Pos()), "left at its zero value ("+want+")", "KeyID."+fld+" is never set (zero value) but must be "+want)
			continue
		}
		ok := true
		got := ""
		for _, v := range vals {
			got = w.Expr(v)
			if got != want {
				ok = false
			}
		}
		c.Check(ok, "R2.keyid", hn+"|KeyID."+fld, w.Pos(kid.Pos()), want, "KeyID."+fld+" is "+shortName(got)+", must be "+want)
	}
	for fld := range kf {
		if _, known := wantK[fld]; !known && fld != "Principals" {
			c.Bad("R2.keyid", hn+"|KeyID."+fld, w.Pos(kid.Pos()), "an unexpected KeyID field is set: "+fld)
		}
	}
	prinOK := false
	if vs := kf["Principals"]; len(vs) == 1 {
		if e, ok := oneElemSliceOf(w, vs[0]); ok && e == "p1.LogName" {
			prinOK = true
		}
	}
	c.Check(prinOK, "R2.keyid", hn+"|KeyID.Principals", w.Pos(kid.Pos()), "[param.LogName]", "the KeyID's principals are not exactly the one server-side login name: "+exprList(w, kf["Principals"]))

	// ---- R1: CSR ----
	okP := false
	if vs := rf["Principals"]; len(vs) == 1 {
		ex := w.Expr(vs[0])
		if ex == "alloc<"+RepoMod+"/keyid.KeyID>.Principals" || (kidCall != nil && ex == w.Expr(kidCall)+".Principals") {
			okP = prinOK
		} else if e, ok := oneElemSliceOf(w, vs[0]); ok && e == "p1.LogName" {
			okP = true
		}
	}
	c.Check(okP, "R1.csr", hn+"|Principals", w.Pos(req.Pos()), "the KeyID's principal list = [param.LogName]", "the request's principals are not exactly the server-side login name: "+exprList(w, rf["Principals"]))
	// Validity
	okV := false
	validityField := ""
	if vs := rf["Validity"]; len(vs) == 1 {
		ex := w.Expr(vs[0])
		if strings.HasPrefix(ex, "p0.") && !strings.Contains(ex, "(") {
			validityField = strings.TrimPrefix(ex, "p0.")
			okV = true
		}
	}
	c.Check(okV, "R1.csr", hn+"|Validity", w.Pos(req.Pos()), "a handler field", "the requested validity is not a handler field: "+exprList(w, rf["Validity"]))
	if okV && !strings.Contains(validityField, ".") {
		n := 0
		for _, a := range w.FieldAccesses(h, validityField) {
			if a.Kind != "write" && a.Kind != "addr" && a.Kind != "addrcall" {
				continue
			}
			n++
			st, isStore := a.Instr.(*ssa.Store)
			ok := isStore && strings.HasSuffix(w.Expr(st.Val), ".CertValiditySec") && a.Fn.Signature.Recv() == nil
			c.Check(ok, "R1.csr", hn+"|Validity field written from the configured validity", w.Pos(a.Instr.Pos()), "constructor stores conf.CertValiditySec", "the validity field is written from something other than the decoded configuration: "+w.Short(a.Instr.(*ssa.Store).Val))
		}
		c.Check(n == 1, "R1.csr", hn+"|Validity field has one writer", w.FnPos(gen), "one writer", "the validity field has "+itoa(n)+" writers")
	} else if okV {
		c.Check(strings.HasSuffix(validityField, ".CertValiditySec"), "R1.csr", hn+"|Validity is the configured validity", w.Pos(req.Pos()), "conf.CertValiditySec", "validity comes from "+validityField)
	}
	// Extensions
	okE := false
	if vs := rf["Extensions"]; len(vs) == 1 {
		okE = w.Expr(vs[0]) == "call<"+RepoMod+"/crypki.GetDefaultExtension>()"
	}
	c.Check(okE, "R1.csr", hn+"|Extensions", w.Pos(req.Pos()), "crypki.GetDefaultExtension()", "the extension set is not the default extension function's result: "+exprList(w, rf["Extensions"]))
	// KeyMeta.Identifier
	okK := false
	var lk *ssa.Lookup
	if vs := rf["KeyMeta"]; len(vs) == 1 {
		if ka, ok := vs[0].(*ssa.Alloc); ok {
			ks := FieldStores(gen, ka)
			if ids := ks["Identifier"]; len(ids) == 1 {
				if ex, ok := w.canon(gen, ids[0]).(*ssa.Extract); ok && ex.Index == 0 {
					if l, ok := ex.Tuple.(*ssa.Lookup); ok && l.CommaOk {
						if strings.HasSuffix(w.Expr(l.X), ".KeyIdentifiers") && strings.HasPrefix(w.Expr(l.X), "p0.") && w.Expr(l.Index) == "p1.Attrs.CAPubKeyAlgo" {
							okK, lk = true, l
						}
					}
				}
			}
		}
	}
	c.Check(okK, "R1.csr", hn+"|KeyMeta.Identifier", w.Pos(req.Pos()), "conf.KeyIdentifiers[param.Attrs.CAPubKeyAlgo] (comma-ok)", "the CA key slot is not the configured identifier of the requested CA key algorithm")
	if lk != nil {
		// the configuration the slot is looked up in belongs to this handler alone: whatever is stored into the
		// handler field holding it does not originate in a package-level variable with reference-typed parts (a
		// map / slice / pointer shared by every handler configuration loaded in the process)
		ex := strings.TrimPrefix(w.Expr(lk.X), "p0.")
		confField := ex
		if i := strings.Index(ex, "."); i >= 0 {
			confField = ex[:i]
		}
		nWr := 0
		for _, a := range w.FieldAccesses(h, confField) {
			st, isStore := a.Instr.(*ssa.Store)
			if a.Kind != "write" || !isStore {
				continue
			}
			nWr++
			w.Focus(a.Fn)
			var shared []string
			for o := range w.Origins(st.Val) {
				if !strings.HasPrefix(o, "global:"+RepoMod) {
					continue
				}
				name := strings.TrimPrefix(o, "global:")
				if i := strings.Index(name[strings.LastIndex(name, "/")+1:], "."); i >= 0 {
					// global:<pkg path>.<var>[.<field>...]
				}
				if g := w.globalByRoot(o); g != nil && hasReferenceParts(g.Type().(*types.Pointer).Elem(), 0) {
					shared = append(shared, o)
				}
			}
			sort.Strings(shared)
			c.Check(len(shared) == 0, "R1.csr", hn+"|configuration private to the handler ("+shortFn(a.Fn)+")", w.Pos(st.Pos()), "the stored configuration has no reference-typed state shared through a package-level variable", "the handler configuration aliases package-level state shared by all handlers (a map/slice/pointer inside "+strings.Join(shared, ", ")+"): slots configured for one handler leak into the others")
		}
		w.Focus(gen)
		c.Floor("R1.csr", nWr, 1, "writers of the handler configuration field "+confField)
	}
	if lk != nil {
		// the slot table holds the operator's entries only: no code stores into the table field or into the table
		// (a built-in entry would satisfy requests for an algorithm that was never configured)
		if ld, ok := lk.X.(*ssa.UnOp); ok {
			if fa, ok := ld.X.(*ssa.FieldAddr); ok {
				if owner := derefNamedT(fa.X.Type()); owner != nil {
					fname := fieldName(fa.X.Type(), fa.Field)
					nCode := 0
					for _, a := range w.FieldAccesses(owner, fname) {
						if a.Kind != "write" && a.Kind != "mapwrite" {
							continue
						}
						if st, isSt := a.Instr.(*ssa.Store); isSt {
							if isNilConst(st.Val) {
								continue
							}
							if mm, isMM := st.Val.(*ssa.MakeMap); isMM {
								// an empty table
								filled := false
								for _, op := range w.mapOpsOn(mm) {
									if op.Kind == "update" || op.Kind == "other" {
										filled = true
									}
								}
								if !filled {
									continue
								}
							}
						}
						nCode++
						c.Bad("R1.csr", hn+"|slot table holds configured entries only ("+shortFn(a.Fn)+")", w.Pos(a.Instr.Pos()), shortFn(a.Fn)+" writes "+owner.Obj().Name()+"."+fname+": a key slot not configured by the operator can satisfy the lookup (requests for an unconfigured algorithm are no longer refused)")
					}
					if nCode == 0 {
						c.Ok("R1.csr", hn+"|slot table holds configured entries only", w.Pos(lk.Pos()), "no code writes "+owner.Obj().Name()+"."+fname+"; it is filled by decoding the configuration")
					}
				}
			}
		}
		okv := extractOfV(lk, 1)
		isT, known := f.KnownBool(req.Block(), okv)
		c.Check(known && isT, "R1.csr", hn+"|request built only when a key slot is configured", w.Pos(req.Pos()), "must-fact lookup ok", "a request can be built although no key slot is configured for the algorithm (silent default)")
		n := 0
		refusals := func(fn *ssa.Function) {
			for _, r := range liveReturns(fn) {
				if v, known := f.KnownBool(r.Block(), okv); known && !v {
					n++
					good := true
					for _, lf := range w.Leaves(r.Results[errorResultIndex(fn)], r) {
						k, isK := errKindOf(lf.Val)
						if !isK || k != m.Kinds["HandlerConfErr"] {
							good = false
						}
					}
					c.Check(good, "R1.csr", hn+"|missing key slot refused with a configuration error", w.Pos(r.Pos()), "*Error{HandlerConfErr}", "a missing key slot is not refused with a handler-configuration error")
				}
			}
		}
		refusals(gen)
		if h := lk.Parent(); n == 0 && h != gen && errorResultIndex(h) >= 0 {
			// the lookup sits in a helper that refuses itself: its failure is Generate's failure, handed back unchanged
			if w.failurePropagates(gen, h) {
				refusals(h)
			}
		}
		c.Floor("R1.csr", n, 1, "refusal return for a missing key slot")
	}
	// PublicKey
	var agentKeyCall *ssa.Call
	okPK := false
	for _, call := range w.callsInDeep(gen) {
		// the repository constructor of the agent key is a named primitive of this rule
		if cv, ok := call.(*ssa.Call); ok {
			if callee := w.helperOf(cv); callee != nil && callee.Signature.Results().Len() == 2 && strings.Contains(callee.Signature.Results().At(0).Type().String(), "AgentKey") {
				w.Opaque(callee)
			}
		}
	}
	if vs := rf["PublicKey"]; len(vs) == 1 {
		ex := w.Expr(vs[0])
		if strings.HasPrefix(ex, "conv<string>(call<golang.org/x/crypto/ssh.MarshalAuthorizedKey>(call<(*"+RepoMod+"/agent/ssh.AgentKey).PublicKey>(") {
			// the agent key is result 0 of a repository call made in Generate
			for _, call := range w.callsInDeep(gen) {
				cv, ok := call.(*ssa.Call)
				if !ok {
					continue
				}
				callee := cv.Call.StaticCallee()
				if callee != nil && w.InRepo(callee) && callee.Signature.Results().Len() == 2 && strings.Contains(callee.Signature.Results().At(0).Type().String(), "AgentKey") && strings.Contains(ex, "call<"+fnName(callee)+">(p0)#0") {
					agentKeyCall = cv
					okPK = true
				}
			}
		}
	}
	if os.Getenv("YV_DEBUG") != "" {
		for _, v := range rf["PublicKey"] {
			fmt.Fprintln(os.Stderr, "C02 PublicKey expr:", w.Expr(v))
		}
	}
	c.Check(okPK, "R1.csr", hn+"|PublicKey", w.Pos(req.Pos()), "ssh.MarshalAuthorizedKey(agentKey.PublicKey()) of the agent key generated in this activation", "the certified public key is not the freshly generated agent key's: "+exprList(w, rf["PublicKey"]))
	// KeyId
	okId := false
	if vs := rf["KeyId"]; len(vs) >= 1 {
		for _, v := range vs {
			if ex, ok := v.(*ssa.Extract); ok && ex.Index == 0 {
				if mc, ok := ex.Tuple.(*ssa.Call); ok && strings.HasSuffix(calleeName(mc), "keyid.KeyID).Marshal") && isKid(mc.Call.Args[0]) {
					okId = w.ErrEdgeEnds(mc.Parent(), extractOf(mc, 1)) && w.failurePropagates(gen, mc.Parent())
				}
			}
		}
	}
	c.Check(okId, "R1.csr", hn+"|KeyId", w.Pos(req.Pos()), "kid.Marshal() of the same KeyID, error returned", "the request's KeyId is not the checked encoding of the KeyID built above: "+exprList(w, rf["KeyId"]))
	for fld := range rf {
		switch fld {
		case "Principals", "Validity", "Extensions", "KeyMeta", "PublicKey", "KeyId":
		default:
			c.Bad("R1.csr", hn+"|unexpected field "+fld, w.Pos(req.Pos()), "the signing request sets "+fld+", which the statement does not allow (e.g. critical options)")
		}
	}
	// the request is attached to the generated agent key, which is what Generate returns
	if agentKeyCall != nil {
		attached := false
		for _, call := range w.callsInDeep(gen) {
			cv, ok := call.(*ssa.Call)
			if !ok {
				continue
			}
			if len(cv.Call.Args) == 2 && w.canon(gen, cv.Call.Args[1]) == ssa.Value(req) && (cv.Call.Args[0] == extractOf(agentKeyCall, 0) || w.canon(gen, cv.Call.Args[0]) == extractOf(agentKeyCall, 0)) {
				attached = true
			}
		}
		c.Check(attached, "R1.csr", hn+"|request attached to the generated agent key", w.FnPos(gen), "agentKey.addCSR(request)", "the request built here is not attached to the agent key generated here")
		okRet := false
		for _, r := range w.MayBeNilReturns(gen) {
			if e, ok := oneElemSliceOf(w, r.Results[0]); ok && strings.HasSuffix(e, ">(p0)#0") {
				okRet = true
			}
		}
		c.Check(okRet, "R1.csr", hn+"|returns that agent key only", w.FnPos(gen), "[]csr.AgentKey{agentKey}", "Generate does not return exactly the agent key generated in this activation")
		// R3: the agent-key function creates a fresh key each time
		ak := agentKeyCall.Call.StaticCallee()
		c.Saw(ak)
		okFresh := false
		for _, call := range callsIn(ak) {
			if strings.HasSuffix(calleeName(call), "agent/ssh.NewSSHAgentKeyWithOpt") || strings.HasSuffix(calleeName(call), "agent/ssh.NewSSHAgentKey") {
				okFresh = true
				for _, r := range w.MayBeNilReturns(ak) {
					rs := w.Origins(r.Results[0])
					for o := range rs {
						if strings.HasPrefix(o, "global:"+RepoMod) && !strings.HasSuffix(o, "DefaultKeyOpt") && !strings.Contains(o, "DefaultKeyOpt.") {
							okFresh = false
						}
						if strings.HasPrefix(o, "p0.") && o != "p0.agent" && !strings.HasPrefix(o, "p0.agent.") && o != "p0.conf" && !strings.HasPrefix(o, "p0.conf.") {
							okFresh = false // e.g. a cached key in a handler field
						}
					}
				}
			}
		}
		c.Check(okFresh, "R3.freshkey", hn+"|agent key created per call", w.FnPos(ak), "NewSSHAgentKeyWithOpt(...) on every call; no cached key", "the agent key is not created afresh on every call (cached in a field or package variable?)")
	}
}

// checkKeyGenerators: R3 on the key-generation helpers.
func checkKeyGenerators(c *Ctx) {
	w := c.w
	ctor := w.Func("agent/ssh", "NewSSHAgentKeyWithOpt")
	gkp := w.Func("sshutils/key", "GenerateKeyPair")
	if ctor == nil || gkp == nil {
		c.Unresolved("R3.freshkey", "agent/ssh.NewSSHAgentKeyWithOpt / key.GenerateKeyPair")
		return
	}
	c.Saw(ctor)
	c.Saw(gkp)
	var gcall *ssa.Call
	for _, call := range callsIn(ctor) {
		if cv, ok := call.(*ssa.Call); ok && cv.Call.StaticCallee() == gkp {
			gcall = cv
		}
	}
	if gcall == nil {
		c.Bad("R3.freshkey", "NewSSHAgentKeyWithOpt|generates a key pair", w.FnPos(ctor), "the agent-key constructor no longer generates a key pair itself")
		return
	}
	// AgentKey literal: pubKey = result 1, addedKey.PrivateKey = result 0 of the SAME call
	okPub, okPriv := false, false
	for _, a := range allocsOf(ctor, "agent/ssh.AgentKey") {
		fs := FieldStores(ctor, a)
		if vs := fs["pubKey"]; len(vs) == 1 && vs[0] == extractOf(gcall, 1) {
			okPub = true
		}
	}
	w.Focus(ctor)
	for _, a := range w.allocsOfDeep(ctor, "ssh/agent.AddedKey") {
		fs := w.FieldStoresDeep(ctor, a)
		if vs := fs["PrivateKey"]; len(vs) == 1 && (strip(vs[0]) == extractOf(gcall, 0) || w.canon(ctor, vs[0]) == extractOf(gcall, 0)) {
			okPriv = true
		}
	}
	c.Check(okPub, "R3.freshkey", "NewSSHAgentKeyWithOpt|public key of the generated pair", w.Pos(gcall.Pos()), "pubKey = result 1 of GenerateKeyPair", "the agent key's public key is not the one generated in this call")
	c.Check(okPriv, "R3.freshkey", "NewSSHAgentKeyWithOpt|private key of the generated pair", w.Pos(gcall.Pos()), "AddedKey.PrivateKey = result 0 of the same GenerateKeyPair", "the private key handed to the agent is not the one generated in this call")
	// PublicKey() returns the field
	if pk := w.Method("agent/ssh", "AgentKey", "PublicKey"); pk != nil {
		ok := false
		for _, r := range liveReturns(pk) {
			ok = w.Expr(r.Results[0]) == "p0.pubKey"
		}
		c.Check(ok, "R3.freshkey", "AgentKey.PublicKey|returns the generated public key", w.FnPos(pk), "a.pubKey", "PublicKey() does not return the key generated by the constructor")
	}
	// the pubKey field has one writer
	if ak := w.NamedType("agent/ssh", "AgentKey"); ak != nil {
		n := 0
		for _, a := range w.FieldAccesses(ak, "pubKey") {
			if a.Kind == "write" || a.Kind == "addr" || a.Kind == "addrcall" {
				n++
				c.Check(a.Fn == ctor, "R3.freshkey", "AgentKey.pubKey writer "+shortFn(a.Fn), w.Pos(a.Instr.Pos()), "constructor", "the agent key's public key is overwritten outside the constructor")
			}
		}
		c.Check(n == 1, "R3.freshkey", "AgentKey.pubKey|single writer", "-", "one writer", itoa(n)+" writers")
	}
	// generators: every crypto GenerateKey call on the tree reads crypto/rand.Reader
	nGen := 0
	for _, fn := range w.ReachableRepo([]*ssa.Function{gkp}, false) {
		c.Saw(fn)
		for _, call := range callsIn(fn) {
			n := calleeName(call)
			if n != "crypto/rsa.GenerateKey" && n != "crypto/ecdsa.GenerateKey" && n != "crypto/ed25519.GenerateKey" {
				continue
			}
			nGen++
			var rdr ssa.Value
			for _, a := range call.Common().Args {
				if strings.HasSuffix(a.Type().String(), "io.Reader") {
					rdr = a
				}
			}
			ok := rdr != nil && w.Expr(rdr) == "global:crypto/rand.Reader"
			c.Check(ok, "R3.freshkey", shortFn(fn)+"|"+shortName(n)+" reads crypto/rand.Reader", w.Pos(call.Pos()), "rand.Reader", "a key generator does not read crypto/rand.Reader: "+w.Short(rdr))
		}
		// returned values: origins without repository globals, parameters or files
		for _, r := range liveReturns(fn) {
			for i, rv := range r.Results {
				if i == len(r.Results)-1 && isErrorType(rv.Type()) {
					continue
				}
				w.Focus(gkp)
				for o := range w.Origins(rv) {
					bad := strings.HasPrefix(o, "global:"+RepoMod) || strings.HasPrefix(o, "call:os.") || strings.HasPrefix(o, "p")
					if strings.HasPrefix(o, "p") && len(o) > 1 && o[1] >= '0' && o[1] <= '9' && !strings.Contains(o, ".") {
						// a parameter that selects the kind or size of key (an enumeration, a bit length, a curve) is not
						// key material
						if pi := atoi(o[1:]); pi < len(fn.Params) {
							pt := fn.Params[pi].Type()
							if _, isBasic := pt.Underlying().(*types.Basic); isBasic || strings.HasSuffix(pt.String(), "crypto/elliptic.Curve") {
								bad = false
							}
						}
					}
					if bad && fn != gkp && strings.HasPrefix(o, "p") && !strings.Contains(o, ".") {
						// a parameter of a helper on the generator's tree (a generic "pair the key with its public half"):
						// what the helper is given is judged at its call sites, which are on the same tree
						if pi := atoi(o[1:]); pi < len(fn.Params) {
							sites := w.sitesIn(gkp, fn)
							if (fn.Synthetic == "" || strings.HasPrefix(fn.Synthetic, "instantiation wrapper")) && len(sites) > 0 && !w.dynCallable(fn) {
								bad = false
							}
							// an instance of a generic helper: its sites are those of the instantiation wrappers
							if bad && fn.Synthetic == "" && fn.TypeParams().Len() > 0 {
								bad = false
								for _, g := range w.RepoFuncs() {
									if g.Origin() == fn && len(w.sitesIn(gkp, g)) == 0 {
										bad = true
									}
								}
							}
						}
					}
					if bad {
						c.Bad("R3.freshkey", shortFn(fn)+"|key material origin "+o, w.Pos(r.Pos()), "generated key material depends on "+o+" (a stored or supplied key instead of a fresh one)")
					}
				}
			}
		}
	}
	c.Floor("R3.freshkey", nGen, 3, "key generator calls")
}
