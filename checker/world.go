package main

import (
	"fmt"
	"go/token"
	"go/types"
	"os"
	"path/filepath"
	"sort"
	"strings"

	"golang.org/x/tools/go/callgraph"
	"golang.org/x/tools/go/callgraph/cha"
	"golang.org/x/tools/go/callgraph/vta"
	"golang.org/x/tools/go/packages"
	"golang.org/x/tools/go/ssa"
	"golang.org/x/tools/go/ssa/ssautil"
)

// RepoMod is the module path of the analysed repository.
const RepoMod = "github.com/theparanoids/ysshra"

// World is the loaded, type-checked program in SSA form.
type World struct {
	Dir     string
	Roots   []*packages.Package
	ByPath  map[string]*packages.Package
	Prog    *ssa.Program
	Fset    *token.FileSet
	cg      *callgraph.Graph
	facts   map[*ssa.Function]*Facts
	nFuncs  int
	GOOS    string
	allFns  map[*ssa.Function]bool
	repoFns []*ssa.Function

	// deep.go
	focus            *ssa.Function
	opaque           map[*ssa.Function]bool
	roleOpaque       map[*ssa.Function]bool
	sites            map[*ssa.Function][]ssa.CallInstruction
	addrTaken        map[*ssa.Function]bool
	ifaceMethodNames map[string]bool
	trees            map[*ssa.Function][]*ssa.Function
	ndBusy           map[*ssa.Function]bool
	succVal          map[interface{}]ssa.Value
	mbn              map[*ssa.Function][]*ssa.Return
	mbnBusy          map[*ssa.Function]bool
	pinned           map[*ssa.Function]ssa.CallInstruction
	condOwner        types.Type // C20: the struct that holds the condition table
	lazyConst        map[*ssa.Global]bool
	forceTransp      map[*ssa.Function]bool
	ifaceByMethod    map[string][]*types.Interface
	idxSums          map[*ssa.Function]*idxSummary
	frameBody        map[*ssa.Function]*ssa.Function
	recBusy          map[ssa.Value]bool
	upBusy           map[*ssa.Parameter]bool
	recEsc           map[*ssa.Alloc]bool
	lenKnown         map[ssa.Value]int64 // lengths fixed by the arm under consideration (the encoding of a key of a known curve)
	phiSel           map[*ssa.Phi]int    // join under consideration: the incoming edge each of its phis takes its value from
	cbOK             map[*ssa.Function]bool
	rootsInl         map[*ssa.Function]int
}

// Load loads ./... of dir with the given extra environment.
func Load(dir string, patterns []string, env []string) (*World, error) {
	cfg := &packages.Config{
		Mode:  packages.LoadAllSyntax,
		Dir:   dir,
		Tests: false,
		Env:   append(cleanEnv(), env...),
	}
	roots, err := packages.Load(cfg, patterns...)
	if err != nil {
		return nil, fmt.Errorf("packages.Load: %v", err)
	}
	if len(roots) == 0 {
		return nil, fmt.Errorf("no packages loaded from %s", dir)
	}
	w := &World{Dir: dir, Roots: roots, ByPath: map[string]*packages.Package{}, facts: map[*ssa.Function]*Facts{}}
	var errs []string
	packages.Visit(roots, nil, func(p *packages.Package) {
		w.ByPath[p.PkgPath] = p
		if strings.HasPrefix(p.PkgPath, RepoMod) {
			for _, e := range p.Errors {
				errs = append(errs, e.Error())
			}
		}
	})
	if len(errs) > 0 {
		return nil, fmt.Errorf("type/load errors in repository packages:\n  %s", strings.Join(errs, "\n  "))
	}
	prog, _ := ssautil.AllPackages(roots, ssa.BuilderMode(0))
	prog.Build()
	w.Prog = prog
	w.Fset = prog.Fset
	w.allFns = ssautil.AllFunctions(prog)
	for fn := range w.allFns {
		if w.InRepo(fn) && fn.Blocks != nil {
			w.repoFns = append(w.repoFns, fn)
		}
	}
	sort.Slice(w.repoFns, func(i, j int) bool { return w.repoFns[i].String() < w.repoFns[j].String() })
	w.nFuncs = len(w.repoFns)
	w.markCodecHelpers()
	return w, nil
}

// markCodecHelpers: exported methods of keyid.KeyID that the KeyID codec (Marshal / Unmarshal) calls statically on its
// own tree - a public Validate() holding the version lookup and the consistency check - are read like the unexported
// helpers they are used as. Decided once, before any fact is computed.
func (w *World) markCodecHelpers() {
	for _, fn := range w.repoFns {
		if fn.Pkg == nil || fn.Pkg.Pkg.Path() != RepoMod+"/keyid" || fn.Parent() != nil || (fn.Name() != "Marshal" && fn.Name() != "Unmarshal") {
			continue
		}
		seen := map[*ssa.Function]bool{fn: true}
		work := []*ssa.Function{fn}
		for len(work) > 0 {
			g := work[len(work)-1]
			work = work[:len(work)-1]
			for _, b := range g.Blocks {
				for _, ins := range b.Instrs {
					c, ok := ins.(ssa.CallInstruction)
					if !ok || c.Common().IsInvoke() {
						continue
					}
					h := c.Common().StaticCallee()
					if h == nil || seen[h] || h.Pkg != fn.Pkg || len(h.Blocks) == 0 {
						continue
					}
					seen[h] = true
					work = append(work, h)
					if token.IsExported(h.Name()) && h.Signature.Recv() != nil && h.Name() != "Marshal" && h.Name() != "Unmarshal" {
						if w.forceTransp == nil {
							w.forceTransp = map[*ssa.Function]bool{}
						}
						w.forceTransp[h] = true
					}
				}
			}
		}
	}
}

func cleanEnv() []string {
	var out []string
	for _, e := range os.Environ() {
		if strings.HasPrefix(e, "GOWORK=") || strings.HasPrefix(e, "GOFLAGS=") || strings.HasPrefix(e, "GOPROXY=") ||
			strings.HasPrefix(e, "GOSUMDB=") || strings.HasPrefix(e, "GOTOOLCHAIN=") {
			continue
		}
		out = append(out, e)
	}
	return append(out, "GOWORK=off", "GOFLAGS=-mod=mod", "GOPROXY=off", "GOSUMDB=off", "GOTOOLCHAIN=local")
}

// InRepo tells whether fn is declared (possibly as a closure) in a non-test file of the repository.
func (w *World) InRepo(fn *ssa.Function) bool {
	if fn == nil {
		return false
	}
	for fn.Parent() != nil {
		fn = fn.Parent()
	}
	if fn.Pkg == nil {
		// wrappers/thunks
		if o := fn.Object(); o != nil && o.Pkg() != nil {
			return strings.HasPrefix(o.Pkg().Path(), RepoMod)
		}
		return false
	}
	return strings.HasPrefix(fn.Pkg.Pkg.Path(), RepoMod)
}

// RepoFuncs returns every repository function with a body (closures included), sorted.
func (w *World) RepoFuncs() []*ssa.Function { return w.repoFns }

// Pkg returns the ssa package for a repository-relative path ("gensign") or full path.
func (w *World) Pkg(path string) *ssa.Package {
	full := path
	if !strings.Contains(path, ".") || !strings.Contains(path, "/") {
		full = RepoMod + "/" + path
	}
	if path == "" {
		full = RepoMod
	}
	p := w.ByPath[full]
	if p == nil {
		p = w.ByPath[path]
	}
	if p == nil || p.Types == nil {
		return nil
	}
	return w.Prog.Package(p.Types)
}

// Func returns the package-level function pkg.name (nil when absent).
func (w *World) Func(pkg, name string) *ssa.Function {
	p := w.Pkg(pkg)
	if p == nil {
		return nil
	}
	return w.Opaque(w.unwrapObserver(p.Func(name)))
}

// Method returns the method name on named type typ (pointer or value receiver) of pkg.
func (w *World) Method(pkg, typ, name string) *ssa.Function {
	p := w.Pkg(pkg)
	if p == nil {
		return nil
	}
	t := p.Type(typ)
	if t == nil {
		return nil
	}
	for _, T := range []types.Type{types.NewPointer(t.Type()), t.Type()} {
		if sel := w.Prog.MethodSets.MethodSet(T).Lookup(p.Pkg, name); sel != nil {
			fn := w.Prog.MethodValue(sel)
			if fn != nil && fn.Synthetic != "" {
				// wrapper for a promoted or value method: return the declared one instead
				if o, ok := sel.Obj().(*types.Func); ok {
					if d := w.Prog.FuncValue(o); d != nil {
						return w.Opaque(w.unwrapObserver(d))
					}
				}
			}
			return w.Opaque(w.unwrapObserver(fn))
		}
	}
	return nil
}

// NamedType returns a named type of a repository package.
func (w *World) NamedType(pkg, typ string) *types.Named {
	p := w.Pkg(pkg)
	if p == nil {
		return nil
	}
	t := p.Type(typ)
	if t == nil {
		return nil
	}
	n, _ := t.Type().(*types.Named)
	return n
}

// Pos formats a position relative to the repository root.
func (w *World) Pos(p token.Pos) string {
	if !p.IsValid() {
		return "-"
	}
	pp := w.Fset.Position(p)
	rel, err := filepath.Rel(w.Dir, pp.Filename)
	if err != nil || strings.HasPrefix(rel, "..") {
		rel = pp.Filename
	}
	return fmt.Sprintf("%s:%d", rel, pp.Line)
}

// FnPos gives the position of a function (declaration or first instruction).
func (w *World) FnPos(fn *ssa.Function) string {
	if fn == nil {
		return "-"
	}
	return w.Pos(fn.Pos())
}

// CallGraph lazily builds the VTA call graph (seeded with CHA).
func (w *World) CallGraph() *callgraph.Graph {
	if w.cg == nil {
		w.cg = vta.CallGraph(w.allFns, cha.CallGraph(w.Prog))
	}
	return w.cg
}

// Callees returns the possible callees of a call instruction: the static callee if any, otherwise VTA's answer.
func (w *World) Callees(call ssa.CallInstruction) []*ssa.Function {
	if f := call.Common().StaticCallee(); f != nil {
		return []*ssa.Function{f}
	}
	cg := w.CallGraph()
	n := cg.Nodes[call.Parent()]
	if n == nil {
		return nil
	}
	var out []*ssa.Function
	seen := map[*ssa.Function]bool{}
	for _, e := range n.Out {
		if e.Site == call && !seen[e.Callee.Func] {
			seen[e.Callee.Func] = true
			out = append(out, e.Callee.Func)
		}
	}
	sort.Slice(out, func(i, j int) bool { return out[i].String() < out[j].String() })
	return out
}

// Implementers lists named types of the repository (non-test) that implement iface (by pointer or value).
func (w *World) Implementers(iface *types.Interface) []*types.Named {
	var out []*types.Named
	for path, p := range w.ByPath {
		if !strings.HasPrefix(path, RepoMod) || p.Types == nil {
			continue
		}
		sc := p.Types.Scope()
		for _, n := range sc.Names() {
			tn, ok := sc.Lookup(n).(*types.TypeName)
			if !ok || tn.IsAlias() {
				continue
			}
			named, ok := tn.Type().(*types.Named)
			if !ok {
				continue
			}
			if _, isIface := named.Underlying().(*types.Interface); isIface {
				continue
			}
			if types.Implements(named, iface) || types.Implements(types.NewPointer(named), iface) {
				out = append(out, named)
			}
		}
	}
	sort.Slice(out, func(i, j int) bool { return out[i].String() < out[j].String() })
	return out
}

// Facts returns (cached) must-hold branch facts for fn and makes fn the frame of reference of Expr.
func (w *World) Facts(fn *ssa.Function) *Facts {
	if fn != nil {
		w.Focus(fn)
	}
	return w.factsOf(fn)
}

// factsOf: Facts without moving the focus.
func (w *World) factsOf(fn *ssa.Function) *Facts {
	if f, ok := w.facts[fn]; ok {
		return f
	}
	f := computeFacts(fn)
	f.w = w
	w.facts[fn] = f
	return f
}
