package main

import (
	"go/types"

	"golang.org/x/tools/go/ssa"
)

const yubiPkg = "agent/yubiagent"

// methodsOf returns declared methods (with bodies) of a named type of pkg.
func (w *World) methodsOf(pkg, typ string) []*ssa.Function {
	n := w.NamedType(pkg, typ)
	if n == nil {
		return nil
	}
	var out []*ssa.Function
	for i := 0; i < n.NumMethods(); i++ {
		if fn := w.Prog.FuncValue(n.Method(i)); fn != nil && fn.Blocks != nil {
			out = append(out, fn)
		}
	}
	return out
}

// yubiServeEntries: functions that process bytes received from a peer of the served connection.
func yubiServeEntries(w *World) []*ssa.Function {
	var entries []*ssa.Function
	if f := w.Func(yubiPkg, "ServeAgent"); f != nil {
		entries = append(entries, f)
	}
	entries = append(entries, w.methodsOf(yubiPkg, "server")...)
	entries = append(entries, w.methodsOf(yubiPkg, "forwarder")...)
	m := resolveShim(w)
	if m.Server != nil {
		for _, fn := range m.Methods {
			if fn.Object() != nil && fn.Object().Exported() {
				entries = append(entries, fn)
			}
		}
	}
	return entries
}

var _ = types.Identical
