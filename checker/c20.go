package main

import (
	"go/token"
	"go/types"
	"sort"
	"strings"

	"golang.org/x/tools/go/ssa"
)

func init() {
	register(&property{
		ID: "C20",
		Meta: propMeta{
			Level:       "Structural necessary conditions of the wait/wake-up mechanism: (R1) in Wait and Broadcast every index into the condition table carries the must-fact code < table length, the out-of-range path returns nil without any blocking call, and the constructor initialises every table entry (full forward range, non-nil sync.NewCond); (R2) Wait blocks on the entry's condition variable with that entry's own lock held (acquired on the same index) and Broadcast calls Cond.Broadcast - not Signal - on the entry of the same index value; (R3) in the request loop every path from a successful read to the dispatch passes Broadcast(code of the request) on the served shim unless a type test showed the agent is not a shim server; the wait arm waits on the second request byte; the client's Wait sends [wait-code, code]; (R4) every message-code constant is below the table length. Lost wake-ups relative to registration order and scheduling are not decided.",
			Technique:   "static analysis: interval must-facts for the index, typestate (lock held at Cond.Wait) and must-pass-through on go/ssa",
			Explanation: "The condition table is the [N]*sync.Cond field of the shim server (by type). Wait/Broadcast are the server methods that call (*sync.Cond).Wait / Broadcast. The request loop is yubiagent.ServeAgent; its dispatch point is the first comparison of the request's first byte with a constant.",
			Assumptions: []string{"sync.Cond semantics (Wait requires L held; Broadcast wakes all waiters)"},
			Trusted:     []string{"go/packages", "go/types", "go/ssa", "sync"},
			RuleDoc: map[string]string{
				"R1.index": "bounded index, non-blocking out-of-range path, full initialisation",
				"R2.cond":  "Wait under the entry's lock, Broadcast not Signal, same index",
				"R3.loop":  "broadcast of every request's code before dispatch; wait arm and client request",
				"R4.codes": "message codes below the table length",
			},
		},
		Run: runC20,
	})
}

func runC20(c *Ctx) {
	w := c.w
	m := resolveShim(w)
	for _, p := range m.problems {
		c.Unresolved("R1.index", p)
	}
	if m.Server == nil || m.fConds == "" {
		return
	}
	tablesC20(c)
	// table length
	var tableLen int64 = -1
	st := m.Owner(m.fConds).Underlying().(*types.Struct)
	for i := 0; i < st.NumFields(); i++ {
		if st.Field(i).Name() == m.fConds {
			tableLen = st.Field(i).Type().Underlying().(*types.Array).Len()
		}
	}
	// methods calling Cond.Wait / Cond.Broadcast / Cond.Signal
	// (the operations of the agent interface: exported, one byte parameter, an error result; a method that merely
	// calls one of them is a caller, judged below)
	var waitFn, bcastFn *ssa.Function
	var names []string
	for n := range m.Methods {
		names = append(names, n)
	}
	sort.Strings(names)
	isOp := func(fn *ssa.Function) bool {
		sig := fn.Signature
		if !token.IsExported(fn.Name()) || sig.Params().Len() != 1 || sig.Results().Len() != 1 || !isErrorType(sig.Results().At(0).Type()) {
			return false
		}
		bt, ok := sig.Params().At(0).Type().Underlying().(*types.Basic)
		return ok && bt.Kind() == types.Uint8
	}
	for _, n := range names {
		fn := m.Methods[n]
		if !isOp(fn) {
			continue
		}
		for _, call := range w.callsInDeep(fn) {
			switch condOpName(w, fn, call) {
			case "(*sync.Cond).Wait":
				waitFn = fn
			case "(*sync.Cond).Broadcast", "(*sync.Cond).Signal":
				bcastFn = fn
			}
		}
	}
	if waitFn == nil || bcastFn == nil {
		c.Unresolved("R2.cond", "server methods calling Cond.Wait and Cond.Broadcast")
		return
	}
	for _, fn := range []*ssa.Function{waitFn, bcastFn} {
		c.Saw(fn)
		name := fn.Name()
		f := w.Facts(fn)
		// R1: bounds of every index into the table
		n := 0
		c.BoundsFns[fn.String()] = true
		var withHelpers []*ssa.Function
		for _, tf := range w.Tree(fn) {
			if tf == fn || (w.transparent(tf) && tf.Parent() == nil) {
				withHelpers = append(withHelpers, tf)
			}
		}
		for _, s := range w.BoundsObligations(withHelpers, nil) {
			if s.Kind != "index" {
				continue
			}
			n++
			c.Check(s.OK, "R1.index", name+"|table index "+s.Expr, w.Pos(s.Instr.Pos()), s.Why, "the condition table can be indexed out of range: "+s.Why)
		}
		c.Floor("R1.index", n, 1, "indexes into the condition table in "+name)
		// every cond call is under msg < len
		inRange := func(b *ssa.BasicBlock) bool {
			return f.Any(b, func(l Lit) bool {
				bin, ok := l.V.(*ssa.BinOp)
				if !ok {
					return false
				}
				k, isK := intConst(bin.Y)
				if !isK || w.Expr(widenStrip(bin.X)) != "p1" {
					return false
				}
				return (bin.Op == token.LSS && l.Pol && k <= tableLen) || (bin.Op == token.GEQ && !l.Pol && k <= tableLen) || (bin.Op == token.LEQ && l.Pol && k < tableLen)
			})
		}
		// an in-range code always wakes the waiters: from where the code is known to be in range no return is reachable
		// without the Cond.Broadcast call (a try-lock that gives up, a "nobody can be waiting" shortcut)
		{
			opName, what, why := "(*sync.Cond).Broadcast", "an in-range code always broadcasts", "a request that arrives at that moment does not release the clients waiting for its code"
			if fn == waitFn {
				// ... and a client waiting for a supported code always waits for the next request with it: no return from the
				// in-range edge without Cond.Wait (a "seen recently" shortcut releases it by a request that came before)
				opName, what, why = "(*sync.Cond).Wait", "an in-range code always waits", "the client is released by something other than the next request with its code"
			}
			var barrier ssa.Instruction
			for _, call := range w.callsInDeep(fn) {
				if condOpName(w, fn, call) == opName {
					barrier = call.(ssa.Instruction)
					if barrier.Parent() != fn {
						barrier = nil
						if sites := w.sitesIn(fn, call.Parent()); len(sites) == 1 {
							if si, ok := sites[0].(ssa.Instruction); ok && si.Parent() == fn {
								barrier = si
							}
						}
					}
				}
			}
			if barrier != nil {
				skipped := ""
				for _, b := range fn.Blocks {
					if !inRange(b) || len(b.Instrs) == 0 {
						continue
					}
					entry := false
					for _, p := range b.Preds {
						if !inRange(p) {
							entry = true
						}
					}
					if !entry {
						continue
					}
					reach := ReachableAvoiding(b.Instrs[0], map[ssa.Instruction]bool{barrier: true})
					for _, r := range liveReturns(fn) {
						if fn.Recover != nil && r.Block() == fn.Recover {
							continue
						}
						if reach(r) {
							skipped = w.Pos(r.Pos())
						}
					}
				}
				c.Check(skipped == "", "R2.cond", name+"|"+what, w.Pos(barrier.Pos()), "no return is reachable from the in-range edge without "+shortName(opName), "for a supported code the operation can return (at "+skipped+") without calling "+shortName(opName)+": "+why)
			}
		}
		for _, r := range liveReturns(fn) {
			okNil := len(r.Results) > 0
			if !okNil {
				continue
			}
			for _, lf := range w.LeavesErr(r.Results[0], r) {
				if !isNilConst(lf.Val) {
					okNil = false
				}
			}
			if !inRange(r.Block()) {
				// the out-of-range path (or the merge): must not have passed a blocking call unconditionally
				c.Check(okNil, "R1.index", name+"|returns nil", w.Pos(r.Pos()), "nil", "an out-of-range code is not answered with nil")
			}
		}
		for _, call := range w.callsInDeep(fn) {
			nm := calleeName(call)
			if cn := condOpName(w, fn, call); cn != "" {
				nm = cn
			}
			if strings.HasPrefix(nm, "(*sync.Cond).") || strings.HasSuffix(nm, "sync.Locker).Lock") {
				if _, isDefer := call.(*ssa.Defer); isDefer {
					continue
				}
				c.Check(inRange(call.Block()), "R1.index", name+"|"+shortName(nm)+" only for supported codes", w.Pos(call.Pos()), "must-fact code < table length", "a blocking / locking call is reachable for a code outside the table")
			}
		}
	}
	// who may wake waiters: the condition variables are signalled by the broadcast operation only, and that operation
	// has no caller inside the repository other than the serve loop (which calls it through the agent interface with
	// the request's own code) - anything else releases waiters of codes no request carried
	for _, fn := range w.RepoFuncs() {
		for _, call := range callsIn(fn) {
			switch calleeName(call) {
			case "(*sync.Cond).Broadcast", "(*sync.Cond).Signal":
				c.Check(fn == bcastFn || w.inTree(bcastFn, fn), "R2.cond", "condition signalled only by the broadcast operation ("+shortFn(fn)+")", w.Pos(call.Pos()), "inside "+shortFn(bcastFn), "a condition variable of the table is signalled outside the broadcast operation: waiters are released by something other than a request with their code")
			}
			if sv := w.Func(yubiPkg, "ServeAgent"); call.Common().StaticCallee() == bcastFn && !(sv != nil && (fn == sv || w.inTree(sv, fn))) {
				c.Bad("R2.cond", "broadcast operation called only by the serve loop ("+shortFn(fn)+")", w.Pos(call.Pos()), shortFn(fn)+" calls the broadcast operation itself: waiters are released without a request carrying their code")
			}
		}
	}
	c.Ok("R2.cond", "broadcast operation called only by the serve loop", w.FnPos(bcastFn), "no static call of "+shortFn(bcastFn)+" outside the serve loop (whose call R3.loop judges)")
	// R2
	checkCondUse(c, m, waitFn, "(*sync.Cond).Wait", true)
	checkCondUse(c, m, bcastFn, "(*sync.Cond).Broadcast", false)
	for _, call := range w.callsInDeep(bcastFn) {
		if condOpName(w, bcastFn, call) == "(*sync.Cond).Signal" {
			c.Bad("R2.cond", bcastFn.Name()+"|Broadcast not Signal", w.Pos(call.Pos()), "Cond.Signal wakes a single waiter: the other clients waiting for the same code stay blocked")
		}
	}
	// constructor initialisation
	okInit := false
	type initStore struct {
		st *ssa.Store
		fn *ssa.Function
	}
	var inits []initStore
	for _, a := range w.FieldAccesses(m.Owner(m.fConds), m.fConds) {
		if st, ok := a.Instr.(*ssa.Store); ok && a.Kind == "write" {
			inits = append(inits, initStore{st, a.Fn})
		}
	}
	// ... or the table is filled in a local value of a constructor function whose result is stored into the server
	// (a named table type or a helper struct returned by value)
	{
		var tblType types.Type
		ost := m.Owner(m.fConds).Underlying().(*types.Struct)
		for i := 0; i < ost.NumFields(); i++ {
			if ost.Field(i).Name() == m.fConds {
				tblType = ost.Field(i).Type()
			}
		}
		stored := func(h *ssa.Function) bool {
			// h's result reaches a field of the server (or of the table's owner) by a plain store
			for _, site := range w.callSites(h) {
				cv, ok := site.(*ssa.Call)
				if !ok || cv.Referrers() == nil {
					continue
				}
				for _, r := range *cv.Referrers() {
					if st, isSt := r.(*ssa.Store); isSt && st.Val == ssa.Value(cv) {
						if fa, isFA := st.Addr.(*ssa.FieldAddr); isFA {
							if n := derefNamedT(fa.X.Type()); n == m.Server || n == m.Owner(m.fConds) {
								return true
							}
						}
					}
				}
			}
			return false
		}
		for _, h := range w.FuncsOfPkg(shimPkg) {
			if h.Signature.Recv() != nil || h.Parent() != nil || tblType == nil {
				continue
			}
			for _, b := range h.Blocks {
				for _, ins := range b.Instrs {
					st, ok := ins.(*ssa.Store)
					if !ok {
						continue
					}
					ia, ok := st.Addr.(*ssa.IndexAddr)
					if !ok {
						continue
					}
					base := ia.X
					if fa, isFA := base.(*ssa.FieldAddr); isFA && fieldName(fa.X.Type(), fa.Field) == m.fConds {
						base = fa.X
					}
					a, isAlloc := base.(*ssa.Alloc)
					if !isAlloc {
						continue
					}
					el := a.Type().(*types.Pointer).Elem()
					if !(types.Identical(el, tblType) || types.Identical(el, m.Owner(m.fConds))) || !stored(h) {
						continue
					}
					// the local is what the function returns
					ret := false
					for _, r := range liveReturns(h) {
						if len(r.Results) == 1 {
							if ld, isLd := strip(r.Results[0]).(*ssa.UnOp); isLd && ld.X == ssa.Value(a) {
								ret = true
							}
						}
					}
					if ret {
						inits = append(inits, initStore{st, h})
					}
				}
			}
		}
	}
	for _, a := range inits {
		st := a.st
		ia, ok := st.Addr.(*ssa.IndexAddr)
		if !ok {
			continue
		}
		cv, isCall := st.Val.(*ssa.Call)
		full := false
		if isForwardRangeIndex(ia.Index) {
			// the loop bound is the table length
			f := w.Facts(a.fn)
			full = f.Any(st.Block(), func(l Lit) bool {
				bin, ok := l.V.(*ssa.BinOp)
				if !ok || !l.Pol || bin.Op != token.LSS || bin.X != ia.Index {
					return false
				}
				k, isK := intConst(bin.Y)
				return isK && k == tableLen
			})
			// no other branch in the loop: apart from the loop condition the store's block knows nothing more
			// than the loop header does
			var header *ssa.BasicBlock
			if bin, ok := ia.Index.(*ssa.BinOp); ok {
				header = bin.Block()
			}
			if phi, ok := ia.Index.(*ssa.Phi); ok {
				// hand-written loop: the condition is tested in the phi's block; what holds before the loop is what
				// holds in the block that enters it
				for i, e := range phi.Edges {
					if k, isK := intConst(e); isK && k == 0 {
						header = phi.Block().Preds[i]
					}
				}
			}
			for l := range f.Primary(st.Block()) {
				if header != nil && f.Primary(header)[l] {
					continue
				}
				if bin, ok := l.V.(*ssa.BinOp); ok && bin.Op == token.LSS && bin.X == ia.Index {
					continue
				}
				full = false
			}
		}
		if isCall && calleeName(cv) == "sync.NewCond" && full {
			okInit = true
		}
		// the entry's lock is a lock of its own: a condition variable built over a lock that operations hold while they wait
		// for the underlying agent (the server's state lock, its read side, a package-level lock) makes Broadcast - and
		// with it the release of the waiters - wait for those operations
		if isCall && calleeName(cv) == "sync.NewCond" && len(cv.Call.Args) == 1 {
			w.condOwner = m.Owner(m.fConds)
			shared := sharedLockOrigin(w, cv.Call.Args[0], 0)
			c.Check(shared == "", "R2.cond", "constructor|every entry has a lock of its own", w.Pos(cv.Pos()), "sync.NewCond over a lock allocated for the entry", "the condition variables are built over "+shared+": broadcasting a code blocks while any operation holds that lock, so a request no longer releases the waiters on receipt")
		}
		c.Check(isCall && calleeName(cv) == "sync.NewCond" && full, "R1.index", "constructor|every table entry initialised", w.Pos(st.Pos()), "conds[i] = sync.NewCond(...) for i over the whole table", "the condition table is not fully initialised with non-nil condition variables (a nil entry panics in Wait)")
	}
	// the table is written only while the server is being constructed: the writing function is a constructor
	// (no receiver) or is called from constructors only
	for _, a := range w.FieldAccesses(m.Owner(m.fConds), m.fConds) {
		if a.Kind != "write" && a.Kind != "addr" && a.Kind != "addrcall" {
			continue
		}
		okCtor := a.Fn.Signature.Recv() == nil && a.Fn.Parent() == nil
		if !okCtor {
			okCtor = true
			nCallers := 0
			for _, fn := range w.RepoFuncs() {
				for _, call := range callsIn(fn) {
					if call.Common().StaticCallee() == a.Fn {
						nCallers++
						if fn.Signature.Recv() != nil || fn.Parent() != nil {
							okCtor = false
						}
					}
				}
			}
			if nCallers == 0 {
				okCtor = false
			}
		}
		c.Check(okCtor, "R1.index", "condition table written only during construction ("+shortFn(a.Fn)+")", w.Pos(a.Instr.Pos()), "constructor", "the condition variables are replaced after construction: clients already waiting on the old ones are never woken")
	}
	if !okInit {
		c.Bad("R1.index", "constructor|every table entry initialised", "-", "no initialisation loop over the condition table was found")
	}

	// R3
	serve := w.Func(yubiPkg, "ServeAgent")
	if serve == nil {
		c.Unresolved("R3.loop", "yubiagent.ServeAgent")
		return
	}
	c.Saw(serve)
	var bc *ssa.Call
	w.Focus(serve)
	for _, call := range w.callsInDeep(serve) {
		if cv, ok := call.(*ssa.Call); ok && cv.Call.StaticCallee() == bcastFn {
			bc = cv
		}
	}
	if bc == nil {
		c.Bad("R3.loop", "ServeAgent|broadcasts the request code", w.FnPos(serve), "the request loop no longer broadcasts the code of received requests: waiters are never released")
		return
	}
	okArg := strings.HasSuffix(w.Expr(bc.Call.Args[1]), "yubiagent.read>(p1)#0[const(0)]")
	c.Check(okArg, "R3.loop", "ServeAgent|broadcast code is the request's first byte", w.Pos(bc.Pos()), "Broadcast(req[0])", "the code broadcast is not the first byte of the request just read: "+w.Short(bc.Call.Args[1]))
	// the work of a request (every block that only some request codes reach and that does more than test the code)
	// is preceded, within its iteration, by the broadcast or by a failed shim-server type test
	wire := newWireView(w)
	if wire.flow == nil || wire.flow.tests == 0 {
		c.Unresolved("R3.loop", "dispatch on the request's first byte in ServeAgent")
		return
	}
	okAll, why := c20BroadcastPrecedes(w, wire, serve, bc)
	c.Check(okAll, "R3.loop", "ServeAgent|broadcast precedes dispatch on every path", w.Pos(bc.Pos()), "every path from the read of a request to the work of an arm passes the broadcast or a failed shim-server type test", "a request can be dispatched without its code having been broadcast first (or the broadcast happens after dispatch)"+why)
	// broadcast is not restricted to some codes: facts at the broadcast contain no comparison of req[0]
	restricted := !wire.flow.At(bc).full()
	c.Check(!restricted, "R3.loop", "ServeAgent|every code is broadcast", w.Pos(bc.Pos()), "the broadcast does not depend on the code", "only some request codes are broadcast")
	// wait arm
	nWait := 0
	w.Focus(serve)
	for _, cv := range w.invokeOfDeep(serve, "Wait") {
		nWait++
		c.Check(strings.HasSuffix(w.Expr(cv.Call.Args[0]), "yubiagent.read>(p1)#0[const(1)]"), "R3.loop", "ServeAgent|wait arm waits for the requested code", w.Pos(cv.Pos()), "agent.Wait(req[1])", "the wait arm does not wait on the second request byte: "+w.Short(cv.Call.Args[0]))
	}
	c.Floor("R3.loop", nWait, 1, "agent.Wait invoke in ServeAgent")
	// a wait request never crashes the service: the index / slice / assertion obligations of the code that runs only
	// for the wait code (the arm of the agent.Wait invoke) are discharged like C12's
	{
		var waitSet bset
		for _, cv := range w.invokeOfDeep(serve, "Wait") {
			waitSet = wire.flow.At(cv)
		}
		nArm := 0
		if !waitSet.empty() && !waitSet.full() {
			var armFns []*ssa.Function
			for _, tf := range w.Tree(serve) {
				if tf == serve || w.transparent(tf) {
					armFns = append(armFns, tf)
				}
			}
			var sites []panicSite
			for _, s := range w.BoundsObligations(armFns, commonJust) {
				if wire.flow.At(s.Instr) == waitSet {
					sites = append(sites, s)
				}
			}
			nArm = reportSites(c, "R3.loop", sites)
		}
		c.Floor("R3.loop", nArm, 1, "index / slice obligations in the wait arm of ServeAgent")
	}
	// client request
	if cw := w.Method(yubiPkg, "client", "Wait"); cw != nil {
		c.Saw(cw)
		ok := clientWaitCarriesCode(w, cw)
		c.Check(ok, "R3.loop", "client.Wait|request carries the code", w.FnPos(cw), "append([]byte{wait}, code)", "the client's wait request does not carry the caller's code")
	} else {
		c.Unresolved("R3.loop", "(*yubiagent.client).Wait")
	}
}

// findStoreOf: the value v (an append of varargs arrays) contains expression want among the appended elements.
// widenStrip looks through integer conversions that preserve the value (byte -> int, ...).
func widenStrip(v ssa.Value) ssa.Value {
	for i := 0; i < 4; i++ {
		cv, ok := strip(v).(*ssa.Convert)
		if !ok || !widening(cv.X.Type(), cv.Type()) {
			return strip(v)
		}
		v = cv.X
	}
	return v
}

func findStoreOf(w *World, v ssa.Value, want string) bool {
	call, ok := v.(*ssa.Call)
	if !ok {
		return false
	}
	for _, a := range call.Call.Args {
		if sl, ok := a.(*ssa.Slice); ok {
			if al, ok := sl.X.(*ssa.Alloc); ok {
				for _, sv := range storesInto(al) {
					if w.Expr(sv) == want {
						return true
					}
				}
			}
		}
		if w.Expr(a) == want {
			return true
		}
	}
	return false
}

// checkCondUse: the Cond method is called on table[p1]; for Wait the entry's L is locked on the same index before.
func checkCondUse(c *Ctx, m *shimModel, fn *ssa.Function, method string, needLock bool) {
	w := c.w
	n := 0
	w.Focus(fn)
	for _, call := range w.callsInDeep(fn) {
		if condOpName(w, fn, call) != method {
			continue
		}
		if _, isDefer := call.(*ssa.Defer); isDefer {
			continue
		}
		n++
		recv := w.Expr(call.Common().Args[0])
		want := "p0." + m.fConds + "[p1]"
		// ... possibly inside the helper type of the server that holds the table
		isWant := func(ex string) bool {
			if ex == want {
				return true
			}
			rest := strings.TrimPrefix(ex, "p0.")
			if rest == ex || !strings.HasSuffix(rest, "."+m.fConds+"[p1]") {
				return false
			}
			mid := strings.TrimSuffix(rest, "."+m.fConds+"[p1]")
			return mid != "" && !strings.ContainsAny(mid, ".[(") && m.Owner(m.fConds) != m.Server
		}
		okRecv := isWant(recv)
		if !okRecv {
			// handed back by a lookup helper: every non-nil value it can yield here is that entry
			n := 0
			okRecv = true
			for _, lf := range w.Leaves(call.Common().Args[0], call.(ssa.Instruction)) {
				if isNilConst(strip(lf.Val)) {
					continue
				}
				n++
				if !isWant(w.ExprIn(fn, lf.Val)) {
					okRecv = false
				}
			}
			okRecv = okRecv && n > 0
		}
		condVal := call.Common().Args[0]
		c.Check(okRecv, "R2.cond", fn.Name()+"|"+shortName(method)+" on the entry of the given code", w.Pos(call.Pos()), want, "the condition variable used is not the table entry of the method's code: "+recv)
		if needLock {
			okLock := false
			for _, lc := range w.callsInDeep(fn) {
				if _, isDefer := lc.(*ssa.Defer); isDefer {
					continue
				}
				sameCond := func(v ssa.Value) bool {
					// the L field of the very value Wait is called on
					ld, ok := strip(v).(*ssa.UnOp)
					if !ok {
						return false
					}
					fa, ok := ld.X.(*ssa.FieldAddr)
					return ok && fieldName(fa.X.Type(), fa.Field) == "L" && strip(fa.X) == strip(condVal)
				}
				if strings.HasSuffix(calleeName(lc), "sync.Locker).Lock") && ((strings.HasSuffix(w.Expr(lc.Common().Value), ".L") && isWant(strings.TrimSuffix(w.Expr(lc.Common().Value), ".L"))) || (okRecv && sameCond(lc.Common().Value))) {
					if li, ok := lc.(ssa.Instruction); ok && li.Parent() == call.Parent() && InstrDominates(li, call) {
						// not released before the wait
						released := false
						for _, uc := range w.callsInDeep(fn) {
							if _, isDefer := uc.(*ssa.Defer); isDefer {
								continue
							}
							if strings.HasSuffix(calleeName(uc), "sync.Locker).Unlock") && uc.Parent() == call.Parent() && InstrDominates(li, uc) && InstrDominates(uc, call) {
								released = true
							}
						}
						okLock = !released
					}
				}
			}
			c.Check(okLock, "R2.cond", fn.Name()+"|Cond.Wait with the entry's lock held", w.Pos(call.Pos()), "conds[code].L.Lock() dominates the wait", "Cond.Wait is called without holding that entry's own lock (sync.Cond requires it; otherwise it panics or misses wake-ups)")
		}
	}
	c.Floor("R2.cond", n, 1, shortName(method)+" call in "+fn.Name())
	if needLock {
		// all waiters of a code are released together: a waiter does not write state that the other waiters of the
		// same code read (a flag reset on entry makes the woken waiters go back to sleep when a new one arrives)
		nSt := 0
		for _, tf := range w.Tree(fn) {
			if tf != fn && !w.transparent(tf) {
				continue
			}
			for _, b := range tf.Blocks {
				for _, ins := range b.Instrs {
					st, ok := ins.(*ssa.Store)
					if !ok {
						continue
					}
					root := st.Addr
					for hop := 0; hop < 6; hop++ {
						switch x := root.(type) {
						case *ssa.FieldAddr:
							root = x.X
							continue
						case *ssa.IndexAddr:
							root = x.X
							continue
						case *ssa.UnOp:
							root = x.X
							continue
						}
						break
					}
					if w.canon(fn, root) == ssa.Value(fn.Params[0]) {
						nSt++
						c.Bad("R2.cond", fn.Name()+"|a waiter writes no state shared with the other waiters", w.Pos(st.Pos()), "the waiting method stores into the server ("+w.ExprIn(fn, st.Addr)+"): state read by the other waiters of the same code is reset by a newcomer, so a wake-up can be lost")
					}
				}
			}
		}
		if nSt == 0 {
			c.Ok("R2.cond", fn.Name()+"|a waiter writes no state shared with the other waiters", w.FnPos(fn), "no store through the receiver in the waiting method")
		}
	}
}

// failedAssertEdge: control goes from p to s because a comma-ok type assertion failed.
func failedAssertEdge(w *World, p, s *ssa.BasicBlock) bool {
	for l := range w.factsOnEdge(p, s) {
		if ex, ok := l.V.(*ssa.Extract); ok && !l.Pol && ex.Index == 1 {
			if ta, ok := ex.Tuple.(*ssa.TypeAssert); ok && ta.CommaOk {
				return true
			}
		}
	}
	return false
}

// c20BroadcastPrecedes: see the rule text. Both the broadcast and the work may sit in helpers: each is lifted to the
// function they share (through unique call sites), where the path condition is decided; a helper holding the
// broadcast must have performed it (or failed the type test) on each of its returns.
func c20BroadcastPrecedes(w *World, wire *wireView, serve *ssa.Function, bc *ssa.Call) (bool, string) {
	flow := wire.flow
	type level struct {
		fn  *ssa.Function
		ins ssa.Instruction
	}
	lift := func(ins ssa.Instruction) ([]level, bool) {
		out := []level{{ins.Parent(), ins}}
		for hop := 0; hop < 4 && out[len(out)-1].fn != serve; hop++ {
			h := out[len(out)-1].fn
			if h.Parent() != nil {
				return out, false // inside a closure: not followed
			}
			sites := w.sitesIn(serve, h)
			if len(sites) != 1 {
				return out, false
			}
			out = append(out, level{sites[0].Parent(), sites[0]})
		}
		return out, out[len(out)-1].fn == serve
	}
	bchain, ok := lift(bc)
	if !ok {
		return false, ": the broadcast sits in a helper with several call sites"
	}
	// a helper holding the broadcast has performed it, or failed the type test, on each of its returns
	for _, lv := range bchain[:len(bchain)-1] {
		h := lv.fn
		hf := w.factsOf(h)
		for _, r := range liveReturns(h) {
			if MustPassFromEntry(h, r, map[ssa.Instruction]bool{lv.ins: true}) {
				continue
			}
			hasFailed := func(facts map[Lit]bool) bool {
				for l := range facts {
					if ex, ok := l.V.(*ssa.Extract); ok && !l.Pol && ex.Index == 1 {
						if ta, ok := ex.Tuple.(*ssa.TypeAssert); ok && ta.CommaOk {
							return true
						}
					}
				}
				return false
			}
			failed := hasFailed(hf.Local(r.Block()))
			if !failed && len(r.Block().Preds) > 0 && len(r.Block().Instrs) == 1 {
				failed = true
				for _, p := range r.Block().Preds {
					if !failedAssertEdge(w, p, r.Block()) {
						failed = false
					}
				}
			}
			if !failed {
				return false, ": " + shortFn(h) + " can return without having broadcast"
			}
		}
	}
	inB := map[*ssa.Function]ssa.Instruction{}
	for _, lv := range bchain {
		inB[lv.fn] = lv.ins
	}
	var head *ssa.BasicBlock
	for _, b := range serve.Blocks {
		for _, ins := range b.Instrs {
			if call, ok := ins.(*ssa.Call); ok && wire.rd != nil && call.Call.StaticCallee() == wire.rd {
				head = b
			}
		}
	}
	if head == nil {
		return false, ": the read of the request was not found"
	}
	// reachable: target can be reached from start without passing site and without a failed type test
	reachable := func(start *ssa.BasicBlock, site ssa.Instruction, target ssa.Instruction) bool {
		seen := map[*ssa.BasicBlock]bool{}
		var visit func(b *ssa.BasicBlock, first bool) bool
		visit = func(b *ssa.BasicBlock, first bool) bool {
			if seen[b] {
				return false
			}
			seen[b] = true
			for _, ins := range b.Instrs {
				if ins == site {
					return false
				}
				if ins == target {
					return true
				}
			}
			for _, s := range b.Succs {
				if s == head || failedAssertEdge(w, b, s) {
					continue
				}
				if visit(s, false) {
					return true
				}
			}
			return false
		}
		return visit(start, true)
	}
	n := 0
	for _, g := range w.Tree(serve) {
		if g != serve && pureHelper(g) {
			continue // a function that only names the code (for a log line) is not work of an arm
		}
		for _, b := range g.Blocks {
			s := flow.in[b]
			if !flow.known[b] || s.empty() || s.full() || !effectful(b) {
				continue
			}
			var first ssa.Instruction
			for _, ins := range b.Instrs {
				if _, isPhi := ins.(*ssa.Phi); !isPhi {
					first = ins
					break
				}
			}
			if first == nil {
				continue
			}
			n++
			var preceded func(ins ssa.Instruction, depth int) (bool, string)
			preceded = func(ins ssa.Instruction, depth int) (bool, string) {
				g := ins.Parent()
				if site, shared := inB[g]; shared {
					start := g.Blocks[0]
					if g == serve {
						start = head
					}
					if ins == site || reachable(start, site, ins) {
						return false, "can be reached without the broadcast"
					}
					return true, ""
				}
				if depth > 4 || g == serve || g.Parent() != nil {
					return false, "could not be related to the broadcast"
				}
				sites := w.sitesIn(serve, g)
				if len(sites) == 0 || w.dynCallable(g) {
					return false, "sits in a helper whose callers are not all known"
				}
				for _, s := range sites {
					if ok, why := preceded(s, depth+1); !ok {
						return false, why
					}
				}
				return true, ""
			}
			if ok, why := preceded(first, 0); !ok {
				return false, ": the arm work at " + w.Pos(first.Pos()) + " " + why
			}
		}
	}
	if n == 0 {
		return false, ": no arm work found"
	}
	return true, ""
}

// condOpName: the sync.Cond operation that call performs when it is reached from root: a static call of a Cond method,
// or a call of a function-valued parameter of a helper on root's tree that root's own call of the helper binds to a
// Cond method expression (Wait and Broadcast sharing withCond(msg, (*sync.Cond).Wait)). "" otherwise.
func condOpName(w *World, root *ssa.Function, call ssa.CallInstruction) string {
	n := calleeName(call)
	if strings.HasPrefix(n, "(*sync.Cond).") {
		return n
	}
	if n != "dynamic" {
		return ""
	}
	p, ok := call.Common().Value.(*ssa.Parameter)
	if !ok {
		return ""
	}
	h := p.Parent()
	sites := w.sitesIn(root, h)
	if len(sites) != 1 || paramIndex(p) >= len(sites[0].Common().Args) {
		return ""
	}
	if f, ok := throughCell(strip(sites[0].Common().Args[paramIndex(p)])).(*ssa.Function); ok {
		if fn := fnName(f); strings.HasPrefix(fn, "(*sync.Cond).") {
			return fn
		}
	}
	return ""
}

// sharedLockOrigin names the field or package-level variable a sync.Locker value is taken from ("" when it is allocated
// where it is used, or comes from something this does not follow).
func sharedLockOrigin(w *World, v ssa.Value, depth int) string {
	if depth > 6 {
		return ""
	}
	switch x := strip(v).(type) {
	case *ssa.MakeInterface:
		return sharedLockOrigin(w, x.X, depth+1)
	case *ssa.ChangeInterface:
		return sharedLockOrigin(w, x.X, depth+1)
	case *ssa.FieldAddr:
		et := x.X.Type()
		if pt, ok := et.Underlying().(*types.Pointer); ok {
			et = pt.Elem()
		}
		// a field of a per-entry value allocated where the entry is built is the entry's own lock
		if al, isAl := strip(x.X).(*ssa.Alloc); isAl && !types.Identical(et, w.condOwner) && al.Block() == x.Block() {
			return ""
		}
		if st, _ := et.Underlying().(*types.Struct); st != nil {
			return "the field " + st.Field(x.Field).Name() + " of " + shortName(et.String())
		}
	case *ssa.Field:
		return sharedLockOrigin(w, x.X, depth+1)
	case *ssa.Global:
		return "the package-level variable " + x.Name()
	case *ssa.UnOp:
		if x.Op == token.MUL {
			return sharedLockOrigin(w, x.X, depth+1)
		}
	case *ssa.Call:
		if callee := x.Call.StaticCallee(); callee != nil && !x.Call.IsInvoke() {
			if n := calleeName(x); n == "(*sync.RWMutex).RLocker" && len(x.Call.Args) == 1 {
				return sharedLockOrigin(w, x.Call.Args[0], depth+1)
			}
			if w.InRepo(callee) && callee.Blocks != nil {
				for _, b := range callee.Blocks {
					if r, ok := b.Instrs[len(b.Instrs)-1].(*ssa.Return); ok && len(r.Results) == 1 {
						if s := sharedLockOrigin(w, r.Results[0], depth+1); s != "" {
							return s
						}
					}
				}
			}
		}
	}
	return ""
}

// clientWaitCarriesCode: the request the client's Wait sends is [wait code, <its parameter>] - the caller's code as the
// second byte, as it is (append([]byte{wait}, code), []byte{wait, code}, or any byte sequence with those two parts).
func clientWaitCarriesCode(w *World, cw *ssa.Function) bool {
	ok := false
	var reqv0 ssa.Value
	w.Focus(cw)
	for _, call := range w.callsInDeep(cw) {
		if callee := call.Common().StaticCallee(); callee != nil && callee == clientExchange(w) {
			reqv := w.canon(cw, call.Common().Args[len(call.Common().Args)-1])
			reqv0 = reqv
			ex := w.Expr(reqv)
			// append([1]byte{wait}[:], code)
			ok = strings.Contains(ex, "builtin:append") && findStoreOf(w, reqv, "p1")
			// or the two-byte literal []byte{wait, code}
			if sl, isSl := reqv.(*ssa.Slice); isSl && !ok {
				if al, isAl := sl.X.(*ssa.Alloc); isAl && arrayLen(al.Type()) == 2 {
					if refs := al.Referrers(); refs != nil {
						for _, r := range *refs {
							if ia, isIA := r.(*ssa.IndexAddr); isIA {
								if k, isK := intConst(ia.Index); isK && k == 1 {
									if rr := ia.Referrers(); rr != nil {
										for _, u := range *rr {
											if st, isSt := u.(*ssa.Store); isSt && w.Expr(st.Val) == "p1" {
												ok = true
											}
										}
									}
								}
							}
						}
					}
				}
			}
		}
	}
	if !ok && reqv0 != nil {
		if parts, isSeq := w.byteSeq(cw, reqv0, 0); isSeq && len(parts) == 2 && parts[0].one != nil && parts[1].one != nil {
			_, isK := intConst(w.canon(cw, parts[0].one))
			ok = isK && w.Expr(parts[1].one) == "p1"
		}
	}
	return ok
}
