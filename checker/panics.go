package main

import (
	"fmt"
	"go/token"
	"go/types"
	"math"
	"os"
	"sort"
	"strings"

	"golang.org/x/tools/go/ssa"
)

// ---- reachable repository functions ----

// ReachableRepo returns the repository functions reachable from entries through static calls,
// closures and VTA-resolved dynamic calls (repository targets only), sorted by name.
func (w *World) ReachableRepo(entries []*ssa.Function, useVTA bool) []*ssa.Function {
	seen := map[*ssa.Function]bool{}
	var work []*ssa.Function
	push := func(f *ssa.Function) {
		if f == nil || seen[f] || f.Blocks == nil || !w.InRepo(f) {
			return
		}
		seen[f] = true
		work = append(work, f)
	}
	for _, e := range entries {
		push(e)
	}
	for len(work) > 0 {
		f := work[len(work)-1]
		work = work[:len(work)-1]
		for _, a := range f.AnonFuncs {
			push(a)
		}
		for _, call := range callsIn(f) {
			if sc := call.Common().StaticCallee(); sc != nil {
				push(sc)
				continue
			}
			if useVTA {
				for _, g := range w.Callees(call) {
					push(g)
				}
			}
		}
	}
	var out []*ssa.Function
	for f := range seen {
		out = append(out, f)
	}
	sort.Slice(out, func(i, j int) bool { return out[i].String() < out[j].String() })
	return out
}

// ---- integer ranges ----

const (
	negInf = math.MinInt64
	posInf = math.MaxInt64
)

type irange struct {
	lo, hi int64
	// ltLenOf: value known to be strictly below len(ltLenOf) (symbolic upper bound)
	ltLenOf ssa.Value
	// leLenOf: value known to be <= len(leLenOf)
	leLenOf ssa.Value
	// lenMinus: value == len(lenOf) - lenMinus  (when lenOf != nil)
	lenOf    ssa.Value
	lenMinus int64
}

type boundsCtx struct {
	w      *World
	fn     *ssa.Function
	root   *ssa.Function // the function whose frame the facts are taken in: fn, or the caller (chain) through which alone fn is entered
	facts  *Facts
	depth  int
	ids    map[ssa.Value]string
	stores map[string][]*ssa.Store
	fixSeq ssa.Value // case analysis: the sequence whose length is taken to be fixLen
	fixLen int64
}

// fixedLen: the length of x under the case being analysed (a case split over the few lengths x can have here).
func (bc *boundsCtx) fixedLen(x ssa.Value) (int64, bool) {
	if bc.fixSeq == nil || x == nil {
		return 0, false
	}
	if bc.sameSeq(x, bc.fixSeq) {
		return bc.fixLen, true
	}
	return 0, false
}

func (bc *boundsCtx) sameSeq(a, b ssa.Value) bool {
	a, b = stripConv(a), stripConv(b)
	if a == b {
		return true
	}
	if bc.root != nil && bc.root != bc.fn {
		if ra, rb := stripConv(bc.w.resolveUp(bc.root, a)), stripConv(bc.w.resolveUp(bc.root, b)); ra == rb {
			return true
		}
	}
	if bc.memID(a) == bc.memID(b) {
		return true
	}
	// the same field path of the same by-value record: a struct parameter is a copy of the caller's argument, and
	// nobody writes the copies
	ra, pa := bc.valuePath(a, 0)
	rb, pb := bc.valuePath(b, 0)
	if os.Getenv("YV_DEBUG") != "" && (pa != "" || pb != "") {
		fmt.Fprintln(os.Stderr, "valuePath", bc.fn.Name(), bc.root.Name(), ra, pa, "|", rb, pb)
	}
	return ra != nil && ra == rb && pa == pb && pa != ""
}

// valuePath: v as a path of field selections from a root value, looking through whole-value copies: a local that
// holds one copy of a struct (a by-value parameter spilled to the stack, never written field by field), a load of
// such a local, a helper's struct parameter (the argument at its only call site in the tree of the root function).
func (bc *boundsCtx) valuePath(v ssa.Value, depth int) (ssa.Value, string) {
	if v == nil || depth > 8 {
		return nil, ""
	}
	v = stripConv(v)
	switch x := v.(type) {
	case *ssa.UnOp:
		if x.Op != token.MUL {
			return v, ""
		}
		if fa, ok := x.X.(*ssa.FieldAddr); ok {
			r, p := bc.valuePath(fa.X, depth+1)
			if r == nil {
				return nil, ""
			}
			return r, p + "." + fieldName(fa.X.Type(), fa.Field)
		}
		if a, ok := x.X.(*ssa.Alloc); ok {
			return bc.valuePath(a, depth+1)
		}
		return v, ""
	case *ssa.Field:
		r, p := bc.valuePath(x.X, depth+1)
		if r == nil {
			return nil, ""
		}
		return r, p + "." + fieldName(x.X.Type(), x.Field)
	case *ssa.Alloc:
		if _, isStruct := x.Type().(*types.Pointer).Elem().Underlying().(*types.Struct); !isStruct {
			return v, ""
		}
		if stores, ok := cellStores(x); ok && len(stores) == 1 && len(FieldStores(x.Parent(), x)) == 0 {
			return bc.valuePath(stores[0].Val, depth+1)
		}
		return v, ""
	case *ssa.Parameter:
		if _, isStruct := x.Type().Underlying().(*types.Struct); !isStruct {
			return v, ""
		}
		root := bc.root
		if root == nil {
			root = bc.fn
		}
		if u := bc.w.resolveUp(root, x); u != ssa.Value(x) {
			return bc.valuePath(u, depth+1)
		}
		return v, ""
	}
	return v, ""
}

// norm: the integer value v denotes, looking through value-preserving (widening) integer conversions and, inside a
// helper, through the parameter to the argument of its only call site.
func (bc *boundsCtx) norm(v ssa.Value) ssa.Value {
	for i := 0; i < 6 && v != nil; i++ {
		v = strip(v)
		if cv, ok := v.(*ssa.Convert); ok && widening(cv.X.Type(), cv.Type()) {
			v = cv.X
			continue
		}
		if bc.root != nil && bc.root != bc.fn {
			if u := bc.w.resolveUp(bc.root, v); u != v {
				v = u
				continue
			}
		}
		break
	}
	return v
}

// widening: converting an integer of type from to type to preserves its value.
func widening(from, to types.Type) bool {
	fb, ok1 := from.Underlying().(*types.Basic)
	tb, ok2 := to.Underlying().(*types.Basic)
	if !ok1 || !ok2 || fb.Info()&types.IsInteger == 0 || tb.Info()&types.IsInteger == 0 {
		return false
	}
	bits := func(b *types.Basic) int {
		switch b.Kind() {
		case types.Int8, types.Uint8:
			return 8
		case types.Int16, types.Uint16:
			return 16
		case types.Int32, types.Uint32:
			return 32
		}
		return 64
	}
	fu, tu := fb.Info()&types.IsUnsigned != 0, tb.Info()&types.IsUnsigned != 0
	switch {
	case fu == tu:
		return bits(tb) >= bits(fb)
	case fu && !tu:
		return bits(tb) > bits(fb)
	}
	return false
}

// ---- memory value numbering: two loads of the same location with no store between are the same value ----

func addrKey(bc *boundsCtx, addr ssa.Value) string {
	switch x := addr.(type) {
	case *ssa.Alloc:
		return "A" + x.Name()
	case *ssa.FreeVar:
		return "F" + x.Name()
	case *ssa.Parameter:
		return "P" + x.Name()
	case *ssa.Global:
		return "G" + x.Name()
	case *ssa.FieldAddr:
		return addrKey(bc, x.X) + "." + itoa(x.Field)
	case *ssa.IndexAddr:
		if k, ok := intConst(x.Index); ok {
			return addrKey(bc, x.X) + "[" + fmt.Sprint(k) + "]"
		}
		return addrKey(bc, x.X) + "[" + bc.memID(x.Index) + "]"
	case *ssa.UnOp:
		if x.Op == token.MUL {
			return "*(" + bc.memID(x) + ")"
		}
	}
	return "V" + addr.Name()
}

func (bc *boundsCtx) storesByKey() map[string][]*ssa.Store {
	if bc.stores != nil {
		return bc.stores
	}
	bc.stores = map[string][]*ssa.Store{}
	for _, b := range bc.fn.Blocks {
		for _, ins := range b.Instrs {
			if st, ok := ins.(*ssa.Store); ok {
				k := addrKey(bc, st.Addr)
				bc.stores[k] = append(bc.stores[k], st)
			}
		}
	}
	return bc.stores
}

// memID returns an identifier such that equal identifiers denote equal runtime values (within one
// activation, ignoring writes made by callees through escaped addresses - stated assumption).
func (bc *boundsCtx) memID(v ssa.Value) string {
	if id, ok := bc.ids[v]; ok {
		return id
	}
	if bc.ids == nil {
		bc.ids = map[ssa.Value]string{}
	}
	bc.ids[v] = "V" + v.Name() // provisional (cycles)
	id := "V" + v.Name()
	switch x := v.(type) {
	case *ssa.UnOp:
		if x.Op == token.MUL {
			key := addrKey(bc, x.X)
			var related []*ssa.Store
			var keys = map[*ssa.Store]string{}
			for k, sts := range bc.storesByKey() {
				if k == key || strings.HasPrefix(key, k+".") || strings.HasPrefix(key, k+"[") || strings.HasPrefix(k, key+".") || strings.HasPrefix(k, key+"[") {
					for _, st := range sts {
						related = append(related, st)
						keys[st] = k
					}
				}
			}
			if len(related) == 0 {
				id = "M0:" + key
				break
			}
			if rs := reachingStore(related, x); rs != nil {
				k := keys[rs]
				if k == key {
					id = bc.memID(stripConv(rs.Val))
				} else if strings.HasPrefix(key, k) {
					id = "S" + rs.Block().String() + "#" + itoa(instrIndex(rs)) + ":" + key[len(k):]
				}
				break
			}
			any := false
			for _, st := range related {
				if ReachableAvoiding(st, nil)(x) {
					any = true
					break
				}
			}
			if !any {
				id = "M0:" + key
			}
		}
	case *ssa.ChangeType, *ssa.ChangeInterface, *ssa.MakeInterface:
		id = bc.memID(strip(v))
	}
	bc.ids[v] = id
	return id
}

// resolve follows a load to the stored value when a unique exact reaching store exists.
func (bc *boundsCtx) resolve(v ssa.Value) ssa.Value {
	v = stripConv(v)
	for i := 0; i < 4; i++ {
		u, ok := v.(*ssa.UnOp)
		if !ok || u.Op != token.MUL {
			return v
		}
		key := addrKey(bc, u.X)
		var related []*ssa.Store
		exact := map[*ssa.Store]bool{}
		for k, sts := range bc.storesByKey() {
			if k == key || strings.HasPrefix(key, k+".") || strings.HasPrefix(key, k+"[") || strings.HasPrefix(k, key+".") || strings.HasPrefix(k, key+"[") {
				for _, st := range sts {
					related = append(related, st)
					exact[st] = k == key
				}
			}
		}
		rs := reachingStore(related, u)
		if rs == nil || !exact[rs] {
			return v
		}
		v = stripConv(rs.Val)
	}
	return v
}

// stripConv also looks through string<->[]byte conversions (length preserving).
func stripConv(v ssa.Value) ssa.Value {
	for {
		v = strip(v)
		if c, ok := v.(*ssa.Convert); ok {
			ft, tt := c.X.Type().Underlying(), c.Type().Underlying()
			if isByteSeq(ft) && isByteSeq(tt) {
				v = c.X
				continue
			}
		}
		return v
	}
}

func isByteSeq(t types.Type) bool {
	switch x := t.(type) {
	case *types.Basic:
		return x.Info()&types.IsString != 0
	case *types.Slice:
		b, ok := x.Elem().Underlying().(*types.Basic)
		return ok && (b.Kind() == types.Byte || b.Kind() == types.Uint8)
	}
	return false
}

// lenArg: if v is len(x) returns x.
func lenArg(v ssa.Value) ssa.Value {
	c, ok := strip(v).(*ssa.Call)
	if !ok {
		return nil
	}
	if b, ok := c.Call.Value.(*ssa.Builtin); ok && b.Name() == "len" && len(c.Call.Args) == 1 {
		return c.Call.Args[0]
	}
	return nil
}

// lenLB: a lower bound of len(x) valid at block b (0 when nothing is known).
func (bc *boundsCtx) lenLB(x ssa.Value, b *ssa.BasicBlock) int64 {
	if k, ok := bc.fixedLen(x); ok {
		return k
	}
	if bc.depth > 8 {
		return 0
	}
	bc.depth++
	defer func() { bc.depth-- }()
	lb := int64(0)
	up := func(v int64) {
		if v > lb {
			lb = v
		}
	}
	sx := bc.resolve(x)
	switch v := sx.(type) {
	case *ssa.Const:
		if s, ok := strConst(v); ok {
			up(int64(len(s)))
		}
	case *ssa.MakeSlice:
		r := bc.rng(v.Len, b)
		if r.lo > 0 {
			up(r.lo)
		}
	case *ssa.Slice:
		// len = high - low
		base := v.X
		var baseLen int64
		if arr := arrayLen(base.Type()); arr >= 0 {
			baseLen = arr
		} else {
			baseLen = bc.lenLB(base, b)
		}
		lo := int64(0)
		if v.Low != nil {
			r := bc.rng(v.Low, b)
			if r.hi == posInf {
				lo = posInf
			} else {
				lo = r.hi
			}
		}
		if v.High == nil {
			if lo != posInf && baseLen-lo > 0 {
				up(baseLen - lo)
			}
		} else {
			h := bc.rng(v.High, b)
			if lo != posInf && h.lo != negInf && h.lo-lo > 0 {
				up(h.lo - lo)
			}
		}
	case *ssa.Call:
		name := calleeName(v)
		if name == "strings.Split" && len(v.Call.Args) == 2 {
			if sep, ok := strConst(v.Call.Args[1]); ok && sep != "" {
				up(1) // Split with a non-empty separator returns at least one element
			}
		}
		if name == "strings.SplitN" && len(v.Call.Args) == 3 {
			if sep, ok := strConst(v.Call.Args[1]); ok && sep != "" {
				if n, isK := intConst(v.Call.Args[2]); isK && n != 0 {
					up(1) // SplitN with a non-empty separator and a non-zero count returns at least one element
				}
			}
		}
	case *ssa.Phi:
		// minimum over edges
		m := int64(posInf)
		for i, e := range v.Edges {
			_ = i
			l := bc.lenLB(e, v.Block().Preds[i])
			if l < m {
				m = l
			}
		}
		if m != posInf {
			up(m)
		}
	}
	if arr := arrayLen(x.Type()); arr >= 0 {
		up(arr)
	}
	// facts
	if os.Getenv("YV_DEBUG") != "" && bc.fn.Name() == "decodeCertificateExtension" {
		fmt.Fprintln(os.Stderr, "lenLB facts", bc.fn.Name(), bc.root.Name(), len(bc.facts.At(b)), bc.w.focus.Name(), bc.w.dynCallable(bc.fn), bc.w.transparent(bc.fn), len(bc.w.sitesIn(bc.root, bc.fn)))
		for l := range bc.facts.At(b) {
			fmt.Fprintln(os.Stderr, "   fact", l.Pol, bc.w.Short(l.V))
		}
	}
	for l := range bc.facts.At(b) {
		bin, ok := l.V.(*ssa.BinOp)
		if !ok {
			continue
		}
		var c int64
		var op token.Token
		var seq ssa.Value
		if la := lenArg(bin.X); la != nil {
			if k, ok := intConst(bin.Y); ok {
				seq, c, op = la, k, bin.Op
			}
		} else if la := lenArg(bin.Y); la != nil {
			if k, ok := intConst(bin.X); ok {
				seq, c, op = la, k, flipOp(bin.Op)
			}
		}
		if seq == nil || !bc.sameSeq(seq, x) {
			// a value known to be a valid index of x (e.g. the non-negative result of an index-of helper) and >= c
			if bc.depth < 7 {
				for _, side := range []ssa.Value{bin.X, bin.Y} {
					if _, isConst := side.(*ssa.Const); isConst || lenArg(side) != nil {
						continue
					}
					if r := bc.rng(side, b); r.ltLenOf != nil && r.lo >= 0 && bc.sameSeq(r.ltLenOf, x) {
						up(r.lo + 1)
					}
				}
			}
			// also: i < len(x) with i >= 0 known  => len(x) >= 1
			if bin.Op == token.LSS && l.Pol {
				if la := lenArg(bin.Y); la != nil && bc.sameSeq(la, x) {
					r := bc.rng(bin.X, b)
					if r.lo >= 0 {
						up(r.lo + 1)
					}
				}
			}
			continue
		}
		if !l.Pol {
			op = negOp(op)
		}
		switch op {
		case token.GEQ:
			up(c)
		case token.GTR:
			up(c + 1)
		case token.EQL:
			up(c)
		case token.NEQ:
			if c == 0 {
				up(1)
			}
		}
	}
	return lb
}

// lenUB: exact/upper knowledge is rarely needed; only constants.
func arrayLen(t types.Type) int64 {
	if p, ok := t.Underlying().(*types.Pointer); ok {
		t = p.Elem()
	}
	if a, ok := t.Underlying().(*types.Array); ok {
		return a.Len()
	}
	return -1
}

func flipOp(op token.Token) token.Token {
	switch op {
	case token.LSS:
		return token.GTR
	case token.GTR:
		return token.LSS
	case token.LEQ:
		return token.GEQ
	case token.GEQ:
		return token.LEQ
	}
	return op
}

func negOp(op token.Token) token.Token {
	switch op {
	case token.LSS:
		return token.GEQ
	case token.GEQ:
		return token.LSS
	case token.GTR:
		return token.LEQ
	case token.LEQ:
		return token.GTR
	case token.EQL:
		return token.NEQ
	case token.NEQ:
		return token.EQL
	}
	return op
}

// rng computes a conservative interval for integer value v at block b.
// lenUB: an upper bound of len(x) - the length of an array, of a slice of an array with constant bounds, of a
// make with a constant length (posInf when unknown).
func (bc *boundsCtx) lenUB(x ssa.Value, b *ssa.BasicBlock) int64 {
	if k, ok := bc.fixedLen(x); ok {
		return k
	}
	x = strip(x)
	arrLen := func(t types.Type) int64 {
		if p, ok := t.Underlying().(*types.Pointer); ok {
			t = p.Elem()
		}
		if a, ok := t.Underlying().(*types.Array); ok {
			return a.Len()
		}
		return posInf
	}
	switch v := x.(type) {
	case *ssa.Slice:
		hi := arrLen(v.X.Type())
		if v.High != nil {
			hr := bc.rng(v.High, b)
			if hr.hi < hi {
				hi = hr.hi
			}
		} else if hi == posInf {
			hi = bc.lenUB(v.X, b)
		}
		if hi == posInf {
			return posInf
		}
		lo := int64(0)
		if v.Low != nil {
			if lr := bc.rng(v.Low, b); lr.lo > 0 {
				lo = lr.lo
			}
		}
		if hi-lo < 0 {
			return 0
		}
		return hi - lo
	case *ssa.MakeSlice:
		if r := bc.rng(v.Len, b); r.hi != posInf {
			return r.hi
		}
	}
	return arrLen(x.Type())
}

func (bc *boundsCtx) rng(v ssa.Value, b *ssa.BasicBlock) irange {
	r := irange{lo: negInf, hi: posInf}
	if bc.depth > 10 {
		return r
	}
	bc.depth++
	defer func() { bc.depth-- }()
	if k, ok := intConst(v); ok {
		return irange{lo: k, hi: k}
	}
	if _, isParam := strip(v).(*ssa.Parameter); isParam {
		if k, ok := intConst(bc.norm(v)); ok {
			return irange{lo: k, hi: k} // the argument at the helper's (selected) call site
		}
	}
	if bt, ok := v.Type().Underlying().(*types.Basic); ok && bt.Info()&types.IsUnsigned != 0 {
		r.lo = 0
		switch bt.Kind() {
		case types.Uint8:
			r.hi = 255
		case types.Uint16:
			r.hi = 65535
		}
	}
	switch x := strip(v).(type) {
	case *ssa.Convert:
		in := bc.rng(x.X, b)
		// widening conversions between integer types keep the range when it fits
		if in.lo >= r.lo && in.hi <= r.hi {
			in.ltLenOf, in.lenOf = in.ltLenOf, in.lenOf
			return in
		}
	case *ssa.Call:
		if la := lenArg(x); la != nil {
			if k, ok := bc.fixedLen(la); ok {
				return irange{lo: k, hi: k, lenOf: la}
			}
			r.lo = bc.lenLB(la, b)
			r.lenOf, r.lenMinus = la, 0
			if ub := bc.lenUB(la, b); ub < r.hi {
				r.hi = ub
			}
		}
		if bi, isB := x.Call.Value.(*ssa.Builtin); isB && bi.Name() == "copy" && len(x.Call.Args) == 2 {
			// copy returns min(len(dst), len(src))
			r.lo = 0
			for _, a := range x.Call.Args {
				if ub := bc.lenUB(a, b); ub < r.hi {
					r.hi = ub
				}
			}
		}
		// a repository helper returning an index: the interval of its returns, and "result < len(parameter)" when every
		// return is negative or an index proved below the length of that same parameter (an index-of function)
		if h := bc.w.helperOf(x); h != nil && h.Signature.Results().Len() == 1 && len(h.Blocks) > 0 && bc.depth < 9 {
			if sum := bc.w.indexSummary(h); sum != nil {
				if sum.lo > r.lo {
					r.lo = sum.lo
				}
				if sum.hi < r.hi {
					r.hi = sum.hi
				}
				if sum.ltLenParam >= 0 && sum.ltLenParam < len(x.Call.Args) {
					r.ltLenOf = x.Call.Args[sum.ltLenParam]
				}
			}
		}
		if cn := calleeName(x); (strings.HasPrefix(cn, "slices.IndexFunc") || strings.HasPrefix(cn, "slices.Index[") || cn == "slices.Index") && len(x.Call.Args) == 2 {
			// -1 or a position in the slice
			r.lo = -1
			r.ltLenOf = x.Call.Args[0]
		}
		switch calleeName(x) {
		case "strings.Index", "strings.IndexByte", "bytes.Index", "bytes.IndexByte", "strings.LastIndex":
			// -1 or a position p with p+len(sub) <= len(s); for a non-empty needle p < len(s)
			r.lo = -1
			nonEmpty := true
			if sub, ok := strConst(x.Call.Args[1]); ok && sub == "" {
				nonEmpty = false
			}
			if nonEmpty {
				r.ltLenOf = x.Call.Args[0]
			}
			r.leLenOf = x.Call.Args[0]
		}
	case *ssa.BinOp:
		switch x.Op {
		case token.AND:
			if k, ok := intConst(x.Y); ok && k >= 0 {
				return irange{lo: 0, hi: k}
			}
			if k, ok := intConst(x.X); ok && k >= 0 {
				return irange{lo: 0, hi: k}
			}
		case token.SHR:
			in := bc.rng(x.X, b)
			if k, ok := intConst(x.Y); ok && in.lo >= 0 && in.hi != posInf {
				return irange{lo: 0, hi: in.hi >> uint(k)}
			}
			if in.lo >= 0 {
				r.lo = 0
			}
		case token.REM:
			if k, ok := intConst(x.Y); ok && k > 0 {
				in := bc.rng(x.X, b)
				if in.lo >= 0 {
					return irange{lo: 0, hi: k - 1}
				}
			}
		case token.MUL:
			a, bb := bc.rng(x.X, b), bc.rng(x.Y, b)
			if a.lo >= 0 && bb.lo >= 0 {
				r.lo = a.lo * bb.lo
				if a.hi != posInf && bb.hi != posInf && a.hi < 1<<31 && bb.hi < 1<<31 {
					r.hi = a.hi * bb.hi
				}
			}
		case token.ADD, token.SUB:
			a := bc.rng(x.X, b)
			if _, isK := intConst(x.Y); !isK && x.Op == token.SUB {
				bb := bc.rng(x.Y, b)
				if a.lo != negInf && bb.hi != posInf {
					r.lo = a.lo - bb.hi
				}
				if a.hi != posInf && bb.lo != negInf {
					r.hi = a.hi - bb.lo
				}
				break
			}
			if k, ok := intConst(x.Y); ok {
				if x.Op == token.SUB {
					k = -k
				}
				out := irange{lo: negInf, hi: posInf}
				if a.lo != negInf {
					out.lo = a.lo + k
				}
				if a.hi != posInf {
					out.hi = a.hi + k
				}
				if a.lenOf != nil {
					out.lenOf, out.lenMinus = a.lenOf, a.lenMinus-k
				}
				if a.ltLenOf != nil && k <= 0 {
					out.ltLenOf = a.ltLenOf
				}
				if a.ltLenOf != nil && k == 1 {
					out.leLenOf = a.ltLenOf
				}
				if a.leLenOf != nil && k <= 0 {
					out.leLenOf = a.leLenOf
				}
				// range-loop index: phi(-1, self)+1
				if phi, ok := x.X.(*ssa.Phi); ok && k == 1 && isLoopCounterPhi(phi, x) {
					if init, ok := loopInit(phi, x); ok {
						out.lo = init + 1
					}
				}
				r = out
			} else {
				bb := bc.rng(x.Y, b)
				if x.Op == token.ADD && a.lo != negInf && bb.lo != negInf {
					r.lo = a.lo + bb.lo
				}
				if x.Op == token.ADD && a.hi != posInf && bb.hi != posInf {
					r.hi = a.hi + bb.hi
				}
			}
		}
	case *ssa.Phi:
		// counted loops: edges that add a positive constant to the phi itself do not lower the bound
		lo, hi := int64(posInf), int64(negInf)
		incr := false
		for i, e := range x.Edges {
			if e == ssa.Value(x) {
				continue
			}
			if bin, ok := e.(*ssa.BinOp); ok && bin.Op == token.ADD && bin.X == ssa.Value(x) {
				if k, ok := intConst(bin.Y); ok && k > 0 {
					incr = true
					continue
				}
			}
			er := bc.rng(e, x.Block().Preds[i])
			if er.lo < lo {
				lo = er.lo
			}
			if er.hi > hi {
				hi = er.hi
			}
		}
		if lo != posInf && lo > r.lo {
			r.lo = lo
		}
		if hi != negInf && !incr && hi < r.hi {
			r.hi = hi
		}
	}
	// facts: v < len(x), v < c, v >= c ...
	for l := range bc.facts.At(b) {
		bin, ok := l.V.(*ssa.BinOp)
		if !ok {
			continue
		}
		op := bin.Op
		var other ssa.Value
		nv := bc.norm(v)
		// len(x) is computed anew at each use: two such calls on the same sequence denote the same number
		sameLen := func(u ssa.Value) bool {
			la, lb := lenArg(strip(u)), lenArg(strip(v))
			return la != nil && lb != nil && bc.sameSeq(la, lb)
		}
		if bin.X == v || bc.norm(bin.X) == nv || sameLen(bin.X) {
			other = bin.Y
		} else if bin.Y == v || bc.norm(bin.Y) == nv || sameLen(bin.Y) {
			other = bin.X
			op = flipOp(op)
		} else {
			continue
		}
		if !l.Pol {
			op = negOp(op)
		}
		if k, ok := intConst(other); ok {
			switch op {
			case token.LSS:
				if k-1 < r.hi {
					r.hi = k - 1
				}
			case token.LEQ:
				if k < r.hi {
					r.hi = k
				}
			case token.GTR:
				if k+1 > r.lo {
					r.lo = k + 1
				}
			case token.GEQ:
				if k > r.lo {
					r.lo = k
				}
			case token.EQL:
				r.lo, r.hi = k, k
			case token.NEQ:
				if k == r.lo {
					r.lo = k + 1
				}
				if k == r.hi {
					r.hi = k - 1
				}
			}
		} else if la := lenArg(other); la != nil && op == token.LSS {
			r.ltLenOf = la
			if k, ok := bc.fixedLen(la); ok && k-1 < r.hi {
				r.hi = k - 1
			}
		} else if la := lenArg(other); la != nil && op == token.LEQ {
			r.leLenOf = la
			if k, ok := bc.fixedLen(la); ok && k < r.hi {
				r.hi = k
			}
		} else if bc.depth < 6 {
			// compared with another computed value: its interval and its relation to a length carry over
			ro := bc.rng(other, b)
			switch op {
			case token.LSS:
				if ro.hi != posInf && ro.hi-1 < r.hi {
					r.hi = ro.hi - 1
				}
				if ro.lenOf != nil && ro.lenMinus >= 0 {
					r.ltLenOf = ro.lenOf
				}
			case token.LEQ:
				if ro.hi != posInf && ro.hi < r.hi {
					r.hi = ro.hi
				}
				if ro.lenOf != nil && ro.lenMinus >= 1 {
					r.ltLenOf = ro.lenOf
				} else if ro.lenOf != nil && ro.lenMinus == 0 {
					r.leLenOf = ro.lenOf
				}
			case token.GTR:
				if ro.lo != negInf && ro.lo+1 > r.lo {
					r.lo = ro.lo + 1
				}
			case token.GEQ:
				if ro.lo != negInf && ro.lo > r.lo {
					r.lo = ro.lo
				}
			}
		}
	}
	return r
}

func isLoopCounterPhi(phi *ssa.Phi, inc *ssa.BinOp) bool {
	for _, e := range phi.Edges {
		if e == ssa.Value(inc) {
			return true
		}
	}
	return false
}

func loopInit(phi *ssa.Phi, inc *ssa.BinOp) (int64, bool) {
	var init int64
	found := false
	for _, e := range phi.Edges {
		if e == ssa.Value(inc) {
			continue
		}
		k, ok := intConst(e)
		if !ok {
			return 0, false
		}
		if found && k != init {
			return 0, false
		}
		init, found = k, true
	}
	return init, found
}

// countedLoopPhi: phi(const init, phi + positive const)  => lower bound init.
func countedLoopPhi(phi *ssa.Phi) (int64, bool) {
	var init int64
	found := false
	for _, e := range phi.Edges {
		if bin, ok := e.(*ssa.BinOp); ok && bin.Op == token.ADD && bin.X == ssa.Value(phi) {
			if k, ok := intConst(bin.Y); ok && k > 0 {
				continue
			}
			return 0, false
		}
		k, ok := intConst(e)
		if !ok {
			return 0, false
		}
		if found && k < init {
			init = k
		} else if !found {
			init, found = k, true
		}
	}
	return init, found
}

// ---- obligations ----

type panicSite struct {
	Fn    *ssa.Function
	Instr ssa.Instruction
	Kind  string
	Expr  string
	OK    bool
	Why   string
	KeyFn string // the function the obligation is stated in (the caller, for a helper analysed per call site)
}

// justification: reviewed sites that cannot be discharged by interval facts, keyed by
// function name + "|" + normalised expression; one line of reason each.
type justTable map[string]string

// justGuards: machine-checked preconditions of entries of the justification tables, keyed like them. An entry whose
// guard fails is not applied (the site stays undischarged).
var justGuards = map[string]func(w *World, fn *ssa.Function, ins ssa.Instruction) bool{}

// justShapes: justifications that hold for a shape of site wherever it stands (any function): a predicate over the
// site decides, under the facts of the activation being analysed.
type justShape struct {
	why   string
	holds func(w *World, fn *ssa.Function, ins ssa.Instruction, facts *Facts, root *ssa.Function) bool
}

var justShapes []justShape

// BoundsObligations enumerates and tries to discharge every index / slice / type-assert obligation of fns.
func (w *World) BoundsObligations(fns []*ssa.Function, just justTable) []panicSite {
	var out []panicSite
	for _, fn := range fns {
		old := w.focus
		root := w.soleEntry(fn, fns)
		defer w.restoreFocus(old)
		// a helper entered from several sites of its one caller: one set of obligations per activation, stated in
		// the caller's terms
		if sites := w.sitesIn(root, fn); root != fn && len(sites) > 1 && len(sites) <= 8 {
			w.Focus(root)
			for _, site := range sites {
				w.Pin(root, fn, site, func(facts *Facts) {
					bc := &boundsCtx{w: w, fn: fn, root: root, facts: facts}
					out = append(out, bc.sitesOf(just, shortFn(site.Parent()))...)
				})
			}
			continue
		}
		bc := &boundsCtx{w: w, fn: fn, root: root, facts: w.Facts(root)}
		out = append(out, bc.sitesOf(just, shortFn(fn))...)
	}
	return out
}

func (bc *boundsCtx) sitesOf(just justTable, keyFn string) []panicSite {
	w, fn := bc.w, bc.fn
	var out []panicSite
	{
		for _, b := range fn.Blocks {
			if !bc.facts.Reachable(b) {
				continue
			}
			for _, ins := range b.Instrs {
				var site *panicSite
				switch x := ins.(type) {
				case *ssa.IndexAddr:
					site = bc.checkIndex(x, x.X, x.Index, b)
				case *ssa.Index:
					site = bc.checkIndex(x, x.X, x.Index, b)
				case *ssa.Slice:
					site = bc.checkSlice(x, b)
				case *ssa.TypeAssert:
					if !x.CommaOk {
						site = bc.checkAssert(x, b)
					}
				case *ssa.Panic:
					site = &panicSite{Fn: fn, Instr: ins, Kind: "explicit panic", Expr: w.Short(x.X)}
				}
				if site == nil {
					continue
				}
				if !site.OK && (site.Kind == "index" || site.Kind == "slice") && bc.fixSeq == nil {
					// case analysis over a sequence that can only have a few lengths here (a guard admitted 3 or 4 bytes):
					// the obligation holds if it holds for each of them
					if why, ok := bc.splitOnLength(ins, b); ok {
						site.OK, site.Why = true, why
					}
				}
				if !site.OK {
					key := keyFn + "|" + site.Kind + " " + site.Expr
					for _, sh := range justShapes {
						if !site.OK && sh.holds(w, fn, ins, bc.facts, bc.root) {
							site.OK, site.Why = true, "decided: "+sh.why
						}
					}
					if why, ok := just[key]; ok && !site.OK {
						// a justification that names a guard holds only while the guard is there
						if g, has := justGuards[key]; has && !g(w, fn, ins) {
							site.Why += " (the reviewed justification no longer applies: " + why + ")"
						} else {
							site.OK = true
							site.Why = "justified: " + why
						}
					}
				}
				site.KeyFn = keyFn
				out = append(out, *site)
			}
		}
	}
	return out
}

func (bc *boundsCtx) checkIndex(ins ssa.Instruction, x, idx ssa.Value, b *ssa.BasicBlock) *panicSite {
	w := bc.w
	if _, isMap := x.Type().Underlying().(*types.Map); isMap {
		return nil
	}
	s := &panicSite{Fn: bc.fn, Instr: ins, Kind: "index", Expr: w.Short(x) + "[" + w.Short(idx) + "]"}
	r := bc.rng(idx, b)
	if r.lo < 0 {
		s.Why = fmt.Sprintf("index may be negative (lower bound %s)", fmtB(r.lo))
		return s
	}
	// upper bound
	if r.ltLenOf != nil && bc.sameSeq(r.ltLenOf, x) {
		s.OK, s.Why = true, "index < len of the same sequence (loop condition / guard)"
		return s
	}
	if ms, ok := bc.resolve(x).(*ssa.MakeSlice); ok && r.ltLenOf != nil {
		if la := lenArg(ms.Len); la != nil && bc.sameSeq(la, r.ltLenOf) {
			s.OK, s.Why = true, "sequence made with the length of the ranged sequence"
			return s
		}
	}
	lb := bc.lenLB(x, b)
	if arr := arrayLen(x.Type()); arr >= 0 {
		lb = arr
	}
	if r.hi != posInf && r.hi < lb {
		s.OK, s.Why = true, fmt.Sprintf("index <= %d < len >= %d", r.hi, lb)
		return s
	}
	if r.lenOf != nil && bc.sameSeq(r.lenOf, x) && r.lenMinus >= 1 && (lb >= r.lenMinus || r.lo >= 0) {
		s.OK, s.Why = true, fmt.Sprintf("index = len-%d with len >= %d", r.lenMinus, lb)
		return s
	}
	s.Why = fmt.Sprintf("have len >= %d, index in [%s,%s]: need len > index", lb, fmtB(r.lo), fmtB(r.hi))
	return s
}

func fmtB(v int64) string {
	switch v {
	case negInf:
		return "-inf"
	case posInf:
		return "+inf"
	}
	return fmt.Sprint(v)
}

func (bc *boundsCtx) checkSlice(x *ssa.Slice, b *ssa.BasicBlock) *panicSite {
	w := bc.w
	if x.Low == nil && x.High == nil && x.Max == nil {
		return nil // x[:] never panics (nil array pointers aside)
	}
	s := &panicSite{Fn: bc.fn, Instr: x, Kind: "slice", Expr: w.Short(x)}
	lb := bc.lenLB(x.X, b)
	exactArr := arrayLen(x.X.Type())
	if exactArr >= 0 {
		lb = exactArr
	}
	lo := irange{lo: 0, hi: 0}
	if x.Low != nil {
		lo = bc.rng(x.Low, b)
		if lo.lo < 0 {
			s.Why = "low bound may be negative"
			return s
		}
	}
	if x.High != nil {
		hi := bc.rng(x.High, b)
		// high <= len (cap for slices: cap >= len, so len is sufficient)
		okHigh := (hi.hi != posInf && hi.hi <= lb) ||
			(hi.lenOf != nil && bc.sameSeq(hi.lenOf, x.X) && hi.lenMinus >= 0) ||
			(hi.ltLenOf != nil && bc.sameSeq(hi.ltLenOf, x.X)) ||
			(hi.leLenOf != nil && bc.sameSeq(hi.leLenOf, x.X))
		if !okHigh {
			s.Why = fmt.Sprintf("have len >= %d, need >= %s (high bound)", lb, fmtB(hi.hi))
			return s
		}
		// low <= high
		okLow := (x.Low == nil && hi.lo != negInf && hi.lo >= 0) || (x.Low != nil && lo.hi != posInf && hi.lo != negInf && lo.hi <= hi.lo)
		if !okLow && x.Low == nil {
			s.Why = fmt.Sprintf("high bound [%s,%s] may be negative", fmtB(hi.lo), fmtB(hi.hi))
			return s
		}
		if !okLow {
			s.Why = fmt.Sprintf("low bound [%s,%s] not known <= high bound [%s,%s]", fmtB(lo.lo), fmtB(lo.hi), fmtB(hi.lo), fmtB(hi.hi))
			return s
		}
		s.OK, s.Why = true, fmt.Sprintf("0 <= low <= high <= len (len >= %d)", lb)
		return s
	}
	// only low: need low <= len
	okLow := (lo.hi != posInf && lo.hi <= lb) ||
		(lo.lenOf != nil && bc.sameSeq(lo.lenOf, x.X) && lo.lenMinus >= 0) ||
		(lo.ltLenOf != nil && bc.sameSeq(lo.ltLenOf, x.X)) ||
		(lo.leLenOf != nil && bc.sameSeq(lo.leLenOf, x.X))
	if !okLow {
		s.Why = fmt.Sprintf("have len >= %d, need >= %s (low bound)", lb, fmtB(lo.hi))
		return s
	}
	s.OK, s.Why = true, fmt.Sprintf("0 <= low <= len (len >= %d)", lb)
	return s
}

func (bc *boundsCtx) checkAssert(x *ssa.TypeAssert, b *ssa.BasicBlock) *panicSite {
	w := bc.w
	s := &panicSite{Fn: bc.fn, Instr: x, Kind: "type assertion", Expr: w.Short(x.X) + ".(" + types.TypeString(x.AssertedType, shortQual2) + ")"}
	// an assertion to an interface that the operand's static type already implements (the compiler's form of taking a
	// method value of an embedded interface): it fails only for a nil interface value, as the method call itself would
	if it, isIface := x.AssertedType.Underlying().(*types.Interface); isIface {
		if _, srcIface := x.X.Type().Underlying().(*types.Interface); srcIface && types.Implements(x.X.Type(), it) {
			s.OK, s.Why = true, "the operand's static type implements the asserted interface"
			return s
		}
	}
	// discharged by a dominating comma-ok assertion of the same value and type whose ok is known true
	for l := range bc.facts.At(b) {
		if !l.Pol {
			continue
		}
		ex, ok := l.V.(*ssa.Extract)
		if !ok || ex.Index != 1 {
			continue
		}
		ta, ok := ex.Tuple.(*ssa.TypeAssert)
		if ok && ta.CommaOk && ta.X == x.X && types.Identical(ta.AssertedType, x.AssertedType) {
			s.OK, s.Why = true, "dominating comma-ok assertion of the same value succeeded"
			return s
		}
	}
	// value just built from that concrete type
	allOK := true
	leaves := w.Leaves(x.X, x)
	for _, lf := range leaves {
		mi, ok := lf.Val.(*ssa.MakeInterface)
		_ = mi
		if !ok {
			// Leaves strips MakeInterface: compare the static type of the leaf
			if types.Identical(lf.Val.Type(), x.AssertedType) {
				continue
			}
			allOK = false
		}
	}
	if allOK && len(leaves) > 0 {
		s.OK, s.Why = true, "every value reaching the assertion was built with the asserted concrete type"
		return s
	}
	s.Why = "non-comma-ok assertion on a value whose dynamic type is not established"
	return s
}

func shortQual2(p *types.Package) string { return p.Name() }

// ---- nil-dereference obligations (two repository-specific shapes) ----

// derefUses lists instructions that dereference pointer value p directly (field address, load, method call
// with p as receiver of a repository method that dereferences its receiver, or any invoke).
func derefUses(w *World, p ssa.Value) []ssa.Instruction {
	var out []ssa.Instruction
	refs := p.Referrers()
	if refs == nil {
		return nil
	}
	for _, r := range *refs {
		switch x := r.(type) {
		case *ssa.FieldAddr:
			if x.X == p {
				out = append(out, x)
			}
		case *ssa.UnOp:
			if x.Op == token.MUL && x.X == p {
				out = append(out, x)
			}
		case *ssa.Store:
			if x.Addr == p {
				out = append(out, x)
			}
		case ssa.CallInstruction:
			c := x.Common()
			if !c.IsInvoke() && len(c.Args) > 0 && c.Args[0] == p {
				if callee := c.StaticCallee(); callee != nil && callee.Signature.Recv() != nil && callee.Blocks != nil && w.derefsReceiver(callee) {
					out = append(out, x)
				}
			}
		}
	}
	return out
}

// derefsReceiver: the method dereferences its pointer receiver on some path where no nil test of it holds.
func (w *World) derefsReceiver(fn *ssa.Function) bool {
	if len(fn.Params) == 0 {
		return false
	}
	p := fn.Params[0]
	if _, ok := p.Type().Underlying().(*types.Pointer); !ok {
		return false
	}
	f := w.factsOf(fn)
	for _, u := range derefUses(w, p) {
		if isNil, known := f.KnownNil(u.Block(), p); known && !isNil {
			continue
		}
		return true
	}
	return false
}

// UseBeforeErrCheck: for calls in fns to repository functions returning (*T, ..., error) that can return a nil
// pointer together with a non-nil error, every dereference of the pointer result needs the must-fact err == nil
// (or ptr != nil).
func (w *World) UseBeforeErrCheck(fns []*ssa.Function) []panicSite {
	var out []panicSite
	for _, fn := range fns {
		f := w.factsOf(fn)
		for _, call := range callsIn(fn) {
			cv, ok := call.(*ssa.Call)
			if !ok {
				continue
			}
			callee := cv.Call.StaticCallee()
			if callee == nil || !w.InRepo(callee) || callee.Blocks == nil {
				continue
			}
			res := callee.Signature.Results()
			if res.Len() < 2 || !isErrorType(res.At(res.Len()-1).Type()) {
				continue
			}
			if _, isPtr := res.At(0).Type().Underlying().(*types.Pointer); !isPtr {
				continue
			}
			if !w.mayReturnNilWithErr(callee) {
				continue
			}
			var ptr, errv ssa.Value
			if refs := cv.Referrers(); refs != nil {
				for _, r := range *refs {
					if ex, ok := r.(*ssa.Extract); ok {
						if ex.Index == 0 {
							ptr = ex
						} else if ex.Index == res.Len()-1 {
							errv = ex
						}
					}
				}
			}
			if ptr == nil {
				continue
			}
			for _, u := range derefUses(w, ptr) {
				site := panicSite{Fn: fn, Instr: u, Kind: "nil dereference", Expr: "result of " + shortFn(callee) + " used before its error is checked"}
				if isNil, known := f.KnownNil(u.Block(), ptr); known && !isNil {
					site.OK, site.Why = true, "must-fact: pointer != nil"
				} else if errv != nil {
					if isNil, known := f.KnownNil(u.Block(), errv); known && isNil {
						site.OK, site.Why = true, "must-fact: error == nil"
					}
				}
				if !site.OK {
					site.Why = "the callee returns (nil, err) on some path and no fact err == nil / ptr != nil holds here"
				}
				out = append(out, site)
			}
		}
	}
	return out
}

func (w *World) mayReturnNilWithErr(fn *ssa.Function) bool {
	for _, r := range returnsOf(fn) {
		if len(r.Results) == 0 {
			continue
		}
		for _, lf := range w.Leaves(r.Results[0], r) {
			if isNilConst(lf.Val) {
				return true
			}
		}
	}
	return false
}

// JSONNullPointer: the address of a pointer-typed local handed to encoding/json.Unmarshal lets the input
// `null` set the pointer to nil; every later dereference of the pointer needs a non-nil fact.
func (w *World) JSONNullPointer(fns []*ssa.Function) []panicSite {
	var out []panicSite
	for _, fn := range fns {
		f := w.factsOf(fn)
		for _, call := range callsTo(fn, "encoding/json.Unmarshal", "(*encoding/json.Decoder).Decode") {
			args := call.Common().Args
			target := args[len(args)-1]
			a, ok := strip(target).(*ssa.Alloc)
			if !ok {
				continue
			}
			if _, isPtr := a.Type().(*types.Pointer).Elem().Underlying().(*types.Pointer); !isPtr {
				continue
			}
			// loads of the cell after the call
			refs := a.Referrers()
			if refs == nil {
				continue
			}
			for _, r := range *refs {
				ld, ok := r.(*ssa.UnOp)
				if !ok || ld.Op != token.MUL {
					continue
				}
				if !ReachableAvoiding(call, nil)(ld) {
					continue
				}
				for _, u := range derefUses(w, ld) {
					site := panicSite{Fn: fn, Instr: u, Kind: "nil dereference", Expr: "pointer decoded by json.Unmarshal through its own address (JSON null makes it nil)"}
					if isNil, known := f.KnownNil(u.Block(), ld); known && !isNil {
						site.OK, site.Why = true, "must-fact: pointer != nil"
					} else {
						site.Why = "json.Unmarshal(data, &p) with p a pointer: input `null` stores nil into p, which is dereferenced here without a nil check"
					}
					out = append(out, site)
				}
			}
		}
	}
	return out
}

// reportSites turns panic sites into obligations.
func reportSites(c *Ctx, rule string, sites []panicSite) (n int) {
	seen := map[string]int{}
	for _, s := range sites {
		kf := shortFn(s.Fn)
		if s.KeyFn != "" {
			kf = s.KeyFn
		}
		key := kf + "|" + s.Kind + " " + s.Expr
		seen[key]++
		if seen[key] > 1 {
			key += fmt.Sprintf(" #%d", seen[key])
		}
		if s.OK {
			c.Ok(rule, key, c.w.Pos(s.Instr.Pos()), s.Why)
		} else {
			c.Bad(rule, key, c.w.Pos(s.Instr.Pos()), "may panic: "+s.Why)
		}
		n++
	}
	return n
}

var _ = strings.Contains

// idxSummary: what is known of the integer a helper returns.
type idxSummary struct {
	lo, hi     int64
	ltLenParam int // index of the parameter whose length every non-negative return is below (-1: none)
}

// indexSummary computes the summary of helper h (one integer result), nil when nothing useful is known.
func (w *World) indexSummary(h *ssa.Function) *idxSummary {
	if w.idxSums == nil {
		w.idxSums = map[*ssa.Function]*idxSummary{}
	}
	if s, ok := w.idxSums[h]; ok {
		return s
	}
	w.idxSums[h] = nil // recursion guard
	if bt, ok := h.Signature.Results().At(0).Type().Underlying().(*types.Basic); !ok || bt.Info()&types.IsInteger == 0 {
		return nil
	}
	old := w.focus
	defer w.restoreFocus(old)
	bc := &boundsCtx{w: w, fn: h, root: h, facts: w.Facts(h)}
	sum := &idxSummary{lo: posInf, hi: negInf, ltLenParam: -2}
	n := 0
	for _, ret := range liveReturns(h) {
		n++
		r := bc.rng(ret.Results[0], ret.Block())
		if r.lo < sum.lo {
			sum.lo = r.lo
		}
		if r.hi > sum.hi {
			sum.hi = r.hi
		}
		if r.hi != posInf && r.hi < 0 {
			continue // a negative sentinel is below every length
		}
		pi := -1
		if r.ltLenOf != nil {
			if p, isParam := stripConv(r.ltLenOf).(*ssa.Parameter); isParam && p.Parent() == h {
				pi = paramIndex(p)
			}
		}
		switch {
		case pi < 0:
			sum.ltLenParam = -1
		case sum.ltLenParam == -2:
			sum.ltLenParam = pi
		case sum.ltLenParam != pi:
			sum.ltLenParam = -1
		}
	}
	if n == 0 {
		return nil
	}
	if sum.ltLenParam == -2 {
		sum.ltLenParam = -1
	}
	w.idxSums[h] = sum
	return sum
}

// splitOnLength re-examines the failed obligation at ins once for every length that some sequence measured in fn can
// have at block b, when the value-set flow of that length (guards comparing it with constants) leaves at most four.
func (bc *boundsCtx) splitOnLength(ins ssa.Instruction, b *ssa.BasicBlock) (string, bool) {
	w, fn := bc.w, bc.fn
	var seqs []ssa.Value
	for _, call := range callsIn(fn) {
		cv, ok := call.(*ssa.Call)
		if !ok {
			continue
		}
		la := lenArg(cv)
		if la == nil {
			continue
		}
		dup := false
		for _, s := range seqs {
			if bc.sameSeq(s, la) {
				dup = true
			}
		}
		if !dup {
			seqs = append(seqs, la)
		}
	}
	if len(seqs) > 6 {
		seqs = seqs[:6]
	}
	for _, seq := range seqs {
		flow := w.newByteFlow(fn, func(v ssa.Value) bool {
			la := lenArg(strip(v))
			return la != nil && bc.sameSeq(la, seq)
		}, func(ssa.Instruction) bool { return false })
		if flow.tests == 0 || !flow.known[b] {
			continue
		}
		set := flow.in[b]
		if set.full() || set.count() == 0 || set.count() > 4 || set.has(255) {
			continue // 255 stands for "255 or more" in a set of byte values: not a bounded length
		}
		allOK := true
		for _, k := range set.list() {
			bc.fixSeq, bc.fixLen = seq, k
			var site *panicSite
			switch x := ins.(type) {
			case *ssa.IndexAddr:
				site = bc.checkIndex(x, x.X, x.Index, b)
			case *ssa.Index:
				site = bc.checkIndex(x, x.X, x.Index, b)
			case *ssa.Slice:
				site = bc.checkSlice(x, b)
			}
			bc.fixSeq = nil
			if site == nil || !site.OK {
				allOK = false
				break
			}
		}
		if allOK {
			return fmt.Sprintf("holds for each length %v that %s can have here", set.list(), w.Short(seq)), true
		}
	}
	return "", false
}
