package main

import (
	"go/token"
	"go/types"
	"strings"

	"golang.org/x/tools/go/ssa"
)

func init() {
	register(&property{
		ID: "C07",
		Meta: propMeta{
			Level:       "Structural necessary conditions of 'never lists or signs with expired, premature or keyless certificates', decided on all paths: (R1) in the listing, signing and signer-listing methods every successful return and every signing/listing call on the underlying agent is reached only under the must-fact that the pruning function returned nil; (R2) what the listing returns is built from the pruning function's own results (no second, unfiltered listing of the underlying agent), and the signer listing asks the underlying agent only after pruning; (R3) the pruning function hands both pruning passes a remover that calls the real removal, and returns on either error; the removal deletes the in-memory entry and calls the underlying agent's Remove; (R4) the expiry pass removes exactly under the must-fact 'validity test of this very certificate at this activation's clock is false', over both collections; the orphan pass removes nothing when the listed key list is empty and removes exactly under a failed lookup of the certificate's key hash in the set filled from every listed key; (R5) the validity test returns false for nil, clamps both bounds to MaxInt64 before the signed comparison and compares in the right directions. The interplay of swap-remove with the callers' range loops and time passing inside one call are not decided.",
			Technique:   "static analysis: must-fact gating (dominance + branch literals) and value-flow on go/ssa",
			Explanation: "All anchors are resolved by role inside package agent/shimagent: the pruning method is the server method returning (map, slice, error) that lists the underlying agent; the two passes are its static callees, told apart by which one calls the validity test.",
			Assumptions: []string{"time.Now and (time.Time).Unix", "the hash function identifies keys", "x/crypto Marshal of keys is canonical"},
			Trusted:     []string{"go/packages", "go/types", "go/ssa"},
			RuleDoc: map[string]string{
				"R1.filterfirst": "filter() == nil dominates every successful return and every agent sign/signers call",
				"R2.provenance":  "listing is built from filter's results; no unfiltered agent listing in List/Signers/SignWithFlags",
				"R3.wiring":      "filter wires both passes to the real removal and propagates their errors; remove touches memory and agent",
				"R4.passes":      "expiry and orphan passes: removal conditions and coverage of both collections",
				"R5.validity":    "validity test: nil, clamp, comparison directions",
				"R6.inplace":     "the remover overwrites only the removed identity's slot of the listing shared with the pruning passes",
				"R7.certtypes":   "the identity-to-certificate cast recognises every certificate type name of x/crypto/ssh",
			},
		},
		Run: runC07,
	})
}

func runC07(c *Ctx) {
	w := c.w
	m := resolveShim(w)
	for _, p := range m.problems {
		c.Unresolved("R1.filterfirst", p)
	}
	if m.Server == nil || len(m.problems) > 0 {
		return
	}
	// the pruning method: server method whose results are (map, slice, error)
	var filter *ssa.Function
	for _, fn := range m.Methods {
		res := fn.Signature.Results()
		if res.Len() == 3 && isErrorType(res.At(2).Type()) {
			if _, ok := res.At(0).Type().Underlying().(*types.Map); ok {
				filter = fn
			}
		}
	}
	remove := (*ssa.Function)(nil)
	for _, fn := range m.Methods {
		// the removal helper: unexported method (key) error that deletes from the table
		if fn.Object() != nil && !fn.Object().Exported() && fn.Signature.Params().Len() == 1 && fn.Signature.Results().Len() == 1 {
			for _, a := range w.FieldAccesses(m.Owner(m.fCerts), m.fCerts) {
				if a.Fn == fn && a.Kind == "mapdelete" {
					remove = fn
				}
			}
		}
	}
	if filter == nil || remove == nil {
		c.Unresolved("R1.filterfirst", "pruning method (map, slice, error) / removal helper of the shim server")
		return
	}
	c.Saw(filter)
	c.Saw(remove)

	// ---- R1 / R2 ----
	for _, name := range []string{"List", "SignWithFlags", "Signers"} {
		fn := m.Body(name)
		if fn == nil {
			c.Unresolved("R1.filterfirst", "method "+name)
			continue
		}
		c.Saw(fn)
		f := w.Facts(fn)
		var fcall *ssa.Call
		for _, call := range callsIn(fn) {
			if cv, ok := call.(*ssa.Call); ok && (cv.Call.StaticCallee() == filter || w.unwrapObserver(cv.Call.StaticCallee()) == filter) {
				fcall = cv
			}
		}
		if fcall == nil {
			c.Bad("R1.filterfirst", name+"|calls the pruning function", w.FnPos(fn), name+" answers without pruning expired / orphan certificates first")
			continue
		}
		c.Check(w.Expr(fcall.Call.Args[0]) == "p0", "R1.filterfirst", name+"|prunes its own server", w.Pos(fcall.Pos()), "s.filter()", "filter is called on another server")
		ferr := extractOf(fcall, 2)
		n := 0
		for _, r := range w.MayBeNilReturns(fn) {
			if fn.Recover != nil && r.Block() == fn.Recover {
				continue
			}
			// List's locked early return
			if v, known := m.lockedKnown(fn, r.Block()); known && v {
				continue
			}
			n++
			isNil, known := f.KnownNil(r.Block(), ferr)
			c.Check(ferr != nil && known && isNil, "R1.filterfirst", name+"|success only after pruning succeeded", w.Pos(r.Pos()), "must-fact filter() err == nil", name+" can return successfully on a path where pruning did not run or failed")
		}
		c.Floor("R1.filterfirst", n, 1, "successful return of "+name)
		// what the answer is computed from is read after pruning: every read of the in-memory certificate table in
		// this method comes after the pruning call (an entry fetched before it may be one the pruning pass removes)
		for _, a := range w.FieldAccesses(m.Owner(m.fCerts), m.fCerts) {
			if a.Fn != fn && !(a.Fn.Parent() == fn) {
				continue
			}
			switch a.Kind {
			case "read", "mapread", "range", "call", "addr", "addrcall":
				if v, known := m.lockedKnown(fn, a.Instr.Block()); known && v {
					continue
				}
				c.Check(a.Fn == fn && InstrDominates(fcall, a.Instr), "R1.filterfirst", name+"|in-memory table read only after pruning", w.Pos(a.Instr.Pos()), "dominated by the filter() call", name+" reads the in-memory certificate table before pruning ran: an expired / premature / orphan entry fetched there is still used afterwards")
			}
		}
		for _, call := range callsIn(fn) {
			cm := call.Common()
			if !cm.IsInvoke() || !m.isLoadOfField(cm.Value, m.fAgent) {
				continue
			}
			switch cm.Method.Name() {
			case "SignWithFlags", "Sign", "Signers":
				isNil, known := f.KnownNil(call.Block(), ferr)
				c.Check(ferr != nil && known && isNil && InstrDominates(fcall, call), "R1.filterfirst", name+"|agent."+cm.Method.Name()+" after pruning", w.Pos(call.Pos()), "dominated by filter() with must-fact err == nil", "the underlying agent is asked before expired / orphan certificates were pruned")
			case "List":
				c.Bad("R2.provenance", name+"|unfiltered agent listing", w.Pos(call.Pos()), name+" lists the underlying agent itself: identities that the pruning pass removed can reappear")
			}
		}
		if name == "List" {
			// appended agent keys come from filter's result 1; in-memory ones from result 0
			okMem, okAg := false, false
			for _, b := range fn.Blocks {
				for _, ins := range b.Instrs {
					switch x := ins.(type) {
					case *ssa.Range:
						if x.X == extractOf(fcall, 0) {
							okMem = true
						}
					case *ssa.IndexAddr:
						if x.X == extractOf(fcall, 1) && isForwardRangeIndex(x.Index) {
							okAg = true
						}
					}
				}
			}
			c.Check(okMem, "R2.provenance", "List|in-memory certificates from the pruned view", w.Pos(fcall.Pos()), "ranges over filter()'s first result", "List does not build the in-memory part of the listing from filter()'s result")
			c.Check(okAg, "R2.provenance", "List|agent identities from the pruned view", w.Pos(fcall.Pos()), "ranges over filter()'s second result", "List does not build the agent part of the listing from filter()'s result")
		}
	}

	// ---- R3 ----
	ff := w.Facts(filter)
	var passes []*ssa.Call
	for _, call := range callsIn(filter) {
		cv, ok := call.(*ssa.Call)
		if !ok {
			continue
		}
		callee := cv.Call.StaticCallee()
		if callee == nil || !w.InRepo(callee) || callee.Signature.Recv() != nil || callee.Signature.Params().Len() != 3 {
			continue
		}
		passes = append(passes, cv)
	}
	var expiry, orphan *ssa.Function
	for _, pc := range passes {
		callee := pc.Call.StaticCallee()
		c.Saw(callee)
		usesValidity := false
		for _, g := range w.ReachableRepo([]*ssa.Function{callee}, false) {
			for _, cc := range callsIn(g) {
				if strings.HasSuffix(calleeName(cc), "sshutils/cert.ValidateSSHCertTime") {
					usesValidity = true
				}
			}
		}
		if usesValidity {
			expiry = callee
		} else {
			orphan = callee
		}
		// error propagated
		u, has := ErrUseOf(pc)
		okErr := has && u.Tested
		if okErr {
			for _, r := range liveReturns(filter) {
				if n, k := ff.KnownNil(r.Block(), u.Err); k && !n {
					for _, lf := range w.Leaves(r.Results[2], r) {
						if !w.NonNil(lf.Val, lf.Facts) {
							okErr = false
						}
					}
				}
			}
			for _, b := range filter.Blocks {
				if n, k := ff.KnownNil(b, u.Err); k && !n {
					if !leadsOnlyToReturns(b, func(x *ssa.BasicBlock) bool { n2, k2 := ff.KnownNil(x, u.Err); return k2 && !n2 }) {
						okErr = false
					}
				}
			}
		}
		c.Check(okErr, "R3.wiring", "filter|error of "+shortFn(callee)+" returned", w.Pos(pc.Pos()), "non-nil edge returns a non-nil error", "a failed pruning pass does not make filter fail")
		// remover argument: closure calling the real removal
		okRem := false
		if mc, ok := strip(pc.Call.Args[0]).(*ssa.MakeClosure); ok {
			clo := mc.Fn.(*ssa.Function)
			c.Saw(clo)
			for _, cc := range callsIn(clo) {
				if cv, ok := cc.(*ssa.Call); ok && cv.Call.StaticCallee() == remove && len(cv.Call.Args) == 2 && w.Expr(cv.Call.Args[1]) == "p0" {
					// its error is returned
					u, has := ErrUseOf(cv)
					if has && (u.Tested || u.Direct) {
						okRem = true
					}
				}
			}
		}
		// ... or a value of a repository type whose method of the remover interface does that, on the server it was
		// built with - handed over as the value itself or as its bound method
		viaRecord := func(al *ssa.Alloc, rm *ssa.Function) {
			if rm == nil || rm.Blocks == nil || len(rm.Params) < 2 {
				return
			}
			c.Saw(rm)
			fs := FieldStores(filter, al)
			for _, cc := range callsIn(rm) {
				cv, ok := cc.(*ssa.Call)
				if !ok {
					continue
				}
				var recv, key ssa.Value
				switch {
				case cv.Call.StaticCallee() == remove && len(cv.Call.Args) == 2:
					recv, key = cv.Call.Args[0], cv.Call.Args[1]
				case cv.Call.IsInvoke() && cv.Call.Method.Name() == remove.Name() && len(cv.Call.Args) == 1:
					// through the interface the server satisfies: the receiver decides (below)
					recv, key = cv.Call.Value, cv.Call.Args[0]
				default:
					continue
				}
				if w.ExprIn(rm, key) != "p1" {
					continue
				}
				// the server it is called on: a field of the receiver that filter set to its own receiver
				onOwn := false
				if ld, isLd := strip(recv).(*ssa.UnOp); isLd {
					if fa, isFA := ld.X.(*ssa.FieldAddr); isFA && fa.X == ssa.Value(rm.Params[0]) {
						if vs := fs[fieldName(fa.X.Type(), fa.Field)]; len(vs) == 1 && w.ExprIn(filter, vs[0]) == "p0" {
							onOwn = true
						}
					}
				}
				u, has := ErrUseOf(cv)
				if onOwn && has && (u.Tested || u.Direct) {
					okRem = true
				}
			}
		}
		if al, ok := strip(pc.Call.Args[0]).(*ssa.Alloc); ok && !okRem {
			if T := derefNamedT(al.Type()); T != nil && w.InRepoType(T) {
				viaRecord(al, w.methodOfNamed(T, "remove"))
			}
		}
		if mc, ok := w.canon(filter, pc.Call.Args[0]).(*ssa.MakeClosure); ok && !okRem && len(mc.Bindings) == 1 {
			if bw, _ := mc.Fn.(*ssa.Function); bw != nil && strings.HasPrefix(bw.Synthetic, "bound method wrapper") {
				if al, isAl := strip(mc.Bindings[0]).(*ssa.Alloc); isAl {
					for _, cc := range callsIn(bw) {
						if callee := cc.Common().StaticCallee(); callee != nil && w.InRepo(callee) {
							viaRecord(al, callee)
						}
					}
				}
			}
		}
		c.Check(okRem, "R3.wiring", "filter|"+shortFn(callee)+" removes through the real removal", w.Pos(pc.Pos()), "remover closure calls (*Server).remove(key) and returns its error", "the remover handed to the pruning pass does not call the server's removal with the key it was given")
		// collections handed over: the table and this activation's listing
		// the listing handed over IS this activation's agent listing (possibly the variable the removal closure
		// truncates), not something computed from it (a filtered copy hides identities from the pruning pass)
		var isListing func(v ssa.Value, depth int) bool
		isListing = func(v ssa.Value, depth int) bool {
			if depth > 6 {
				return false
			}
			v = strip(v)
			if fv, ok := v.(*ssa.FreeVar); ok {
				if b := freeVarBinding(fv); b != nil {
					v = b
				}
			}
			switch x := v.(type) {
			case *ssa.Extract:
				cv, ok := x.Tuple.(*ssa.Call)
				return ok && x.Index == 0 && cv.Call.IsInvoke() && cv.Call.Method.Name() == "List" && m.isLoadOfField(cv.Call.Value, m.fAgent)
			case *ssa.Slice:
				return isListing(x.X, depth+1)
			case *ssa.Phi:
				for _, e := range x.Edges {
					if !isNilConst(e) && !isListing(e, depth+1) {
						return false
					}
				}
				return true
			case *ssa.UnOp:
				if x.Op != token.MUL {
					return false
				}
				addr := x.X
				if fv, ok := addr.(*ssa.FreeVar); ok {
					if b := freeVarBinding(fv); b != nil {
						addr = b
					}
				}
				if fa, isFA := addr.(*ssa.FieldAddr); isFA {
					// the listing kept in a field of the remover value: every store into that field (anywhere) puts there
					// the agent's listing, the field itself, a truncation of it, or what a helper hands back of it
					T := derefNamedT(fa.X.Type())
					if T == nil || !w.InRepoType(T) {
						return false
					}
					fname := fieldName(fa.X.Type(), fa.Field)
					same := func(v ssa.Value) bool {
						ld, ok := strip(v).(*ssa.UnOp)
						if !ok || ld.Op != token.MUL {
							return false
						}
						f2, ok := ld.X.(*ssa.FieldAddr)
						return ok && derefNamedT(f2.X.Type()) == T && fieldName(f2.X.Type(), f2.Field) == fname
					}
					nList := 0
					for _, acc := range w.FieldAccesses(T, fname) {
						if acc.Kind == "addr" || acc.Kind == "addrcall" {
							return false
						}
						st, isSt := acc.Instr.(*ssa.Store)
						if acc.Kind != "write" || !isSt {
							continue
						}
						val := strip(st.Val)
						if isNilConst(val) || same(val) {
							continue
						}
						if sl, isSl := val.(*ssa.Slice); isSl && same(sl.X) {
							continue
						}
						if hc, isCall := val.(*ssa.Call); isCall {
							if h := w.helperOf(hc); h != nil && h.Signature.Results().Len() == 1 {
								pj := -1
								for j, arg := range hc.Call.Args {
									if same(arg) {
										pj = j
									}
								}
								okHelper := pj >= 0
								for _, r := range liveReturns(h) {
									for _, lf := range w.leaves(r.Results[0], r, false) {
										base := strip(lf.Val)
										for {
											sl, isSl := base.(*ssa.Slice)
											if !isSl {
												break
											}
											base = strip(sl.X)
										}
										if pj < 0 || base != ssa.Value(h.Params[pj]) {
											okHelper = false
										}
									}
								}
								if okHelper {
									continue
								}
							}
						}
						if !isListing(val, depth+1) {
							return false
						}
						nList++
					}
					return nList >= 1
				}
				a, ok := addr.(*ssa.Alloc)
				if !ok {
					return false
				}
				stores, ok := cellStores(a)
				if !ok || len(stores) == 0 {
					return false
				}
				for _, st := range stores {
					if isNilConst(st.Val) {
						continue
					}
					if ld, isLd := st.Val.(*ssa.UnOp); isLd && ld.Op == token.MUL && depth > 0 {
						// self reference through the same variable
						if la, _ := ld.X.(*ssa.Alloc); la == a {
							continue
						}
					}
					if sl, isSl := st.Val.(*ssa.Slice); isSl {
						if ld, isLd := sl.X.(*ssa.UnOp); isLd && ld.Op == token.MUL {
							ad := ld.X
							if fv, ok := ad.(*ssa.FreeVar); ok {
								if b := freeVarBinding(fv); b != nil {
									ad = b
								}
							}
							if ad == ssa.Value(a) {
								continue // truncation of the variable itself
							}
						}
					}
					// the variable run through a helper that hands back the slice it was given, or a truncation of it
					if hc, isCall := st.Val.(*ssa.Call); isCall {
						if h := w.helperOf(hc); h != nil && h.Signature.Results().Len() == 1 {
							pj := -1
							for j, arg := range hc.Call.Args {
								if ld, isLd := arg.(*ssa.UnOp); isLd && ld.Op == token.MUL {
									ad := ld.X
									if fv, ok := ad.(*ssa.FreeVar); ok {
										if b := freeVarBinding(fv); b != nil {
											ad = b
										}
									}
									if ad == ssa.Value(a) {
										pj = j
									}
								}
							}
							okHelper := pj >= 0
							for _, r := range liveReturns(h) {
								for _, lf := range w.leaves(r.Results[0], r, false) {
									base := strip(lf.Val)
									for {
										sl, isSl := base.(*ssa.Slice)
										if !isSl {
											break
										}
										base = strip(sl.X)
									}
									if pj < 0 || base != ssa.Value(h.Params[pj]) {
										okHelper = false
									}
								}
							}
							if okHelper {
								continue
							}
						}
					}
					if !isListing(st.Val, depth+1) {
						return false
					}
				}
				return true
			}
			return false
		}
		_, listingInField := func() (ssa.Value, bool) {
			ld, ok := strip(pc.Call.Args[2]).(*ssa.UnOp)
			if !ok {
				return nil, false
			}
			_, isFA := ld.X.(*ssa.FieldAddr)
			return ld, isFA
		}()
		okArgs := strings.HasSuffix(w.Expr(pc.Call.Args[1]), "p0."+m.fCerts) && (listingInField || strings.Contains(w.Expr(pc.Call.Args[2]), "Agent).List>(p0."+m.fAgent+")#0")) && isListing(pc.Call.Args[2], 0)
		c.Check(okArgs, "R3.wiring", "filter|"+shortFn(callee)+" sees the table and the fresh listing", w.Pos(pc.Pos()), "(s.certs, s.agent.List())", "the pruning pass is not given the in-memory table and this activation's agent listing: "+w.Short(pc.Call.Args[1])+", "+w.Short(pc.Call.Args[2]))
	}
	c.Floor("R3.wiring", len(passes), 2, "pruning passes called by filter")
	// ... and no activation answers without them: every successful return of filter comes after both passes (a fast
	// path that returns the table as it is when the agent lists nothing skips the expiry pass over the in-memory table)
	for _, r := range w.MayBeNilReturns(filter) {
		if filter.Recover != nil && r.Block() == filter.Recover {
			continue
		}
		for _, pc := range passes {
			c.Check(InstrDominates(pc, r), "R3.wiring", "filter|success only after "+shortFn(pc.Call.StaticCallee()), w.Pos(r.Pos()), "the pass dominates the successful return", "filter can return successfully on a path that did not run "+shortFn(pc.Call.StaticCallee())+": certificates outside their validity window (or orphaned ones) stay in the table and are listed")
		}
	}
	// R6: while the passes range over the listing, the remover may overwrite only the slot of the removed
	// identity in the shared backing array (swap-remove); shifting / appending over other slots makes the
	// callers' range loops skip or repeat identities.
	for _, pc := range passes {
		mc, ok := strip(pc.Call.Args[0]).(*ssa.MakeClosure)
		if !ok {
			continue
		}
		clo := mc.Fn.(*ssa.Function)
		// the captured listing variable: a free variable of slice type
		for _, fv := range clo.FreeVars {
			pt, ok := fv.Type().(*types.Pointer)
			if !ok {
				continue
			}
			if _, isSlice := pt.Elem().Underlying().(*types.Slice); !isSlice {
				continue
			}
			bad := ""
			for _, b := range clo.Blocks {
				for _, ins := range b.Instrs {
					switch x := ins.(type) {
					case *ssa.Store:
						if ia, ok := x.Addr.(*ssa.IndexAddr); ok {
							if ld, ok := ia.X.(*ssa.UnOp); ok && ld.X == ssa.Value(fv) {
								// allowed: the slot found by the range (a forward range index of this closure), or the slot an
								// index-of helper found in this same listing
								foundByHelper := false
								if hc, isCall := strip(ia.Index).(*ssa.Call); isCall {
									if h := w.helperOf(hc); h != nil {
										if sum := w.indexSummary(h); sum != nil && sum.ltLenParam >= 0 && sum.ltLenParam < len(hc.Call.Args) {
											if al, isLd := strip(hc.Call.Args[sum.ltLenParam]).(*ssa.UnOp); isLd && al.X == ssa.Value(fv) {
												foundByHelper = true
											}
										}
									}
								}
								// ... or by slices.Index / IndexFunc over this same listing
								if hc, isCall := strip(ia.Index).(*ssa.Call); isCall && strings.HasPrefix(calleeName(hc), "slices.Index") && len(hc.Call.Args) == 2 {
									if al, isLd := strip(hc.Call.Args[0]).(*ssa.UnOp); isLd && al.X == ssa.Value(fv) {
										foundByHelper = true
									}
								}
								if !isForwardRangeIndex(ia.Index) && !foundByHelper {
									bad = "writes slot " + w.Short(ia.Index) + " of the shared listing"
								}
							}
						}
					case *ssa.Call:
						if bi, ok := x.Call.Value.(*ssa.Builtin); ok && (bi.Name() == "append" || bi.Name() == "copy") {
							if strings.Contains(w.Expr(x.Call.Args[0]), "freevar:"+fv.Name()) || usesLoadOf(x.Call.Args[0], fv) {
								bad = bi.Name() + " onto the shared listing shifts the identities that the pruning pass has not visited yet"
							}
						}
					}
				}
			}
			if pc == passes[0] {
				c.Check(bad == "", "R6.inplace", "filter remover|only the removed slot of the shared listing is overwritten", w.FnPos(clo), "swap-remove writes the found slot only", "the remover "+bad+": the expiry / orphan pass ranging over the same backing array skips or repeats identities (an expired certificate can survive the pass)")
			}
		}
	}
	if expiry == nil || orphan == nil {
		c.Unresolved("R4.passes", "expiry pass (calls the validity test) and orphan pass")
	} else {
		// the orphan pass judges what the agent itself reported: it runs before the pass that removes identities from
		// the agent (the remover edits the shared listing, so a later orphan pass sees a pruned - possibly empty - list
		// and its "agent may be locked" guard keeps keyless certificates)
		var pcO, pcE *ssa.Call
		for _, pc := range passes {
			switch pc.Call.StaticCallee() {
			case orphan:
				pcO = pc
			case expiry:
				pcE = pc
			}
		}
		if pcO != nil && pcE != nil {
			c.Check(pcO.Parent() == pcE.Parent() && InstrDominates(pcO, pcE), "R4.passes", "filter|orphan pass sees the agent's unpruned listing", w.Pos(pcO.Pos()), "the orphan pass precedes the expiry pass",
				"the orphan pass runs after the expiry pass has removed identities from the agent and from the shared listing: when only expired identities were listed it sees an empty list and keeps certificates whose key is gone")
		}
	}
	// remove: deletes in memory and calls agent.Remove(key)
	okAgentRemove := false
	for _, call := range callsIn(remove) {
		cm := call.Common()
		if cm.IsInvoke() && cm.Method.Name() == "Remove" && m.isLoadOfField(cm.Value, m.fAgent) && w.Expr(cm.Args[0]) == "p1" {
			okAgentRemove = true
			// on every path to every return
			for _, r := range liveReturns(remove) {
				if !MustPassFromEntry(remove, r, map[ssa.Instruction]bool{call: true}) {
					okAgentRemove = false
				}
			}
		}
	}
	c.Check(okAgentRemove, "R3.wiring", "remove|underlying agent asked to remove the key", w.FnPos(remove), "s.agent.Remove(key)", "remove no longer removes the key from the underlying agent")
	okDel := false
	for _, a := range w.FieldAccesses(m.Owner(m.fCerts), m.fCerts) {
		if a.Fn == remove && a.Kind == "mapdelete" {
			call := a.Instr.(ssa.CallInstruction)
			if strings.Contains(w.Expr(call.Common().Args[1]), "Marshal>(p1)") {
				okDel = true
			}
		}
	}
	c.Check(okDel, "R3.wiring", "remove|in-memory entry deleted by the key's hash", w.FnPos(remove), "delete(s.certs, hash(key.Marshal()))", "remove does not delete the in-memory entry of the key it was given")

	// ---- R4 ----
	if expiry != nil {
		checkExpiryPass(c, expiry)
	}
	if orphan != nil {
		checkOrphanPass(c, orphan)
	}
	// ---- R5 ----
	checkValidity(c)
	// a failed removal surfaces as an error of the operation (a swallowed one leaves the expired certificate listed and
	// usable): the error discipline of the shim package (C10.R5), imported
	if m.Server != nil && len(m.problems) == 0 {
		c.WithRules(map[string]string{"R5.errors": "R3.wiring"}, func() { c10Errors(c, m) })
	}
	// ---- R7 ----
	checkCertTypes(c, "R7.certtypes")
}

// removalCalls: calls in fn (and its closures) that reach the remover interface's remove method.
func removalSites(w *World, fn *ssa.Function) []*ssa.Call {
	var out []*ssa.Call
	var fns []*ssa.Function
	fns = append(fns, fn)
	fns = append(fns, fn.AnonFuncs...)
	for _, f := range fns {
		for _, call := range callsIn(f) {
			cv, ok := call.(*ssa.Call)
			if !ok {
				continue
			}
			if cv.Call.IsInvoke() && cv.Call.Method.Name() == "remove" {
				out = append(out, cv)
			}
		}
	}
	return out
}

func checkExpiryPass(c *Ctx, fn *ssa.Function) {
	w := c.w
	f := w.Facts(fn)
	// the clock
	var now *ssa.Call
	for _, call := range callsTo(fn, "time.Now") {
		now, _ = call.(*ssa.Call)
	}
	c.Check(now != nil, "R4.passes", "expiry|clock of this activation", w.FnPos(fn), "time.Now() in the pass", "the expiry pass does not read the clock itself")
	// validity calls
	nSites := 0
	overSlice, overMap := false, false
	// the validity tests of the pass: its own, or - test and removal moved together into a helper - one per call of
	// that helper, the certificate and the clock being what the call hands over
	type vtest struct {
		cv          *ssa.Call
		certV, nowV ssa.Value
	}
	var tests []vtest
	testHelpers := map[*ssa.Function]bool{} // helpers / closures of the pass that hold the validity test and the removal it gates
	for _, call := range callsIn(fn) {
		cv, ok := call.(*ssa.Call)
		if !ok {
			continue
		}
		if strings.HasSuffix(calleeName(cv), "sshutils/cert.ValidateSSHCertTime") {
			tests = append(tests, vtest{cv, cv.Call.Args[0], cv.Call.Args[1]})
			continue
		}
		h := w.helperOf(cv)
		if h != nil && h.Parent() == fn && len(cv.Call.Args) == len(h.Params) {
			// a closure of the pass called for each certificate (it reads the clock the pass took)
		} else if h == nil {
			// ... or such a closure kept in a local variable
			if mc, isMC := cv.Call.Value.(*ssa.MakeClosure); isMC {
				h, _ = mc.Fn.(*ssa.Function)
			} else if ld, isLd := cv.Call.Value.(*ssa.UnOp); isLd && ld.Op == token.MUL {
				// the closure kept in a local variable
				if a, isA := ld.X.(*ssa.Alloc); isA {
					if sts, okc := cellStores(a); okc && len(sts) == 1 {
						if mc, isMC := sts[0].Val.(*ssa.MakeClosure); isMC {
							h, _ = mc.Fn.(*ssa.Function)
						}
					}
				}
			}
			if h == nil || h.Parent() != fn || len(cv.Call.Args) != len(h.Params) {
				continue
			}
		} else if !w.transparent(h) || len(cv.Call.Args) != len(h.Params) {
			continue
		}
		for _, hc := range callsIn(h) {
			hv, ok := hc.(*ssa.Call)
			if !ok || !strings.HasSuffix(calleeName(hv), "sshutils/cert.ValidateSSHCertTime") {
				continue
			}
			up := func(v ssa.Value) ssa.Value {
				if p, isParam := throughCell(strip(v)).(*ssa.Parameter); isParam && p.Parent() == h {
					if i := paramIndex(p); i >= 0 && i < len(cv.Call.Args) {
						return cv.Call.Args[i]
					}
				}
				// a variable of the pass captured by the closure, assigned once
				if ld, isLd := v.(*ssa.UnOp); isLd && ld.Op == token.MUL {
					if fv, isFV := ld.X.(*ssa.FreeVar); isFV {
						if a, isA := freeVarBinding(fv).(*ssa.Alloc); isA {
							if sts, okc := cellStores(a); okc && len(sts) == 1 {
								return sts[0].Val
							}
						}
					}
				}
				return v
			}
			tests = append(tests, vtest{hv, up(hv.Call.Args[0]), up(hv.Call.Args[1])})
			testHelpers[h] = true
		}
	}
	for _, vt := range tests {
		cv := vt.cv
		fn := cv.Parent()
		f := w.factsOf(fn)
		nSites++
		c.Check(now != nil && vt.nowV == ssa.Value(now), "R4.passes", "expiry|validity tested at this activation's clock", w.Pos(cv.Pos()), "ValidateSSHCertTime(x, now)", "the validity test is not given this activation's time.Now()")
		certV := cv.Call.Args[0]
		origin := w.Origins(vt.certV)
		for o := range origin {
			if o == "p2" || strings.HasPrefix(o, "p2.") {
				overSlice = true
			}
			if o == "p1" || strings.HasPrefix(o, "p1.") {
				overMap = true
			}
		}
		// the removal that depends on it: a call (closure or invoke) in a block where validity == false, with the same certificate
		found := false
		for _, b := range fn.Blocks {
			if v, known := f.KnownBool(b, cv); !(known && !v) {
				continue
			}
			for _, ins := range b.Instrs {
				rc, ok := ins.(*ssa.Call)
				if !ok {
					continue
				}
				isRem := (rc.Call.IsInvoke() && rc.Call.Method.Name() == "remove") || isClosureCall(rc)
				if !isRem {
					continue
				}
				for _, arg := range rc.Call.Args {
					if strip(arg) == strip(certV) || w.Expr(arg) == w.Expr(certV) {
						found = true
					}
				}
			}
		}
		c.Check(found, "R4.passes", "expiry|invalid certificate removed", w.Pos(cv.Pos()), "removal of the tested certificate under must-fact validity == false", "no removal of the tested certificate is reached under 'validity test is false'")
		// ... and under nothing else: the removal block's facts are those of the test's block plus the validity literal
		for _, b := range fn.Blocks {
			if v, known := f.KnownBool(b, cv); !(known && !v) {
				continue
			}
			hasRem := false
			for _, ins := range b.Instrs {
				if rc, ok := ins.(*ssa.Call); ok && ((rc.Call.IsInvoke() && rc.Call.Method.Name() == "remove") || isClosureCall(rc)) {
					hasRem = true
				}
			}
			if !hasRem {
				continue
			}
			extra := ""
			for l := range f.Primary(b) {
				if f.Primary(cv.Block())[l] {
					continue
				}
				if l.V == ssa.Value(cv) {
					continue
				}
				if u, ok := l.V.(*ssa.UnOp); ok && u.Op == token.NOT && u.X == ssa.Value(cv) {
					continue
				}
				extra = w.Short(l.V)
			}
			c.Check(extra == "", "R4.passes", "expiry|every invalid certificate removed", w.Pos(cv.Pos()), "the removal depends on the validity test only", "the removal of an invalid certificate additionally depends on "+extra+": some expired certificates stay")
		}
	}
	c.Floor("R4.passes", nSites, 2, "validity tests in the expiry pass")
	c.Check(overSlice, "R4.passes", "expiry|covers the agent's certificates", w.FnPos(fn), "a validity test on an element of the agent listing", "the expiry pass no longer tests certificates held by the underlying agent")
	c.Check(overMap, "R4.passes", "expiry|covers the in-memory certificates", w.FnPos(fn), "a validity test on a value of the in-memory table", "the expiry pass no longer tests in-memory certificates")
	// every removal in the pass is under validity == false
	for _, rc := range removalSites(w, fn) {
		if rc.Parent() != fn {
			if testHelpers[rc.Parent()] {
				// inside the closure that holds the validity test: gated by that test there
				hf := w.factsOf(rc.Parent())
				okIn := hf.Any(rc.Block(), func(l Lit) bool {
					cv, ok := l.V.(*ssa.Call)
					return ok && !l.Pol && strings.HasSuffix(calleeName(cv), "sshutils/cert.ValidateSSHCertTime")
				})
				c.Check(okIn, "R4.passes", "expiry|removal only of invalid certificates", w.Pos(rc.Pos()), "must-fact validity == false", "a certificate can be removed by the expiry pass although its validity test did not fail")
			}
			// inside the remover closure: it is only reachable through the closure calls checked below
			continue
		}
		okGate := f.Any(rc.Block(), func(l Lit) bool {
			cv, ok := l.V.(*ssa.Call)
			return ok && !l.Pol && strings.HasSuffix(calleeName(cv), "sshutils/cert.ValidateSSHCertTime")
		})
		c.Check(okGate, "R4.passes", "expiry|removal only of invalid certificates", w.Pos(rc.Pos()), "must-fact validity == false", "a certificate can be removed by the expiry pass although its validity test did not fail")
	}
	for _, b := range fn.Blocks {
		for _, ins := range b.Instrs {
			if rc, ok := ins.(*ssa.Call); ok && isClosureCall(rc) {
				if mc, isMC := rc.Call.Value.(*ssa.MakeClosure); isMC && testHelpers[mc.Fn.(*ssa.Function)] {
					continue // the closure tests the certificate itself (judged above, test by test)
				}
				okGate := f.Any(b, func(l Lit) bool {
					cv, ok := l.V.(*ssa.Call)
					return ok && !l.Pol && strings.HasSuffix(calleeName(cv), "sshutils/cert.ValidateSSHCertTime")
				})
				c.Check(okGate, "R4.passes", "expiry|removal only of invalid certificates", w.Pos(rc.Pos()), "must-fact validity == false", "a certificate can be removed by the expiry pass although its validity test did not fail")
			}
		}
	}
}

func isClosureCall(c *ssa.Call) bool {
	if c.Call.IsInvoke() {
		return false
	}
	_, ok := c.Call.Value.(*ssa.MakeClosure)
	return ok
}

func checkOrphanPass(c *Ctx, fn *ssa.Function) {
	w := c.w
	f := w.Facts(fn)
	rems := removalSites(w, fn)
	c.Floor("R4.passes", len(rems), 1, "removal sites in the orphan pass")
	// the key set: a local map updated for every listed key, built here or by a helper given the listing
	var set ssa.Value
	setFn := fn
	listParam := "p2"
	for _, b := range fn.Blocks {
		for _, ins := range b.Instrs {
			if mm, ok := ins.(*ssa.MakeMap); ok {
				set = mm
			}
		}
	}
	if set == nil {
		for _, call := range callsIn(fn) {
			cv, ok := call.(*ssa.Call)
			if !ok {
				continue
			}
			g := cv.Call.StaticCallee()
			if g == nil || !w.InRepo(g) {
				continue
			}
			if _, isMap := cv.Type().Underlying().(*types.Map); !isMap {
				continue
			}
			for i, a := range cv.Call.Args {
				if w.Expr(a) == "p2" {
					// the helper must return a map it made itself
					for _, b := range g.Blocks {
						for _, ins := range b.Instrs {
							if mm, ok := ins.(*ssa.MakeMap); ok {
								okRet := true
								for _, r := range liveReturns(g) {
									if r.Results[0] != ssa.Value(mm) {
										okRet = false
									}
								}
								if okRet {
									set, setFn, listParam = cv, g, "p2" // the helper's parameter is rendered as the argument it receives
									_ = i
									c.Saw(g)
									_ = mm
								}
							}
						}
					}
				}
			}
		}
	}
	var setInHelper ssa.Value = set
	if setFn != fn {
		for _, b := range setFn.Blocks {
			for _, ins := range b.Instrs {
				if mm, ok := ins.(*ssa.MakeMap); ok {
					setInHelper = mm
				}
			}
		}
	}
	var setOps []mapOp
	if set != nil {
		setOps = w.mapOpsOn(set)
	}
	for _, rc := range rems {
		// empty listing removes nothing
		okEmpty := f.Any(rc.Block(), func(l Lit) bool {
			bin, ok := l.V.(*ssa.BinOp)
			if !ok {
				return false
			}
			la := lenArg(bin.X)
			k, isK := intConst(bin.Y)
			if la == nil || !isK || k != 0 || w.Expr(la) != "p2" {
				return false
			}
			return (bin.Op == token.EQL && !l.Pol) || (bin.Op == token.NEQ && l.Pol) || (bin.Op == token.GTR && l.Pol)
		})
		c.Check(okEmpty, "R4.passes", "orphan|nothing removed on an empty key list", w.Pos(rc.Pos()), "must-fact len(listed keys) != 0", "the orphan pass can remove certificates when the underlying agent lists no keys (a locked agent)")
		// failed lookup of the removed certificate's key hash
		okLookup := f.Any(rc.Block(), func(l Lit) bool {
			if l.Pol || set == nil {
				return false
			}
			for _, op := range setOps {
				if op.Kind != "lookup" || op.Found == nil || op.Found != l.V {
					continue
				}
				ke := w.Expr(op.Key)
				if strings.Contains(ke, ".Key)") && strings.Contains(ke, "Marshal") && strings.Contains(ke, "range(p1)") {
					return true
				}
			}
			return false
		})
		c.Check(okLookup, "R4.passes", "orphan|removal only when the certificate's key is not listed", w.Pos(rc.Pos()), "must-fact: lookup of hash(cert.Key.Marshal()) in the listed-key set failed", "a certificate can be removed as orphan although the lookup of its key in the listed-key set did not fail")
	}
	// the set is filled from every listed key: map updates inside a forward range over p2, one on each branch of the cast
	nUpd := 0
	plain, viaCert := false, false
	w.Focus(fn)
	var fillOps []mapOp
	if setInHelper != nil {
		fillOps = w.mapOpsOn(setInHelper)
	}
	{
		for _, op := range fillOps {
			if op.Kind != "update" || op.At.Parent() != setFn {
				continue
			}
			mu := op.At
			nUpd++
			// the hashed blob, over every value that may reach it (one insert per branch of the cast, or one insert
			// of a blob chosen by the cast)
			for _, klf := range w.Leaves(op.Key, mu) {
				var kv ssa.Value = klf.Val
				if hc, ok := strip(kv).(*ssa.Call); ok && len(hc.Call.Args) == 1 {
					kv = hc.Call.Args[0]
				}
				var at ssa.Instruction = mu
				if ki, ok := strip(klf.Val).(ssa.Instruction); ok && ki.Parent() != mu.Parent() {
					at = ki
				}
				// ... or one Marshal() call on a key chosen by the cast: then the alternatives are those of the receiver
				viaRecv := false
				if mc, ok := strip(kv).(*ssa.Call); ok && mc.Call.IsInvoke() && mc.Call.Method.Name() == "Marshal" {
					if _, isPhi := strip(mc.Call.Value).(*ssa.Phi); isPhi {
						kv, viaRecv = mc.Call.Value, true
					}
				}
				kleaves := w.Leaves(kv, at)
				subst := ""
				// the blob chosen by an exported function of the repository (one parameter: the identity): its returns,
				// rendered with the argument in place of the parameter
				if hc, ok := throughCell(strip(kv)).(*ssa.Call); ok && len(hc.Call.Args) == 1 {
					if h := hc.Call.StaticCallee(); h != nil && w.InRepo(h) && h.Blocks != nil && !w.transparent(h) && h.Signature.Results().Len() == 1 {
						kleaves = nil
						subst = w.Expr(hc.Call.Args[0])
						for _, r := range liveReturns(h) {
							for _, lf := range w.leaves(r.Results[0], r, false) {
								fs := copyFacts(w.factsOf(h).in[r.Block()])
								for l := range lf.Facts {
									fs[l] = true
								}
								kleaves = append(kleaves, Leaf{Val: lf.Val, Facts: fs})
							}
						}
					}
				}
				for _, lf := range kleaves {
					ke := w.Expr(lf.Val)
					if ins, isIns := lf.Val.(ssa.Instruction); subst != "" && isIns {
						ke = strings.ReplaceAll(w.ExprIn(ins.Parent(), lf.Val), "(p0)", "("+subst+")")
					}
					if lf.Facts == nil {
						lf.Facts = map[Lit]bool{}
					}
					for l := range klf.Facts {
						lf.Facts[l] = true
					}
					if viaRecv {
						// render as the blob of that receiver, in the form the tests below expect
						ke = "Marshal>(" + ke + ")"
					}
					castOK, castFailed := false, false
					for l := range lf.Facts {
						if y, isNil, ok := nilTest(l); ok {
							if ex, isEx := strip(y).(*ssa.Extract); isEx && ex.Index == 1 {
								if cc, isCall := ex.Tuple.(*ssa.Call); isCall && strings.HasSuffix(calleeName(cc), "CastSSHPublicKeyToCertificate") {
									castOK, castFailed = castOK || isNil, castFailed || !isNil
								}
							}
						}
					}
					if strings.Contains(ke, "#0.Key)") && castOK {
						viaCert = true
					} else if strings.Contains(ke, "Marshal>("+listParam+"[") && !castOK {
						plain = true
					}
					_ = castFailed
				}
			}
		}
	}
	c.Check(nUpd >= 1 && plain && viaCert, "R4.passes", "orphan|listed-key set filled from plain keys and certificates' keys", w.FnPos(fn), "both branches of the cast insert a key hash", "the listed-key set is not filled from every listed identity (plain key blob, or the key inside a certificate)")
	// the range over the listing has no early exit: every If in the fill loop is the cast test or the loop condition (approximated: no Return inside the fill loop before the lookup loop)
}

func checkValidity(c *Ctx) {
	w := c.w
	fn := w.Func(certPkg, "ValidateSSHCertTime")
	if fn == nil {
		c.Unresolved("R5.validity", "cert.ValidateSSHCertTime")
		return
	}
	c.Saw(fn)
	f := w.Facts(fn)
	const maxI64 = 1<<63 - 1
	// gtMax: the literals fs say that raw > MaxInt64 is `want`
	gtMax := func(fs map[Lit]bool, raw ssa.Value, want bool) bool {
		for l := range fs {
			bin, ok := l.V.(*ssa.BinOp)
			if !ok {
				continue
			}
			// raw > Max, Max < raw (or their negations raw <= Max, Max >= raw)
			var x, y ssa.Value
			pol := l.Pol
			switch bin.Op {
			case token.GTR:
				x, y = bin.X, bin.Y
			case token.LSS:
				x, y = bin.Y, bin.X
			case token.LEQ:
				x, y, pol = bin.X, bin.Y, !pol
			case token.GEQ:
				x, y, pol = bin.Y, bin.X, !pol
			default:
				continue
			}
			if k, ok := uintConst(y); ok && k == maxI64 && strip(x) == strip(raw) && pol == want {
				return true
			}
		}
		return false
	}
	// clampOf: conversion cv (uint64 -> int64) takes min(raw, MaxInt64): a two-way join whose MaxInt64 edge is taken
	// exactly under raw > MaxInt64. Returns the raw value.
	clampOf := func(cv *ssa.Convert) (ssa.Value, bool) {
		// the builtin: int64(min(raw, MaxInt64))
		if mc, isCall := cv.X.(*ssa.Call); isCall {
			if bi, isB := mc.Call.Value.(*ssa.Builtin); isB && bi.Name() == "min" && len(mc.Call.Args) == 2 {
				for i := 0; i < 2; i++ {
					if k, ok := uintConst(mc.Call.Args[i]); ok && k == maxI64 {
						return mc.Call.Args[1-i], true
					}
				}
			}
			return nil, false
		}
		phi, ok := cv.X.(*ssa.Phi)
		if !ok || len(phi.Edges) != 2 {
			return nil, false
		}
		var raw ssa.Value
		maxEdge := -1
		for i, e := range phi.Edges {
			if k, ok := uintConst(e); ok && k == maxI64 {
				maxEdge = i
			} else {
				raw = e
			}
		}
		if raw == nil || maxEdge < 0 {
			return nil, false
		}
		ef := w.factsOnEdge(phi.Block().Preds[maxEdge], phi.Block())
		other := w.factsOnEdge(phi.Block().Preds[1-maxEdge], phi.Block())
		return raw, gtMax(ef, raw, true) && gtMax(other, raw, false)
	}
	isU64toI64 := func(cv *ssa.Convert) bool {
		ft, okf := cv.X.Type().Underlying().(*types.Basic)
		tt, okt := cv.Type().Underlying().(*types.Basic)
		return okf && okt && ft.Kind() == types.Uint64 && tt.Kind() == types.Int64
	}
	fieldOf := func(v ssa.Value) string {
		ex := w.ExprIn(fn, v)
		if ex == "p0.ValidBefore" || ex == "p0.ValidAfter" {
			return strings.TrimPrefix(ex, "p0.")
		}
		return ""
	}
	// clamped: the int64 values of fn's frame that are min(cert.<field>, MaxInt64)
	clamped := map[ssa.Value]string{}
	nConv := 0
	report := func(cv *ssa.Convert, field string, good bool) {
		key := "ValidateSSHCertTime|" + field + " clamped before the signed comparison"
		if field == "" {
			key = "ValidateSSHCertTime|conversion " + w.Short(cv.X)
		}
		c.Check(good, "R5.validity", key, w.Pos(cv.Pos()), "x > MaxInt64 ? MaxInt64 : x", "a uint64 validity bound is converted to int64 without the clamp to MaxInt64: 'forever' (2^64-1) becomes -1 and the certificate always looks expired")
	}
	for _, g := range w.Tree(fn) {
		for _, b := range g.Blocks {
			for _, ins := range b.Instrs {
				cv, ok := ins.(*ssa.Convert)
				if !ok || !isU64toI64(cv) {
					continue
				}
				raw, good := clampOf(cv)
				if g == fn {
					nConv++
					field := ""
					if raw != nil {
						field = fieldOf(raw)
					}
					good = good && field != ""
					report(cv, field, good)
					if good {
						clamped[cv] = field
					}
					continue
				}
				// in a helper: one obligation per call, in the terms of the argument passed there
				prm, isParam := raw.(*ssa.Parameter)
				if raw == nil {
					// the other way of writing the clamp: `if t > Max { return Max }; return int64(t)`
					if p, ok := cv.X.(*ssa.Parameter); ok && p.Parent() == g {
						prm, isParam, raw = p, true, p
						good = gtMax(w.factsOf(g).Local(cv.Block()), p, false)
					}
				}
				whole := isParam && g.Signature.Results().Len() == 1
				if whole {
					for _, r := range liveReturns(g) {
						res := strip(r.Results[0])
						if res == ssa.Value(cv) {
							continue
						}
						// a return of MaxInt64 itself, taken exactly when the parameter exceeds it
						if k, isK := intConst(res); isK && k == maxI64 && gtMax(w.factsOf(g).Local(r.Block()), prm, true) {
							continue
						}
						whole = false
					}
				}
				sites := w.sitesIn(fn, g)
				if len(sites) == 0 {
					nConv++
					report(cv, "", false)
				}
				for _, s := range sites {
					nConv++
					field := ""
					call, isCall := s.(*ssa.Call)
					if whole && isCall && s.Parent() == fn {
						field = fieldOf(s.Common().Args[paramIndex(prm)])
					}
					ok := good && field != ""
					report(cv, field, ok)
					if ok {
						clamped[call] = field
					}
				}
			}
		}
	}
	c.Floor("R5.validity", nConv, 2, "uint64->int64 conversions of validity bounds")
	isUnix := func(v ssa.Value) bool {
		cv, ok := throughCell(strip(v)).(*ssa.Call)
		return ok && calleeName(cv) == "(time.Time).Unix"
	}
	sideOK := func(v ssa.Value, what string) bool {
		if what == ".Unix>" {
			return isUnix(v)
		}
		fld, ok := clamped[throughCell(strip(v))]
		return ok && fld == what
	}
	// every ordered comparison is lo <= hi or its negation
	leq := func(v ssa.Value) (lo, hi ssa.Value, pos, ok bool) {
		bin, isBin := v.(*ssa.BinOp)
		if !isBin {
			return nil, nil, false, false
		}
		switch bin.Op {
		case token.LEQ:
			return bin.X, bin.Y, true, true
		case token.GTR:
			return bin.X, bin.Y, false, true
		case token.GEQ:
			return bin.Y, bin.X, true, true
		case token.LSS:
			return bin.Y, bin.X, false, true
		}
		return nil, nil, false, false
	}
	// window: the literal says <left> <= <right> is `truth`
	window := func(l Lit, left, right string, truth bool) bool {
		lo, hi, pos, ok := leq(l.V)
		return ok && sideOK(lo, left) && sideOK(hi, right) && (l.Pol == pos) == truth
	}
	has := func(fs map[Lit]bool, left, right string, truth bool) bool {
		for l := range fs {
			if window(l, left, right, truth) {
				return true
			}
		}
		return false
	}
	nTrue, nFalse := 0, 0
	trueCase := func(r *ssa.Return, fs map[Lit]bool) {
		nTrue++
		okA := has(fs, "ValidAfter", ".Unix>", true)
		okB := has(fs, ".Unix>", "ValidBefore", true)
		isNil, known := f.knownNilIn(fs, fn.Params[0])
		c.Check(okA && okB && known && !isNil, "R5.validity", "ValidateSSHCertTime|valid only inside the window", w.Pos(r.Pos()), "must-facts: cert != nil, after <= now, now <= before", "true can be returned without both window comparisons having held (or for a nil certificate)")
	}
	falseCase := func(r *ssa.Return, fs map[Lit]bool, viaBlock *ssa.BasicBlock) {
		nFalse++
		isNil, known := f.knownNilIn(fs, fn.Params[0])
		ok := (known && isNil) || has(fs, "ValidAfter", ".Unix>", false) || has(fs, ".Unix>", "ValidBefore", false)
		if !ok && viaBlock != nil && len(viaBlock.Preds) > 0 {
			// a disjunction: every edge into the block carries one of the failing comparisons
			ok = true
			for _, p := range viaBlock.Preds {
				ef := w.factsOnEdge(p, viaBlock)
				if !has(ef, "ValidAfter", ".Unix>", false) && !has(ef, ".Unix>", "ValidBefore", false) {
					ok = false
				}
			}
		}
		c.Check(ok, "R5.validity", "ValidateSSHCertTime|invalid only when nil or outside the window", w.Pos(r.Pos()), "nil, premature or expired", "false is returned on a path that is neither nil, premature nor expired (comparison direction?)")
	}
	with := func(fs map[Lit]bool, l Lit) map[Lit]bool {
		out := copyFacts(fs)
		out[l] = true
		return out
	}
	for _, r := range liveReturns(fn) {
		for _, lf := range w.Leaves(r.Results[0], r) {
			fs := copyFacts(f.At(r.Block()))
			for l := range lf.Facts {
				fs[l] = true
			}
			if v, ok := boolConst(lf.Val); ok {
				if v {
					trueCase(r, fs)
				} else {
					falseCase(r, fs, r.Block())
				}
				continue
			}
			// a comparison returned as such: true where it holds, false where it does not
			val, neg := strip(lf.Val), false
			if u, isNot := val.(*ssa.UnOp); isNot && u.Op == token.NOT {
				val, neg = strip(u.X), true
			}
			if _, _, _, isCmp := leq(val); isCmp {
				trueCase(r, with(fs, Lit{V: val, Pol: !neg}))
				falseCase(r, with(fs, Lit{V: val, Pol: neg}), nil)
				continue
			}
			c.Und("R5.validity", "ValidateSSHCertTime|constant results", w.Pos(r.Pos()), "result is neither a boolean constant nor a comparison: "+w.Short(lf.Val))
		}
	}
	c.Floor("R5.validity", nTrue, 1, "return true")
	c.Floor("R5.validity", nFalse, 2, "return false")
}

func uintConst(v ssa.Value) (uint64, bool) {
	cst, ok := strip(v).(*ssa.Const)
	if !ok || cst.Value == nil {
		return 0, false
	}
	s := cst.Value.ExactString()
	var n uint64
	for _, ch := range s {
		if ch < '0' || ch > '9' {
			return 0, false
		}
		n = n*10 + uint64(ch-'0')
	}
	return n, true
}

// usesLoadOf: v is (a slice of) a load of the captured variable fv.
func usesLoadOf(v ssa.Value, fv *ssa.FreeVar) bool {
	for i := 0; i < 4; i++ {
		switch x := v.(type) {
		case *ssa.Slice:
			v = x.X
		case *ssa.UnOp:
			return x.X == ssa.Value(fv)
		default:
			return false
		}
	}
	return false
}
