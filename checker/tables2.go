package main

// tables2.go: "E3 table" rules for C06 (DigestInfo prefixes), C16 (parser tables, ModHex alphabet),
// C18 (cipher suites / tls.Config literal), C19 (type labels) and C02 (default extensions, algorithm names).
// Everything is evaluated on the type-checked syntax (constant values, resolved objects); standard-library
// tables are read from the standard library's own source packages loaded in World.ByPath.

import (
	"fmt"
	"go/ast"
	"go/constant"
	"go/token"
	"go/types"
	"sort"
	"strings"

	"golang.org/x/tools/go/packages"
	"golang.org/x/tools/go/ssa"
)

// ---------------------------------------------------------------- helpers

func t2repoPkg(c *Ctx, rel string) *packages.Package { return c.w.ByPath[RepoMod+"/"+rel] }

func t2unparen(e ast.Expr) ast.Expr {
	for {
		p, ok := e.(*ast.ParenExpr)
		if !ok {
			return e
		}
		e = p.X
	}
}

// t2obj resolves an identifier or selector expression to its object.
func t2obj(p *packages.Package, e ast.Expr) types.Object {
	switch x := t2unparen(e).(type) {
	case *ast.Ident:
		if o := p.TypesInfo.Uses[x]; o != nil {
			return o
		}
		return p.TypesInfo.Defs[x]
	case *ast.SelectorExpr:
		return p.TypesInfo.Uses[x.Sel]
	}
	return nil
}

// t2callee resolves the called function/method object of a call expression.
func t2callee(p *packages.Package, e ast.Expr) (*ast.CallExpr, types.Object) {
	call, ok := t2unparen(e).(*ast.CallExpr)
	if !ok {
		return nil, nil
	}
	return call, t2obj(p, call.Fun)
}

func t2isFunc(o types.Object, pkgPath, name string) bool {
	f, ok := o.(*types.Func)
	return ok && f.Pkg() != nil && f.Pkg().Path() == pkgPath && f.Name() == name
}

func t2isNamed(t types.Type, pkgPath, name string) bool {
	if t == nil {
		return false
	}
	n, ok := types.Unalias(t).(*types.Named)
	return ok && n.Obj().Pkg() != nil && n.Obj().Pkg().Path() == pkgPath && n.Obj().Name() == name
}

// t2pkgVars lists the package-level variables of p sorted by name.
func t2pkgVars(p *packages.Package) []*types.Var {
	var out []*types.Var
	sc := p.Types.Scope()
	for _, n := range sc.Names() {
		if v, ok := sc.Lookup(n).(*types.Var); ok {
			out = append(out, v)
		}
	}
	sort.Slice(out, func(i, j int) bool { return out[i].Name() < out[j].Name() })
	return out
}

// t2initOf returns the initializer of a package-level variable, matched by object.
func t2initOf(p *packages.Package, obj types.Object) ast.Expr {
	for _, f := range p.Syntax {
		for _, d := range f.Decls {
			gd, ok := d.(*ast.GenDecl)
			if !ok || gd.Tok != token.VAR {
				continue
			}
			for _, sp := range gd.Specs {
				vs := sp.(*ast.ValueSpec)
				for i, n := range vs.Names {
					if p.TypesInfo.Defs[n] == obj && i < len(vs.Values) {
						return vs.Values[i]
					}
				}
			}
		}
	}
	return nil
}

// t2declOf returns the declaration of a function object.
func t2declOf(p *packages.Package, obj types.Object) *ast.FuncDecl {
	for _, f := range p.Syntax {
		for _, d := range f.Decls {
			if fd, ok := d.(*ast.FuncDecl); ok && p.TypesInfo.Defs[fd.Name] == obj {
				return fd
			}
		}
	}
	return nil
}

func t2funcDecls(p *packages.Package) []*ast.FuncDecl {
	var out []*ast.FuncDecl
	for _, f := range p.Syntax {
		for _, d := range f.Decls {
			if fd, ok := d.(*ast.FuncDecl); ok && fd.Body != nil {
				out = append(out, fd)
			}
		}
	}
	sort.Slice(out, func(i, j int) bool { return t2declName(out[i]) < t2declName(out[j]) })
	return out
}

func t2declName(fd *ast.FuncDecl) string {
	if fd.Recv != nil && len(fd.Recv.List) == 1 {
		t := fd.Recv.List[0].Type
		if s, ok := t.(*ast.StarExpr); ok {
			t = s.X
		}
		if id, ok := t.(*ast.Ident); ok {
			return id.Name + "." + fd.Name.Name
		}
	}
	return fd.Name.Name
}

func t2hex(b []byte) string {
	var sb strings.Builder
	for i, x := range b {
		if i > 0 {
			sb.WriteByte(' ')
		}
		fmt.Fprintf(&sb, "%02x", x)
	}
	return sb.String()
}

func t2dotted(o []int64) string {
	s := make([]string, len(o))
	for i, x := range o {
		s[i] = fmt.Sprint(x)
	}
	return strings.Join(s, ".")
}

// t2diffBytes describes the first difference between got and want ("" when equal).
func t2diffBytes(got, want []byte) string {
	n := len(got)
	if len(want) < n {
		n = len(want)
	}
	for i := 0; i < n; i++ {
		if got[i] != want[i] {
			return fmt.Sprintf("first difference at byte offset %d: got 0x%02x, want 0x%02x (got [%s], want [%s])", i, got[i], want[i], t2hex(got), t2hex(want))
		}
	}
	if len(got) != len(want) {
		return fmt.Sprintf("length %d, want %d: first difference at byte offset %d (got [%s], want [%s])", len(got), len(want), n, t2hex(got), t2hex(want))
	}
	return ""
}

// t2diffInts describes the first difference between two OIDs ("" when equal).
func t2diffInts(got, want []int64) string {
	n := len(got)
	if len(want) < n {
		n = len(want)
	}
	for i := 0; i < n; i++ {
		if got[i] != want[i] {
			return fmt.Sprintf("arc %d is %d, want %d (got %s, want %s)", i, got[i], want[i], t2dotted(got), t2dotted(want))
		}
	}
	if len(got) != len(want) {
		return fmt.Sprintf("%d arcs, want %d (got %s, want %s)", len(got), len(want), t2dotted(got), t2dotted(want))
	}
	return ""
}

// t2constInt evaluates e to an integer constant; name is the named constant used, if any.
func t2constInt(p *packages.Package, e ast.Expr) (val int64, name string, ok bool) {
	v := constOf(p, e)
	if v == nil {
		return 0, "", false
	}
	if v.Kind() != constant.Int {
		return 0, "", false
	}
	i, exact := constant.Int64Val(v)
	if !exact {
		return 0, "", false
	}
	if c, isC := t2obj(p, e).(*types.Const); isC {
		name = c.Name()
	}
	return i, name, true
}

func t2constStr(p *packages.Package, e ast.Expr) (string, bool) {
	v := constOf(p, e)
	if v == nil || v.Kind() != constant.String {
		return "", false
	}
	return constant.StringVal(v), true
}

// t2structOf: struct type behind T, *T (as recorded for elided &T{} literals) or a named struct.
func t2structOf(t types.Type) *types.Struct {
	if t == nil {
		return nil
	}
	if ptr, ok := t.Underlying().(*types.Pointer); ok {
		t = ptr.Elem()
	}
	st, _ := t.Underlying().(*types.Struct)
	return st
}

// t2fields maps the elements of a struct composite literal (keyed or positional) to field names.
func t2fields(p *packages.Package, cl *ast.CompositeLit, st *types.Struct) (map[string]ast.Expr, bool) {
	if st == nil {
		st = t2structOf(p.TypesInfo.TypeOf(cl))
	}
	if st == nil {
		return nil, false
	}
	out := map[string]ast.Expr{}
	for i, el := range cl.Elts {
		if kv, ok := el.(*ast.KeyValueExpr); ok {
			id, ok := kv.Key.(*ast.Ident)
			if !ok {
				return nil, false
			}
			out[id.Name] = kv.Value
			continue
		}
		if i >= st.NumFields() {
			return nil, false
		}
		out[st.Field(i).Name()] = el
	}
	return out, true
}

type t2row struct {
	f   map[string]ast.Expr
	pos token.Pos
}

// t2structRows evaluates a []struct{...}{ {...}, ... } (or []*T{ {...} }) literal into rows of field expressions.
func t2structRows(p *packages.Package, e ast.Expr) ([]t2row, bool) {
	cl, ok := t2unparen(e).(*ast.CompositeLit)
	if !ok {
		return nil, false
	}
	t := p.TypesInfo.TypeOf(cl)
	if t == nil {
		return nil, false
	}
	var elem types.Type
	switch u := t.Underlying().(type) {
	case *types.Slice:
		elem = u.Elem()
	case *types.Array:
		elem = u.Elem()
	default:
		return nil, false
	}
	st := t2structOf(elem)
	if st == nil {
		return nil, false
	}
	var rows []t2row
	for _, el := range cl.Elts {
		if kv, ok := el.(*ast.KeyValueExpr); ok {
			el = kv.Value
		}
		if u, ok := el.(*ast.UnaryExpr); ok && u.Op == token.AND {
			el = u.X
		}
		rc, ok := el.(*ast.CompositeLit)
		if !ok {
			return nil, false
		}
		f, ok := t2fields(p, rc, st)
		if !ok {
			return nil, false
		}
		rows = append(rows, t2row{f: f, pos: rc.Pos()})
	}
	return rows, true
}

// t2oidOf evaluates an OID expression: a literal, or a reference to a package-level variable of any loaded package.
func t2oidOf(w *World, p *packages.Package, e ast.Expr) (oid []int64, name string, ok bool) {
	e = t2unparen(e)
	if _, isLit := e.(*ast.CompositeLit); isLit {
		o, ok := intSliceLit(p, e)
		return o, "", ok
	}
	v, isVar := t2obj(p, e).(*types.Var)
	if !isVar || v.Pkg() == nil || v.Parent() != v.Pkg().Scope() {
		return nil, "", false
	}
	dp := w.ByPath[v.Pkg().Path()]
	if dp == nil {
		return nil, v.Name(), false
	}
	init := t2initOf(dp, v)
	if init == nil {
		return nil, v.Name(), false
	}
	o, ok := intSliceLit(dp, init)
	return o, v.Name(), ok
}

// t2returnStmts lists the return statements of a function body, not descending into function literals.
func t2returnStmts(body *ast.BlockStmt) []*ast.ReturnStmt {
	var out []*ast.ReturnStmt
	if body == nil {
		return nil
	}
	ast.Inspect(body, func(n ast.Node) bool {
		switch x := n.(type) {
		case *ast.FuncLit:
			return false
		case *ast.ReturnStmt:
			out = append(out, x)
		}
		return true
	})
	return out
}

// t2firstReturn: the first return statement among stmts (nested blocks included, closures excluded).
func t2firstReturn(stmts []ast.Stmt) *ast.ReturnStmt {
	rs := t2returnStmts(&ast.BlockStmt{List: stmts})
	if len(rs) == 0 {
		return nil
	}
	return rs[0]
}

func t2flattenAdd(e ast.Expr) []ast.Expr {
	e = t2unparen(e)
	if b, ok := e.(*ast.BinaryExpr); ok && b.Op == token.ADD {
		return append(t2flattenAdd(b.X), t2flattenAdd(b.Y)...)
	}
	return []ast.Expr{e}
}

func t2isNilIdent(p *packages.Package, e ast.Expr) bool {
	_, ok := t2obj(p, e).(*types.Nil)
	return ok
}

// t2isErrCtor: e is a call of errors.New or fmt.Errorf (a never-nil error).
func t2isErrCtor(p *packages.Package, e ast.Expr) bool {
	_, o := t2callee(p, e)
	return t2isFunc(o, "errors", "New") || t2isFunc(o, "fmt", "Errorf")
}

// ---------------------------------------------------------------- C06 R3.prefixes

type t2hash struct {
	constName string // name of the constant in package crypto
	display   string // crypto.Hash.String()
	size      int
	rfc       []byte // RFC 8017 section 9.2 note 1
}

var t2hashes = []t2hash{
	{"SHA1", "SHA-1", 20, []byte{0x30, 0x21, 0x30, 0x09, 0x06, 0x05, 0x2b, 0x0e, 0x03, 0x02, 0x1a, 0x05, 0x00, 0x04, 0x14}},
	{"SHA256", "SHA-256", 32, []byte{0x30, 0x31, 0x30, 0x0d, 0x06, 0x09, 0x60, 0x86, 0x48, 0x01, 0x65, 0x03, 0x04, 0x02, 0x01, 0x05, 0x00, 0x04, 0x20}},
	{"SHA384", "SHA-384", 48, []byte{0x30, 0x41, 0x30, 0x0d, 0x06, 0x09, 0x60, 0x86, 0x48, 0x01, 0x65, 0x03, 0x04, 0x02, 0x02, 0x05, 0x00, 0x04, 0x30}},
	{"SHA512", "SHA-512", 64, []byte{0x30, 0x51, 0x30, 0x0d, 0x06, 0x09, 0x60, 0x86, 0x48, 0x01, 0x65, 0x03, 0x04, 0x02, 0x03, 0x05, 0x00, 0x04, 0x40}},
}

// t2stripNull removes the NULL parameters (05 00) that follow the OID inside the AlgorithmIdentifier of a
// DigestInfo prefix and reduces both SEQUENCE lengths by two.
func t2stripNull(pfx []byte) ([]byte, string) {
	if len(pfx) < 8 || pfx[0] != 0x30 || pfx[2] != 0x30 || pfx[4] != 0x06 {
		return nil, "prefix does not start with SEQUENCE{SEQUENCE{OID"
	}
	nullAt := 6 + int(pfx[5])
	if nullAt+2 > len(pfx) || pfx[nullAt] != 0x05 || pfx[nullAt+1] != 0x00 {
		return nil, fmt.Sprintf("no NULL (05 00) after the OID at offset %d", nullAt)
	}
	if int(pfx[3]) != 2+int(pfx[5])+2 || pfx[1] < 2 {
		return nil, "AlgorithmIdentifier length does not cover exactly OID + NULL"
	}
	out := append([]byte{}, pfx[:nullAt]...)
	out = append(out, pfx[nullAt+2:]...)
	out[1] -= 2
	out[3] -= 2
	return out, ""
}

// t2byteMapVar evaluates a package-level map[K][]byte literal into key constant -> bytes.
func t2byteMap(p *packages.Package, init ast.Expr) (ints map[int64][]byte, strs map[string][]byte, pos map[string]token.Pos, ok bool) {
	entries, ok := mapLit(p, init)
	if !ok {
		return nil, nil, nil, false
	}
	ints, strs, pos = map[int64][]byte{}, map[string][]byte{}, map[string]token.Pos{}
	for _, e := range entries {
		b, ok := byteSliceLit(p, e.Val)
		if !ok {
			return nil, nil, nil, false
		}
		switch e.Key.Kind() {
		case constant.Int:
			i, _ := constant.Int64Val(e.Key)
			ints[i] = b
			pos[fmt.Sprint(i)] = e.Pos
		case constant.String:
			strs[constant.StringVal(e.Key)] = b
			pos[constant.StringVal(e.Key)] = e.Pos
		default:
			return nil, nil, nil, false
		}
	}
	return ints, strs, pos, true
}

func t2isByteMap(t types.Type) (*types.Map, bool) {
	m, ok := t.Underlying().(*types.Map)
	if !ok {
		return nil, false
	}
	s, ok := m.Elem().Underlying().(*types.Slice)
	if !ok {
		return nil, false
	}
	b, ok := s.Elem().Underlying().(*types.Basic)
	return m, ok && b.Kind() == types.Uint8
}

// t2stdHashPrefixes reads the standard library's DigestInfo prefix table from source, keyed by crypto.Hash.String().
func t2stdHashPrefixes(w *World, hashName map[int64]string) (tbl map[string][]byte, where, why string) {
	var reasons []string
	for _, path := range []string{"crypto/rsa", "crypto/internal/fips140/rsa"} {
		p := w.ByPath[path]
		if p == nil || p.Types == nil {
			reasons = append(reasons, path+": not loaded")
			continue
		}
		var cands []*types.Var
		if v, ok := p.Types.Scope().Lookup("hashPrefixes").(*types.Var); ok {
			cands = append(cands, v)
		} else {
			for _, v := range t2pkgVars(p) {
				if _, ok := t2isByteMap(v.Type()); ok {
					cands = append(cands, v)
				}
			}
		}
		if len(cands) == 0 {
			reasons = append(reasons, path+": no package-level map[...][]byte table")
			continue
		}
		for _, v := range cands {
			init := t2initOf(p, v)
			if init == nil {
				reasons = append(reasons, path+"."+v.Name()+": no initializer")
				continue
			}
			ints, strs, _, ok := t2byteMap(p, init)
			if !ok {
				reasons = append(reasons, path+"."+v.Name()+": initializer is not a constant map literal")
				continue
			}
			out := map[string][]byte{}
			for k, b := range ints {
				if n, ok := hashName[k]; ok {
					out[n] = b
				}
			}
			for k, b := range strs {
				out[k] = b
			}
			return out, path + "." + v.Name() + " (" + w.Pos(v.Pos()) + ")", ""
		}
	}
	return nil, "", strings.Join(reasons, "; ")
}

func tablesC06(c *Ctx) {
	const rule = "R3.prefixes"
	w := c.w
	p := t2repoPkg(c, "attestation/yubiattest")
	if p == nil {
		c.Unresolved(rule, "package attestation/yubiattest")
		return
	}
	cp := w.ByPath["crypto"]
	if cp == nil || cp.Types == nil {
		c.Unresolved(rule, "package crypto (hash identifiers)")
		return
	}
	hashVal := map[string]int64{}
	hashName := map[int64]string{}
	for _, h := range t2hashes {
		k, ok := cp.Types.Scope().Lookup(h.constName).(*types.Const)
		if !ok {
			c.Unresolved(rule, "constant crypto."+h.constName)
			return
		}
		v, _ := constant.Int64Val(k.Val())
		hashVal[h.display] = v
		hashName[v] = h.display
	}
	// the two tables, by type
	type tab struct {
		v    *types.Var
		data map[int64][]byte
		pos  map[string]token.Pos
	}
	var tabs []*tab
	for _, v := range t2pkgVars(p) {
		m, ok := t2isByteMap(v.Type())
		if !ok || !t2isNamed(m.Key(), "crypto", "Hash") {
			continue
		}
		init := t2initOf(p, v)
		if init == nil {
			c.Und(rule, "table "+v.Name()+"|constant literal", w.Pos(v.Pos()), "map[crypto.Hash][]byte variable without initializer")
			continue
		}
		ints, _, pos, ok := t2byteMap(p, init)
		if !ok {
			c.Und(rule, "table "+v.Name()+"|constant literal", w.Pos(v.Pos()), "initializer is not a map literal of constant keys and constant byte lists")
			continue
		}
		tabs = append(tabs, &tab{v, ints, pos})
	}
	// ... or one table whose element is a struct of the two encodings: map[crypto.Hash]struct{ a, b []byte }
	if len(tabs) == 0 {
		for _, v := range t2pkgVars(p) {
			m, ok := v.Type().Underlying().(*types.Map)
			if !ok || !t2isNamed(m.Key(), "crypto", "Hash") {
				continue
			}
			st, ok := m.Elem().Underlying().(*types.Struct)
			if !ok || st.NumFields() != 2 {
				continue
			}
			isBytes := func(t types.Type) bool {
				sl, ok := t.Underlying().(*types.Slice)
				if !ok {
					return false
				}
				b, ok := sl.Elem().Underlying().(*types.Basic)
				return ok && b.Kind() == types.Uint8
			}
			if !isBytes(st.Field(0).Type()) || !isBytes(st.Field(1).Type()) {
				continue
			}
			init := t2initOf(p, v)
			entries, okM := []MapEntry(nil), false
			if init != nil {
				entries, okM = mapLit(p, init)
			}
			if !okM {
				c.Und(rule, "table "+v.Name()+"|constant literal", w.Pos(v.Pos()), "initializer is not a map literal of constant keys")
				continue
			}
			two := []*tab{{st.Field(0), map[int64][]byte{}, map[string]token.Pos{}}, {st.Field(1), map[int64][]byte{}, map[string]token.Pos{}}}
			good := true
			for _, e := range entries {
				cl, isCL := e.Val.(*ast.CompositeLit)
				if !isCL || e.Key.Kind() != constant.Int {
					good = false
					break
				}
				k, _ := constant.Int64Val(e.Key)
				for i, el := range cl.Elts {
					idx := i
					val := el
					if kv, isKV := el.(*ast.KeyValueExpr); isKV {
						id, isID := kv.Key.(*ast.Ident)
						if !isID {
							good = false
							break
						}
						switch id.Name {
						case st.Field(0).Name():
							idx = 0
						case st.Field(1).Name():
							idx = 1
						default:
							good = false
						}
						val = kv.Value
					}
					b, okB := byteSliceLit(p, val)
					if !okB || idx > 1 {
						good = false
						break
					}
					two[idx].data[k] = b
					two[idx].pos[fmt.Sprint(k)] = e.Pos
				}
			}
			if !good {
				c.Und(rule, "table "+v.Name()+"|constant literal", w.Pos(v.Pos()), "an element is not a literal of two constant byte lists")
				continue
			}
			tabs = append(tabs, two...)
		}
	}
	if len(tabs) != 2 {
		c.Unresolved(rule, fmt.Sprintf("exactly two package-level map[crypto.Hash][]byte tables (found %d)", len(tabs)))
		c.Floor(rule, 0, 8, "prefix table entries")
		return
	}
	k256 := hashVal["SHA-256"]
	t1, t2 := tabs[0], tabs[1]
	if len(t1.data[k256]) == len(t2.data[k256]) {
		c.Unresolved(rule, "table roles (the SHA-256 entries of both tables have the same length)")
		c.Floor(rule, 0, 8, "prefix table entries")
		return
	}
	if len(t1.data[k256]) < len(t2.data[k256]) {
		t1, t2 = t2, t1
	}
	c.Note("C06 tables: table 1 (with NULL) = %s, table 2 (NULL omitted) = %s", t1.v.Name(), t2.v.Name())

	std, stdWhere, stdWhy := t2stdHashPrefixes(w, hashName)
	found := 0
	entryPos := func(t *tab, k int64) string {
		if ps, ok := t.pos[fmt.Sprint(k)]; ok {
			return w.Pos(ps)
		}
		return w.Pos(t.v.Pos())
	}
	selfConsistent := func(role string, t *tab, h t2hash, b []byte) {
		key := fmt.Sprintf("%s[%s]|DER lengths", role, h.display)
		switch {
		case len(b) < 4:
			c.Bad(rule, key, entryPos(t, hashVal[h.display]), fmt.Sprintf("prefix has only %d bytes", len(b)))
		case int(b[len(b)-1]) != h.size:
			c.Bad(rule, key, entryPos(t, hashVal[h.display]), fmt.Sprintf("last byte (OCTET STRING length, offset %d) is 0x%02x, want the %s digest size 0x%02x", len(b)-1, b[len(b)-1], h.display, h.size))
		case int(b[1]) != len(b)-2+h.size:
			c.Bad(rule, key, entryPos(t, hashVal[h.display]), fmt.Sprintf("byte 1 (outer SEQUENCE length) is 0x%02x, want len(prefix)-2+digest = 0x%02x", b[1], len(b)-2+h.size))
		default:
			c.Ok(rule, key, entryPos(t, hashVal[h.display]), fmt.Sprintf("outer length 0x%02x = %d-2+%d, OCTET STRING length 0x%02x = digest size", b[1], len(b), h.size, h.size))
		}
	}
	for _, h := range t2hashes {
		k := hashVal[h.display]
		b1, ok1 := t1.data[k]
		b2, ok2 := t2.data[k]
		if c.Check(ok1, rule, fmt.Sprintf("table1[%s]|present", h.display), entryPos(t1, k), t1.v.Name()+" has the entry", t1.v.Name()+" has no entry for crypto."+h.constName) {
			found++
			d := t2diffBytes(b1, h.rfc)
			c.Check(d == "", rule, fmt.Sprintf("table1[%s]|equals RFC 8017 DigestInfo prefix", h.display), entryPos(t1, k),
				"equal to the RFC 8017 section 9.2 prefix ["+t2hex(h.rfc)+"]", h.display+" in "+t1.v.Name()+": "+d)
			skey := fmt.Sprintf("table1[%s]|equals standard library source table", h.display)
			if std == nil {
				c.Und(rule, skey, entryPos(t1, k), "the standard library's hashPrefixes table could not be evaluated from source: "+stdWhy)
			} else if sb, ok := std[h.display]; !ok {
				c.Und(rule, skey, entryPos(t1, k), stdWhere+" has no entry for "+h.display)
			} else {
				d := t2diffBytes(b1, sb)
				c.Check(d == "", rule, skey, entryPos(t1, k), "equal to "+stdWhere, h.display+" in "+t1.v.Name()+" vs "+stdWhere+": "+d)
			}
			selfConsistent("table1", t1, h, b1)
		}
		if c.Check(ok2, rule, fmt.Sprintf("table2[%s]|present", h.display), entryPos(t2, k), t2.v.Name()+" has the entry", t2.v.Name()+" has no entry for crypto."+h.constName) {
			found++
			want, why := t2stripNull(h.rfc)
			key := fmt.Sprintf("table2[%s]|equals table 1 without NULL, lengths reduced by 2", h.display)
			if want == nil {
				c.Und(rule, key, entryPos(t2, k), "cannot derive the expected value: "+why)
			} else {
				d := t2diffBytes(b2, want)
				c.Check(d == "", rule, key, entryPos(t2, k), "equal to ["+t2hex(want)+"] (RFC 8017 prefix, 05 00 removed, bytes 1 and 3 reduced by 2)", h.display+" in "+t2.v.Name()+": "+d)
			}
			if ok1 {
				// the same derivation from the repository's own table 1 (catches the tables drifting apart together)
				if w1, _ := t2stripNull(b1); w1 != nil {
					d := t2diffBytes(b2, w1)
					c.Check(d == "", rule, fmt.Sprintf("table2[%s]|consistent with the repository's table 1", h.display), entryPos(t2, k),
						"derivable from "+t1.v.Name(), h.display+" in "+t2.v.Name()+" vs derived from "+t1.v.Name()+": "+d)
				}
			}
			selfConsistent("table2", t2, h, b2)
		}
	}
	// other entries (MD5, SHA-224, RIPEMD-160, ...) are not reachable from checkSignature's hash choice: informational only
	for _, n := range cp.Types.Scope().Names() {
		k, ok := cp.Types.Scope().Lookup(n).(*types.Const)
		if !ok || !t2isNamed(k.Type(), "crypto", "Hash") {
			continue
		}
		v, _ := constant.Int64Val(k.Val())
		if _, main := hashName[v]; main {
			continue
		}
		if b, ok := t1.data[v]; ok {
			c.Note("C06 informational: %s also has an entry for crypto.%s = [%s]; it is not one of the four hashes the verifier can select, so it is not an obligation", t1.v.Name(), n, t2hex(b))
		}
	}
	c.Floor(rule, found, 8, "prefix table entries")
}

// ---------------------------------------------------------------- C16 R2.tables

// OIDs and rows the lenient parser still carries although the current standard library dropped them.
// Source: RFC 3279 section 2.2.1 (md2WithRSAEncryption); the row is the one crypto/x509 had up to Go 1.21.
var t2legacyOIDs = map[string][]int64{
	"oidSignatureMD2WithRSA": {1, 2, 840, 113549, 1, 1, 2},
}

var t2legacySigRows = map[string]struct {
	oid    []int64
	pubKey string // name of the x509.PublicKeyAlgorithm constant
	hash   int64
}{
	"MD2WithRSA": {[]int64{1, 2, 840, 113549, 1, 1, 2}, "RSA", 0},
}

func t2isOIDVar(v *types.Var) bool {
	if t2isNamed(v.Type(), "encoding/asn1", "ObjectIdentifier") {
		return true
	}
	if s, ok := types.Unalias(v.Type()).(*types.Slice); ok && strings.HasPrefix(v.Name(), "oid") {
		b, ok := s.Elem().(*types.Basic)
		return ok && b.Kind() == types.Int
	}
	return false
}

type t2sigRow struct {
	algo             int64
	algoName         string
	oid              []int64
	oidName          string
	pubKey, hash     int64
	pubKeyN, hashN   string
	pos              token.Pos
	oidOK, constsOK  bool
	missingFieldName string
}

func t2sigRows(w *World, p *packages.Package, init ast.Expr) ([]t2sigRow, bool) {
	rows, ok := t2structRows(p, init)
	if !ok {
		return nil, false
	}
	var out []t2sigRow
	for _, r := range rows {
		var s t2sigRow
		s.pos = r.pos
		for _, f := range []string{"algo", "oid", "pubKeyAlgo", "hash"} {
			if r.f[f] == nil {
				s.missingFieldName = f
			}
		}
		if s.missingFieldName != "" {
			out = append(out, s)
			continue
		}
		var ok1, ok2, ok3 bool
		s.algo, s.algoName, ok1 = t2constInt(p, r.f["algo"])
		s.pubKey, s.pubKeyN, ok2 = t2constInt(p, r.f["pubKeyAlgo"])
		s.hash, s.hashN, ok3 = t2constInt(p, r.f["hash"])
		s.constsOK = ok1 && ok2 && ok3
		s.oid, s.oidName, s.oidOK = t2oidOf(w, p, r.f["oid"])
		if s.algoName == "" {
			s.algoName = fmt.Sprint(s.algo)
		}
		out = append(out, s)
	}
	return out, true
}

// t2equalArm is one `X.Equal(<package-level OID variable>)` guard with the statements it guards.
type t2equalArm struct {
	fn    string
	v     *types.Var
	extra ast.Expr // right operand when the guard is `X.Equal(v) && extra`
	body  []ast.Stmt
	pos   token.Pos
}

func t2equalGuard(p *packages.Package, e ast.Expr) (v *types.Var, extra ast.Expr, ok bool) {
	e = t2unparen(e)
	if b, isB := e.(*ast.BinaryExpr); isB && b.Op == token.LAND {
		e, extra = t2unparen(b.X), b.Y
	}
	call, callee := t2callee(p, e)
	if call == nil || len(call.Args) != 1 {
		return nil, nil, false
	}
	m, isM := callee.(*types.Func)
	if !isM || m.Name() != "Equal" || m.Pkg() == nil || m.Pkg().Path() != "encoding/asn1" {
		return nil, nil, false
	}
	vv, isVar := t2obj(p, call.Args[0]).(*types.Var)
	if !isVar || vv.Pkg() == nil || vv.Parent() != vv.Pkg().Scope() {
		return nil, nil, false
	}
	return vv, extra, true
}

func t2equalArms(p *packages.Package) []t2equalArm {
	var out []t2equalArm
	for _, fd := range t2funcDecls(p) {
		name := t2declName(fd)
		ast.Inspect(fd.Body, func(n ast.Node) bool {
			switch x := n.(type) {
			case *ast.CaseClause:
				for _, e := range x.List {
					if v, extra, ok := t2equalGuard(p, e); ok {
						out = append(out, t2equalArm{name, v, extra, x.Body, e.Pos()})
					}
				}
			case *ast.IfStmt:
				if v, extra, ok := t2equalGuard(p, x.Cond); ok {
					out = append(out, t2equalArm{name, v, extra, x.Body.List, x.Cond.Pos()})
				}
			}
			return true
		})
	}
	return out
}

func tablesC16(c *Ctx) {
	t2c16Tables(c)
	t2c16Alphabet(c)
}

func t2c16Tables(c *Ctx) {
	const rule = "R2.tables"
	w := c.w
	p := t2repoPkg(c, "attestation/yubiattest")
	if p == nil {
		c.Unresolved(rule, "package attestation/yubiattest")
		return
	}
	xp := w.ByPath["crypto/x509"]
	if xp == nil || xp.Types == nil || len(xp.Syntax) == 0 {
		c.Unresolved(rule, "crypto/x509 source package (oracle)")
		return
	}
	xsc := xp.Types.Scope()

	// (b) every OID variable equals the standard library's variable of the same name
	nOID := 0
	for _, v := range t2pkgVars(p) {
		if !t2isOIDVar(v) {
			continue
		}
		key := "oid:" + v.Name() + "|equals crypto/x509"
		pos := w.Pos(v.Pos())
		init := t2initOf(p, v)
		var got []int64
		ok := false
		if init != nil {
			got, ok = intSliceLit(p, init)
		}
		if !ok {
			c.Und(rule, key, pos, "initializer is not a literal list of integer constants")
			continue
		}
		nOID++
		if sv, isVar := xsc.Lookup(v.Name()).(*types.Var); isVar {
			sinit := t2initOf(xp, sv)
			var want []int64
			sok := false
			if sinit != nil {
				want, sok = intSliceLit(xp, sinit)
			}
			if !sok {
				c.Und(rule, key, pos, "crypto/x509."+v.Name()+" exists but its initializer is not a literal integer list")
				continue
			}
			d := t2diffInts(got, want)
			c.Check(d == "", rule, key, pos, t2dotted(got)+" = crypto/x509."+v.Name()+" ("+w.Pos(sv.Pos())+")", v.Name()+": "+d+"; oracle crypto/x509."+v.Name())
			continue
		}
		if want, isLegacy := t2legacyOIDs[v.Name()]; isLegacy {
			d := t2diffInts(got, want)
			c.Check(d == "", rule, key, pos, t2dotted(got)+" = embedded RFC 3279 value (crypto/x509 of this Go version has no "+v.Name()+")", v.Name()+": "+d+"; oracle: embedded RFC 3279 value")
			continue
		}
		if t2dotted(got) == t2yubicoSerialOID {
			c.Ok(rule, key, pos, t2dotted(got)+" = Yubico PIV serial-number extension (embedded reference; R4.alphabet decides where it is compared)")
			continue
		}
		c.Und(rule, key, pos, "crypto/x509 has no variable "+v.Name()+" and the checker embeds no reference value for it ("+t2dotted(got)+"): review and add it to the legacy table")
	}
	c.Floor(rule, nOID, 30, "OID variables compared")

	// (a) signatureAlgorithmDetails
	t2c16SigDetails(c, p, xp)
	// (d) extKeyUsageOIDs
	t2c16EKU(c, p, xp)
	// (c) guards `oid.Equal(oidXxx<S>)` select the object named after <S>
	t2c16Arms(c, p, xp)
	// (e) ecdh curve -> elliptic curve and coordinate split
	c16ECDHSSA(c)
}

func t2c16SigDetails(c *Ctx, p, xp *packages.Package) {
	const rule = "R2.tables"
	w := c.w
	const tname = "signatureAlgorithmDetails"
	rv, _ := p.Types.Scope().Lookup(tname).(*types.Var)
	sv, _ := xp.Types.Scope().Lookup(tname).(*types.Var)
	if rv == nil {
		c.Unresolved(rule, "yubiattest."+tname)
		return
	}
	if sv == nil {
		c.Unresolved(rule, "crypto/x509."+tname+" (oracle)")
		return
	}
	rrows, ok := t2sigRows(w, p, t2initOf(p, rv))
	if !ok {
		c.Und(rule, tname+"|constant literal", w.Pos(rv.Pos()), "repository table is not a literal list of struct rows")
		return
	}
	srows, ok := t2sigRows(w, xp, t2initOf(xp, sv))
	if !ok || len(srows) == 0 {
		c.Und(rule, tname+"|oracle literal", w.Pos(sv.Pos()), "crypto/x509 table could not be evaluated from source")
		return
	}
	byAlgo := map[int64][]t2sigRow{}
	for _, s := range srows {
		if s.missingFieldName != "" || !s.constsOK || !s.oidOK {
			c.Und(rule, tname+"|oracle literal", w.Pos(s.pos), "a row of crypto/x509's table could not be evaluated")
			return
		}
		byAlgo[s.algo] = append(byAlgo[s.algo], s)
	}
	rsaVal := int64(-1)
	pkVal := func(name string) int64 {
		if k, ok := xp.Types.Scope().Lookup(name).(*types.Const); ok {
			v, _ := constant.Int64Val(k.Val())
			return v
		}
		return rsaVal
	}
	seen := map[string]bool{}
	n := 0
	for i, r := range rrows {
		if r.missingFieldName != "" {
			c.Und(rule, fmt.Sprintf("%s[row %d]|fields", tname, i), w.Pos(r.pos), "row has no field "+r.missingFieldName)
			continue
		}
		oidLabel := r.oidName
		if oidLabel == "" {
			oidLabel = t2dotted(r.oid)
		}
		key := fmt.Sprintf("%s[%s,%s]|equals crypto/x509 row", tname, r.algoName, oidLabel)
		if !r.constsOK || !r.oidOK {
			c.Und(rule, key, w.Pos(r.pos), "row is not made of constants and a literal OID")
			continue
		}
		n++
		seen[fmt.Sprintf("%d/%s", r.algo, t2dotted(r.oid))] = true
		cands := byAlgo[r.algo]
		src := "crypto/x509"
		if len(cands) == 0 {
			if lg, ok := t2legacySigRows[r.algoName]; ok {
				cands = []t2sigRow{{algo: r.algo, algoName: r.algoName, oid: lg.oid, pubKey: pkVal(lg.pubKey), pubKeyN: lg.pubKey, hash: lg.hash}}
				src = "embedded legacy row (RFC 3279; crypto/x509 of this Go version has no row for " + r.algoName + ")"
			} else {
				c.Und(rule, key, w.Pos(r.pos), "crypto/x509 has no row for "+r.algoName+" and the checker embeds none: review")
				continue
			}
		}
		var match *t2sigRow
		var have []string
		for j := range cands {
			have = append(have, t2dotted(cands[j].oid))
			if t2diffInts(r.oid, cands[j].oid) == "" {
				match = &cands[j]
			}
		}
		switch {
		case match == nil:
			c.Bad(rule, key, w.Pos(r.pos), fmt.Sprintf("%s is paired with OID %s (%s); %s pairs it with %s", r.algoName, t2dotted(r.oid), oidLabel, src, strings.Join(have, " / ")))
		case match.pubKey != r.pubKey:
			c.Bad(rule, key, w.Pos(r.pos), fmt.Sprintf("%s: pubKeyAlgo is %s (%d), %s has %s (%d)", r.algoName, r.pubKeyN, r.pubKey, src, match.pubKeyN, match.pubKey))
		case match.hash != r.hash:
			c.Bad(rule, key, w.Pos(r.pos), fmt.Sprintf("%s: hash is %s (%d), %s has %s (%d)", r.algoName, r.hashN, r.hash, src, match.hashN, match.hash))
		default:
			c.Ok(rule, key, w.Pos(r.pos), fmt.Sprintf("(%s, %s, pubKeyAlgo %d, hash %d) = %s", r.algoName, t2dotted(r.oid), r.pubKey, r.hash, src))
		}
	}
	for _, s := range srows {
		if !seen[fmt.Sprintf("%d/%s", s.algo, t2dotted(s.oid))] {
			c.Ok(rule, fmt.Sprintf("%s|informational: crypto/x509 row (%s,%s) absent from the repository copy", tname, s.algoName, s.oidName), w.Pos(rv.Pos()),
				"informational: the lenient parser reports this algorithm as unknown (fails closed); not a violation")
		}
	}
	c.Floor(rule, n, 10, "signatureAlgorithmDetails rows compared")
}

func t2c16EKU(c *Ctx, p, xp *packages.Package) {
	const rule = "R2.tables"
	w := c.w
	const tname = "extKeyUsageOIDs"
	rv, _ := p.Types.Scope().Lookup(tname).(*types.Var)
	if rv == nil {
		c.Note("C16 R2.tables: the repository package has no %s table (nothing to compare)", tname)
		return
	}
	sv, _ := xp.Types.Scope().Lookup(tname).(*types.Var)
	if sv == nil {
		c.Unresolved(rule, "crypto/x509."+tname+" (oracle)")
		return
	}
	type eku struct {
		val        int64
		name, oidN string
		oid        []int64
		pos        token.Pos
		ok         bool
	}
	eval := func(pk *packages.Package, v *types.Var) ([]eku, bool) {
		rows, ok := t2structRows(pk, t2initOf(pk, v))
		if !ok {
			return nil, false
		}
		var out []eku
		for _, r := range rows {
			var e eku
			e.pos = r.pos
			if r.f["extKeyUsage"] != nil && r.f["oid"] != nil {
				var ok1, ok2 bool
				e.val, e.name, ok1 = t2constInt(pk, r.f["extKeyUsage"])
				e.oid, e.oidN, ok2 = t2oidOf(w, pk, r.f["oid"])
				e.ok = ok1 && ok2
			}
			out = append(out, e)
		}
		return out, true
	}
	rrows, ok := eval(p, rv)
	if !ok {
		c.Und(rule, tname+"|constant literal", w.Pos(rv.Pos()), "repository table is not a literal list of struct rows")
		return
	}
	srows, ok := eval(xp, sv)
	if !ok {
		c.Und(rule, tname+"|oracle literal", w.Pos(sv.Pos()), "crypto/x509 table could not be evaluated from source")
		return
	}
	std := map[int64]eku{}
	for _, s := range srows {
		if !s.ok {
			c.Und(rule, tname+"|oracle literal", w.Pos(s.pos), "a row of crypto/x509's table could not be evaluated")
			return
		}
		std[s.val] = s
	}
	n := 0
	seen := map[int64]bool{}
	for i, r := range rrows {
		if !r.ok {
			c.Und(rule, fmt.Sprintf("%s[row %d]|fields", tname, i), w.Pos(r.pos), "row is not (constant, literal OID)")
			continue
		}
		key := fmt.Sprintf("%s[%s]|equals crypto/x509 row", tname, r.name)
		if seen[r.val] {
			c.Bad(rule, key, w.Pos(r.pos), r.name+" appears twice in "+tname)
			continue
		}
		seen[r.val] = true
		n++
		s, ok := std[r.val]
		if !ok {
			c.Und(rule, key, w.Pos(r.pos), "crypto/x509 has no row for "+r.name)
			continue
		}
		d := t2diffInts(r.oid, s.oid)
		c.Check(d == "", rule, key, w.Pos(r.pos), r.name+" -> "+t2dotted(r.oid)+" as in crypto/x509", r.name+" is paired with "+r.oidN+": "+d+"; oracle crypto/x509."+tname)
	}
	for _, s := range srows {
		if !seen[s.val] {
			c.Ok(rule, fmt.Sprintf("%s|informational: crypto/x509 row %s absent from the repository copy", tname, s.name), w.Pos(rv.Pos()),
				"informational: such usages are reported in UnknownExtKeyUsage; not a violation")
		}
	}
	c.Floor(rule, n, 10, "extKeyUsageOIDs rows compared")
}

// t2armResult describes the first value returned under an Equal-guard: the called function or the named constant.
func t2armResult(p *packages.Package, a t2equalArm) (obj types.Object, isCall bool) {
	r := t2firstReturn(a.body)
	if r == nil || len(r.Results) == 0 {
		return nil, false
	}
	if call, o := t2callee(p, r.Results[0]); call != nil {
		if len(call.Args) == 0 {
			return o, true
		}
		return nil, true
	}
	return t2obj(p, r.Results[0]), false
}

// t2armExtra evaluates the `&& <expr> == K` part of a guard.
func t2armExtra(p *packages.Package, e ast.Expr) (int64, bool) {
	b, ok := t2unparen(e).(*ast.BinaryExpr)
	if !ok || b.Op != token.EQL {
		return 0, false
	}
	if k, _, ok := t2constInt(p, b.Y); ok {
		return k, true
	}
	k, _, ok := t2constInt(p, b.X)
	return k, ok
}

func t2armSig(p *packages.Package, a t2equalArm) string {
	o, _ := t2armResult(p, a)
	s := a.v.Name() + " -> "
	if o != nil {
		s += o.Name()
	} else {
		s += "?"
	}
	if a.extra != nil {
		if k, ok := t2armExtra(p, a.extra); ok {
			s += fmt.Sprintf(" (&& == %d)", k)
		} else {
			s += " (&& ?)"
		}
	}
	return s
}

func t2c16Arms(c *Ctx, p, xp *packages.Package) {
	const rule = "R2.tables"
	w := c.w
	stdSigs := map[string]map[string]bool{} // function name -> arm signatures
	for _, a := range t2equalArms(xp) {
		if stdSigs[a.fn] == nil {
			stdSigs[a.fn] = map[string]bool{}
		}
		stdSigs[a.fn][t2armSig(xp, a)] = true
	}
	nCurve, nOther := 0, 0
	for _, a := range t2equalArms(p) {
		name := a.v.Name()
		pos := w.Pos(a.pos)
		res, isCall := t2armResult(p, a)
		var suffix, want string
		switch {
		case strings.HasPrefix(name, "oidNamedCurve"):
			suffix = strings.TrimPrefix(name, "oidNamedCurve")
			key := a.fn + "|" + name + " selects the curve of the same name"
			f, isF := res.(*types.Func)
			okPkg := isF && f.Pkg() != nil && (f.Pkg().Path() == "crypto/elliptic" || f.Pkg().Path() == "crypto/ecdh")
			switch {
			case !isCall || !okPkg:
				c.Und(rule, key, pos, "the guarded return is not a call of a crypto/elliptic or crypto/ecdh curve constructor")
			case f.Name() != suffix:
				c.Bad(rule, key, pos, fmt.Sprintf("%s: OID %s returns %s.%s(), want %s()", a.fn, name, f.Pkg().Name(), f.Name(), suffix))
			default:
				nCurve++
				c.Ok(rule, key, pos, fmt.Sprintf("%s -> %s.%s()", name, f.Pkg().Name(), f.Name()))
			}
		case strings.HasPrefix(name, "oidPublicKey"):
			suffix = strings.TrimPrefix(name, "oidPublicKey")
			key := a.fn + "|" + name + " selects the algorithm of the same name"
			k, isK := res.(*types.Const)
			switch {
			case !isK || !t2isNamed(k.Type(), "crypto/x509", "PublicKeyAlgorithm"):
				c.Und(rule, key, pos, "the guarded return is not an x509.PublicKeyAlgorithm constant")
			case k.Name() != suffix:
				c.Bad(rule, key, pos, fmt.Sprintf("%s: OID %s returns x509.%s, want x509.%s", a.fn, name, k.Name(), suffix))
			default:
				nOther++
				c.Ok(rule, key, pos, name+" -> x509."+k.Name())
			}
		case strings.HasPrefix(name, "oidSHA") && a.extra != nil:
			suffix = strings.TrimPrefix(name, "oidSHA")
			want = "SHA" + suffix + "WithRSAPSS"
			key := a.fn + "|" + name + " with salt length selects " + want
			bits := int64(t2atoi(suffix))
			salt, okSalt := t2armExtra(p, a.extra)
			k, isK := res.(*types.Const)
			switch {
			case !isK || !okSalt || bits == 0:
				c.Und(rule, key, pos, "guard/return not of the form `Equal(oidSHA<n>) && SaltLength == K: return <constant>`")
			case salt*8 != bits:
				c.Bad(rule, key, pos, fmt.Sprintf("%s: %s is combined with salt length %d, want %d", a.fn, name, salt, bits/8))
			case k.Name() != want:
				c.Bad(rule, key, pos, fmt.Sprintf("%s: %s returns x509.%s, want x509.%s", a.fn, name, k.Name(), want))
			default:
				nOther++
				c.Ok(rule, key, pos, fmt.Sprintf("%s && salt %d -> x509.%s", name, salt, k.Name()))
			}
		default:
			continue
		}
		// cross-check with the standard library function of the same name, when it has such arms
		if sigs := stdSigs[a.fn]; len(sigs) > 0 {
			sig := t2armSig(p, a)
			var have []string
			for s := range sigs {
				if strings.HasPrefix(s, name+" ->") {
					have = append(have, s)
				}
			}
			sort.Strings(have)
			key := a.fn + "|" + name + " arm equals crypto/x509." + a.fn
			if len(have) == 0 {
				c.Und(rule, key, pos, "crypto/x509."+a.fn+" has no arm for "+name)
			} else {
				c.Check(sigs[sig], rule, key, pos, "["+sig+"] as in crypto/x509."+a.fn, "repository arm ["+sig+"], crypto/x509."+a.fn+" has ["+strings.Join(have, "; ")+"]")
			}
		}
	}
	c.Floor(rule, nCurve, 3, "curve OID arms")
	c.Floor(rule, nOther, 4, "public-key / PSS OID arms")
}

// t2c16ECDH: `case ecdh.P<n>(): &ecdsa.PublicKey{Curve: elliptic.P<n>(), X: b[1:1+s], Y: b[1+s:]}` with s = ceil(n/8).
func t2c16ECDH(c *Ctx, p *packages.Package) {
	const rule = "R2.tables"
	w := c.w
	n := 0
	for _, fd := range t2funcDecls(p) {
		fn := t2declName(fd)
		ast.Inspect(fd.Body, func(nd ast.Node) bool {
			cc, ok := nd.(*ast.CaseClause)
			if !ok || len(cc.List) != 1 {
				return true
			}
			call, o := t2callee(p, cc.List[0])
			f, isF := o.(*types.Func)
			if call == nil || !isF || f.Pkg() == nil || f.Pkg().Path() != "crypto/ecdh" || !strings.HasPrefix(f.Name(), "P") {
				return true
			}
			bits := int64(t2atoi(strings.TrimPrefix(f.Name(), "P")))
			if bits == 0 {
				return true
			}
			size := (bits + 7) / 8
			var lit *ast.CompositeLit
			ast.Inspect(&ast.BlockStmt{List: cc.Body}, func(m ast.Node) bool {
				if cl, ok := m.(*ast.CompositeLit); ok && lit == nil && t2isNamed(p.TypesInfo.TypeOf(cl), "crypto/ecdsa", "PublicKey") {
					lit = cl
				}
				return lit == nil
			})
			key := fn + "|case ecdh." + f.Name()
			pos := w.Pos(cc.Pos())
			if lit == nil {
				return true
			}
			fields, ok := t2fields(p, lit, nil)
			if !ok || fields["Curve"] == nil || fields["X"] == nil || fields["Y"] == nil {
				c.Und(rule, key+" builds the ecdsa key on the same curve", pos, "ecdsa.PublicKey literal without Curve/X/Y fields")
				return true
			}
			n++
			_, co := t2callee(p, fields["Curve"])
			cf, isCF := co.(*types.Func)
			if !isCF || cf.Pkg() == nil || cf.Pkg().Path() != "crypto/elliptic" {
				c.Und(rule, key+" builds the ecdsa key on the same curve", pos, "Curve is not a crypto/elliptic constructor call")
			} else {
				c.Check(cf.Name() == f.Name(), rule, key+" builds the ecdsa key on the same curve", pos, "ecdh."+f.Name()+" -> elliptic."+cf.Name(),
					fmt.Sprintf("%s: case ecdh.%s() builds a key on elliptic.%s()", fn, f.Name(), cf.Name()))
			}
			bounds := func(e ast.Expr) (lo, hi int64, hasHi, ok bool) {
				var se *ast.SliceExpr
				ast.Inspect(e, func(m ast.Node) bool {
					if s, isS := m.(*ast.SliceExpr); isS && se == nil {
						se = s
					}
					return se == nil
				})
				if se == nil || se.Slice3 {
					return 0, 0, false, false
				}
				if se.Low != nil {
					if lo, _, ok = t2constInt(p, se.Low); !ok {
						return 0, 0, false, false
					}
				}
				if se.High != nil {
					hasHi = true
					if hi, _, ok = t2constInt(p, se.High); !ok {
						return 0, 0, false, false
					}
				}
				return lo, hi, hasHi, true
			}
			xl, xh, xhas, okx := bounds(fields["X"])
			yl, _, yhas, oky := bounds(fields["Y"])
			skey := key + " splits the uncompressed point at 1+ceil(bits/8)"
			switch {
			case !okx || !oky:
				c.Und(rule, skey, pos, "X/Y are not built from constant slices of the encoded key")
			case xl != 1 || !xhas || xh != 1+size || yl != 1+size || yhas:
				c.Bad(rule, skey, pos, fmt.Sprintf("%s: ecdh.%s coordinates taken from [%d:%d] and [%d:%s], want [1:%d] and [%d:]", fn, f.Name(), xl, xh, yl, map[bool]string{true: "K", false: ""}[yhas], 1+size, 1+size))
			default:
				c.Ok(rule, skey, pos, fmt.Sprintf("X = b[1:%d], Y = b[%d:] for a %d-byte field element", 1+size, 1+size, size))
			}
			return true
		})
	}
	c.Floor(rule, n, 3, "ecdh curve cases")
}

// ---------------------------------------------------------------- C16 R4.alphabet

const t2modHexAlphabet = "cbdefghijklnrtuv"
const t2yubicoSerialOID = "1.3.6.1.4.1.41482.3.7"

func t2c16Alphabet(c *Ctx) {
	const rule = "R4.alphabet"
	w := c.w
	p := t2repoPkg(c, "attestation/yubiattest")
	if p == nil {
		c.Unresolved(rule, "package attestation/yubiattest")
		return
	}
	fd := funcDecl(p, "ModHex")
	if fd == nil || fd.Body == nil {
		c.Unresolved(rule, "function yubiattest.ModHex")
		return
	}
	// alphabet: the string constant indexed in ModHex
	var alpha *types.Const
	ast.Inspect(fd.Body, func(n ast.Node) bool {
		if ix, ok := n.(*ast.IndexExpr); ok {
			if k, ok := t2obj(p, ix.X).(*types.Const); ok && k.Val().Kind() == constant.String && alpha == nil {
				alpha = k
			}
		}
		return true
	})
	if alpha == nil {
		// fall back: the only 16-character string constant of the package
		for _, n := range p.Types.Scope().Names() {
			if k, ok := p.Types.Scope().Lookup(n).(*types.Const); ok && k.Val().Kind() == constant.String && len(constant.StringVal(k.Val())) == 16 {
				alpha = k
			}
		}
	}
	if alpha == nil {
		c.Unresolved(rule, "ModHex alphabet constant (string constant indexed in ModHex)")
		return
	}
	av := constant.StringVal(alpha.Val())
	apos := w.Pos(alpha.Pos())
	c.Check(len(av) == 16, rule, "alphabet|16 characters", apos, fmt.Sprintf("%s has 16 characters", alpha.Name()), fmt.Sprintf("%s = %q has %d characters, want 16", alpha.Name(), av, len(av)))
	dup := ""
	for i := 0; i < len(av) && dup == ""; i++ {
		if j := strings.IndexByte(av, av[i]); j != i {
			dup = fmt.Sprintf("%s = %q: character %q occurs at offsets %d and %d", alpha.Name(), av, av[i], j, i)
		}
	}
	c.Check(dup == "", rule, "alphabet|pairwise distinct", apos, "all characters distinct (the encoding is injective)", dup)
	d := ""
	if av != t2modHexAlphabet {
		d = fmt.Sprintf("%s = %q, want Yubico's ModHex alphabet %q", alpha.Name(), av, t2modHexAlphabet)
		for i := 0; i < len(av) && i < len(t2modHexAlphabet); i++ {
			if av[i] != t2modHexAlphabet[i] {
				d += fmt.Sprintf(" (first difference at offset %d: %q, want %q)", i, av[i], t2modHexAlphabet[i])
				break
			}
		}
	}
	c.Check(d == "", rule, "alphabet|equals Yubico ModHex alphabet", apos, fmt.Sprintf("%s = %q", alpha.Name(), av), d)

	// every use of the alphabet in the package is an index expression whose index lies in 0..15 (decided by the
	// interval analysis on the compiled form: constants, X & 0xf, an 8-bit value >> 4, locals holding those)
	indexed := map[*ast.Ident]bool{}
	sites := 0
	for _, f := range t2funcDecls(p) {
		ast.Inspect(f.Body, func(n ast.Node) bool {
			ix, ok := n.(*ast.IndexExpr)
			if !ok || t2obj(p, ix.X) != types.Object(alpha) {
				return true
			}
			if id, ok := t2unparen(ix.X).(*ast.Ident); ok {
				indexed[id] = true
			}
			return true
		})
	}
	for _, fn := range w.FuncsOfPkg("attestation/yubiattest") {
		ord := 0
		var bc *boundsCtx
		for _, blk := range fn.Blocks {
			for _, ins := range blk.Instrs {
				ix, ok := ins.(*ssa.Index)
				if !ok {
					continue
				}
				if sv, isS := strConst(ix.X); !isS || sv != av {
					continue
				}
				if bc == nil {
					bc = &boundsCtx{w: w, fn: fn, root: fn, facts: w.Facts(fn)}
				}
				ord++
				sites++
				key := fmt.Sprintf("%s|alphabet index #%d masked to 4 bits", fn.Name(), ord)
				r := bc.rng(ix.Index, blk)
				c.Check(r.lo >= 0 && r.hi <= 15, rule, key, w.Pos(ix.Pos()), fmt.Sprintf("index in [%s,%s]", fmtB(r.lo), fmtB(r.hi)),
					fmt.Sprintf("%s: the index into the alphabet can lie in [%s,%s], outside 0..15", fn.Name(), fmtB(r.lo), fmtB(r.hi)))
			}
		}
	}
	other := 0
	for _, f := range p.Syntax {
		ast.Inspect(f, func(n ast.Node) bool {
			if id, ok := n.(*ast.Ident); ok && p.TypesInfo.Uses[id] == types.Object(alpha) && !indexed[id] {
				other++
				c.Bad(rule, "alphabet|used only as an indexed table", w.Pos(id.Pos()), alpha.Name()+" is used other than as the operand of an index expression")
			}
			return true
		})
	}
	if other == 0 {
		c.Ok(rule, "alphabet|used only as an indexed table", apos, fmt.Sprintf("%d uses, all index expressions", sites))
	}
	c.Floor(rule, sites, 2, "alphabet index sites")

	// the extension OID compared in ModHex (or in a helper it calls): BinOp ==/!= of (asn1.ObjectIdentifier).String()
	// with a string constant, on the compiled form
	nOID := 0
	var oidTests []Lit // the extension-id tests, with the outcome that means "this is the serial-number extension"
	if mhf := w.Func("attestation/yubiattest", "ModHex"); mhf != nil {
		for _, tf := range w.Tree(mhf) {
			for _, blk := range tf.Blocks {
				for _, ins := range blk.Instrs {
					b, ok := ins.(*ssa.BinOp)
					if !ok || (b.Op != token.EQL && b.Op != token.NEQ) {
						continue
					}
					for _, pair := range [][2]ssa.Value{{b.X, b.Y}, {b.Y, b.X}} {
						call, ok := pair[0].(*ssa.Call)
						if !ok || calleeName(call) != "(encoding/asn1.ObjectIdentifier).String" {
							continue
						}
						nOID++
						s, ok := strConst(pair[1])
						if !ok {
							c.Und(rule, "ModHex|extension OID literal", w.Pos(b.Pos()), "the OID's String() is compared with a non-constant")
							continue
						}
						oidTests = append(oidTests, Lit{V: b, Pol: b.Op == token.EQL})
						c.Check(s == t2yubicoSerialOID, rule, "ModHex|extension OID literal", w.Pos(b.Pos()), "compares with \""+s+"\" (Yubico PIV serial-number extension)",
							fmt.Sprintf("ModHex compares the extension id with %q (operator %s), want == %q", s, b.Op, t2yubicoSerialOID))
					}
				}
			}
		}
	}
	// the other way of writing it: ext.Id.Equal(<frozen package-level OID>)
	if mhf := w.Func("attestation/yubiattest", "ModHex"); mhf != nil && nOID == 0 {
		for _, call := range w.callsToDeep(mhf, "(encoding/asn1.ObjectIdentifier).Equal") {
			cv, ok := call.(*ssa.Call)
			if !ok || len(cv.Call.Args) != 2 {
				continue
			}
			for _, pair := range [][2]ssa.Value{{cv.Call.Args[0], cv.Call.Args[1]}, {cv.Call.Args[1], cv.Call.Args[0]}} {
				ld, ok := strip(pair[1]).(*ssa.UnOp)
				if !ok {
					continue
				}
				g, ok := ld.X.(*ssa.Global)
				if !ok || !strings.HasSuffix(w.Expr(pair[0]), ".Id") {
					continue
				}
				nOID++
				oidTests = append(oidTests, Lit{V: cv, Pol: true})
				val, frozen := w.globalOID(g)
				if !frozen {
					c.Und(rule, "ModHex|extension OID literal", w.Pos(cv.Pos()), "the extension id is compared with "+g.Name()+", which is not a package-level literal that is never written")
					continue
				}
				c.Check(val == t2yubicoSerialOID, rule, "ModHex|extension OID literal", w.Pos(cv.Pos()), "compares with "+g.Name()+" = "+val+" (Yubico PIV serial-number extension)",
					fmt.Sprintf("ModHex compares the extension id with %s = %s, want %s", g.Name(), val, t2yubicoSerialOID))
			}
		}
	}
	// the serial bytes are taken from an extension only under the positive outcome of that test
	if mhf := w.Func("attestation/yubiattest", "ModHex"); mhf != nil && len(oidTests) > 0 {
		f := w.Facts(mhf)
		nTake := 0
		for _, tf := range w.Tree(mhf) {
			for _, blk := range tf.Blocks {
				for _, ins := range blk.Instrs {
					sl, ok := ins.(*ssa.Slice)
					if !ok || !strings.HasSuffix(w.Expr(sl.X), ".Value") || !strings.Contains(w.Expr(sl.X), "Extensions") {
						continue
					}
					nTake++
					gated := false
					for _, t := range oidTests {
						if f.At(blk)[t] {
							gated = true
						}
					}
					c.Check(gated, rule, "ModHex|serial taken only from the extension with that id", w.Pos(sl.Pos()), "must-fact: the extension id test succeeded",
						"the serial bytes are taken from an extension whose id was not found equal to the Yubico serial-number OID")
				}
			}
		}
		c.Floor(rule, nTake, 1, "extension value taken as the serial")
	}
	if nOID == 0 {
		c.Unresolved(rule, "comparison `ext.Id.String() == <literal>` in ModHex")
	}
}

func t2atoi(s string) int {
	n := 0
	if s == "" {
		return 0
	}
	for _, r := range s {
		if r < '0' || r > '9' {
			return 0
		}
		n = n*10 + int(r-'0')
	}
	return n
}

// ---------------------------------------------------------------- C18 R1.ciphers

type t2suite struct {
	id       int64
	name     string
	insecure bool
	known    bool // the Insecure field could be evaluated
}

// t2stdSuites evaluates `return []*CipherSuite{{ID, Name, Versions, Insecure}, ...}` of a crypto/tls function.
func t2stdSuites(tp *packages.Package, fn string) ([]t2suite, string) {
	fd := funcDecl(tp, fn)
	if fd == nil || fd.Body == nil {
		return nil, "crypto/tls." + fn + " not found"
	}
	rs := t2returnStmts(fd.Body)
	if len(rs) != 1 || len(rs[0].Results) != 1 {
		return nil, "crypto/tls." + fn + " is not a single `return <literal>`"
	}
	rows, ok := t2structRows(tp, rs[0].Results[0])
	if !ok {
		return nil, "crypto/tls." + fn + " does not return a literal list of struct rows"
	}
	var out []t2suite
	for _, r := range rows {
		if r.f["ID"] == nil {
			return nil, "a row of crypto/tls." + fn + " has no ID"
		}
		id, name, ok := t2constInt(tp, r.f["ID"])
		if !ok {
			return nil, "a row of crypto/tls." + fn + " has a non-constant ID"
		}
		s := t2suite{id: id, name: name}
		if e := r.f["Insecure"]; e != nil {
			if v := constOf(tp, e); v != nil && v.Kind() == constant.Bool {
				s.insecure, s.known = constant.BoolVal(v), true
			}
		} else {
			s.known = true // omitted field: false
		}
		out = append(out, s)
	}
	return out, ""
}

func tablesC18(c *Ctx) {
	const rule = "R1.ciphers"
	w := c.w
	p := t2repoPkg(c, "tlsutils")
	if p == nil {
		c.Unresolved(rule, "package tlsutils")
		return
	}
	tcf := w.Func("tlsutils", "TLSClientConfiguration")
	if tcf == nil || tcf.Blocks == nil {
		c.Unresolved(rule, "function tlsutils.TLSClientConfiguration")
		return
	}
	tp := w.ByPath["crypto/tls"]
	if tp == nil || tp.Types == nil || len(tp.Syntax) == 0 {
		c.Unresolved(rule, "crypto/tls source package (oracle)")
		return
	}
	// the tls.Config value built by the function (literal or field assignments, possibly in a helper), on the compiled form
	w.Focus(tcf)
	cfgs := w.allocsOfDeep(tcf, "crypto/tls.Config")
	if len(cfgs) != 1 {
		c.Unresolved(rule, fmt.Sprintf("exactly one tls.Config composite literal in TLSClientConfiguration (found %d)", len(cfgs)))
		c.Floor(rule, 0, 6, "cipher suites")
		return
	}
	cfg := cfgs[0]
	lpos := w.Pos(cfg.Pos())
	fields := w.FieldStoresDeep(tcf, cfg)
	tlsConstName := func(v int64, prefix string) string {
		sc := tp.Types.Scope()
		for _, n := range sc.Names() {
			if k, ok := sc.Lookup(n).(*types.Const); ok && strings.HasPrefix(n, prefix) {
				if kv, ok := constant.Int64Val(k.Val()); ok && kv == v {
					return n
				}
			}
		}
		return ""
	}

	// MinVersion
	min12 := int64(0x0303)
	if k, ok := tp.Types.Scope().Lookup("VersionTLS12").(*types.Const); ok {
		min12, _ = constant.Int64Val(k.Val())
	}
	if vs := fields["MinVersion"]; len(vs) == 0 {
		c.Bad(rule, "tls.Config literal|MinVersion constant >= TLS 1.2", lpos, "MinVersion is not set in the literal")
	} else {
		for _, e := range vs {
			v, ok := intConst(w.canon(tcf, e))
			if !ok {
				c.Bad(rule, "tls.Config literal|MinVersion constant >= TLS 1.2", lpos, "MinVersion is not a constant")
				continue
			}
			name := tlsConstName(v, "VersionTLS")
			c.Check(v >= min12, rule, "tls.Config literal|MinVersion constant >= TLS 1.2", lpos, fmt.Sprintf("MinVersion = %s (%#04x)", name, v),
				fmt.Sprintf("MinVersion = %s (%#04x) is below tls.VersionTLS12 (%#04x)", name, v, min12))
		}
	}
	for _, k := range []string{"MaxVersion", "ServerName", "VerifyPeerCertificate", "VerifyConnection"} {
		c.Check(len(fields[k]) == 0, rule, "tls.Config literal|no "+k, lpos, k+" is not set", "the literal sets "+k)
	}
	if vs := fields["InsecureSkipVerify"]; len(vs) == 0 {
		c.Ok(rule, "tls.Config literal|InsecureSkipVerify absent or false", lpos, "InsecureSkipVerify is not set")
	} else {
		isFalse := true
		for _, e := range vs {
			if b, ok := boolConst(w.canon(tcf, e)); !ok || b {
				isFalse = false
			}
		}
		c.Check(isFalse, rule, "tls.Config literal|InsecureSkipVerify absent or false", lpos, "InsecureSkipVerify: constant false", "the literal sets InsecureSkipVerify to something other than the constant false")
	}

	// cipher suites
	csv := fields["CipherSuites"]
	if len(csv) != 1 {
		c.Unresolved(rule, "CipherSuites field of the tls.Config literal")
		c.Floor(rule, 0, 6, "cipher suites")
		return
	}
	srcName := "the CipherSuites literal"
	if cv, ok := strip(csv[0]).(*ssa.Call); ok {
		if h := w.helperOf(cv); h != nil {
			srcName = h.Name()
		}
	}
	var elems []ssa.Value
	if sl, ok := w.canon(tcf, csv[0]).(*ssa.Slice); ok && sl.Low == nil && sl.High == nil {
		if arr, ok := sl.X.(*ssa.Alloc); ok {
			elems = storesIntoOrdered(arr)
		}
	}
	if len(elems) == 0 {
		c.Und(rule, srcName+"|returns a literal list", lpos, "the cipher-suite list is not a literal list of constants (it may be modified before it is used)")
		c.Floor(rule, 0, 6, "cipher suites")
		return
	}
	secure, why1 := t2stdSuites(tp, "CipherSuites")
	insecure, why2 := t2stdSuites(tp, "InsecureCipherSuites")
	if secure == nil || insecure == nil {
		c.Und(rule, "crypto/tls suite lists|evaluated from source", "-", strings.TrimSpace(why1+" "+why2))
		c.Floor(rule, 0, 6, "cipher suites")
		return
	}
	secID, insID := map[int64]string{}, map[int64]string{}
	for _, s := range secure {
		if s.known && !s.insecure {
			secID[s.id] = s.name
		} else {
			insID[s.id] = s.name
		}
	}
	for _, s := range insecure {
		insID[s.id] = s.name
	}
	tls13 := map[int64]bool{0x1301: true, 0x1302: true, 0x1303: true}
	n := 0
	seen := map[int64]bool{}
	for i, el := range elems {
		id, ok := int64(0), false
		if el != nil {
			id, ok = intConst(w.canon(tcf, el))
		}
		if !ok {
			c.Und(rule, fmt.Sprintf("%s|element %d is a constant", srcName, i), lpos, "list element is not a constant")
			continue
		}
		name := tlsConstName(id, "TLS_")
		if name == "" {
			name = fmt.Sprintf("%#04x", id)
		}
		key := "suite:" + name + "|in crypto/tls.CipherSuites() and not insecure"
		n++
		if seen[id] {
			continue
		}
		seen[id] = true
		switch {
		case insID[id] != "":
			c.Bad(rule, key, lpos, fmt.Sprintf("%s (%#04x) is listed by crypto/tls.InsecureCipherSuites()", name, id))
		case secID[id] != "":
			what := "TLS 1.2 suite"
			if tls13[id] {
				what = "TLS 1.3 suite"
			}
			c.Ok(rule, key, lpos, fmt.Sprintf("%s (%#04x): %s listed by crypto/tls.CipherSuites() with Insecure=false", name, id, what))
		case tls13[id]:
			c.Ok(rule, key, lpos, fmt.Sprintf("%s (%#04x): TLS 1.3 suite id", name, id))
		default:
			c.Bad(rule, key, lpos, fmt.Sprintf("%s (%#04x) is not in crypto/tls.CipherSuites() (%d secure suites read from source)", name, id, len(secID)))
		}
	}
	c.Floor(rule, n, 6, "cipher suites")
}

// ---------------------------------------------------------------- C19 R2.labels

// c19.go of the checker declares the hook `var tablesC19 func(c *Ctx)` and calls it when non-nil, so the C19 rule is
// installed by assignment (same convention as tablesC05 in tables1.go). Should that placeholder be removed, rename
// tablesC19 to tablesC19 and delete this init. tablesC06/C16/C18/C02 have no placeholder today and are plain
// functions; if a `var tablesCxx func(c *Ctx)` hook is added for one of them, rename it the same way.

func tablesC19(c *Ctx) {
	const rule = "R2.labels"
	w := c.w
	p := t2repoPkg(c, "sshutils/cert")
	if p == nil {
		c.Unresolved(rule, "package sshutils/cert")
		return
	}
	tn, _ := p.Types.Scope().Lookup("Type").(*types.TypeName)
	if tn == nil {
		c.Unresolved(rule, "named type cert.Type")
		return
	}
	isType := func(t types.Type) bool { return t != nil && types.Identical(t, tn.Type()) }
	// constants of type Type
	var consts []*types.Const
	for _, n := range p.Types.Scope().Names() {
		if k, ok := p.Types.Scope().Lookup(n).(*types.Const); ok && isType(k.Type()) {
			consts = append(consts, k)
		}
	}
	byVal := map[string]*types.Const{}
	for _, k := range consts {
		v := k.Val().ExactString()
		if o, dup := byVal[v]; dup {
			c.Bad(rule, "const:"+k.Name()+"|distinct value", w.Pos(k.Pos()), fmt.Sprintf("%s and %s both have the value %s", o.Name(), k.Name(), v))
			continue
		}
		byVal[v] = k
		c.Ok(rule, "const:"+k.Name()+"|distinct value", w.Pos(k.Pos()), k.Name()+" = "+v)
	}
	unknown, _ := p.Types.Scope().Lookup("UnknownCertType").(*types.Const)
	if unknown == nil || !isType(unknown.Type()) {
		unknown = byVal["0"]
	}
	if unknown == nil {
		c.Unresolved(rule, "constant UnknownCertType")
		return
	}

	// TypeLabel: the package-level map[Type]string
	var labelVar *types.Var
	for _, v := range t2pkgVars(p) {
		if m, ok := v.Type().Underlying().(*types.Map); ok && isType(m.Key()) {
			if b, ok := m.Elem().Underlying().(*types.Basic); ok && b.Kind() == types.String {
				if labelVar == nil || v.Name() == "TypeLabel" {
					labelVar = v
				}
			}
		}
	}
	if labelVar == nil {
		c.Unresolved(rule, "package-level map[Type]string (TypeLabel)")
		c.Floor(rule, 0, 7, "label entries")
		return
	}
	entries, ok := mapLit(p, t2initOf(p, labelVar))
	if !ok {
		c.Und(rule, labelVar.Name()+"|constant literal", w.Pos(labelVar.Pos()), "not a map literal with constant keys")
		c.Floor(rule, 0, 7, "label entries")
		return
	}
	nameOf := func(v constant.Value) string {
		if k := byVal[v.ExactString()]; k != nil {
			return k.Name()
		}
		return "Type(" + v.ExactString() + ")"
	}
	labels := map[string]string{} // const value -> label
	byLabel := map[string]string{}
	nLabels := 0
	for _, e := range entries {
		kn := nameOf(e.Key)
		s, ok := t2constStr(p, e.Val)
		if !ok {
			c.Und(rule, "label:"+kn+"|non-empty and distinct", w.Pos(e.Pos), "label is not a string constant")
			continue
		}
		nLabels++
		labels[e.Key.ExactString()] = s
		switch {
		case s == "":
			c.Bad(rule, "label:"+kn+"|non-empty and distinct", w.Pos(e.Pos), kn+" has the empty label")
		case byLabel[s] != "":
			c.Bad(rule, "label:"+kn+"|non-empty and distinct", w.Pos(e.Pos), fmt.Sprintf("%s and %s share the label %q", byLabel[s], kn, s))
		default:
			byLabel[s] = kn
			c.Ok(rule, "label:"+kn+"|non-empty and distinct", w.Pos(e.Pos), fmt.Sprintf("%s -> %q", kn, s))
		}
	}
	_, unkHas := labels[unknown.Val().ExactString()]
	c.Check(!unkHas, rule, "label:"+unknown.Name()+"|has no entry", w.Pos(labelVar.Pos()), unknown.Name()+" has no label", unknown.Name()+" has an entry in "+labelVar.Name()+" (Label's !ok arm no longer rejects it)")

	// types GetType can produce
	getType, _ := p.Types.Scope().Lookup("GetType").(*types.Func)
	var gfd *ast.FuncDecl
	if getType != nil {
		gfd = t2declOf(p, getType)
	}
	if gfd == nil || gfd.Body == nil {
		c.Unresolved(rule, "function cert.GetType")
	} else {
		produced := map[*types.Const]token.Pos{}
		collect := func(e ast.Expr) {
			ast.Inspect(e, func(n ast.Node) bool {
				if _, isLit := n.(*ast.FuncLit); isLit {
					return false
				}
				if id, ok := n.(*ast.Ident); ok {
					if k, ok := p.TypesInfo.Uses[id].(*types.Const); ok && isType(k.Type()) {
						if _, seen := produced[k]; !seen {
							produced[k] = id.Pos()
						}
					}
				}
				return true
			})
		}
		ast.Inspect(gfd.Body, func(n ast.Node) bool {
			switch x := n.(type) {
			case *ast.AssignStmt:
				for _, r := range x.Rhs {
					collect(r)
				}
			case *ast.ReturnStmt:
				for _, r := range x.Results {
					collect(r)
				}
			case *ast.ValueSpec:
				for _, r := range x.Values {
					collect(r)
				}
			}
			return true
		})
		// ... and in the helpers GetType hands the decision to (constants of type Type among the operands of their
		// compiled instructions)
		if gtf := w.Func("sshutils/cert", "GetType"); gtf != nil {
			for _, tf := range w.Tree(gtf) {
				if tf == gtf || tf.Pkg == nil || tf.Pkg.Pkg != p.Types {
					continue
				}
				for _, blk := range tf.Blocks {
					for _, ins := range blk.Instrs {
						for _, op := range ins.Operands(nil) {
							if op == nil || *op == nil {
								continue
							}
							k, ok := (*op).(*ssa.Const)
							if !ok || k.Value == nil || !isType(k.Type()) {
								continue
							}
							for _, kc := range consts {
								if constant.Compare(kc.Val(), token.EQL, k.Value) {
									if _, seen := produced[kc]; !seen {
										produced[kc] = tf.Pos()
									}
								}
							}
						}
					}
				}
			}
		}
		var ks []*types.Const
		for k := range produced {
			ks = append(ks, k)
		}
		sort.Slice(ks, func(i, j int) bool { return ks[i].Name() < ks[j].Name() })
		nProd := 0
		for _, k := range ks {
			if k == unknown {
				continue
			}
			nProd++
			l, has := labels[k.Val().ExactString()]
			c.Check(has, rule, "GetType result:"+k.Name()+"|has a label", w.Pos(produced[k]), fmt.Sprintf("%s -> %q", k.Name(), l), "GetType can return "+k.Name()+" but "+labelVar.Name()+" has no entry for it (Label fails / String() is empty)")
		}
		c.Floor(rule, nProd, 7, "types GetType can return")
	}

	// suffix constants
	suffix := func(name, want string) (string, bool) {
		k, ok := p.Types.Scope().Lookup(name).(*types.Const)
		if !ok || k.Val().Kind() != constant.String {
			c.Unresolved(rule, "constant cert."+name)
			return "", false
		}
		s := constant.StringVal(k.Val())
		c.Check(s == want, rule, "const:"+name+"|equals "+want, w.Pos(k.Pos()), fmt.Sprintf("%s = %q", name, s), fmt.Sprintf("%s = %q, want %q", name, s, want))
		return s, true
	}
	s1, ok1 := suffix("TouchlessLabel", ":notouch")
	s2, ok2 := suffix("TouchLabel", ":touch")
	if ok1 && ok2 {
		c.Check(s1 != s2, rule, "const:TouchlessLabel,TouchLabel|differ", "-", "suffixes differ", fmt.Sprintf("both suffix constants are %q", s1))
	}

	t2c19Label(c, p, labelVar, unknown, getType, unkHas)
	c.Floor(rule, nLabels, 7, "label entries")
}

func t2c19Label(c *Ctx, p *packages.Package, labelVar *types.Var, unknown *types.Const, getType *types.Func, unkHas bool) {
	const rule = "R2.labels"
	w := c.w
	fd := funcDecl(p, "Label")
	if fd == nil || fd.Body == nil || fd.Type.Params == nil || len(fd.Type.Params.List) == 0 || len(fd.Type.Params.List[0].Names) == 0 {
		c.Unresolved(rule, "function cert.Label(cert)")
		return
	}
	certParam := p.TypesInfo.Defs[fd.Type.Params.List[0].Names[0]]
	fpos := w.Pos(fd.Pos())
	var tVar, lVar, okVar, kVar types.Object
	var lookupPos token.Pos
	ast.Inspect(fd.Body, func(n ast.Node) bool {
		as, ok := n.(*ast.AssignStmt)
		if !ok || len(as.Rhs) != 1 || len(as.Lhs) == 0 {
			return true
		}
		if call, callee := t2callee(p, as.Rhs[0]); call != nil {
			if getType != nil && callee == types.Object(getType) && len(call.Args) == 1 && t2obj(p, call.Args[0]) == certParam {
				tVar = t2obj(p, as.Lhs[0])
			}
			if f, ok := callee.(*types.Func); ok && f.Name() == "Unmarshal" && f.Pkg() != nil && strings.HasSuffix(f.Pkg().Path(), "/keyid") && len(call.Args) == 1 {
				if sel, ok := t2unparen(call.Args[0]).(*ast.SelectorExpr); ok && sel.Sel.Name == "KeyId" && t2obj(p, sel.X) == certParam {
					kVar = t2obj(p, as.Lhs[0])
				}
			}
		}
		if ix, ok := t2unparen(as.Rhs[0]).(*ast.IndexExpr); ok && t2obj(p, ix.X) == types.Object(labelVar) {
			if tVar != nil && t2obj(p, ix.Index) == tVar {
				lVar = t2obj(p, as.Lhs[0])
				lookupPos = as.Pos()
				if len(as.Lhs) == 2 {
					okVar = t2obj(p, as.Lhs[1])
				}
			}
		}
		return true
	})
	if tVar == nil && getType != nil {
		// GetType and Label share one decoder g(cert) (type, *KeyID): GetType is g's first result, and g's second result
		// is the KeyID decoded from its parameter's KeyId (nil only together with the unknown type)
		if g := t2sharedDecoder(c.w, p, getType, unknown); g != nil {
			ast.Inspect(fd.Body, func(n ast.Node) bool {
				as, ok := n.(*ast.AssignStmt)
				if !ok || len(as.Rhs) != 1 || len(as.Lhs) != 2 {
					return true
				}
				if call, callee := t2callee(p, as.Rhs[0]); call != nil && callee == types.Object(g) && len(call.Args) == 1 && t2obj(p, call.Args[0]) == certParam {
					tVar, kVar = t2obj(p, as.Lhs[0]), t2obj(p, as.Lhs[1])
				}
				return true
			})
			if tVar != nil {
				ast.Inspect(fd.Body, func(n ast.Node) bool {
					as, ok := n.(*ast.AssignStmt)
					if !ok || len(as.Rhs) != 1 || len(as.Lhs) == 0 {
						return true
					}
					if ix, ok := t2unparen(as.Rhs[0]).(*ast.IndexExpr); ok && t2obj(p, ix.X) == types.Object(labelVar) && t2obj(p, ix.Index) == tVar {
						lVar = t2obj(p, as.Lhs[0])
						lookupPos = as.Pos()
						if len(as.Lhs) == 2 {
							okVar = t2obj(p, as.Lhs[1])
						}
					}
					return true
				})
			}
		}
	}
	if tVar == nil && getType != nil && kVar != nil {
		// GetType and Label share the classifier g(cert, k): GetType is "unknown for a nil certificate or an undecodable
		// KeyID, else g(cert, k)", and Label refuses those two cases itself and then asks g for the same certificate and KeyID
		if g := t2sharedClassifier(p, getType, unknown); g != nil {
			var errVar types.Object
			ast.Inspect(fd.Body, func(n ast.Node) bool {
				as, ok := n.(*ast.AssignStmt)
				if !ok || len(as.Rhs) != 1 {
					return true
				}
				call, callee := t2callee(p, as.Rhs[0])
				if call == nil {
					return true
				}
				if len(as.Lhs) == 2 && t2obj(p, as.Lhs[0]) == kVar {
					if f, ok := callee.(*types.Func); ok && f.Name() == "Unmarshal" {
						errVar = t2obj(p, as.Lhs[1])
					}
				}
				return true
			})
			refuses := func(isCase func(cond ast.Expr) bool) bool {
				found := false
				ast.Inspect(fd.Body, func(n ast.Node) bool {
					is, ok := n.(*ast.IfStmt)
					if !ok || is.Init != nil && false {
						return true
					}
					if isCase(t2unparen(is.Cond)) {
						r := t2firstReturn(is.Body.List)
						if r != nil && len(r.Results) > 0 && t2isErrCtor(p, r.Results[len(r.Results)-1]) {
							found = true
						}
					}
					return true
				})
				return found
			}
			nilCert := refuses(func(cond ast.Expr) bool {
				be, ok := cond.(*ast.BinaryExpr)
				return ok && be.Op == token.EQL && ((t2obj(p, be.X) == certParam && t2isNilIdent(p, be.Y)) || (t2obj(p, be.Y) == certParam && t2isNilIdent(p, be.X)))
			})
			badKid := errVar != nil && refuses(func(cond ast.Expr) bool {
				be, ok := cond.(*ast.BinaryExpr)
				return ok && be.Op == token.NEQ && ((t2obj(p, be.X) == errVar && t2isNilIdent(p, be.Y)) || (t2obj(p, be.Y) == errVar && t2isNilIdent(p, be.X)))
			})
			if nilCert && badKid {
				ast.Inspect(fd.Body, func(n ast.Node) bool {
					as, ok := n.(*ast.AssignStmt)
					if !ok || len(as.Rhs) != 1 || len(as.Lhs) != 1 {
						return true
					}
					if call, callee := t2callee(p, as.Rhs[0]); call != nil && callee == types.Object(g) && len(call.Args) == 2 && t2obj(p, call.Args[0]) == certParam && t2obj(p, call.Args[1]) == kVar {
						tVar = t2obj(p, as.Lhs[0])
					}
					return true
				})
			}
			if tVar != nil {
				ast.Inspect(fd.Body, func(n ast.Node) bool {
					as, ok := n.(*ast.AssignStmt)
					if !ok || len(as.Rhs) != 1 || len(as.Lhs) == 0 {
						return true
					}
					if ix, ok := t2unparen(as.Rhs[0]).(*ast.IndexExpr); ok && t2obj(p, ix.X) == types.Object(labelVar) && t2obj(p, ix.Index) == tVar {
						lVar = t2obj(p, as.Lhs[0])
						lookupPos = as.Pos()
						if len(as.Lhs) == 2 {
							okVar = t2obj(p, as.Lhs[1])
						}
					}
					return true
				})
			}
		}
	}
	c.Check(tVar != nil, rule, "Label|type obtained from GetType(cert)", fpos, "certType := GetType(cert) on Label's own parameter", "Label does not assign GetType(<its parameter>) to a variable")
	c.Check(lVar != nil, rule, "Label|label looked up as "+labelVar.Name()+"[GetType(cert)]", w.Pos(lookupPos), "label := "+labelVar.Name()+"[certType]", "Label does not read "+labelVar.Name()+" at the GetType result")
	c.Check(kVar != nil, rule, "Label|KeyID decoded from cert.KeyId", fpos, "k := keyid.Unmarshal(cert.KeyId) on Label's own parameter", "Label does not decode keyid.Unmarshal(<its parameter>.KeyId)")

	// Unknown => error
	guardOK, guardPos := false, fd.Pos()
	explicit := false // an explicit comparison with the unknown type exists: it alone decides
	how := ""
	ast.Inspect(fd.Body, func(n ast.Node) bool {
		is, ok := n.(*ast.IfStmt)
		if !ok {
			return true
		}
		retErr := func() bool {
			r := t2firstReturn(is.Body.List)
			return r != nil && len(r.Results) > 0 && t2isErrCtor(p, r.Results[len(r.Results)-1])
		}
		switch cond := t2unparen(is.Cond).(type) {
		case *ast.BinaryExpr:
			if cond.Op == token.EQL && tVar != nil {
				a, b := t2obj(p, cond.X), t2obj(p, cond.Y)
				if (a == tVar && b == types.Object(unknown)) || (b == tVar && a == types.Object(unknown)) {
					guardPos, explicit = is.Pos(), true
					guardOK = retErr()
					how = "`if certType == " + unknown.Name() + "` returns errors.New/fmt.Errorf"
				}
			}
		case *ast.UnaryExpr:
			if cond.Op == token.NOT && okVar != nil && t2obj(p, cond.X) == okVar && !explicit && !unkHas && retErr() {
				guardOK, guardPos, how = true, is.Pos(), "comma-ok lookup: `!ok` returns an error and "+unknown.Name()+" has no entry"
			}
		}
		return true
	})
	c.Check(guardOK, rule, "Label|"+unknown.Name()+" yields a non-nil error", w.Pos(guardPos), how, "no path of Label provably turns "+unknown.Name()+" into an errors.New/fmt.Errorf result")

	// concatenation
	if lVar == nil || kVar == nil {
		return
	}
	var ops []ast.Expr
	var catPos token.Pos
	ast.Inspect(fd.Body, func(n ast.Node) bool {
		switch x := n.(type) {
		case *ast.AssignStmt:
			if len(x.Lhs) == 1 && len(x.Rhs) == 1 && t2obj(p, x.Lhs[0]) == lVar {
				if x.Tok == token.ADD_ASSIGN {
					ops = append([]ast.Expr{x.Lhs[0]}, t2flattenAdd(x.Rhs[0])...)
					catPos = x.Pos()
				} else if x.Tok == token.ASSIGN {
					if fl := t2flattenAdd(x.Rhs[0]); len(fl) > 1 {
						ops, catPos = fl, x.Pos()
					}
				}
			}
		case *ast.ReturnStmt:
			if len(x.Results) > 0 && ops == nil {
				if fl := t2flattenAdd(x.Results[0]); len(fl) > 1 {
					ops, catPos = fl, x.Pos()
				}
			}
		}
		return true
	})
	key := "Label|label = " + labelVar.Name() + "[type] + \"SSH-\" + k.TransID"
	if ops == nil {
		c.Bad(rule, key, fpos, "Label has no concatenation building the label")
		return
	}
	var diff string
	if len(ops) != 3 {
		diff = fmt.Sprintf("the label is built from %d operands, want 3 (label, \"SSH-\", k.TransID)", len(ops))
	} else {
		if t2obj(p, ops[0]) != lVar {
			diff = "operand 1 is not the looked-up label"
		}
		if s, ok := t2constStr(p, ops[1]); !ok || s != "SSH-" {
			if ok {
				diff = fmt.Sprintf("operand 2 is the constant %q, want \"SSH-\"", s)
			} else {
				diff = "operand 2 is not the constant \"SSH-\""
			}
		}
		sel, ok := t2unparen(ops[2]).(*ast.SelectorExpr)
		if !ok || t2obj(p, sel.X) != kVar || sel.Sel.Name != "TransID" {
			f := "?"
			if ok {
				f = sel.Sel.Name
			}
			diff = "operand 3 is not the TransID field of the KeyID decoded from cert.KeyId (field " + f + ")"
		}
	}
	c.Check(diff == "", rule, key, w.Pos(catPos), "label + \"SSH-\" + k.TransID", "Label: "+diff)
	// the final return hands out that variable with a nil error
	var last *ast.ReturnStmt
	if n := len(fd.Body.List); n > 0 {
		last, _ = fd.Body.List[n-1].(*ast.ReturnStmt)
	}
	okRet := last != nil && len(last.Results) == 2 && t2isNilIdent(p, last.Results[1]) &&
		(t2obj(p, last.Results[0]) == lVar || len(t2flattenAdd(last.Results[0])) == 3)
	c.Check(okRet, rule, "Label|returns the built label with nil error", fpos, "return label, nil", "Label's final statement is not `return <label>, nil`")
}

// t2sharedDecoder: the package function g such that GetType(cert) is exactly g(cert)'s first result and g's second
// result is the KeyID decoded by keyid.Unmarshal(<g's parameter>.KeyId), nil only where the first result is the
// unknown type. nil when GetType has another shape.
func t2sharedDecoder(w *World, p *packages.Package, getType *types.Func, unknown *types.Const) *types.Func {
	gt := funcDecl(p, getType.Name())
	if gt == nil || gt.Body == nil || gt.Type.Params == nil || len(gt.Type.Params.List) != 1 || len(gt.Type.Params.List[0].Names) != 1 {
		return nil
	}
	gtParam := p.TypesInfo.Defs[gt.Type.Params.List[0].Names[0]]
	var g *types.Func
	switch len(gt.Body.List) {
	case 2:
		as, ok1 := gt.Body.List[0].(*ast.AssignStmt)
		ret, ok2 := gt.Body.List[1].(*ast.ReturnStmt)
		if !ok1 || !ok2 || len(as.Lhs) != 2 || len(as.Rhs) != 1 || len(ret.Results) != 1 {
			return nil
		}
		call, callee := t2callee(p, as.Rhs[0])
		f, isF := callee.(*types.Func)
		if call == nil || !isF || len(call.Args) != 1 || t2obj(p, call.Args[0]) != gtParam || t2obj(p, ret.Results[0]) == nil || t2obj(p, ret.Results[0]) != t2obj(p, as.Lhs[0]) {
			return nil
		}
		g = f
	default:
		return nil
	}
	if g.Pkg() != getType.Pkg() {
		return nil
	}
	gd := funcDecl(p, g.Name())
	if gd == nil || gd.Body == nil || gd.Recv != nil || gd.Type.Params == nil || len(gd.Type.Params.List) != 1 || len(gd.Type.Params.List[0].Names) != 1 {
		return nil
	}
	gParam := p.TypesInfo.Defs[gd.Type.Params.List[0].Names[0]]
	var kObj types.Object
	nAssign := 0
	ok := true
	ast.Inspect(gd.Body, func(n ast.Node) bool {
		switch x := n.(type) {
		case *ast.FuncLit:
			ok = false
		case *ast.AssignStmt:
			if len(x.Rhs) != 1 {
				return true
			}
			if call, callee := t2callee(p, x.Rhs[0]); call != nil {
				if f, isF := callee.(*types.Func); isF && f.Name() == "Unmarshal" && f.Pkg() != nil && strings.HasSuffix(f.Pkg().Path(), "/keyid") && len(call.Args) == 1 && len(x.Lhs) == 2 {
					if sel, isSel := t2unparen(call.Args[0]).(*ast.SelectorExpr); isSel && sel.Sel.Name == "KeyId" && t2obj(p, sel.X) == gParam {
						kObj = t2obj(p, x.Lhs[0])
						nAssign++
					}
				}
			}
		}
		return true
	})
	if !ok || kObj == nil || nAssign != 1 {
		return nil
	}
	// kObj is assigned nowhere else, and every return hands out kObj or (unknown, nil)
	ast.Inspect(gd.Body, func(n ast.Node) bool {
		switch x := n.(type) {
		case *ast.AssignStmt:
			for i, l := range x.Lhs {
				if t2obj(p, l) == kObj {
					if call, callee := t2callee(p, x.Rhs[0]); !(i == 0 && len(x.Rhs) == 1 && call != nil && callee != nil && callee.Name() == "Unmarshal") {
						ok = false
					}
				}
			}
		case *ast.ReturnStmt:
			if len(x.Results) != 2 {
				ok = false
				return true
			}
			if t2obj(p, x.Results[1]) == kObj {
				return true
			}
			if t2isNilIdent(p, x.Results[1]) && t2obj(p, x.Results[0]) == types.Object(unknown) {
				return true
			}
			if t2isNilIdent(p, x.Results[1]) && nilOnlyWithUnknown(w, g, unknown) {
				return true // a variable that holds the unknown type on this path: decided on the compiled function
			}
			ok = false
		}
		return true
	})
	if !ok {
		return nil
	}
	return g
}

// ---------------------------------------------------------------- C02 R4.extensions, R5.algonames

var t2defaultExtensions = []string{"permit-pty", "permit-X11-forwarding", "permit-agent-forwarding", "permit-port-forwarding", "permit-user-rc"}

func tablesC02(c *Ctx) {
	t2c02Extensions(c)
	t2c02AlgoNames(c)
}

func t2c02Extensions(c *Ctx) {
	const rule = "R4.extensions"
	w := c.w
	p := t2repoPkg(c, "crypki")
	if p == nil {
		c.Unresolved(rule, "package crypki")
		return
	}
	fd := funcDecl(p, "GetDefaultExtension")
	if fd == nil || fd.Body == nil {
		c.Unresolved(rule, "function crypki.GetDefaultExtension")
		return
	}
	fpos := w.Pos(fd.Pos())
	type entry struct {
		val   string
		isStr bool
		pos   token.Pos
		count int
	}
	got := map[string]*entry{}
	var order []string
	put := func(k ast.Expr, v ast.Expr, pos token.Pos) bool {
		ks, ok := t2constStr(p, k)
		if !ok {
			return false
		}
		e := got[ks]
		if e == nil {
			e = &entry{}
			got[ks] = e
			order = append(order, ks)
		}
		e.count++
		e.pos = pos
		e.val, e.isStr = t2constStr(p, v)
		return true
	}
	var m types.Object // the local map
	fresh := ""
	shape := ""
	var ret *ast.ReturnStmt
	for i, st := range fd.Body.List {
		switch x := st.(type) {
		case *ast.AssignStmt:
			if len(x.Lhs) != 1 || len(x.Rhs) != 1 {
				shape = "unexpected multi-assignment"
				break
			}
			if ix, ok := t2unparen(x.Lhs[0]).(*ast.IndexExpr); ok && x.Tok == token.ASSIGN {
				if m == nil || t2obj(p, ix.X) != m {
					shape = "index assignment into something other than the fresh map"
				} else if !put(ix.Index, x.Rhs[0], x.Pos()) {
					shape = "a key is not a string constant"
				}
				break
			}
			if x.Tok == token.DEFINE && m == nil {
				rhs := t2unparen(x.Rhs[0])
				if call, callee := t2callee(p, rhs); call != nil {
					if b, ok := callee.(*types.Builtin); ok && b.Name() == "make" {
						if _, isMap := p.TypesInfo.TypeOf(call).Underlying().(*types.Map); isMap {
							m = p.TypesInfo.Defs[x.Lhs[0].(*ast.Ident)]
							fresh = "make(" + types.TypeString(p.TypesInfo.TypeOf(call), nil) + ")"
							break
						}
					}
				}
				if cl, ok := rhs.(*ast.CompositeLit); ok {
					if _, isMap := p.TypesInfo.TypeOf(cl).Underlying().(*types.Map); isMap {
						m = p.TypesInfo.Defs[x.Lhs[0].(*ast.Ident)]
						fresh = "map literal"
						for _, el := range cl.Elts {
							if kv, ok := el.(*ast.KeyValueExpr); !ok || !put(kv.Key, kv.Value, kv.Pos()) {
								shape = "a literal key is not a string constant"
							}
						}
						break
					}
				}
			}
			shape = "unexpected assignment"
		case *ast.ReturnStmt:
			if i != len(fd.Body.List)-1 {
				shape = "return before the end of the function"
			}
			ret = x
		default:
			shape = fmt.Sprintf("unexpected statement (%T)", st)
		}
	}
	// freshness
	fkey := "GetDefaultExtension|returns a fresh map"
	switch {
	case ret == nil || len(ret.Results) != 1:
		c.Und(rule, fkey, fpos, "no single-value return statement")
	case m != nil && t2obj(p, ret.Results[0]) == m:
		if shape != "" {
			c.Und(rule, fkey, fpos, "the function is not of the form make / constant index assignments / return: "+shape)
		} else {
			c.Ok(rule, fkey, w.Pos(ret.Pos()), "returns the local map created by "+fresh+" in this activation")
		}
	default:
		if v, ok := t2obj(p, ret.Results[0]).(*types.Var); ok && v.Pkg() != nil && v.Parent() == v.Pkg().Scope() {
			c.Bad(rule, fkey, w.Pos(ret.Pos()), "returns the package-level map "+v.Name()+": every caller shares (and can modify) one map")
		} else if cl, ok := t2unparen(ret.Results[0]).(*ast.CompositeLit); ok && m == nil && shape == "" {
			okLit := true
			for _, el := range cl.Elts {
				if kv, ok := el.(*ast.KeyValueExpr); !ok || !put(kv.Key, kv.Value, kv.Pos()) {
					okLit = false
				}
			}
			if okLit {
				c.Ok(rule, fkey, w.Pos(ret.Pos()), "returns a map literal (fresh per call)")
			} else {
				c.Und(rule, fkey, w.Pos(ret.Pos()), "returned literal has non-constant keys")
			}
		} else {
			c.Bad(rule, fkey, w.Pos(ret.Pos()), "the returned value is not the map created in this activation")
		}
	}
	want := map[string]bool{}
	n := 0
	for _, k := range t2defaultExtensions {
		want[k] = true
		e := got[k]
		key := "key:" + k + "|present with value \"\""
		switch {
		case e == nil:
			c.Bad(rule, key, fpos, "GetDefaultExtension does not set "+k)
		case !e.isStr:
			n++
			c.Bad(rule, key, w.Pos(e.pos), k+" is assigned a non-constant value")
		case e.val != "":
			n++
			c.Bad(rule, key, w.Pos(e.pos), fmt.Sprintf("%s is assigned %q, want the empty string", k, e.val))
		default:
			n++
			c.Ok(rule, key, w.Pos(e.pos), k+" = \"\"")
		}
	}
	for _, k := range order {
		if !want[k] {
			c.Bad(rule, "key:"+k+"|unexpected extension", w.Pos(got[k].pos), "GetDefaultExtension grants the extra extension "+k)
		}
	}
	c.Floor(rule, n, 5, "extension keys")
}

// t2keyedStrings evaluates [...]string{K: "v", ...}.
func t2keyedStrings(p *packages.Package, e ast.Expr) (map[int64]string, bool) {
	cl, ok := t2unparen(e).(*ast.CompositeLit)
	if !ok {
		return nil, false
	}
	out := map[int64]string{}
	next := int64(0)
	for _, el := range cl.Elts {
		v := el
		if kv, ok := el.(*ast.KeyValueExpr); ok {
			k, _, ok := t2constInt(p, kv.Key)
			if !ok {
				return nil, false
			}
			next, v = k, kv.Value
		}
		s, ok := t2constStr(p, v)
		if !ok {
			return nil, false
		}
		out[next] = s
		next++
	}
	return out, true
}

func t2c02AlgoNames(c *Ctx) {
	const rule = "R5.algonames"
	w := c.w
	p := t2repoPkg(c, "config")
	if p == nil {
		c.Unresolved(rule, "package config")
		return
	}
	xp := w.ByPath["crypto/x509"]
	if xp == nil || xp.Types == nil {
		c.Unresolved(rule, "crypto/x509 source package (oracle)")
		return
	}
	// the name table, as a finite map: a map[string]x509.PublicKeyAlgorithm literal or a function switching on the
	// (lower-cased) name (finitemap.go)
	isStr := func(t types.Type) bool { b, ok := t.Underlying().(*types.Basic); return ok && b.Kind() == types.String }
	isAlgo := func(t types.Type) bool { return t2isNamed(t, "crypto/x509", "PublicKeyAlgorithm") }
	var tbl *finiteMap
	for _, m := range w.finiteMaps("config", isStr, isAlgo) {
		if len(w.fmLookups(m)) > 0 {
			tbl = m
		}
	}
	if tbl == nil {
		c.Unresolved(rule, "package-level map[string]x509.PublicKeyAlgorithm")
		c.Floor(rule, 0, 6, "algorithm names")
		return
	}
	c.Check(tbl.Frozen, rule, tbl.Name+"|constant literal", w.Pos(tbl.Pos), "only read after initialisation", "the name table is modified after initialisation")
	algoName := func(v int64) string {
		sc := xp.Types.Scope()
		for _, n := range sc.Names() {
			if k, ok := sc.Lookup(n).(*types.Const); ok && t2isNamed(k.Type(), "crypto/x509", "PublicKeyAlgorithm") {
				if kv, ok := constant.Int64Val(k.Val()); ok && kv == v {
					return "x509." + n
				}
			}
		}
		return fmt.Sprint(v)
	}
	entries := tbl.Entries
	var stdNames map[int64]string
	if sv, ok := xp.Types.Scope().Lookup("publicKeyAlgoName").(*types.Var); ok {
		stdNames, _ = t2keyedStrings(xp, t2initOf(xp, sv))
	}
	n := 0
	present := map[int64]bool{}
	for _, e := range entries {
		k := constant.StringVal(e.Key)
		n++
		pos := w.Pos(e.Pos)
		c.Check(k == strings.ToLower(k), rule, "name:"+k+"|key is lower case", pos, "lower case (the hook looks up strings.ToLower(data))", fmt.Sprintf("key %q is not lower case: the lower-cased lookup can never find it", k))
		v, ok := intConst(e.Vals[0])
		vname := algoName(v)
		if !ok {
			c.Und(rule, "name:"+k+"|value matches the crypto/x509 name", pos, "value is not a constant")
			continue
		}
		present[v] = true
		key := "name:" + k + "|value matches the crypto/x509 name"
		if lk := strings.ToLower(k); lk == "default" || lk == "unknown" {
			c.Check(v == 0, rule, key, pos, k+" -> x509.UnknownPublicKeyAlgorithm (0)", fmt.Sprintf("%q maps to %s (%d), want x509.UnknownPublicKeyAlgorithm (0)", k, vname, v))
			continue
		}
		if stdNames == nil {
			c.Und(rule, key, pos, "crypto/x509.publicKeyAlgoName could not be evaluated from source")
			continue
		}
		sn, has := stdNames[v]
		switch {
		case !has || sn == "":
			c.Bad(rule, key, pos, fmt.Sprintf("%q maps to %s (%d) for which crypto/x509.publicKeyAlgoName has no name", k, vname, v))
		case strings.ToLower(sn) != strings.ToLower(k):
			c.Bad(rule, key, pos, fmt.Sprintf("%q maps to %s (%d) whose crypto/x509 name is %q", k, vname, v, sn))
		default:
			c.Ok(rule, key, pos, fmt.Sprintf("%q -> %s (%d), crypto/x509 name %q", k, vname, v, sn))
		}
	}
	for _, an := range []string{"RSA", "DSA", "ECDSA", "Ed25519"} {
		k, ok := xp.Types.Scope().Lookup(an).(*types.Const)
		if !ok {
			c.Unresolved(rule, "constant x509."+an)
			continue
		}
		v, _ := constant.Int64Val(k.Val())
		c.Check(present[v], rule, "algo:"+an+"|has a name", w.Pos(tbl.Pos), "x509."+an+" is reachable by name", "no entry of "+tbl.Name+" maps to x509."+an)
	}
	c.Floor(rule, n, 6, "algorithm names")

	// the hook (on the SSA form, so that local names, helper extraction and merged guards do not matter)
	hookFn := w.Func("config", "StringToX509PublicKeyAlgo")
	var lit *ssa.Function
	if hookFn != nil && hookFn.Blocks != nil {
		// the function it returns: a literal or a named function
		for _, r := range liveReturns(hookFn) {
			if len(r.Results) == 1 {
				if f := funcValue(w.canon(hookFn, r.Results[0])); f != nil && f.Blocks != nil {
					lit = f
				}
			}
		}
	}
	if lit == nil {
		c.Unresolved(rule, "function config.StringToX509PublicKeyAlgo returning one closure")
		return
	}
	c.Saw(lit)
	lf := w.Facts(lit)
	var data *ssa.Parameter
	for _, prm := range lit.Params {
		if _, isI := prm.Type().Underlying().(*types.Interface); isI {
			data = prm
		}
	}
	// isDataString: v denotes data.(string)
	isDataString := func(v ssa.Value) bool {
		ta, ok := w.canon(lit, v).(*ssa.TypeAssert)
		if !ok || data == nil || w.canon(lit, ta.X) != ssa.Value(data) {
			return false
		}
		b, ok := ta.AssertedType.(*types.Basic)
		return ok && b.Kind() == types.String
	}
	var lookup *fmLookup
	var parse *ssa.Call
	for _, l := range w.fmLookups(tbl) {
		if w.inTree(lit, l.Instr.Parent()) && lookup == nil {
			ll := l
			lookup = &ll
		}
	}
	for _, fn := range w.Tree(lit) {
		for _, b := range fn.Blocks {
			for _, ins := range b.Instrs {
				if x, ok := ins.(*ssa.Call); ok && calleeName(x) == "strconv.ParseUint" && parse == nil {
					parse = x
				}
			}
		}
	}
	lkey := "hook|looks up " + tbl.Name + "[strings.ToLower(data.(string))]"
	if lookup == nil {
		c.Bad(rule, lkey, w.FnPos(lit), "the closure never reads "+tbl.Name)
	} else {
		okLow := false
		if call, ok := w.canon(lit, lookup.Index).(*ssa.Call); ok && calleeName(call) == "strings.ToLower" && len(call.Call.Args) == 1 {
			okLow = isDataString(call.Call.Args[0])
		}
		if tbl.Lowered && isDataString(lookup.Index) {
			okLow = true // the table function lower-cases its argument itself
		}
		c.Check(okLow, rule, lkey, w.Pos(lookup.Instr.Pos()), "index is strings.ToLower(data.(string))", "the table is not indexed with strings.ToLower(<data>.(string)) (case-insensitive lookup lost)")
	}
	// found => that value is returned
	if lookup != nil && lookup.OK != nil {
		val, okv := lookup.Val, lookup.OK
		good, n := okv != nil && val != nil, 0
		home := lookup.Instr.Parent()
		if home != lit && home.Parent() == nil && len(w.sitesIn(lit, home)) == 1 && errorResultIndex(home) == 1 {
			// the lookup sits in a parsing helper (value, error): a hit makes the helper return the value with a nil error,
			// and the hook hands that value on with a nil error whenever the helper succeeded
			hf := w.factsOf(home)
			for _, r := range liveReturns(home) {
				if v, known := hf.KnownBool(r.Block(), okv); known && v {
					n++
					if len(r.Results) != 2 || throughCell(strip(r.Results[0])) != val || !isNilConst(strip(r.Results[1])) {
						good = false
					}
				}
			}
			site, _ := w.sitesIn(lit, home)[0].(*ssa.Call)
			nUp := 0
			if site == nil {
				good = false
			} else {
				hv, he := extractOf(site, 0), extractOf(site, 1)
				for _, r := range liveReturns(lit) {
					if isNil, known := lf.KnownNil(r.Block(), he); known && isNil && InstrDominates(site, r) {
						nUp++
						if len(r.Results) != 2 || throughCell(strip(r.Results[0])) != hv || !isNilConst(strip(r.Results[1])) {
							good = false
						}
					}
				}
			}
			if nUp == 0 {
				good = false
			}
		} else {
			for _, r := range liveReturns(lit) {
				if v, known := lf.KnownBool(r.Block(), okv); known && v {
					n++
					if len(r.Results) != 2 || w.canon(lit, r.Results[0]) != val || !isNilConst(w.canon(lit, r.Results[1])) {
						good = false
					}
				}
			}
		}
		c.Check(good && n >= 1, rule, "hook|a found name returns the table value", w.Pos(lookup.Instr.Pos()), "if ok { return algo, nil }", "the comma-ok hit does not return the looked-up value with a nil error")
	} else {
		c.Und(rule, "hook|a found name returns the table value", w.FnPos(lit), "the table lookup is not of the comma-ok form")
	}
	pkey := "hook|falls back to strconv.ParseUint(data.(string))"
	if parse == nil {
		c.Bad(rule, pkey, w.FnPos(lit), "the closure has no strconv.ParseUint fallback")
	} else {
		after := lookup == nil
		if lookup != nil && lookup.OK != nil {
			if v, known := lf.KnownBool(parse.Block(), lookup.OK); known && !v {
				after = true
			}
		}
		c.Check(len(parse.Call.Args) >= 1 && isDataString(parse.Call.Args[0]) && after, rule, pkey, w.Pos(parse.Pos()), "numeric fallback parses the same string, after the name lookup", "strconv.ParseUint is not applied to <data>.(string) after the name lookup")
		base, isK := int64(0), false
		if len(parse.Call.Args) >= 2 {
			base, isK = intConst(parse.Call.Args[1])
		}
		c.Check(isK && base == 10, rule, "hook|an algorithm given by number is read as decimal", w.Pos(parse.Pos()), "base 10", "the number is not parsed in base 10 (base 0 reads a leading 0 as octal and 0x as hex: \"010\" selects algorithm 8's slot)")
	}

	// ExtractHandlerConf installs the hook
	ehc := w.Method("config", "GensignConfig", "ExtractHandlerConf")
	if ehc == nil || ehc.Blocks == nil {
		c.Unresolved(rule, "method (*GensignConfig).ExtractHandlerConf")
		return
	}
	c.Saw(ehc)
	w.Focus(ehc)
	ikey := "ExtractHandlerConf|DecodeHook is StringToX509PublicKeyAlgo()"
	dcs := w.allocsOfDeep(ehc, "mapstructure.DecoderConfig")
	if len(dcs) == 0 {
		c.Unresolved(rule, "mapstructure.DecoderConfig literal in ExtractHandlerConf")
		return
	}
	for _, dc := range dcs {
		hooks := w.FieldStoresDeep(ehc, dc)["DecodeHook"]
		if len(hooks) == 0 {
			c.Bad(rule, ikey, w.Pos(dc.Pos()), "the DecoderConfig literal sets no DecodeHook: algorithm names are not decoded")
			continue
		}
		isHookCall := func(v ssa.Value) bool {
			call, ok := w.canon(ehc, v).(*ssa.Call)
			return ok && call.Call.StaticCallee() == hookFn
		}
		good := true
		for _, dh := range hooks {
			g := isHookCall(dh)
			if call, ok := w.canon(ehc, dh).(*ssa.Call); !g && ok && strings.HasSuffix(calleeName(call), "mapstructure.ComposeDecodeHookFunc") && len(call.Call.Args) == 1 {
				if sl, ok := call.Call.Args[0].(*ssa.Slice); ok {
					if arr, ok := sl.X.(*ssa.Alloc); ok {
						for _, e := range storesInto(arr) {
							g = g || isHookCall(e)
						}
					}
				}
			}
			good = good && g
		}
		c.Check(good, rule, ikey, w.Pos(dc.Pos()), "DecodeHook: StringToX509PublicKeyAlgo()", "DecodeHook is not (a composition containing) a call of StringToX509PublicKeyAlgo")
	}
}

// nilOnlyWithUnknown: on every return of g (results: type, decoded KeyID) whose second result can be nil, the first
// result is the unknown-type constant on every path.
func nilOnlyWithUnknown(w *World, g *types.Func, unknown *types.Const) bool {
	fn := w.Prog.FuncValue(g)
	if fn == nil || len(fn.Blocks) == 0 {
		return false
	}
	for _, r := range liveReturns(fn) {
		if len(r.Results) != 2 {
			return false
		}
		mayNil := false
		for _, lf := range w.leaves(r.Results[1], r, false) {
			if isNilConst(strip(lf.Val)) {
				mayNil = true
			}
		}
		if !mayNil {
			continue
		}
		for _, lf := range w.leaves(r.Results[0], r, false) {
			k, isK := strip(lf.Val).(*ssa.Const)
			if !isK || k.Value == nil || !constant.Compare(k.Value, token.EQL, unknown.Val()) {
				return false
			}
		}
	}
	return true
}

// t2sharedClassifier: the package function g such that GetType(cert) is: unknown for a nil certificate, unknown when
// keyid.Unmarshal(cert.KeyId) fails, and g(cert, <decoded KeyID>) otherwise - written as exactly those statements.
func t2sharedClassifier(p *packages.Package, getType *types.Func, unknown *types.Const) *types.Func {
	gt := funcDecl(p, getType.Name())
	if gt == nil || gt.Body == nil || gt.Type.Params == nil || len(gt.Type.Params.List) != 1 || len(gt.Type.Params.List[0].Names) != 1 {
		return nil
	}
	cert := p.TypesInfo.Defs[gt.Type.Params.List[0].Names[0]]
	retUnknown := func(is *ast.IfStmt) bool {
		if is.Else != nil || len(is.Body.List) != 1 {
			return false
		}
		r, ok := is.Body.List[0].(*ast.ReturnStmt)
		return ok && len(r.Results) == 1 && t2obj(p, r.Results[0]) == types.Object(unknown)
	}
	stmts := gt.Body.List
	if len(stmts) == 4 {
		is, ok := stmts[0].(*ast.IfStmt)
		if !ok || is.Init != nil || !retUnknown(is) {
			return nil
		}
		be, ok := t2unparen(is.Cond).(*ast.BinaryExpr)
		if !ok || be.Op != token.EQL || !((t2obj(p, be.X) == cert && t2isNilIdent(p, be.Y)) || (t2obj(p, be.Y) == cert && t2isNilIdent(p, be.X))) {
			return nil
		}
		stmts = stmts[1:]
	}
	if len(stmts) != 3 {
		return nil
	}
	as, ok1 := stmts[0].(*ast.AssignStmt)
	is, ok2 := stmts[1].(*ast.IfStmt)
	ret, ok3 := stmts[2].(*ast.ReturnStmt)
	if !ok1 || !ok2 || !ok3 || len(as.Lhs) != 2 || len(as.Rhs) != 1 || is.Init != nil || !retUnknown(is) || len(ret.Results) != 1 {
		return nil
	}
	call, callee := t2callee(p, as.Rhs[0])
	f, isF := callee.(*types.Func)
	if call == nil || !isF || f.Name() != "Unmarshal" || f.Pkg() == nil || !strings.HasSuffix(f.Pkg().Path(), "/keyid") || len(call.Args) != 1 {
		return nil
	}
	if sel, ok := t2unparen(call.Args[0]).(*ast.SelectorExpr); !ok || sel.Sel.Name != "KeyId" || t2obj(p, sel.X) != cert {
		return nil
	}
	k, errV := t2obj(p, as.Lhs[0]), t2obj(p, as.Lhs[1])
	be, ok := t2unparen(is.Cond).(*ast.BinaryExpr)
	if !ok || be.Op != token.NEQ || !((t2obj(p, be.X) == errV && t2isNilIdent(p, be.Y)) || (t2obj(p, be.Y) == errV && t2isNilIdent(p, be.X))) {
		return nil
	}
	gcall, gcallee := t2callee(p, ret.Results[0])
	g, isG := gcallee.(*types.Func)
	if gcall == nil || !isG || g.Pkg() != getType.Pkg() || len(gcall.Args) != 2 || t2obj(p, gcall.Args[0]) != cert || t2obj(p, gcall.Args[1]) != k {
		return nil
	}
	return g
}
