package main

import (
	"flag"
	"fmt"
	"go/ast"
	"os"
	"sort"
	"strings"

	"golang.org/x/tools/go/ssa"
)

// globalRules: assumptions every rule relies on, checked on each run.
//   - no import of "unsafe" and no //go:linkname in repository packages (values cannot be
//     changed behind the type system's back);
//   - the rule set must have seen a non-trivial number of repository functions.
func globalRules(c *Ctx) {
	w := c.w
	nfiles := 0
	for path, p := range w.ByPath {
		if !strings.HasPrefix(path, RepoMod) {
			continue
		}
		for _, f := range p.Syntax {
			nfiles++
			for _, imp := range f.Imports {
				if imp.Path.Value == `"unsafe"` {
					c.Bad("G0.trusted-base", "import unsafe|"+path, w.Pos(imp.Pos()), "package imports unsafe: value-flow and field-writer rules are no longer sound")
				}
			}
			for _, cg := range f.Comments {
				for _, cm := range cg.List {
					if strings.HasPrefix(cm.Text, "//go:linkname") {
						c.Bad("G0.trusted-base", "linkname|"+path, w.Pos(cm.Pos()), "go:linkname in repository code")
					}
				}
			}
		}
	}
	if nfiles < 40 || w.nFuncs < 150 {
		c.Und("G0.coverage", "files", "-", fmt.Sprintf("only %d files / %d functions of the repository were loaded (expected >= 40 / >= 150)", nfiles, w.nFuncs))
	} else {
		c.add("G0.coverage", "files", "-", Discharged, fmt.Sprintf("%d non-test files, %d functions with bodies, %d packages (incl. dependencies) loaded and type-checked", nfiles, w.nFuncs, len(w.ByPath)), false)
	}
}

var _ = ast.Inspect

// thoroughExtras is filled in by thorough.go.
var thoroughHooks []func(c *Ctx, p *property, repo string)

func thoroughExtras(c *Ctx, p *property, repo string) {
	for _, h := range thoroughHooks {
		h(c, p, repo)
	}
}

// cmdDump prints debugging views: SSA of a function with facts, or expressions of call arguments.
func cmdDump(args []string) int {
	fs := flag.NewFlagSet("dump", flag.ExitOnError)
	repo := fs.String("repo", "/repo", "repository working tree")
	fn := fs.String("fn", "", "substring of function name")
	fs.Parse(args)
	w, err := Load(*repo, []string{"./..."}, nil)
	if err != nil {
		fmt.Println("ERROR", err)
		return 2
	}
	for _, f := range w.RepoFuncs() {
		if !strings.Contains(f.String(), *fn) {
			continue
		}
		dumpFn(w, f)
	}
	return 0
}

func dumpFn(w *World, f *ssa.Function) {
	fmt.Printf("==== %s  (%s)\n", f.String(), w.FnPos(f))
	facts := w.Facts(f)
	for _, b := range f.Blocks {
		var fl []string
		for l := range facts.At(b) {
			fl = append(fl, fmt.Sprintf("%s=%v", l.V.Name(), l.Pol))
		}
		sort.Strings(fl)
		fmt.Printf(" block %d (%s) preds=%v facts=%v\n", b.Index, b.Comment, blockIdx(b.Preds), fl)
		for _, ins := range b.Instrs {
			if v, ok := ins.(ssa.Value); ok {
				ex := w.Expr(v)
				if len(ex) > 200 {
					ex = ex[:200] + "…"
				}
				fmt.Printf("   %s = %s    ;; %s\n", v.Name(), ins.String(), ex)
			} else {
				fmt.Printf("   %s\n", ins.String())
			}
		}
	}
	_ = os.Stdout
}

func blockIdx(bs []*ssa.BasicBlock) []int {
	var out []int
	for _, b := range bs {
		out = append(out, b.Index)
	}
	return out
}
