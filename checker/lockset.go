package main

import (
	"fmt"
	"go/types"
	"sort"
	"strings"

	"golang.org/x/tools/go/ssa"
)

// Lock modes (must-hold lattice: join = min).
const (
	lkNone = 0
	lkR    = 1
	lkW    = 2
)

func lkName(m int) string { return [...]string{"no lock", "read lock", "write lock"}[m] }

// lockSpec describes one mutex-protected object type.
type lockSpec struct {
	Owner  *types.Named
	Mutex  string         // mutex field name
	Guard  map[string]int // field -> mode required for a *read*; writes need lkW
	CallRW map[string]int // field -> mode required to call a method on / pass the loaded value to a call
	// Exempt: function name -> reason; accesses inside are not obligations (reviewed exceptions)
	Exempt map[string]string
}

type lockNeed struct {
	Mode  int
	Held  int
	What  string
	Instr ssa.Instruction
	Fn    *ssa.Function
	Chain []string
	Key   string
}

type lockAnalysis struct {
	w       *World
	spec    lockSpec
	pkg     *ssa.Package
	held    map[*ssa.Function]map[ssa.Instruction]int
	needs   map[*ssa.Function][]lockNeed // uncovered requirements exported by f
	acq     map[*ssa.Function]bool       // f (transitively) acquires the mutex
	waits   map[*ssa.Function]bool       // f (transitively) blocks on a sync.Cond or channel receive
	inprog  map[*ssa.Function]bool
	fresh   map[*ssa.Function]map[ssa.Value]bool
	NObl    int
	Covered []lockNeed // satisfied obligations (for evidence)
}

func (la *lockAnalysis) isMutexAddr(v ssa.Value) bool {
	fa, ok := v.(*ssa.FieldAddr)
	return ok && isFieldOf(fa.X.Type(), la.spec.Owner, la.spec.Mutex, fa.Field)
}

// heldStates: forward must-dataflow of the mode held at each instruction (state BEFORE the instruction).
func (la *lockAnalysis) heldStates(fn *ssa.Function) map[ssa.Instruction]int {
	if h, ok := la.held[fn]; ok {
		return h
	}
	in := map[*ssa.BasicBlock]int{}
	const top = 99
	for _, b := range fn.Blocks {
		in[b] = top
	}
	if len(fn.Blocks) > 0 {
		in[fn.Blocks[0]] = lkNone
		if fn.Recover != nil {
			in[fn.Recover] = lkNone
		}
	}
	transfer := func(ins ssa.Instruction, cur int) int {
		call, ok := ins.(*ssa.Call)
		if !ok {
			return cur
		}
		callee := call.Call.StaticCallee()
		if callee == nil || len(call.Call.Args) == 0 || !la.isMutexAddr(call.Call.Args[0]) {
			return cur
		}
		switch callee.Name() {
		case "Lock":
			return lkW
		case "RLock":
			return lkR
		case "Unlock", "RUnlock":
			return lkNone
		}
		return cur
	}
	changed := true
	for changed {
		changed = false
		for _, b := range fn.Blocks {
			if b != fn.Blocks[0] && b != fn.Recover {
				v := top
				for _, p := range b.Preds {
					if in[p] == top {
						continue
					}
					o := in[p]
					for _, ins := range p.Instrs {
						o = transfer(ins, o)
					}
					if o < v {
						v = o
					}
				}
				if v != in[b] && v != top {
					if in[b] == top || v < in[b] {
						in[b] = v
						changed = true
					}
				}
			}
		}
	}
	h := map[ssa.Instruction]int{}
	for _, b := range fn.Blocks {
		cur := in[b]
		if cur == top {
			cur = lkNone
		}
		for _, ins := range b.Instrs {
			h[ins] = cur
			cur = transfer(ins, cur)
		}
	}
	la.held[fn] = h
	return h
}

// freshBases: pointers to the owner type allocated in fn itself (constructor exemption).
func (la *lockAnalysis) freshBases(fn *ssa.Function) map[ssa.Value]bool {
	if f, ok := la.fresh[fn]; ok {
		return f
	}
	out := map[ssa.Value]bool{}
	for _, b := range fn.Blocks {
		for _, ins := range b.Instrs {
			if a, ok := ins.(*ssa.Alloc); ok {
				if n, ok := a.Type().(*types.Pointer).Elem().(*types.Named); ok && n.Obj() == la.spec.Owner.Obj() {
					out[a] = true
				}
			}
		}
	}
	la.fresh[fn] = out
	return out
}

func (la *lockAnalysis) inPkg(fn *ssa.Function) bool {
	root := fn
	for root.Parent() != nil {
		root = root.Parent()
	}
	return root.Pkg == la.pkg
}

// localNeeds: obligations of accesses made directly in fn.
func (la *lockAnalysis) localNeeds(fn *ssa.Function) []lockNeed {
	var out []lockNeed
	held := la.heldStates(fn)
	fresh := la.freshBases(fn)
	add := func(ins ssa.Instruction, mode int, what string, base ssa.Value) {
		if base != nil && fresh[base] {
			return // object under construction, not yet shared
		}
		n := lockNeed{Mode: mode, Held: held[ins], What: what, Instr: ins, Fn: fn, Key: fnName(fn) + "|" + what}
		la.NObl++
		if n.Held >= mode {
			la.Covered = append(la.Covered, n)
			return
		}
		out = append(out, n)
	}
	for _, b := range fn.Blocks {
		for _, ins := range b.Instrs {
			switch x := ins.(type) {
			case *ssa.FieldAddr:
				for f, rmode := range la.spec.Guard {
					if !isFieldOf(x.X.Type(), la.spec.Owner, f, x.Field) {
						continue
					}
					for _, a := range la.w.classifyAddrUses(fn, x, x.X) {
						if a.Via != nil {
							// made by a function the field was handed to: the locks held are those at the call
							viaNeed := func(mode int, what string) {
								n := lockNeed{Mode: mode, Held: held[a.Via], What: what, Instr: a.Via, Fn: fn, Key: fnName(fn) + "|" + what}
								la.NObl++
								if fresh[x.X] {
									return
								}
								if n.Held >= mode {
									la.Covered = append(la.Covered, n)
									return
								}
								out = append(out, n)
							}
							switch a.Kind {
							case "write":
								viaNeed(lkW, "write "+f+" (in "+shortFn(a.Fn)+")")
							case "mapwrite":
								viaNeed(lkW, "map update "+f+" (in "+shortFn(a.Fn)+")")
							case "mapdelete":
								viaNeed(lkW, "map delete "+f+" (in "+shortFn(a.Fn)+")")
							case "read", "mapread", "range":
								viaNeed(rmode, a.Kind+" "+f+" (in "+shortFn(a.Fn)+")")
							case "addr", "addrcall":
								viaNeed(lkW, "address of "+f+" escapes (in "+shortFn(a.Fn)+")")
							}
							continue
						}
						switch a.Kind {
						case "write":
							add(a.Instr, lkW, "write "+f, x.X)
						case "mapwrite":
							add(a.Instr, lkW, "map update "+f, x.X)
						case "mapdelete":
							add(a.Instr, lkW, "map delete "+f, x.X)
						case "read", "mapread", "range":
							add(a.Instr, rmode, a.Kind+" "+f, x.X)
						case "addr", "addrcall":
							add(a.Instr, lkW, "address of "+f+" escapes", x.X)
						}
					}
				}
				for f, cmode := range la.spec.CallRW {
					if !isFieldOf(x.X.Type(), la.spec.Owner, f, x.Field) {
						continue
					}
					// every call instruction that takes the loaded value as receiver or argument
					if refs := x.Referrers(); refs != nil {
						for _, r := range *refs {
							switch u := r.(type) {
							case *ssa.Store:
								if u.Addr == ssa.Value(x) {
									add(u, lkW, "write "+f, x.X)
								}
							case *ssa.UnOp:
								for _, cu := range finalUsers(u) {
									if call, ok := cu.(ssa.CallInstruction); ok {
										add(call, cmode, "call "+shortCallee(call)+" on "+f, x.X)
									} else if _, isStore := cu.(*ssa.Store); isStore || isEscape(cu) {
										add(cu, cmode, "value of "+f+" copied", x.X)
									}
								}
							}
						}
					}
				}
			}
		}
	}
	return out
}

// finalUsers returns the instructions using v, looking through interface/type conversions.
func finalUsers(v ssa.Value) []ssa.Instruction {
	var out []ssa.Instruction
	refs := v.Referrers()
	if refs == nil {
		return nil
	}
	for _, r := range *refs {
		switch x := r.(type) {
		case *ssa.ChangeInterface:
			out = append(out, finalUsers(x)...)
		case *ssa.ChangeType:
			out = append(out, finalUsers(x)...)
		case *ssa.MakeInterface:
			out = append(out, finalUsers(x)...)
		case *ssa.DebugRef:
		default:
			out = append(out, r)
		}
	}
	return out
}

func isEscape(ins ssa.Instruction) bool {
	switch ins.(type) {
	case *ssa.MakeClosure, *ssa.Return, *ssa.Phi:
		return true
	}
	return false
}

func shortCallee(call ssa.CallInstruction) string { return shortName(calleeName(call)) }

// calleesInPkg resolves the in-package callees of a call.
func (la *lockAnalysis) calleesInPkg(call ssa.CallInstruction) []*ssa.Function {
	var out []*ssa.Function
	c := call.Common()
	if mc, ok := c.Value.(*ssa.MakeClosure); ok {
		return []*ssa.Function{mc.Fn.(*ssa.Function)}
	}
	for _, f := range la.w.Callees(call) {
		if f.Blocks != nil && la.inPkg(f) {
			out = append(out, f)
		} else if f.Synthetic != "" && f.Blocks != nil {
			// wrappers/bound methods/thunks: look through to in-package targets
			for _, cc := range callsIn(f) {
				for _, g := range la.w.Callees(cc) {
					if g.Blocks != nil && la.inPkg(g) {
						out = append(out, g)
					}
				}
			}
		}
	}
	return out
}

// summarize computes the uncovered needs of fn including those of its in-package callees.
func (la *lockAnalysis) summarize(fn *ssa.Function) []lockNeed {
	if n, ok := la.needs[fn]; ok {
		return n
	}
	if la.inprog[fn] {
		return nil
	}
	la.inprog[fn] = true
	defer delete(la.inprog, fn)
	out := la.localNeeds(fn)
	held := la.heldStates(fn)
	if _, ex := la.spec.Exempt[fn.Name()]; ex && recvNamed(fn) == la.spec.Owner {
		out = nil
	}
	for _, call := range callsIn(fn) {
		if _, isGo := call.(*ssa.Go); isGo {
			// a new goroutine holds nothing
			for _, g := range la.calleesInPkg(call) {
				for _, n := range la.summarize(g) {
					n.Held = lkNone
					n.Chain = append([]string{fnName(fn) + " (go)"}, n.Chain...)
					out = append(out, n)
				}
			}
			continue
		}
		h := held[call]
		if _, isDefer := call.(*ssa.Defer); isDefer {
			// deferred calls run at exit: held state there is the one established by defers; be conservative: state at the defer site
		}
		for _, g := range la.calleesInPkg(call) {
			if g == fn {
				continue
			}
			// a method invoked on an object allocated in this very function (still under construction)
			if recvNamed(g) == la.spec.Owner && len(call.Common().Args) > 0 && !call.Common().IsInvoke() && la.freshBases(fn)[call.Common().Args[0]] {
				continue
			}
			for _, n := range la.summarize(g) {
				la.NObl++
				if h >= n.Mode {
					c := n
					c.Held = h
					c.Chain = append([]string{fnName(fn)}, n.Chain...)
					la.Covered = append(la.Covered, c)
					continue
				}
				n.Held = h
				n.Chain = append([]string{fnName(fn)}, n.Chain...)
				out = append(out, n)
			}
		}
	}
	la.needs[fn] = out
	return out
}

// acquires: does fn (transitively, in package) acquire the mutex?
func (la *lockAnalysis) acquires(fn *ssa.Function, seen map[*ssa.Function]bool) bool {
	if v, ok := la.acq[fn]; ok {
		return v
	}
	if seen[fn] {
		return false
	}
	seen[fn] = true
	res := false
	for _, call := range callsIn(fn) {
		if c, ok := call.(*ssa.Call); ok {
			if callee := c.Call.StaticCallee(); callee != nil && len(c.Call.Args) > 0 && la.isMutexAddr(c.Call.Args[0]) &&
				(callee.Name() == "Lock" || callee.Name() == "RLock") {
				res = true
			}
		}
		for _, g := range la.calleesInPkg(call) {
			if g != fn && la.acquires(g, seen) {
				res = true
			}
		}
	}
	la.acq[fn] = res
	return res
}

// blocks: does fn (transitively, in package) wait on a sync.Cond or receive from a channel?
func (la *lockAnalysis) blocks(fn *ssa.Function, seen map[*ssa.Function]bool) bool {
	if v, ok := la.waits[fn]; ok {
		return v
	}
	if seen[fn] {
		return false
	}
	seen[fn] = true
	res := false
	for _, b := range fn.Blocks {
		for _, ins := range b.Instrs {
			switch x := ins.(type) {
			case *ssa.UnOp:
				if x.Op.String() == "<-" {
					res = true
				}
			case *ssa.Select:
				if x.Blocking {
					res = true
				}
			case ssa.CallInstruction:
				if calleeName(x) == "(*sync.Cond).Wait" {
					res = true
				}
				for _, g := range la.calleesInPkg(x) {
					if g != fn && la.blocks(g, seen) {
						res = true
					}
				}
			}
		}
	}
	la.waits[fn] = res
	return res
}

func newLockAnalysis(w *World, pkg *ssa.Package, spec lockSpec) *lockAnalysis {
	return &lockAnalysis{w: w, spec: spec, pkg: pkg,
		held: map[*ssa.Function]map[ssa.Instruction]int{}, needs: map[*ssa.Function][]lockNeed{},
		acq: map[*ssa.Function]bool{}, waits: map[*ssa.Function]bool{}, inprog: map[*ssa.Function]bool{}, fresh: map[*ssa.Function]map[ssa.Value]bool{}}
}

// entryPoints: exported functions and exported methods of the package (anything callable from outside),
// plus functions whose address escapes to other packages via interface satisfaction (methods in method sets).
func (la *lockAnalysis) entryPoints() []*ssa.Function {
	var out []*ssa.Function
	seen := map[*ssa.Function]bool{}
	for _, mem := range la.pkg.Members {
		switch x := mem.(type) {
		case *ssa.Function:
			if x.Blocks != nil && x.Object() != nil && x.Object().Exported() && !seen[x] {
				seen[x] = true
				out = append(out, x)
			}
		case *ssa.Type:
			for _, T := range []types.Type{x.Type(), types.NewPointer(x.Type())} {
				ms := la.w.Prog.MethodSets.MethodSet(T)
				for i := 0; i < ms.Len(); i++ {
					o, ok := ms.At(i).Obj().(*types.Func)
					if !ok {
						continue
					}
					// methods (exported or satisfying an interface used outside: take all exported, plus
					// unexported ones only if the type is exported through an interface — approximated by exported names)
					fn := la.w.Prog.FuncValue(o)
					if fn == nil || fn.Blocks == nil || !la.inPkg(fn) || seen[fn] {
						continue
					}
					if o.Exported() {
						seen[fn] = true
						out = append(out, fn)
					}
				}
			}
		}
	}
	sort.Slice(out, func(i, j int) bool { return out[i].String() < out[j].String() })
	return out
}

// run reports every uncovered need at an entry point, every re-acquisition and every wait while held.
func (la *lockAnalysis) run(c *Ctx, rule string) {
	w := la.w
	entries := la.entryPoints()
	reported := map[string]bool{}
	for _, e := range entries {
		c.Saw(e)
		for _, n := range la.summarize(e) {
			chain := append([]string{}, n.Chain...)
			key := shortFn(e) + "|" + n.What
			if n.Fn != e {
				key += " in " + shortFn(n.Fn)
			}
			if reported[key] {
				continue
			}
			reported[key] = true
			c.Bad(rule+".lockset", key, w.Pos(n.Instr.Pos()),
				fmt.Sprintf("%s requires the %s on %s.%s but the operation holds %s there; call chain: %s%s",
					n.What, lkName(n.Mode), la.spec.Owner.Obj().Name(), la.spec.Mutex, lkName(n.Held), shortChain(chain), shortFn(n.Fn)))
		}
	}
	// covered obligations, one per (function, access) key
	seenCov := map[string]bool{}
	for _, n := range la.Covered {
		k := shortFn(n.Fn) + "|" + n.What
		if len(n.Chain) > 0 {
			cs := shortName(n.Chain[0])
			k = cs + "|covers " + n.What + " in " + shortFn(n.Fn)
		}
		if seenCov[k] {
			continue
		}
		seenCov[k] = true
		c.Ok(rule+".lockset", k, w.Pos(n.Instr.Pos()), fmt.Sprintf("%s under %s (needs %s)", n.What, lkName(n.Held), lkName(n.Mode)))
	}
	// release on every exit, and one critical section per operation
	for _, fn := range w.RepoFuncs() {
		if !la.inPkg(fn) {
			continue
		}
		held := la.heldStates(fn)
		isMutexCall := func(ins ssa.Instruction, names ...string) bool {
			call, ok := ins.(ssa.CallInstruction)
			if !ok {
				return false
			}
			callee := call.Common().StaticCallee()
			if callee == nil || len(call.Common().Args) == 0 || !la.isMutexAddr(call.Common().Args[0]) {
				return false
			}
			for _, n := range names {
				if callee.Name() == n {
					return true
				}
			}
			return false
		}
		var deferredUnlocks []ssa.Instruction
		nAcquire := 0
		var acquireSites []ssa.Instruction
		for _, b := range fn.Blocks {
			for _, ins := range b.Instrs {
				if _, isDefer := ins.(*ssa.Defer); isDefer && isMutexCall(ins, "Unlock", "RUnlock") {
					deferredUnlocks = append(deferredUnlocks, ins)
				}
				if _, isCall := ins.(*ssa.Call); isCall && isMutexCall(ins, "Lock", "RLock") {
					nAcquire++
					acquireSites = append(acquireSites, ins)
				}
			}
		}
		if nAcquire > 0 {
			for _, r := range liveReturns(fn) {
				if held[r] == lkNone {
					continue
				}
				released := false
				for _, d := range deferredUnlocks {
					if InstrDominates(d, r) {
						released = true
					}
				}
				c.Check(released, rule+".release", fnName(fn)+"|"+la.spec.Mutex+" released on return", w.Pos(r.Pos()), "a deferred unlock covers this return", "this return leaves "+la.spec.Owner.Obj().Name()+"."+la.spec.Mutex+" held ("+lkName(held[r])+", no deferred unlock on the path): every later operation blocks forever")
			}
		}
		// one critical section per operation: an entry point that takes the mutex itself does not, before or after,
		// also run a helper that takes and releases it on its own (a test made in one critical section is stale in
		// the next one: check-then-act)
		if fn.Parent() == nil {
			for _, call := range callsIn(fn) {
				if _, isDefer := call.(*ssa.Defer); isDefer || held[call] != lkNone {
					continue
				}
				for _, g := range la.calleesInPkg(call) {
					if g != fn && la.acquires(g, map[*ssa.Function]bool{}) && nAcquire > 0 {
						c.Bad(rule+".atomic", fnName(fn)+"|one critical section: "+shortFn(g)+" locks on its own", w.Pos(call.Pos()),
							shortFn(fn)+" takes "+la.spec.Mutex+" itself and also calls "+shortFn(g)+", which takes and releases it separately: what that call observed can change before (after) the operation's own critical section")
					}
				}
			}
		}
	}
	// re-acquisition / blocking while held
	for _, fn := range w.RepoFuncs() {
		if !la.inPkg(fn) {
			continue
		}
		held := la.heldStates(fn)
		for _, call := range callsIn(fn) {
			if held[call] == lkNone {
				continue
			}
			if _, isDefer := call.(*ssa.Defer); isDefer {
				continue
			}
			if calleeName(call) == "(*sync.Cond).Wait" {
				c.Bad(rule+".nowait", fnName(fn)+"|Cond.Wait while holding "+la.spec.Mutex, w.Pos(call.Pos()), "blocks on a condition variable while the state mutex is held")
			}
			for _, g := range la.calleesInPkg(call) {
				if g == fn {
					continue
				}
				if la.acquires(g, map[*ssa.Function]bool{}) {
					c.Bad(rule+".noreacquire", fnName(fn)+"|calls "+shortFn(g)+" while holding "+la.spec.Mutex, w.Pos(call.Pos()),
						"the callee acquires the same non-reentrant mutex: self-deadlock")
				}
				if la.blocks(g, map[*ssa.Function]bool{}) {
					c.Bad(rule+".nowait", fnName(fn)+"|calls blocking "+shortFn(g)+" while holding "+la.spec.Mutex, w.Pos(call.Pos()), "the callee waits on a condition variable or channel while the state mutex is held")
				}
			}
		}
	}
}

func shortFn(fn *ssa.Function) string { return shortName(fnName(fn)) }

// shortName drops the module path prefixes from a qualified name.
func shortName(n string) string {
	n = strings.ReplaceAll(n, RepoMod+"/", "")
	n = strings.ReplaceAll(n, "golang.org/x/crypto/", "")
	n = strings.ReplaceAll(n, "agent/shimagent.", "shimagent.")
	n = strings.ReplaceAll(n, "agent/yubiagent.", "yubiagent.")
	return n
}

func shortChain(chain []string) string {
	var parts []string
	for _, s := range chain {
		parts = append(parts, shortName(s))
	}
	if len(parts) == 0 {
		return ""
	}
	return strings.Join(parts, ">") + ">"
}
