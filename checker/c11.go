package main

import (
	"fmt"
	"go/token"
	"go/types"
	"golang.org/x/tools/go/ssa"
	"strings"
)

func init() {
	register(&property{
		ID: "C11",
		Meta: propMeta{
			Level:       "Decides exactly the structural clause of the statement — no operation touches the shared certificate tables, the lock flag or the single upstream connection without holding the state mutex in a sufficient mode — on every path of every function of the shim package, through helpers, closures and interface dispatch (interprocedural lock-state summaries), plus: one critical section per operation, no re-acquisition of the non-reentrant mutex, no blocking wait while it is held; and the same discipline for the yubiagent client's connection lock. Completion, reply matching and sequential equivalence follow from these only together with the runtime's mutex semantics and are not themselves decided.",
			Technique:   "static analysis: lock-state must-dataflow on go/ssa with interprocedural requirement summaries over the VTA call graph (lockset / typestate)",
			Explanation: "Per function a forward must-dataflow computes the mode of the state mutex held before each instruction (Lock/RLock/Unlock/RUnlock calls on the mutex field; defer Unlock holds to exit). Every access to a guarded field is an obligation: writes, map updates/deletes and raw I/O on the connection need the write lock, reads and calls on the underlying agent need at least the read lock. Uncovered obligations are propagated to callers through static calls, closure calls and VTA-resolved interface/func-value calls until an entry point (exported function or method): an uncovered obligation there is a violation reported with the call chain. Objects allocated in the same function (constructors) are exempt.",
			Assumptions: []string{"sync.RWMutex/sync.Mutex semantics", "x/crypto's agent client serialises its own calls with an internal mutex (read in source), so read mode suffices among calls on the underlying agent while write mode excludes them from the raw exchange of Forward", "VTA over-approximates dynamic dispatch", "all methods operate on the one shared server object (type-based lock abstraction)"},
			Trusted:     []string{"go/packages", "go/types", "go/ssa", "callgraph/vta", "sync"},
			RuleDoc: map[string]string{
				"R1.lockset":     "every guarded access reachable from an entry point is covered by the required mode of the state mutex (shim server)",
				"R3.noreacquire": "no call made while the mutex is held reaches a function that acquires it",
				"R1.release":     "every return of a function that takes the state mutex leaves it released (deferred unlock dominating the return, or not held)",
				"R1.atomic":      "an operation that takes the state mutex has one critical section: it does not also call a helper that takes and releases the mutex on its own (check-then-act)",
				"R3.nowait":      "no Cond.Wait / channel receive while the mutex is held",
				"R4.lockset":     "yubiagent client: the connection and the agent built on it are used only under connLock (Close excepted)",
				"R5.ownreply":    "the shim server keeps no byte buffer that operations write: every caller gets a reply of its own",
				"R4.noreacquire": "as R3 for connLock",
				"R4.nowait":      "as R3 for connLock",
			},
		},
		Run: runC11,
	})
}

// shimLockSpec: which lock mode each kind of access to the shim server needs.
func shimLockSpec(m *shimModel) lockSpec {
	return lockSpec{
		Owner: m.Server,
		Mutex: m.fMu,
		Guard: map[string]int{m.fCerts: lkR, m.fCache: lkR, m.fLocked: lkR},
		CallRW: map[string]int{
			m.fAgent: lkR, // calls on the underlying agent: >= read lock
			m.fConn:  lkW, // raw I/O on the shared connection: write lock
		},
	}
}

// shimRawRelayExclusive: the lock-set obligations that concern the raw connection and the underlying agent's
// extension call (what the relay operations use), reported under the given rule of another property.
func shimRawRelayExclusive(c *Ctx, m *shimModel, rule string) {
	tmp := newCtx(c.w, c.Prop, c.Tier)
	spec := shimLockSpec(m)
	// a relayed request and its response must not interleave with another relay: calls on the underlying agent made
	// by the relay operations need the exclusive lock too
	la := newLockAnalysis(c.w, c.w.Pkg(shimPkg), spec)
	la.run(tmp, "R1")
	n := 0
	for _, o := range tmp.Obs {
		if o.Rule != "R1.lockset" || !strings.Contains(o.Key, " on "+m.fConn) {
			continue
		}
		n++
		construct := o.Key
		if i := strings.Index(construct, "|"); i >= 0 {
			construct = construct[i+1:]
		}
		c.add(rule, construct, o.Pos, o.Status, o.Detail, true)
	}
	c.Floor(rule, n, 2, "lock obligations on the raw connection")
}

func runC11(c *Ctx) {
	w := c.w
	m := resolveShim(w)
	for _, p := range m.problems {
		c.Unresolved("R0", p)
	}
	if m.Server == nil || len(m.problems) > 0 {
		return
	}
	la := newLockAnalysis(w, w.Pkg(shimPkg), shimLockSpec(m))
	la.run(c, "R1")
	c.Extra["lock_obligations_shim"] = la.NObl
	c.Floor("R1.lockset", la.NObl, 60, "lock obligations in the shim package")
	c.Floor("R1.lockset", len(la.entryPoints()), 15, "entry points of the shim package")

	// rename rule ids of the secondary checks to R3
	for i := range c.Obs {
		if strings.HasPrefix(c.Obs[i].Rule, "R1.no") {
			c.Obs[i].Rule = "R3" + c.Obs[i].Rule[2:]
			c.Obs[i].Key = strings.Replace(c.Obs[i].Key, "C11.R1.no", "C11.R3.no", 1)
		}
	}

	// R5: each caller gets its own reply: the server keeps no byte buffer that operations write (a reply read into a
	// buffer kept in the server is overwritten by the next operation while an earlier caller still holds it)
	{
		st := m.Server.Underlying().(*types.Struct)
		nBuf := 0
		for i := 0; i < st.NumFields(); i++ {
			fld := st.Field(i)
			if !isByteSeq(fld.Type()) {
				continue
			}
			for _, a := range w.FieldAccesses(m.Server, fld.Name()) {
				if a.Kind != "write" && a.Kind != "addr" && a.Kind != "addrcall" {
					continue
				}
				if a.Fn.Signature.Recv() == nil && a.Fn.Parent() == nil {
					continue // construction
				}
				nBuf++
				c.Bad("R5.ownreply", shortFn(a.Fn)+"|no reply buffer kept in the server ("+fld.Name()+")", w.Pos(a.Instr.Pos()),
					"the operation stores a byte buffer into the server ("+fld.Name()+"): a reply handed to one caller is overwritten by the next operation that reuses the buffer")
			}
		}
		if nBuf == 0 {
			c.Ok("R5.ownreply", "Server|no reply buffer kept in the server", w.Pos(m.Server.Obj().Pos()), "no operation stores a byte slice into a field of the server")
		}
	}

	// ... and the raw exchange is one critical section: the exclusive lock is taken once in the relay operation, before
	// the request is written, and held until the reply has been read (two separately locked halves let another
	// client's exchange slip in between, and the replies cross)
	if fwd := m.Methods["Forward"]; fwd != nil {
		c.Saw(fwd)
		isMu := func(call ssa.CallInstruction, name string) bool {
			callee := call.Common().StaticCallee()
			if callee == nil || callee.Name() != name || len(call.Common().Args) == 0 {
				return false
			}
			if !strings.HasPrefix(fnName(callee), "(*sync.") {
				return false
			}
			fa, ok := call.Common().Args[0].(*ssa.FieldAddr)
			return ok && isFieldOf(fa.X.Type(), m.Owner(m.fMu), m.fMu, fa.Field)
		}
		// the frame that holds the critical section: Forward, or a function it hands the whole exchange to
		okOne, why := false, "no function on Forward's tree takes the exclusive lock around both halves"
		for _, frame := range w.Tree(fwd) {
			if frame.Parent() != nil || okOne {
				continue
			}
			lift := func(ins ssa.Instruction) ([]ssa.Instruction, bool) {
				cur := []ssa.Instruction{ins}
				for hop := 0; hop < 4; hop++ {
					var next []ssa.Instruction
					done := true
					for _, x := range cur {
						if x.Parent() == frame {
							next = append(next, x)
							continue
						}
						done = false
						sites := w.sitesIn(frame, x.Parent())
						if len(sites) == 0 {
							return nil, false // used outside this frame's tree
						}
						for _, site := range sites {
							next = append(next, site.(ssa.Instruction))
						}
					}
					cur = next
					if done {
						break
					}
				}
				for _, x := range cur {
					if x.Parent() != frame {
						return nil, false
					}
				}
				return cur, true
			}
			var uses []ssa.Instruction
			inFrame := true
			for _, a := range w.FieldAccesses(m.Owner(m.fConn), m.fConn) {
				if a.Fn != fwd && !w.inTree(fwd, a.Fn) {
					continue
				}
				l, ok := lift(a.Instr)
				if !ok {
					inFrame = false
					break
				}
				uses = append(uses, l...)
			}
			if !inFrame || len(uses) < 2 {
				continue
			}
			var lock ssa.Instruction
			var unlocks []ssa.Instruction
			for _, call := range callsIn(frame) {
				if _, isDefer := call.(*ssa.Defer); isDefer {
					continue
				}
				if isMu(call, "Lock") && lock == nil {
					lock = call.(ssa.Instruction)
				}
				if isMu(call, "Unlock") {
					unlocks = append(unlocks, call.(ssa.Instruction))
				}
			}
			if lock == nil {
				continue
			}
			good := true
			for _, u := range uses {
				if !InstrDominates(lock, u) {
					good = false
					why = "a use of the connection is not preceded by the lock taken in " + shortFn(frame)
				}
			}
			for _, ul := range unlocks {
				before, after := false, false
				for _, u := range uses {
					if ReachableAvoiding(u, nil)(ul) {
						before = true
					}
					if ReachableAvoiding(ul, nil)(u) {
						after = true
					}
				}
				if before && after {
					good = false
					why = "the lock is released between the request write and the reply read"
				}
			}
			if good {
				okOne = true
			}
		}
		c.Check(okOne, "R5.ownreply", "Forward|request write and reply read in one critical section", w.FnPos(fwd), "one mu.Lock() dominates every use of the raw connection on Forward's tree, no release in between", "the raw exchange is not one critical section ("+why+"): another client's exchange can come between the request and its reply")
	}

	// ... and no read/write deadline is put on the upstream connection: a request that times out stays in flight, its
	// late reply is read by the next operation, and every later caller gets the reply of the one before
	{
		set := map[ssa.Value]bool{}
		var work []ssa.Value
		push := func(v ssa.Value) {
			if v != nil && !set[v] {
				set[v] = true
				work = append(work, v)
			}
		}
		for _, fn := range w.RepoFuncs() {
			for _, b := range fn.Blocks {
				for _, ins := range b.Instrs {
					switch x := ins.(type) {
					case *ssa.UnOp:
						if fa, ok := x.X.(*ssa.FieldAddr); ok && x.Op == token.MUL && isFieldOf(fa.X.Type(), m.Owner(m.fConn), m.fConn, fa.Field) {
							push(x)
						}
					case *ssa.Field:
						if isFieldOf(x.X.Type(), m.Owner(m.fConn), m.fConn, x.Field) {
							push(x)
						}
					}
				}
			}
		}
		nConn := len(work)
		nDl := 0
		for len(work) > 0 {
			v := work[len(work)-1]
			work = work[:len(work)-1]
			refs := v.Referrers()
			if refs == nil {
				continue
			}
			for _, r := range *refs {
				switch u := r.(type) {
				case *ssa.TypeAssert:
					push(u)
				case *ssa.Extract:
					if u.Index == 0 {
						push(u)
					}
				case *ssa.ChangeInterface:
					push(u)
				case *ssa.MakeInterface:
					push(u)
				case *ssa.ChangeType:
					push(u)
				case *ssa.Phi:
					push(u)
				case ssa.CallInstruction:
					cm := u.Common()
					if cm.IsInvoke() {
						if cm.Value == v && strings.HasSuffix(cm.Method.Name(), "Deadline") {
							nDl++
							c.Bad("R5.ownreply", shortFn(u.Parent())+"|"+cm.Method.Name()+" on the upstream connection", w.Pos(u.Pos()), "a deadline on the shared upstream connection: an exchange that times out leaves its request in flight and the late reply is handed to the next caller")
						}
						continue
					}
					if callee := cm.StaticCallee(); callee != nil && len(callee.Blocks) > 0 {
						if strings.HasSuffix(callee.Name(), "Deadline") && len(cm.Args) > 0 && cm.Args[0] == v {
							nDl++
							c.Bad("R5.ownreply", shortFn(u.Parent())+"|"+callee.Name()+" on the upstream connection", w.Pos(u.Pos()), "a deadline on the shared upstream connection: an exchange that times out leaves its request in flight and the late reply is handed to the next caller")
							continue
						}
						if w.InRepoFn(callee) {
							for k, a := range cm.Args {
								if a == v && k < len(callee.Params) {
									push(callee.Params[k])
								}
							}
						}
					}
				}
			}
		}
		if nDl == 0 && nConn > 0 {
			c.Ok("R5.ownreply", "Server|no deadline on the upstream connection", w.Pos(m.Server.Obj().Pos()), itoa(nConn)+" reads of the connection field followed through assertions and helpers")
		}
		c.Floor("R5.ownreply", nConn, 1, "reads of the upstream connection field")
	}

	// ... and the underlying agent stays behind the server's mutex: its value is only ever called on the spot (by the
	// operations, which hold the lock); it is not stored into another object, returned or captured - a signer holding
	// the agent itself signs without the lock and its request crosses the others on the one connection
	{
		nUse, nBad := 0, 0
		var follow func(fn *ssa.Function, v ssa.Value, depth int)
		seenV := map[ssa.Value]bool{}
		follow = func(fn *ssa.Function, v ssa.Value, depth int) {
			if v == nil || seenV[v] || depth > 4 || v.Referrers() == nil {
				return
			}
			seenV[v] = true
			for _, r := range *v.Referrers() {
				switch u := r.(type) {
				case *ssa.DebugRef:
				case ssa.CallInstruction:
					cm := u.Common()
					if cm.IsInvoke() && cm.Value == v {
						nUse++
						continue
					}
					if b, isB := cm.Value.(*ssa.Builtin); isB && (b.Name() == "len" || b.Name() == "print") {
						continue
					}
					if callee := cm.StaticCallee(); callee != nil && w.InRepo(callee) && len(callee.Blocks) > 0 {
						for k, a := range cm.Args {
							if a == v && k < len(callee.Params) {
								nUse++
								follow(callee, callee.Params[k], depth+1)
							}
						}
						continue
					}
					if cm.Value == v {
						continue // called as a function value
					}
					// a method expression of the agent's interface (agent.ExtendedAgent.Lock) handed in as a function value
					// and called with the agent as its receiver: an invocation on the spot
					if p, isP := cm.Value.(*ssa.Parameter); isP && len(cm.Args) > 0 && cm.Args[0] == v {
						sites := w.callSites(p.Parent())
						allThunks := len(sites) > 0
						for _, site := range sites {
							a := site.Common().Args
							if paramIndex(p) >= len(a) {
								allThunks = false
								break
							}
							tf, isF := strip(a[paramIndex(p)]).(*ssa.Function)
							if !isF || !strings.HasSuffix(tf.Name(), "$thunk") || tf.Signature.Params().Len() == 0 || !types.IsInterface(tf.Signature.Params().At(0).Type()) {
								allThunks = false
							}
						}
						if allThunks {
							nUse++
							continue
						}
					}
					nBad++
					c.Bad("R1.lockset", shortFn(fn)+"|underlying agent handed to "+shortName(calleeName(u)), w.Pos(u.Pos()), "the underlying agent's value leaves the server (argument of a call outside the repository): it can be used without the mutex")
				case *ssa.TypeAssert, *ssa.ChangeInterface, *ssa.ChangeType, *ssa.Extract, *ssa.Phi:
					follow(fn, u.(ssa.Value), depth)
				case *ssa.BinOp, *ssa.If, *ssa.UnOp:
					// compared with nil / tested
				case *ssa.MakeClosure:
					// a bound method value: followed to where it is called or handed over
					follow(fn, u, depth)
				case *ssa.MakeInterface:
					follow(fn, u, depth)
				default:
					nBad++
					c.Bad("R1.lockset", shortFn(fn)+"|underlying agent kept outside the server", w.Pos(r.Pos()), "the underlying agent's value is stored, returned or captured ("+strings.TrimPrefix(fmt.Sprintf("%T", r), "*ssa.")+"): whoever holds it can call the agent without the server's mutex, and its exchange crosses the others on the single upstream connection")
				}
			}
		}
		for _, fn := range w.FuncsOfPkg(shimPkg) {
			for _, b := range fn.Blocks {
				for _, ins := range b.Instrs {
					ld, ok := ins.(*ssa.UnOp)
					if !ok || ld.Op != token.MUL {
						continue
					}
					fa, ok := ld.X.(*ssa.FieldAddr)
					if !ok || !isFieldOf(fa.X.Type(), m.Owner(m.fAgent), m.fAgent, fa.Field) {
						continue
					}
					follow(fn, ld, 0)
				}
			}
		}
		if nBad == 0 {
			c.Ok("R1.lockset", "Server|underlying agent only called in place", w.Pos(m.Server.Obj().Pos()), itoa(nUse)+" uses of the agent field: invoked, asserted, compared, or handed to repository helpers that do the same")
		}
		c.Floor("R1.lockset", nUse, 8, "uses of the underlying agent field")
	}
	// ... and a frame handed to an operation is memory of its own: what an operation keeps in the shared tables (a
	// certificate parsed from the request) must not alias a buffer that the connection's loop overwrites with the next
	// request outside the server's mutex
	for _, pkg := range []string{shimPkg, yubiPkg} {
		rd, _ := framingBodies(w, pkg)
		if rd == nil {
			c.Unresolved("R5.ownreply", "framed read of "+pkg)
			continue
		}
		c.Saw(rd)
		nRet, fresh := 0, true
		why := ""
		for _, r := range w.MayBeNilReturns(rd) {
			if rd.Recover != nil && r.Block() == rd.Recover {
				continue
			}
			nRet++
			for _, lf := range w.Leaves(r.Results[0], r) {
				v := throughCell(strip(lf.Val))
				for hop := 0; hop < 3; hop++ {
					if sl, ok := v.(*ssa.Slice); ok {
						v = throughCell(strip(sl.X))
						continue
					}
					break
				}
				switch x := v.(type) {
				case *ssa.MakeSlice:
				case *ssa.Call:
					// io.ReadAll and the like hand out a buffer of their own
					if callee := x.Call.StaticCallee(); callee == nil || w.InRepo(callee) {
						fresh, why = false, w.Short(lf.Val)
					}
				case *ssa.Const:
				default:
					fresh, why = false, w.Short(lf.Val)
				}
			}
		}
		c.Check(fresh && nRet > 0, "R5.ownreply", shortFn(rd)+"|every frame is a buffer of its own", w.FnPos(rd), "the frame returned is allocated by the read", "the framed read can hand out memory it did not allocate ("+why+"): a value kept from one request is overwritten by the next one outside the mutex")
	}

	// ... and it is the whole frame: a reply read short leaves its tail on the shared connection, where the next caller's
	// exchange reads it as the start of its own reply (the framing rules of C10/C12, restricted to how the frame is read)
	nFr := c.WithRulesKept(map[string]string{"R3.framing": "R5.ownreply"}, func(construct, detail string) bool {
		return strings.Contains(construct, ".read|reads exactly") || strings.Contains(construct, ".read|prefix and body") || strings.Contains(construct, ".read|connection handed") || strings.HasPrefix(construct, "anchor:")
	}, func() { framingRules(c, "R3.framing", []string{shimPkg, yubiPkg}) })
	c.Floor("R5.ownreply", nFr, 2, "framed reads checked for reading the whole frame")

	// R4: yubiagent client
	yp := w.Pkg("agent/yubiagent")
	if yp == nil {
		c.Unresolved("R4.lockset", "package agent/yubiagent")
		return
	}
	var client *types.Named
	var fMu, fConn, fAgent string
	for _, name := range yp.Pkg.Scope().Names() {
		tn, ok := yp.Pkg.Scope().Lookup(name).(*types.TypeName)
		if !ok {
			continue
		}
		n, ok := tn.Type().(*types.Named)
		if !ok {
			continue
		}
		st, ok := n.Underlying().(*types.Struct)
		if !ok {
			continue
		}
		mu, conn, ag := "", "", ""
		for i := 0; i < st.NumFields(); i++ {
			ts := st.Field(i).Type().String()
			switch {
			case ts == "sync.Mutex" || ts == "sync.RWMutex":
				mu = st.Field(i).Name()
			case ts == "net.Conn" || ts == "io.ReadWriteCloser":
				conn = st.Field(i).Name()
			case strings.HasPrefix(ts, "golang.org/x/crypto/ssh/agent."):
				ag = st.Field(i).Name()
			}
		}
		if mu != "" && conn != "" && ag != "" {
			client, fMu, fConn, fAgent = n, mu, conn, ag
		}
	}
	if client == nil {
		c.Unresolved("R4.lockset", "yubiagent client type (struct with a mutex, a connection and an agent)")
		return
	}
	cspec := lockSpec{
		Owner:  client,
		Mutex:  fMu,
		Guard:  map[string]int{},
		CallRW: map[string]int{fConn: lkW, fAgent: lkW},
		Exempt: map[string]string{"Close": "closing the connection concurrently is how blocked calls are released (documented in the interface); it performs no framed exchange"},
	}
	lc := newLockAnalysis(w, yp, cspec)
	lc.run(c, "R4")
	c.Extra["lock_obligations_client"] = lc.NObl
	c.Floor("R4.lockset", lc.NObl, 12, "lock obligations in the yubiagent client")
}
