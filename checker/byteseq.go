package main

import (
	"golang.org/x/tools/go/ssa"
)

// Byte sequences built for the wire. A request is written as a literal []byte{a, b}, as append(<sequence>, x...),
// or as a buffer of the exact size filled by index stores and one copy; the rules about requests only need the
// concatenation: single bytes and runs.

type seqPart struct {
	one  ssa.Value // a single byte
	many ssa.Value // a run of bytes (a []byte or string value)
}

// byteSeq: the parts val is the concatenation of, or false.
func (w *World) byteSeq(root *ssa.Function, val ssa.Value, depth int) ([]seqPart, bool) {
	if depth > 6 || val == nil {
		return nil, false
	}
	x := w.canon(root, val)
	switch y := x.(type) {
	case *ssa.Slice:
		a, ok := y.X.(*ssa.Alloc)
		n := int64(-1)
		if ok {
			n = arrayLen(a.Type())
		}
		if n < 0 || n > 64 || y.Low != nil {
			return nil, false
		}
		if y.High != nil {
			if k, isK := intConst(y.High); !isK || k != n {
				return nil, false
			}
		}
		elems := storesIntoOrdered(a)
		if int64(len(elems)) != n {
			return nil, false
		}
		var out []seqPart
		for _, e := range elems {
			if e == nil {
				return nil, false
			}
			out = append(out, seqPart{one: e})
		}
		return out, true
	case *ssa.Call:
		if b, ok := y.Call.Value.(*ssa.Builtin); ok && b.Name() == "append" && len(y.Call.Args) == 2 {
			base, ok := w.byteSeq(root, y.Call.Args[0], depth+1)
			if !ok {
				return nil, false
			}
			// explicit elements, or a spread value
			if tail, ok := w.byteSeq(root, y.Call.Args[1], depth+1); ok {
				return append(base, tail...), true
			}
			return append(base, seqPart{many: y.Call.Args[1]}), true
		}
	case *ssa.MakeSlice:
		// make([]byte, 0, n): nothing yet (what follows is appended)
		if k, isK := intConst(y.Len); isK && k == 0 {
			return []seqPart{}, true
		}
		// make([]byte, k+len(src)); buf[i] = b_i for i < k; copy(buf[k:], src)
		ones := map[int64]ssa.Value{}
		var src ssa.Value
		off := int64(-1)
		refs := y.Referrers()
		if refs == nil {
			return nil, false
		}
		for _, r := range *refs {
			switch u := r.(type) {
			case *ssa.IndexAddr:
				k, isK := intConst(u.Index)
				if !isK || u.Referrers() == nil {
					return nil, false
				}
				for _, rr := range *u.Referrers() {
					if st, isSt := rr.(*ssa.Store); isSt && st.Addr == ssa.Value(u) {
						if _, dup := ones[k]; dup {
							return nil, false
						}
						ones[k] = st.Val
					}
				}
			case *ssa.Slice:
				k, isK := intConst(u.Low)
				if u.Low == nil || !isK || u.High != nil || u.Referrers() == nil {
					continue
				}
				for _, rr := range *u.Referrers() {
					cv, isCall := rr.(*ssa.Call)
					if !isCall {
						continue
					}
					if bi, isB := cv.Call.Value.(*ssa.Builtin); isB && bi.Name() == "copy" && len(cv.Call.Args) == 2 && cv.Call.Args[0] == ssa.Value(u) {
						if src != nil {
							return nil, false
						}
						src, off = cv.Call.Args[1], k
					}
				}
			}
		}
		if src == nil || off != int64(len(ones)) {
			return nil, false
		}
		// the length is off + len(src)
		okLen := false
		if add, isAdd := strip(y.Len).(*ssa.BinOp); isAdd && add.Op.String() == "+" {
			a, b := add.X, add.Y
			if _, isK := intConst(b); isK {
				a, b = b, a
			}
			if k, isK := intConst(a); isK && k == off {
				if la := lenArg(strip(b)); la != nil && throughCell(strip(la)) == throughCell(strip(src)) {
					okLen = true
				}
			}
		}
		if !okLen {
			return nil, false
		}
		var out []seqPart
		for i := int64(0); i < off; i++ {
			e, ok := ones[i]
			if !ok {
				return nil, false
			}
			out = append(out, seqPart{one: e})
		}
		return append(out, seqPart{many: src}), true
	}
	return nil, false
}
