package main

import (
	"go/types"

	"golang.org/x/tools/go/ssa"
)

// fvCtx is the chain of static calls the resolver descended through: a parameter of the callee of
// call is the corresponding argument in the frame above.
type fvCtx struct {
	call *ssa.Call
	up   *fvCtx
}

// fieldVal resolves the value a struct-typed value v holds in the field named field, when that is decided by
// the shape of the code: a local copy with one store into the field (or one whole-value store that is followed),
// a package-level variable initialised in the package initialiser, the result of a static call (followed into the
// callee's single live return, e.g. an option method `o.F = x; return o`), or a parameter of such a callee
// (resolved to the caller's argument).  Returns nil when it is not decided.
func (w *World) fieldVal(v ssa.Value, field string, ctx *fvCtx, depth int) (ssa.Value, *fvCtx) {
	if depth > 12 || v == nil {
		return nil, nil
	}
	switch x := v.(type) {
	case *ssa.ChangeType:
		return w.fieldVal(x.X, field, ctx, depth+1)
	case *ssa.Parameter:
		if ctx == nil || ctx.call.Call.IsInvoke() {
			return nil, nil
		}
		for i, p := range x.Parent().Params {
			if p == x && i < len(ctx.call.Call.Args) {
				return w.fieldVal(ctx.call.Call.Args[i], field, ctx.up, depth+1)
			}
		}
	case *ssa.Call:
		callee := x.Call.StaticCallee()
		if callee == nil || len(callee.Blocks) == 0 {
			return nil, nil
		}
		rets := liveReturns(callee)
		if len(rets) != 1 || len(rets[0].Results) == 0 {
			return nil, nil
		}
		return w.fieldVal(rets[0].Results[0], field, &fvCtx{x, ctx}, depth+1)
	case *ssa.UnOp:
		var fstores, wstores []*ssa.Store
		switch a := x.X.(type) {
		case *ssa.Alloc:
			if refs := a.Referrers(); refs != nil {
				for _, r := range *refs {
					switch r := r.(type) {
					case *ssa.Store:
						if r.Addr == a {
							wstores = append(wstores, r)
						}
					case *ssa.FieldAddr:
						if fieldName(r.X.Type(), r.Field) != field {
							continue
						}
						if rr := r.Referrers(); rr != nil {
							for _, u := range *rr {
								if st, ok := u.(*ssa.Store); ok && st.Addr == r {
									fstores = append(fstores, st)
								}
							}
						}
					}
				}
			}
		case *ssa.Global:
			if a.Pkg == nil {
				return nil, nil
			}
			for _, m := range a.Pkg.Members {
				fn, ok := m.(*ssa.Function)
				if !ok || fn.Name() != "init" {
					continue
				}
				for _, b := range fn.Blocks {
					for _, ins := range b.Instrs {
						st, ok := ins.(*ssa.Store)
						if !ok {
							continue
						}
						if st.Addr == a {
							wstores = append(wstores, st)
						} else if fa, ok := st.Addr.(*ssa.FieldAddr); ok && fa.X == a && fieldName(fa.X.Type(), fa.Field) == field {
							fstores = append(fstores, st)
						}
					}
				}
			}
			// a package-level variable that another function of the package assigns is not decided by its initialiser
			for _, fn := range w.RepoFuncs() {
				if fn.Name() == "init" || fn.Pkg != a.Pkg && (fn.Parent() == nil || fn.Parent().Pkg != a.Pkg) {
					continue
				}
				for _, b := range fn.Blocks {
					for _, ins := range b.Instrs {
						if st, ok := ins.(*ssa.Store); ok {
							if st.Addr == a {
								return nil, nil
							}
							if fa, ok := st.Addr.(*ssa.FieldAddr); ok && fa.X == a {
								return nil, nil
							}
						}
					}
				}
			}
			if len(fstores) == 0 && len(wstores) == 0 {
				// a zero-initialised composite: the field holds its zero value
				return nil, nil
			}
		default:
			return nil, nil
		}
		if len(fstores) == 1 {
			return fstores[0].Val, ctx
		}
		if len(fstores) == 0 && len(wstores) == 1 {
			return w.fieldVal(wstores[0].Val, field, ctx, depth+1)
		}
	case *ssa.MakeInterface:
		return nil, nil
	}
	return nil, nil
}

// resolveCtx follows v through parameters of the frames in ctx up to a value of the outermost frame.
func resolveCtx(v ssa.Value, ctx *fvCtx) (ssa.Value, *fvCtx) {
	for {
		p, ok := v.(*ssa.Parameter)
		if !ok || ctx == nil || ctx.call.Call.IsInvoke() {
			return v, ctx
		}
		found := false
		for i, q := range p.Parent().Params {
			if q == p && i < len(ctx.call.Call.Args) {
				v, ctx, found = ctx.call.Call.Args[i], ctx.up, true
				break
			}
		}
		if !found {
			return v, ctx
		}
	}
}

// filterFuncOf resolves a function value to the function that runs and the values bound to its free variables:
// a named function, a closure made in place, or the closure a static constructor returns (its bindings resolved to
// the constructor's arguments).
func (w *World) filterFuncOf(v ssa.Value, ctx *fvCtx, depth int) (*ssa.Function, map[*ssa.FreeVar]ssa.Value) {
	if depth > 6 || v == nil {
		return nil, nil
	}
	v, ctx = resolveCtx(strip(v), ctx)
	switch x := strip(v).(type) {
	case *ssa.Function:
		return x, nil
	case *ssa.MakeClosure:
		fn, _ := x.Fn.(*ssa.Function)
		if fn == nil {
			return nil, nil
		}
		env := map[*ssa.FreeVar]ssa.Value{}
		for i, b := range x.Bindings {
			if i < len(fn.FreeVars) {
				if a, ok := b.(*ssa.Alloc); ok {
					// a captured variable: the closure reads the cell, which holds the one value stored into it
					var sts []*ssa.Store
					if refs := a.Referrers(); refs != nil {
						for _, r := range *refs {
							if st, ok := r.(*ssa.Store); ok && st.Addr == a {
								sts = append(sts, st)
							}
						}
					}
					if len(sts) != 1 || cellWrittenIn(fn, fn.FreeVars[i]) {
						continue
					}
					b = sts[0].Val
				}
				bv, _ := resolveCtx(b, ctx)
				env[fn.FreeVars[i]] = bv
			}
		}
		return fn, env
	case *ssa.Call:
		callee := x.Call.StaticCallee()
		if callee == nil || len(callee.Blocks) == 0 {
			return nil, nil
		}
		if _, ok := callee.Signature.Results().At(0).Type().Underlying().(*types.Signature); !ok {
			return nil, nil
		}
		rets := liveReturns(callee)
		if len(rets) != 1 {
			return nil, nil
		}
		return w.filterFuncOf(rets[0].Results[0], &fvCtx{x, ctx}, depth+1)
	}
	return nil, nil
}

// cellWrittenIn reports whether the closure fn stores into the captured cell fv.
func cellWrittenIn(fn *ssa.Function, fv *ssa.FreeVar) bool {
	if refs := fv.Referrers(); refs != nil {
		for _, r := range *refs {
			if st, ok := r.(*ssa.Store); ok && st.Addr == fv {
				return true
			}
			if _, ok := r.(*ssa.UnOp); !ok {
				return true // the cell's address goes elsewhere
			}
		}
	}
	return false
}
