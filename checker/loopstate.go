package main

import (
	"golang.org/x/tools/go/ssa"
)

// staleFrom: can value v, used at instruction `at` inside the service loop whose iterations start with instruction
// `start`, hold what an EARLIER iteration computed? It can when its definition passes through a join at the loop's
// head that has an operand coming round the back edge (a variable declared outside the loop and not reassigned on
// every path of this iteration), or when it is loaded from a variable that lives outside the loop and some path
// from the start of the iteration reaches the load without storing into it. Returns a description, or "".
func (w *World) staleFrom(v ssa.Value, at ssa.Instruction, start ssa.Instruction) string {
	head := start.Block()
	seen := map[ssa.Value]bool{}
	var walk func(v ssa.Value, depth int) string
	walk = func(v ssa.Value, depth int) string {
		if v == nil || seen[v] || depth > 12 {
			return ""
		}
		seen[v] = true
		switch x := v.(type) {
		case *ssa.Phi:
			if x.Block() == head {
				for i, e := range x.Edges {
					// an operand arriving from inside the loop
					if p := x.Block().Preds[i]; head.Dominates(p) {
						if _, isConst := e.(*ssa.Const); !isConst {
							return "the variable " + x.Comment + " keeps its value from the previous iteration"
						}
					}
				}
			}
			for _, e := range x.Edges {
				if s := walk(e, depth+1); s != "" {
					return s
				}
			}
		case *ssa.UnOp:
			// a field of a struct variable that lives outside the loop: this iteration must have stored into that field
			// (or the whole variable) on every path to the load; what a helper handed the variable's address may or may
			// not write does not count
			if fa, ok := x.X.(*ssa.FieldAddr); ok {
				if al, isAl := fa.X.(*ssa.Alloc); isAl && al.Parent() == head.Parent() && al.Block() != head && al.Block().Dominates(head) {
					barrier := map[ssa.Instruction]bool{}
					for _, r := range *al.Referrers() {
						switch u := r.(type) {
						case *ssa.Store:
							if u.Addr == ssa.Value(al) {
								barrier[u] = true
							}
						case *ssa.FieldAddr:
							if u.Field != fa.Field {
								continue
							}
							for _, rr := range *u.Referrers() {
								if st, isSt := rr.(*ssa.Store); isSt && st.Addr == ssa.Value(u) {
									barrier[st] = true
								}
							}
						}
					}
					if ReachableAvoiding(start, barrier)(x) {
						return "the field " + fieldName(fa.X.Type(), fa.Field) + " of the variable " + al.Comment + ", declared outside the loop, can still hold the previous request's value"
					}
					return ""
				}
			}
			if al, ok := x.X.(*ssa.Alloc); ok {
				// a variable outside the loop: some store of this iteration must precede the load on every path
				if al.Parent() == head.Parent() && al.Block() != head && al.Block().Dominates(head) {
					barrier := map[ssa.Instruction]bool{}
					for _, r := range *al.Referrers() {
						if st, isSt := r.(*ssa.Store); isSt && st.Addr == ssa.Value(al) {
							barrier[st] = true
						}
					}
					if ReachableAvoiding(start, barrier)(x) {
						return "the variable " + al.Comment + " declared outside the loop can still hold the previous request's value"
					}
				}
				if stores, ok := cellStores(al); ok {
					for _, st := range stores {
						if s := walk(st.Val, depth+1); s != "" {
							return s
						}
					}
				}
				return ""
			}
			return walk(x.X, depth+1)
		case *ssa.Parameter:
			// a helper of the loop body: the argument it was given
			if u := w.resolveUp(head.Parent(), x); u != ssa.Value(x) {
				return walk(u, depth+1)
			}
		case *ssa.Extract:
			return walk(x.Tuple, depth+1)
		case *ssa.ChangeType:
			return walk(x.X, depth+1)
		case *ssa.ChangeInterface:
			return walk(x.X, depth+1)
		case *ssa.MakeInterface:
			return walk(x.X, depth+1)
		case *ssa.Convert:
			return walk(x.X, depth+1)
		case *ssa.Slice:
			return walk(x.X, depth+1)
		case *ssa.FieldAddr:
			return walk(x.X, depth+1)
		case *ssa.Field:
			return walk(x.X, depth+1)
		case *ssa.IndexAddr:
			return walk(x.X, depth+1)
		}
		return ""
	}
	return walk(v, 0)
}
