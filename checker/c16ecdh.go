package main

import (
	"fmt"
	"go/token"
	"go/types"
	"sort"
	"strings"

	"golang.org/x/tools/go/ssa"
)

// constIntUp: the integer v denotes in root's frame - a constant, a helper parameter bound to a constant argument at
// its (selected) call site, or sums / differences / products of those.
func (w *World) constIntUp(root *ssa.Function, v ssa.Value, d int) (int64, bool) {
	if v == nil || d > 6 {
		return 0, false
	}
	v = throughCell(strip(v))
	if k, ok := intConst(v); ok {
		return k, true
	}
	switch x := v.(type) {
	case *ssa.Phi:
		if i, ok := w.phiSel[x]; ok && i < len(x.Edges) {
			return w.constIntUp(root, x.Edges[i], d+1)
		}
	case *ssa.Parameter:
		if u := w.resolveUp(root, x); u != ssa.Value(x) {
			return w.constIntUp(root, u, d+1)
		}
	case *ssa.Convert:
		if widening(x.X.Type(), x.Type()) {
			return w.constIntUp(root, x.X, d+1)
		}
	case *ssa.BinOp:
		a, okA := w.constIntUp(root, x.X, d+1)
		b, okB := w.constIntUp(root, x.Y, d+1)
		if okA && okB {
			switch x.Op {
			case token.ADD:
				return a + b, true
			case token.SUB:
				return a - b, true
			case token.MUL:
				return a * b, true
			case token.QUO:
				if b != 0 {
					return a / b, true
				}
			}
		}
	case *ssa.Call:
		// len(x) of a value whose length the arm fixes
		if la := lenArg(x); la != nil && w.lenKnown != nil {
			if n, ok := w.lenKnown[w.canon(root, la)]; ok {
				return n, true
			}
		}
	}
	return 0, false
}

// nistCurveCall: v is a call of <pkg>.P<bits>().
func nistCurveCall(v ssa.Value, pkg string) (int64, bool) {
	call, ok := throughCell(strip(v)).(*ssa.Call)
	if !ok {
		return 0, false
	}
	f := call.Call.StaticCallee()
	if f == nil || f.Pkg == nil || f.Pkg.Pkg.Path() != pkg || !strings.HasPrefix(f.Name(), "P") || len(call.Call.Args) != 0 {
		return 0, false
	}
	n := int64(t2atoi(strings.TrimPrefix(f.Name(), "P")))
	return n, n > 0
}

// ecdhArm: the crypto/ecdh curve the facts select (`<key>.Curve() == ecdh.P<n>()`), with the value compared.
func ecdhArm(facts map[Lit]bool) (bits int64, subject ssa.Value, n int) {
	for l := range facts {
		bin, ok := l.V.(*ssa.BinOp)
		if !ok || bin.Op != token.EQL || !l.Pol {
			continue
		}
		if b, ok := nistCurveCall(bin.Y, "crypto/ecdh"); ok {
			bits, subject = b, bin.X
			n++
		} else if b, ok := nistCurveCall(bin.X, "crypto/ecdh"); ok {
			bits, subject = b, bin.Y
			n++
		}
	}
	return
}

// ecdsaKeyActivations enumerates the constructions of an ecdsa.PublicKey in the package: (function holding the
// curve switch, facts there, alloc). A construction inside a helper is one activation per call site.
type ecdsaActivation struct {
	frame *ssa.Function // the function whose switch selects the arm
	site  ssa.CallInstruction
	alloc *ssa.Alloc
}

func (w *World) ecdsaKeyAllocs(pkgSuffix string) []*ssa.Alloc {
	var out []*ssa.Alloc
	for _, fn := range w.FuncsOfPkg(pkgSuffix) {
		for _, b := range fn.Blocks {
			for _, ins := range b.Instrs {
				if a, ok := ins.(*ssa.Alloc); ok && namedIs(a.Type().(*types.Pointer).Elem(), "crypto/ecdsa", "PublicKey") {
					out = append(out, a)
				}
			}
		}
	}
	sort.Slice(out, func(i, j int) bool { return out[i].Pos() < out[j].Pos() })
	return out
}

// withECDHActivations calls f once per activation of alloc with the facts holding at the construction and the frame
// in whose terms helper parameters resolve.
func (w *World) withECDHActivations(alloc *ssa.Alloc, f func(frame *ssa.Function, facts map[Lit]bool, where string)) {
	g := alloc.Parent()
	old := w.focus
	defer w.restoreFocus(old)
	if bits, _, _ := ecdhArm(w.Facts(g).At(alloc.Block())); bits > 0 {
		f(g, w.Facts(g).At(alloc.Block()), "")
		return
	}
	// the arms assign what the key is built from and join before one construction: one activation per edge into
	// the join, the phis of the join taking that edge's values
	if j := w.ecdhJoin(g, alloc); j != nil {
		for i, pred := range j.Preds {
			ef := w.factsOnEdge(pred, j)
			if bits, _, _ := ecdhArm(ef); bits == 0 {
				continue
			}
			w.selectEdge(j, i)
			f(g, ef, fmt.Sprintf(" (arm joining at %s, edge %d)", w.Pos(j.Instrs[0].Pos()), i))
			w.phiSel = nil
		}
		return
	}
	if !w.transparent(g) || w.dynCallable(g) {
		f(g, w.Facts(g).At(alloc.Block()), "")
		return
	}
	sites := w.callSites(g)
	sort.Slice(sites, func(i, j int) bool { return sites[i].Pos() < sites[j].Pos() })
	for i, s := range sites {
		frame := s.Parent()
		w.Focus(frame)
		w.Pin(frame, g, s, func(facts *Facts) {
			f(frame, facts.At(alloc.Block()), fmt.Sprintf(" (activation %d of %s)", i+1, fnName(g)))
		})
	}
}

// c16ECDHSSA: every ecdsa.PublicKey built from a crypto/ecdh key is built in an arm selected by that key's own curve
// P<n>, on elliptic.P<n>, with X = b[1:1+s] and Y = b[1+s:], s = ceil(n/8), b the key's Bytes().
func c16ECDHSSA(c *Ctx) int {
	const rule = "R2.tables"
	w := c.w
	n := 0
	for _, alloc := range w.ecdsaKeyAllocs("attestation/yubiattest") {
		g := alloc.Parent()
		w.withECDHActivations(alloc, func(frame *ssa.Function, facts map[Lit]bool, where string) {
			bits, subject, arms := ecdhArm(facts)
			if arms == 0 {
				return // not built from an ecdh key
			}
			pos := w.Pos(alloc.Pos())
			key := shortFn(frame) + fmt.Sprintf("|case ecdh.P%d", bits)
			if arms > 1 {
				c.Und(rule, key+" builds the ecdsa key on the same curve", pos, "several ecdh curves are selected at once")
				return
			}
			n++
			fields := w.FieldStoresDeep(g, alloc)
			one := func(name string) ssa.Value {
				if len(fields[name]) != 1 {
					return nil
				}
				return fields[name][0]
			}
			cv, xv, yv := one("Curve"), one("X"), one("Y")
			if cv == nil || xv == nil || yv == nil {
				c.Und(rule, key+" builds the ecdsa key on the same curve", pos, "ecdsa.PublicKey without single Curve/X/Y stores"+where)
				return
			}
			cv = w.canon(frame, cv)
			if ph, isPhi := cv.(*ssa.Phi); isPhi {
				if i, sel := w.phiSel[ph]; sel {
					cv = w.canon(frame, ph.Edges[i])
				}
			}
			if eb, ok := nistCurveCall(cv, "crypto/elliptic"); !ok {
				c.Und(rule, key+" builds the ecdsa key on the same curve", pos, "Curve is not a crypto/elliptic constructor call"+where)
			} else {
				c.Check(eb == bits, rule, key+" builds the ecdsa key on the same curve", pos, fmt.Sprintf("ecdh.P%d -> elliptic.P%d", bits, eb),
					fmt.Sprintf("%s: case ecdh.P%d() builds a key on elliptic.P%d()%s", shortFn(frame), bits, eb, where))
			}
			size := (bits + 7) / 8
			// X / Y: big.Int SetBytes(b[lo:hi]) with b = Bytes() of the key whose curve selected the arm
			bounds := func(v ssa.Value) (lo, hi int64, hasHi, ok bool, src ssa.Value) {
				call, isCall := throughCell(strip(v)).(*ssa.Call)
				if !isCall || !strings.HasSuffix(calleeName(call), "math/big.Int).SetBytes") || len(call.Call.Args) < 2 {
					return
				}
				sl, isSl := throughCell(strip(call.Call.Args[1])).(*ssa.Slice)
				if !isSl || sl.Max != nil {
					return
				}
				// the uncompressed point of a curve of this arm has exactly 1+2*size bytes: bounds computed from its
				// length are constants in the arm
				if bc, isB := w.canon(frame, sl.X).(*ssa.Call); isB && strings.HasSuffix(calleeName(bc), "crypto/ecdh.PublicKey).Bytes") {
					w.lenKnown = map[ssa.Value]int64{ssa.Value(bc): 1 + 2*size}
					defer func() { w.lenKnown = nil }()
				}
				if sl.Low != nil {
					if lo, ok = w.constIntUp(frame, sl.Low, 0); !ok {
						return
					}
				}
				if sl.High != nil {
					hasHi = true
					if hi, ok = w.constIntUp(frame, sl.High, 0); !ok {
						return
					}
				}
				return lo, hi, hasHi, true, w.canon(frame, sl.X)
			}
			xl, xh, xhas, okx, xsrc := bounds(xv)
			yl, _, yhas, oky, ysrc := bounds(yv)
			skey := key + " splits the uncompressed point at 1+ceil(bits/8)"
			// the sliced bytes are the Bytes() of the key whose Curve() is compared
			ownKey := func(src ssa.Value) bool {
				bc, ok := src.(*ssa.Call)
				if !ok || !strings.HasSuffix(calleeName(bc), "crypto/ecdh.PublicKey).Bytes") || len(bc.Call.Args) == 0 {
					return false
				}
				cc, ok := w.canon(frame, subject).(*ssa.Call)
				if !ok || !strings.HasSuffix(calleeName(cc), "crypto/ecdh.PublicKey).Curve") || len(cc.Call.Args) == 0 {
					return false
				}
				return w.SameValue(frame, bc.Call.Args[0], cc.Call.Args[0])
			}
			switch {
			case !okx || !oky:
				c.Und(rule, skey, pos, "X/Y are not built from constant slices of the encoded key"+where)
			case xsrc != ysrc || !ownKey(xsrc):
				c.Bad(rule, skey, pos, fmt.Sprintf("%s: the coordinates of the ecdh.P%d arm are not cut from the Bytes() of the key whose curve selects the arm%s", shortFn(frame), bits, where))
			case xl != 1 || !xhas || xh != 1+size || yl != 1+size || yhas:
				c.Bad(rule, skey, pos, fmt.Sprintf("%s: ecdh.P%d coordinates taken from [%d:%d] and [%d:%s], want [1:%d] and [%d:]%s", shortFn(frame), bits, xl, xh, yl, map[bool]string{true: "K", false: ""}[yhas], 1+size, 1+size, where))
			default:
				c.Ok(rule, skey, pos, fmt.Sprintf("X = b[1:%d], Y = b[%d:] for a %d-byte field element", 1+size, 1+size, size))
			}
		})
	}
	c.Floor(rule, n, 3, "ecdh curve cases")
	return n
}

// ecdhBytesGuard: a slice of (*ecdh.PublicKey).Bytes() stays within 1+2*ceil(n/8) bytes in an arm selected by the
// key's own curve being ecdh.P<n>.
func ecdhBytesGuard(w *World, fn *ssa.Function, ins ssa.Instruction, facts *Facts, root *ssa.Function) bool {
	sl, ok := ins.(*ssa.Slice)
	if !ok || facts == nil {
		return false
	}
	_, _, arms := ecdhArm(facts.At(sl.Block()))
	if arms == 0 && w.phiSel == nil {
		// the bounds are phis of the join of the curve arms: the guard holds on every edge into the join
		var j *ssa.BasicBlock
		okJ := true
		var find func(v ssa.Value, d int)
		find = func(v ssa.Value, d int) {
			if v == nil || d > 6 {
				return
			}
			switch x := throughCell(strip(v)).(type) {
			case *ssa.Phi:
				if j != nil && j != x.Block() {
					okJ = false
				}
				j = x.Block()
			case *ssa.BinOp:
				find(x.X, d+1)
				find(x.Y, d+1)
			case *ssa.Convert:
				find(x.X, d+1)
			}
		}
		find(sl.Low, 0)
		find(sl.High, 0)
		if j == nil && okJ {
			// bounds computed from the encoding's own length: the join of the curve arms above the slice - the nearest
			// dominating block every edge into which is an arm of a curve
			for b := sl.Block(); b != nil && j == nil; b = b.Idom() {
				if len(b.Preds) < 2 {
					continue
				}
				all := true
				for _, pred := range b.Preds {
					if _, _, n := ecdhArm(w.factsOnEdge(pred, b)); n != 1 {
						all = false
					}
				}
				if all {
					j = b
				}
			}
		}
		if j == nil || !okJ || j.Parent() != sl.Parent() || !j.Dominates(sl.Block()) {
			return false
		}
		n := 0
		for i, pred := range j.Preds {
			if facts.At(pred) == nil {
				continue // edge not taken in this activation
			}
			w.selectEdge(j, i)
			ok := ecdhBytesGuardWith(w, sl, w.factsOnEdge(pred, j), root)
			w.phiSel = nil
			if !ok {
				return false
			}
			n++
		}
		return n > 0
	}
	return ecdhBytesGuardWith(w, sl, facts.At(sl.Block()), root)
}

func ecdhBytesGuardWith(w *World, sl *ssa.Slice, fm map[Lit]bool, root *ssa.Function) bool {
	bits, subject, arms := ecdhArm(fm)
	if arms != 1 {
		return false
	}
	total := 1 + 2*((bits+7)/8)
	src, ok := w.canon(root, sl.X).(*ssa.Call)
	if !ok || !strings.HasSuffix(calleeName(src), "crypto/ecdh.PublicKey).Bytes") || len(src.Call.Args) == 0 {
		return false
	}
	cc, ok := w.canon(root, subject).(*ssa.Call)
	if !ok || !strings.HasSuffix(calleeName(cc), "crypto/ecdh.PublicKey).Curve") || len(cc.Call.Args) == 0 || !w.SameValue(root, src.Call.Args[0], cc.Call.Args[0]) {
		return false
	}
	lo, hi := int64(0), total
	w.lenKnown = map[ssa.Value]int64{ssa.Value(src): total}
	defer func() { w.lenKnown = nil }()
	if sl.Low != nil {
		if lo, ok = w.constIntUp(root, sl.Low, 0); !ok {
			return false
		}
	}
	if sl.High != nil {
		if hi, ok = w.constIntUp(root, sl.High, 0); !ok {
			return false
		}
	}
	return 0 <= lo && lo <= hi && hi <= total
}

// FuncsOfPkg: the repository functions (closures included) of the package with the given path suffix.
func (w *World) FuncsOfPkg(suffix string) []*ssa.Function {
	var out []*ssa.Function
	for _, fn := range w.RepoFuncs() {
		top := fn
		for top.Parent() != nil {
			top = top.Parent()
		}
		if top.Pkg != nil && strings.HasSuffix(top.Pkg.Pkg.Path(), suffix) {
			out = append(out, fn)
		}
	}
	return out
}

// namedIs: t is the named type pkg.name.
func namedIs(t types.Type, pkg, name string) bool {
	nt, ok := t.(*types.Named)
	return ok && nt.Obj().Pkg() != nil && nt.Obj().Pkg().Path() == pkg && nt.Obj().Name() == name
}

// selectEdge: the phis of join block j take the value of incoming edge i.
func (w *World) selectEdge(j *ssa.BasicBlock, i int) {
	w.phiSel = map[*ssa.Phi]int{}
	for _, ins := range j.Instrs {
		ph, ok := ins.(*ssa.Phi)
		if !ok {
			break
		}
		w.phiSel[ph] = i
	}
}

// ecdhJoin: the block whose phi the Curve field of the ecdsa key built at alloc is read from, when that block
// dominates the construction.
func (w *World) ecdhJoin(g *ssa.Function, alloc *ssa.Alloc) *ssa.BasicBlock {
	vs := w.FieldStoresDeep(g, alloc)["Curve"]
	if len(vs) != 1 {
		return nil
	}
	ph, ok := w.canon(g, vs[0]).(*ssa.Phi)
	if !ok || ph.Parent() != alloc.Parent() || !ph.Block().Dominates(alloc.Block()) {
		return nil
	}
	return ph.Block()
}
