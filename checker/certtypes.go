package main

import (
	"go/constant"
	"go/token"
	"go/types"
	"sort"
	"strings"

	"golang.org/x/tools/go/ssa"
)

// evalStringTest decides the boolean value cond for the concrete string s standing for subject: comparisons with
// constants, strings.Contains / HasPrefix / HasSuffix / EqualFold with a constant, membership in a frozen
// package-level map literal (comma-ok or boolean element), a repository predicate over the subject, negation.
func (w *World) evalStringTest(cond, subject ssa.Value, s string, depth int) (bool, bool) {
	if depth > 6 {
		return false, false
	}
	cond = throughCell(strip(cond))
	isSubj := func(v ssa.Value) bool { return throughCell(strip(v)) == subject }
	switch x := cond.(type) {
	case *ssa.Const:
		return boolConst(x)
	case *ssa.UnOp:
		if x.Op == token.NOT {
			b, ok := w.evalStringTest(x.X, subject, s, depth+1)
			return !b, ok
		}
	case *ssa.BinOp:
		if hay, sub, pol, ok := containsTest(x); ok {
			if k, isK := strConst(sub); isK && isSubj(hay) {
				return strings.Contains(s, k) == pol, true
			}
			return false, false
		}
		if x.Op != token.EQL && x.Op != token.NEQ {
			return false, false
		}
		var k string
		var isK bool
		switch {
		case isSubj(x.X):
			k, isK = strConst(x.Y)
		case isSubj(x.Y):
			k, isK = strConst(x.X)
		}
		if !isK {
			return false, false
		}
		return (s == k) == (x.Op == token.EQL), true
	case *ssa.Extract:
		if lk, ok := x.Tuple.(*ssa.Lookup); ok && lk.CommaOk && x.Index == 1 && isSubj(lk.Index) {
			if keys, ok := w.frozenStringKeys(lk.X, false); ok {
				return keys[s], true
			}
		}
	case *ssa.Lookup:
		if !x.CommaOk && isSubj(x.Index) && isBoolType(x.Type()) {
			if keys, ok := w.frozenStringKeys(x.X, true); ok {
				return keys[s], true
			}
		}
	case *ssa.Call:
		name := calleeName(x)
		args := x.Call.Args
		switch name {
		case "strings.Contains", "strings.HasPrefix", "strings.HasSuffix", "strings.EqualFold":
			if len(args) == 2 && isSubj(args[0]) {
				if k, ok := strConst(args[1]); ok {
					switch name {
					case "strings.Contains":
						return strings.Contains(s, k), true
					case "strings.HasPrefix":
						return strings.HasPrefix(s, k), true
					case "strings.HasSuffix":
						return strings.HasSuffix(s, k), true
					default:
						return strings.EqualFold(s, k), true
					}
				}
			}
			return false, false
		}
		if h := w.helperOf(x); h != nil && len(h.Params) == 1 && len(args) == 1 && isSubj(args[0]) && h.Signature.Results().Len() == 1 && isBoolType(h.Signature.Results().At(0).Type()) {
			// a predicate over the string: decided on its single return expression when it has one
			rets := liveReturns(h)
			if len(rets) == 1 {
				return w.evalStringTest(rets[0].Results[0], h.Params[0], s, depth+1)
			}
			if rs, ok := evalParamFuncW(w, h, constant.MakeString(s), false); ok && len(rs) == 1 {
				return boolConst(rs[0])
			}
		}
	}
	return false, false
}

// frozenStringKeys: the string keys of the frozen package-level map literal m (boolVals: those mapped to true).
func (w *World) frozenStringKeys(m ssa.Value, boolVals bool) (map[string]bool, bool) {
	ld, ok := m.(*ssa.UnOp)
	if !ok {
		return nil, false
	}
	g, ok := ld.X.(*ssa.Global)
	if !ok || !w.globalFrozen(g) {
		return nil, false
	}
	entries, ok := w.mapLiteralEntries(g)
	if !ok {
		return nil, false
	}
	out := map[string]bool{}
	for _, e := range entries {
		if e.Key.Kind() != constant.String {
			return nil, false
		}
		if boolVals {
			if len(e.Vals) != 1 {
				return nil, false
			}
			b, isB := boolConst(e.Vals[0])
			if !isB {
				return nil, false
			}
			if !b {
				continue
			}
		}
		out[constant.StringVal(e.Key)] = true
	}
	return out, true
}

// checkCertTypes: the cast from an identity to a certificate recognises every certificate key type that x/crypto/ssh
// defines (its CertAlgo* constants, read from source): for each of them the cast's type test does not take the
// "not a certificate" exit. An identity whose type is not recognised is treated as a plain key by every pruning and
// hiding rule.
func checkCertTypes(c *Ctx, rule string) {
	w := c.w
	fn := w.Func("sshutils/key", "CastSSHPublicKeyToCertificate")
	if fn == nil || len(fn.Params) != 1 {
		c.Unresolved(rule, "sshutils/key.CastSSHPublicKeyToCertificate")
		return
	}
	c.Saw(fn)
	sp := w.ByPath["golang.org/x/crypto/ssh"]
	if sp == nil || sp.Types == nil {
		c.Unresolved(rule, "package golang.org/x/crypto/ssh (certificate type names)")
		return
	}
	var algos []string
	for _, n := range sp.Types.Scope().Names() {
		k, ok := sp.Types.Scope().Lookup(n).(*types.Const)
		if !ok || !strings.HasPrefix(n, "CertAlgo") || k.Val().Kind() != constant.String {
			continue
		}
		v := constant.StringVal(k.Val())
		if strings.HasPrefix(v, "rsa-sha2-") {
			continue // names of signature algorithms over an ssh-rsa certificate, never a key's Type()
		}
		algos = append(algos, v)
	}
	sort.Strings(algos)
	// the type of the identity: key.Type()
	var typ *ssa.Call
	for _, cv := range invokeOf(fn, "Type") {
		if cv.Call.Value == ssa.Value(fn.Params[0]) && typ == nil {
			typ = cv
		}
	}
	// the refusing exits: returns of a nil certificate; each of them is reached only through a test of the type that a
	// certificate type fails - decided by evaluating every branch condition that depends on key.Type() alone
	n := 0
	for _, b := range fn.Blocks {
		ifi, ok := b.Instrs[len(b.Instrs)-1].(*ssa.If)
		if !ok || typ == nil {
			continue
		}
		// does either edge lead straight to a return of (nil, error)?
		refuse := -1
		for i, s := range b.Succs {
			if r, isRet := s.Instrs[len(s.Instrs)-1].(*ssa.Return); isRet && len(r.Results) == 2 && isNilConst(strip(r.Results[0])) && len(s.Preds) == 1 {
				refuse = i
			}
		}
		if refuse < 0 {
			continue
		}
		if _, ok := w.evalStringTest(ifi.Cond, typ, "ssh-rsa", 0); !ok {
			continue // not a test of the type string alone (e.g. the outcome of a parse)
		}
		n++
		for _, a := range algos {
			v, ok := w.evalStringTest(ifi.Cond, typ, a, 0)
			key := "cast|certificate type " + a + " recognised"
			if !ok {
				c.Und(rule, key, w.Pos(ifi.Cond.Pos()), "the type test could not be evaluated for this name")
				continue
			}
			taken := (v && refuse == 0) || (!v && refuse == 1)
			c.Check(!taken, rule, key, w.Pos(ifi.Cond.Pos()), "passes the type test", "an identity of type "+a+" (a certificate type of x/crypto/ssh) is refused by the cast's type test and treated as a plain key: such a certificate is never pruned when expired nor hidden")
		}
	}
	c.Floor(rule, n, 1, "type tests in the certificate cast")
	c.Floor(rule, len(algos), 8, "certificate type names in x/crypto/ssh")
}

// containsTest: the boolean v says (pol) or denies (!pol) that hay contains sub - strings.Contains(hay, sub), or a
// comparison of strings.Index(hay, sub) with 0 / -1 that means the same.
func containsTest(v ssa.Value) (hay, sub ssa.Value, pol, ok bool) {
	switch x := throughCell(strip(v)).(type) {
	case *ssa.Call:
		if calleeName(x) == "strings.Contains" && len(x.Call.Args) == 2 {
			return x.Call.Args[0], x.Call.Args[1], true, true
		}
	case *ssa.BinOp:
		a, b, op := x.X, x.Y, x.Op
		if _, isK := intConst(a); isK {
			a, b = b, a
			op = map[token.Token]token.Token{token.LSS: token.GTR, token.GTR: token.LSS, token.LEQ: token.GEQ, token.GEQ: token.LEQ, token.EQL: token.EQL, token.NEQ: token.NEQ}[op]
		}
		k, isK := intConst(b)
		cv, isCall := throughCell(strip(a)).(*ssa.Call)
		if !isK || !isCall || calleeName(cv) != "strings.Index" || len(cv.Call.Args) != 2 {
			return nil, nil, false, false
		}
		hay, sub = cv.Call.Args[0], cv.Call.Args[1]
		switch {
		case (op == token.GEQ && k == 0) || (op == token.GTR && k == -1) || (op == token.NEQ && k == -1):
			return hay, sub, true, true
		case (op == token.LSS && k == 0) || (op == token.LEQ && k == -1) || (op == token.EQL && k == -1):
			return hay, sub, false, true
		}
	}
	return nil, nil, false, false
}
