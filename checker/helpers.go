package main

import (
	"go/token"
	"go/types"
	"strings"

	"golang.org/x/tools/go/ssa"
)

// Leaf is one value that may reach a use, with the literals known to hold when it does.
type Leaf struct {
	Val   ssa.Value
	Facts map[Lit]bool
}

func copyFacts(m map[Lit]bool) map[Lit]bool {
	out := make(map[Lit]bool, len(m))
	for k := range m {
		out[k] = true
	}
	return out
}

// factsOnEdge: literals holding when control goes from pred to succ.
func (w *World) factsOnEdge(pred, succ *ssa.BasicBlock) map[Lit]bool {
	out := copyFacts(w.noUp(pred))
	n := 0
	idx := -1
	for i, s := range pred.Succs {
		if s == succ {
			n++
			idx = i
		}
	}
	if n == 1 {
		for _, l := range edgeLits(pred, idx) {
			out[l] = true
		}
	}
	return out
}

// Leaves expands v, used at instruction `at`, through phis and local cells down to non-phi values.
// A call to a transparent helper is expanded into the values its success returns may yield (with the facts at
// those returns added).
func (w *World) Leaves(v ssa.Value, at ssa.Instruction) []Leaf { return w.leavesX(v, at, true, false) }

// LeavesErr additionally expands the error result of a transparent helper into the error values of the helper's
// returns compatible with what is known about that result at the use.
func (w *World) LeavesErr(v ssa.Value, at ssa.Instruction) []Leaf {
	return w.leavesX(v, at, true, true)
}

func (w *World) leaves(v ssa.Value, at ssa.Instruction, deep bool) []Leaf {
	return w.leavesX(v, at, deep, false)
}

func (w *World) leavesX(v ssa.Value, at ssa.Instruction, deep, expandErr bool) []Leaf {
	var base map[Lit]bool
	if deep {
		base = copyFacts(w.noUp(at.Block()))
	} else {
		base = copyFacts(w.factsOf(at.Parent()).in[at.Block()])
	}
	busy := map[*ssa.Function]bool{}
	callOf := map[*ssa.Function]*ssa.Call{} // the call through which a helper's returns are being looked at
	var out []Leaf
	seen := map[ssa.Value]bool{}
	var rec func(v ssa.Value, facts map[Lit]bool, user ssa.Instruction)
	rec = func(v ssa.Value, facts map[Lit]bool, user ssa.Instruction) {
		v = strip(v)
		switch x := v.(type) {
		case *ssa.Parameter:
			// a helper handing back one of its parameters (log-and-return): the argument of the call being looked through
			if c := callOf[x.Parent()]; c != nil {
				if i := paramIndex(x); i >= 0 && i < len(c.Call.Args) {
					saved := callOf[x.Parent()]
					delete(callOf, x.Parent())
					rec(c.Call.Args[i], facts, c)
					callOf[x.Parent()] = saved
					return
				}
			}
		case *ssa.Phi:
			if seen[x] {
				return
			}
			seen[x] = true
			for i, e := range x.Edges {
				pred := x.Block().Preds[i]
				ef := w.factsOnEdge(pred, x.Block())
				// facts valid at the use that concern values other than the phi itself stay valid
				rec(e, ef, nil)
			}
			return
		case *ssa.UnOp:
			if x.Op == token.MUL {
				addr := x.X
				if fv, ok := addr.(*ssa.FreeVar); ok {
					if b := freeVarBinding(fv); b != nil {
						addr = b
					}
				}
				if a, ok := addr.(*ssa.Alloc); ok {
					if stores, ok2 := cellStores(a); ok2 && len(stores) > 0 {
						if seen[x] {
							return
						}
						seen[x] = true
						rs := cellReaching(stores, x)
						if len(rs) == 1 && rs[0].Parent() == x.Parent() && InstrDominates(rs[0], x) {
							rec(rs[0].Val, facts, rs[0])
							return
						}
						for _, s := range rs {
							var sf map[Lit]bool
							if deep {
								sf = copyFacts(w.noUp(s.Block()))
							} else {
								sf = copyFacts(w.factsOf(s.Parent()).in[s.Block()])
							}
							rec(s.Val, sf, s)
						}
						return
					}
				}
			}
		}
		if deep {
			if c, h, idx := w.asCallResult(v); h != nil && w.transparent(h) && !busy[h] && (expandErr || errorResultIndex(h) != idx) {
				// the returns of the helper compatible with what is known about its error result at the use
				rets := liveReturns(h)
				if ei := errorResultIndex(h); ei >= 0 {
					var ev ssa.Value = c
					if h.Signature.Results().Len() > 1 {
						ev = extractOf(c, ei)
					}
					if ev != nil {
						if isNil, known := w.factsOf(at.Parent()).knownNilIn(facts, ev); known {
							rets, _ = w.outcomeReturns(h, ei, isNil, true, false)
						}
					}
				}
				if len(rets) > 0 {
					busy[h] = true
					callOf[h] = c
					defer delete(callOf, h)
					for _, r := range rets {
						if idx >= len(r.Results) {
							continue
						}
						rf := copyFacts(facts)
						for l := range w.noUp(r.Block()) {
							rf[l] = true
						}
						rec(r.Results[idx], rf, r)
					}
					delete(busy, h)
					return
				}
			}
		}
		out = append(out, Leaf{Val: v, Facts: facts})
	}
	rec(v, base, at)
	return out
}

// returnsOf lists the return instructions of fn (the recover block's return included).
func returnsOf(fn *ssa.Function) []*ssa.Return {
	var out []*ssa.Return
	for _, b := range fn.Blocks {
		if len(b.Instrs) == 0 {
			continue
		}
		if r, ok := b.Instrs[len(b.Instrs)-1].(*ssa.Return); ok {
			out = append(out, r)
		}
	}
	return out
}

// errorResultIndex returns the index of the last result if it is of type error, else -1.
func errorResultIndex(fn *ssa.Function) int {
	res := fn.Signature.Results()
	if res.Len() == 0 {
		return -1
	}
	last := res.At(res.Len() - 1).Type()
	if isErrorType(last) {
		return res.Len() - 1
	}
	return -1
}

func isErrorType(t types.Type) bool {
	return types.Identical(t, types.Universe.Lookup("error").Type())
}

// knownNonNilCtors: constructors whose error result is never nil.
var nonNilCtors = map[string]bool{
	"errors.New": true, "fmt.Errorf": true,
	"go.uber.org/multierr.Append": false,
}

var errClassifiers = map[string]bool{"os.IsNotExist": true, "os.IsExist": true, "os.IsPermission": true, "os.IsTimeout": true, "errors.Is": true, "errors.As": true}

// NonNil decides whether value v (an error or pointer) is certainly non-nil, given literals facts.
func (w *World) NonNil(v ssa.Value, facts map[Lit]bool) bool {
	return w.nonNil(v, facts, 0)
}

func (w *World) nonNil(v ssa.Value, facts map[Lit]bool, depth int) bool {
	if depth > 6 {
		return false
	}
	// facts first
	sv := throughCell(strip(v))
	for l := range facts {
		if y, isNil, ok := nilTest(l); ok && !isNil && (throughCell(strip(y)) == sv || y == v) {
			return true
		}
		// os.IsNotExist(err), errors.Is(err, x), ... are true only for a non-nil err
		if cl, ok := l.V.(*ssa.Call); ok && l.Pol && errClassifiers[calleeName(cl)] && len(cl.Call.Args) > 0 {
			if a := throughCell(strip(cl.Call.Args[0])); a == sv {
				return true
			}
		}
	}
	switch x := v.(type) {
	case *ssa.MakeInterface:
		// an interface made from a non-pointer concrete value is never nil
		if _, isPtr := x.X.Type().Underlying().(*types.Pointer); !isPtr {
			if _, isIface := x.X.Type().Underlying().(*types.Interface); !isIface {
				switch x.X.Type().Underlying().(type) {
				case *types.Slice, *types.Map, *types.Chan, *types.Signature:
					// still a non-nil interface (typed), fine
				}
				return true
			}
		}
		return w.nonNil(x.X, facts, depth+1)
	case *ssa.ChangeInterface:
		return w.nonNil(x.X, facts, depth+1)
	case *ssa.ChangeType:
		return w.nonNil(x.X, facts, depth+1)
	case *ssa.Alloc:
		return true
	case *ssa.Const:
		return !(x.Value == nil)
	case *ssa.Function, *ssa.MakeClosure, *ssa.MakeMap, *ssa.MakeSlice, *ssa.MakeChan:
		return true
	case *ssa.FieldAddr, *ssa.IndexAddr:
		return true
	case *ssa.Phi:
		for i, e := range x.Edges {
			ef := w.factsOnEdge(x.Block().Preds[i], x.Block())
			if !w.nonNil(e, ef, depth+1) {
				return false
			}
		}
		return true
	case *ssa.Call:
		return w.callNonNil(x, -1, facts, depth)
	case *ssa.Extract:
		if c, ok := x.Tuple.(*ssa.Call); ok {
			return w.callNonNil(c, x.Index, facts, depth)
		}
	case *ssa.UnOp:
		if x.Op == token.MUL {
			if g, ok := x.X.(*ssa.Global); ok {
				return w.globalNonNil(g)
			}
			// cell
			for _, lf := range w.Leaves(x, x) {
				if lf.Val == ssa.Value(x) {
					return false
				}
				if !w.nonNil(lf.Val, lf.Facts, depth+1) {
					return false
				}
			}
			return true
		}
	}
	return false
}

// callNonNil: result idx (-1 for single result) of call is never nil.
func (w *World) callNonNil(c *ssa.Call, idx int, facts map[Lit]bool, depth int) bool {
	name := calleeName(c)
	switch name {
	case "errors.New", "fmt.Errorf":
		return true
	case "google.golang.org/grpc/status.Errorf", "google.golang.org/grpc/status.Error":
		// nil only for codes.OK
		if k, ok := intConst(c.Call.Args[0]); ok {
			return k != 0
		}
		// status.Code(err) of a non-nil error is never OK for errors produced by gRPC or by
		// this repository (assumption recorded by the callers)
		if cc, ok := c.Call.Args[0].(*ssa.Call); ok && calleeName(cc) == "google.golang.org/grpc/status.Code" {
			return w.nonNil(cc.Call.Args[0], facts, depth+1)
		}
		return false
	}
	callee := c.Call.StaticCallee()
	if callee == nil || !w.InRepo(callee) || callee.Blocks == nil {
		return false
	}
	if idx < 0 {
		idx = 0
	}
	// every return of the callee yields a non-nil value at idx
	rets := returnsOf(callee)
	if len(rets) == 0 {
		return false
	}
	for _, r := range rets {
		if idx >= len(r.Results) {
			return false
		}
		for _, lf := range w.Leaves(r.Results[idx], r) {
			if !w.nonNil(lf.Val, lf.Facts, depth+1) {
				return false
			}
		}
	}
	return true
}

// globalNonNil: package-level error variable initialised once with a non-nil constructor and never
// reassigned in repository code; standard-library Err* variables are trusted.
func (w *World) globalNonNil(g *ssa.Global) bool {
	if g.Pkg == nil {
		return false
	}
	path := g.Pkg.Pkg.Path()
	if !strings.HasPrefix(path, RepoMod) {
		// stdlib / dependency sentinel errors: Err*, ErrFoo variables are initialised with errors.New
		n := g.Name()
		return strings.HasPrefix(n, "Err") || strings.HasPrefix(n, "err") || n == "EOF"
	}
	stores := 0
	good := 0
	for fn := range w.allFns {
		if fn.Pkg != g.Pkg && !w.InRepo(fn) {
			continue
		}
		for _, b := range fn.Blocks {
			for _, ins := range b.Instrs {
				if st, ok := ins.(*ssa.Store); ok && st.Addr == ssa.Value(g) {
					stores++
					if w.nonNil(st.Val, nil, 1) && fn.Name() == "init" {
						good++
					}
				}
			}
		}
	}
	return stores == 1 && good == 1
}

// MayBeNilReturns lists the returns of fn whose error result may be nil.
func (w *World) MayBeNilReturns(fn *ssa.Function) []*ssa.Return {
	idx := errorResultIndex(fn)
	if idx < 0 {
		return returnsOf(fn)
	}
	if w.mbn == nil {
		w.mbn = map[*ssa.Function][]*ssa.Return{}
		w.mbnBusy = map[*ssa.Function]bool{}
	}
	if r, ok := w.mbn[fn]; ok {
		return r
	}
	if w.mbnBusy[fn] {
		return returnsOf(fn) // recursive: assume any return may succeed
	}
	w.mbnBusy[fn] = true
	defer func() { delete(w.mbnBusy, fn) }()
	out := w.mayBeNilReturns(fn, idx)
	w.mbn[fn] = out
	return out
}

func (w *World) mayBeNilReturns(fn *ssa.Function, idx int) []*ssa.Return {
	var out []*ssa.Return
	for _, r := range returnsOf(fn) {
		may := false
		for _, lf := range w.Leaves(r.Results[idx], r) {
			if !w.NonNil(lf.Val, lf.Facts) {
				may = true
			}
		}
		if may {
			out = append(out, r)
		}
	}
	return out
}

// derefField: is v a load of field `name` of base expression baseExpr (e.g. "p0")?
func (w *World) isFieldLoad(v ssa.Value, baseExpr, field string) bool {
	u, ok := v.(*ssa.UnOp)
	if !ok || u.Op != token.MUL {
		return false
	}
	fa, ok := u.X.(*ssa.FieldAddr)
	if !ok {
		return false
	}
	if fieldName(fa.X.Type(), fa.Field) != field {
		return false
	}
	return w.Expr(fa.X) == baseExpr
}

// recvNamed returns the named type of the receiver of method fn (nil if not a method).
func recvNamed(fn *ssa.Function) *types.Named {
	if fn.Signature.Recv() == nil {
		return nil
	}
	t := fn.Signature.Recv().Type()
	if p, ok := t.(*types.Pointer); ok {
		t = p.Elem()
	}
	n, _ := t.(*types.Named)
	return n
}

// blockTrail renders a short path description for reports.
func blockTrail(b *ssa.BasicBlock) string {
	var parts []string
	cur := b
	for i := 0; i < 6 && cur != nil; i++ {
		parts = append([]string{cur.Comment + "#" + itoa(cur.Index)}, parts...)
		cur = cur.Idom()
	}
	return strings.Join(parts, " > ")
}

func itoa(i int) string {
	if i == 0 {
		return "0"
	}
	neg := i < 0
	if neg {
		i = -i
	}
	var b []byte
	for i > 0 {
		b = append([]byte{byte('0' + i%10)}, b...)
		i /= 10
	}
	if neg {
		b = append([]byte{'-'}, b...)
	}
	return string(b)
}

// ErrEdgeEnds: wherever ev is known non-nil, control reaches only returns, and those return a non-nil error.
func (w *World) ErrEdgeEnds(fn *ssa.Function, ev ssa.Value) bool {
	f := w.factsOf(fn)
	idx := errorResultIndex(fn)
	seen := false
	for _, b := range fn.Blocks {
		if n, k := f.KnownNil(b, ev); k && !n {
			seen = true
			if !leadsOnlyToReturns(b, func(x *ssa.BasicBlock) bool { n2, k2 := f.KnownNil(x, ev); return k2 && !n2 }) {
				return false
			}
		}
	}
	for _, r := range liveReturns(fn) {
		if n, k := f.KnownNil(r.Block(), ev); k && !n {
			if idx < 0 {
				return false
			}
			for _, lf := range w.Leaves(r.Results[idx], r) {
				if !w.NonNil(lf.Val, lf.Facts) {
					return false
				}
			}
		}
	}
	return seen
}

// lhsType: the type of the value tested against nil in a nil-test literal.
func lhsType(l Lit) types.Type {
	if y, _, ok := nilTest(l); ok {
		return y.Type()
	}
	return types.Typ[types.Invalid]
}
