package main

import (
	"go/constant"
	"go/token"
	"go/types"

	"golang.org/x/tools/go/ssa"
)

// appendedValues: v = append(base, e0, e1, ...) written with explicit elements - the base and the elements.
func appendedValues(v ssa.Value) (base ssa.Value, vals []ssa.Value, ok bool) {
	call, isCall := v.(*ssa.Call)
	if !isCall || len(call.Call.Args) != 2 {
		return nil, nil, false
	}
	if b, isB := call.Call.Value.(*ssa.Builtin); !isB || b.Name() != "append" {
		return nil, nil, false
	}
	sl, isSl := call.Call.Args[1].(*ssa.Slice)
	if !isSl || sl.Low != nil || sl.High != nil {
		return nil, nil, false
	}
	al, isAl := sl.X.(*ssa.Alloc)
	n := int64(-1)
	if isAl {
		n = arrayLen(al.Type())
	}
	if n <= 0 || n > 16 {
		return nil, nil, false
	}
	vals = make([]ssa.Value, n)
	for _, u := range *al.Referrers() {
		ia, isIA := u.(*ssa.IndexAddr)
		if !isIA {
			if u != ssa.Instruction(sl) {
				return nil, nil, false
			}
			continue
		}
		k, isK := intConst(ia.Index)
		if !isK || k < 0 || k >= n || vals[k] != nil {
			return nil, nil, false
		}
		for _, r := range *ia.Referrers() {
			st, isSt := r.(*ssa.Store)
			if !isSt || st.Addr != ssa.Value(ia) || vals[k] != nil {
				return nil, nil, false
			}
			vals[k] = st.Val
		}
	}
	for _, x := range vals {
		if x == nil {
			return nil, nil, false
		}
	}
	return call.Call.Args[0], vals, true
}

// emptySlice: v is a slice of length 0 (make([]T, 0, n) or x[:0]).
func emptySlice(v ssa.Value) bool {
	switch x := v.(type) {
	case *ssa.MakeSlice:
		k, ok := intConst(x.Len)
		return ok && k == 0
	case *ssa.Slice:
		if x.Low != nil {
			return false
		}
		k, ok := intConst(x.High)
		return ok && k == 0
	}
	return false
}

// mhAppend: the result of ModHex built by appending.
type mhAppend struct {
	okHi, okLo bool
	serial     ssa.Value
	start      ssa.Value // the buffer before the loop
	returned   bool
	nPad       int
	alphabet   func(v ssa.Value) (idx ssa.Value, ok bool)
}

// padOf: the number of characters the buffer e holds before the loop - an empty buffer, or an empty buffer extended
// by alphabet[0] characters.
func (a *mhAppend) padOf(e ssa.Value) (int64, bool) {
	if emptySlice(e) {
		return 0, true
	}
	base, vals, ok := appendedValues(e)
	if !ok || !emptySlice(base) {
		return 0, false
	}
	for _, v := range vals {
		idx, isA := a.alphabet(v)
		if !isA {
			return 0, false
		}
		if k, isK := intConst(idx); !isK || k != 0 {
			return 0, false
		}
	}
	a.nPad += len(vals)
	return int64(len(vals)), true
}

// modhexAppendForm recognises
//
//	for each byte b of serial, in order: dst = append(dst, alphabet[b>>4 (&0xf)], alphabet[b&0xf])
//	return string(dst)
func modhexAppendForm(w *World, mh *ssa.Function) *mhAppend {
	alphabet := func(v ssa.Value) (ssa.Value, bool) {
		if k, ok := v.(*ssa.Const); ok && k.Value != nil {
			// alphabet[0] folded to its character
			if n, isInt := intConst(k); isInt && n == int64(t2modHexAlphabet[0]) {
				return ssa.NewConst(constant.MakeInt64(0), types.Typ[types.Int]), true
			}
		}
		ix, ok := v.(*ssa.Index)
		if !ok {
			return nil, false
		}
		if s, isS := strConst(ix.X); !isS || len(s) != 16 {
			return nil, false
		}
		return ix.Index, true
	}
	for _, b := range mh.Blocks {
		for _, ins := range b.Instrs {
			phi, ok := ins.(*ssa.Phi)
			if !ok || len(phi.Edges) != 2 {
				continue
			}
			var step, start ssa.Value
			for _, e := range phi.Edges {
				if base, _, ok := appendedValues(e); ok && base == ssa.Value(phi) {
					step = e
				} else {
					start = e
				}
			}
			if step == nil || start == nil {
				continue
			}
			_, vals, _ := appendedValues(step)
			out := &mhAppend{start: start, alphabet: alphabet}
			if len(vals) != 2 {
				return out
			}
			// the byte read: serial[i] with i the forward loop index
			byteOf := func(v ssa.Value) (ssa.Value, ssa.Value) {
				ld, ok := strip(v).(*ssa.UnOp)
				if !ok || ld.Op != token.MUL {
					return nil, nil
				}
				ia, ok := ld.X.(*ssa.IndexAddr)
				if !ok || !isForwardRangeIndex(ia.Index) {
					return nil, nil
				}
				return ia.X, ia.Index
			}
			nibble := func(v ssa.Value) (kind string, seq, idx ssa.Value) {
				ix, ok := alphabet(v)
				if !ok {
					return "", nil, nil
				}
				kind, x := nibbleOf(ix)
				if kind == "" {
					return "", nil, nil
				}
				sq, i := byteOf(x)
				return kind, sq, i
			}
			k0, s0, i0 := nibble(vals[0])
			k1, s1, i1 := nibble(vals[1])
			if s0 != nil && s0 == s1 && i0 == i1 {
				out.okHi, out.okLo, out.serial = k0 == "hi", k1 == "lo", s0
			}
			// the loop's buffer is what is returned
			for _, r := range liveReturns(mh) {
				if len(r.Results) == 0 {
					continue
				}
				if cv, ok := strip(r.Results[0]).(*ssa.Convert); ok && cv.X == ssa.Value(phi) {
					out.returned = true
				}
			}
			return out
		}
	}
	return nil
}

// globalOID: the dotted value of the package-level asn1.ObjectIdentifier g when it is initialised from a literal
// list of integer constants and never written afterwards (no assignment, no element store, address not taken).
func (w *World) globalOID(g *ssa.Global) (string, bool) {
	if g.Pkg == nil {
		return "", false
	}
	p := w.ByPath[g.Pkg.Pkg.Path()]
	obj, _ := g.Object().(*types.Var)
	if p == nil || obj == nil {
		return "", false
	}
	init := t2initOf(p, obj)
	if init == nil {
		return "", false
	}
	vals, ok := intSliceLit(p, init)
	if !ok || !w.globalFrozen(g) {
		return "", false
	}
	for _, fn := range w.repoFns {
		for _, b := range fn.Blocks {
			for _, ins := range b.Instrs {
				ia, isIA := ins.(*ssa.IndexAddr)
				if !isIA {
					continue
				}
				if ld, isLd := ia.X.(*ssa.UnOp); !isLd || ld.X != ssa.Value(g) {
					continue
				}
				for _, r := range *ia.Referrers() {
					if st, isSt := r.(*ssa.Store); isSt && st.Addr == ssa.Value(ia) {
						return "", false
					}
				}
			}
		}
	}
	return t2dotted(vals), true
}

// nibbleOf classifies an alphabet index: "hi" for the high nibble of an 8-bit value X ((X>>4)&15, X>>4, X/16), "lo" for
// its low nibble (X&15, X%16). Returns X.
func nibbleOf(ix ssa.Value) (string, ssa.Value) {
	e := strip(ix)
	for {
		cv, isConv := e.(*ssa.Convert)
		if !isConv || !widening(cv.X.Type(), cv.Type()) {
			break
		}
		e = strip(cv.X)
	}
	bin, ok := e.(*ssa.BinOp)
	if !ok {
		return "", nil
	}
	isByte := func(v ssa.Value) bool {
		bt, ok := v.Type().Underlying().(*types.Basic)
		return ok && bt.Kind() == types.Uint8
	}
	k, isK := intConst(bin.Y)
	if !isK {
		return "", nil
	}
	switch bin.Op {
	case token.AND:
		if k != 15 {
			return "", nil
		}
		if sh, isSh := strip(bin.X).(*ssa.BinOp); isSh && sh.Op == token.SHR {
			if k2, ok := intConst(sh.Y); ok && k2 == 4 {
				return "hi", sh.X
			}
			return "", nil
		}
		return "lo", bin.X
	case token.REM:
		if k == 16 && isByte(bin.X) {
			return "lo", bin.X
		}
	case token.SHR:
		if k == 4 && isByte(bin.X) {
			return "hi", bin.X
		}
	case token.QUO:
		if k == 16 && isByte(bin.X) {
			return "hi", bin.X
		}
	}
	return "", nil
}
