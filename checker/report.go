package main

import (
	"encoding/json"
	"fmt"
	"os"
	"path/filepath"
	"sort"
	"strings"
	"time"
)

// Status of an obligation.
const (
	Discharged = "discharged"
	Violated   = "violated"
	Undecided  = "undecided"
)

// Ob is one proof obligation (a rule instance on a resolved construct).
type Ob struct {
	Property string `json:"property"`
	Rule     string `json:"rule"`
	Key      string `json:"key"` // rule + resolved construct + role: stable under line shifts
	Pos      string `json:"pos"` // file:line for the human
	Status   string `json:"status"`
	Detail   string `json:"detail,omitempty"`
	// NonTrivial: needed a fact / flow / table computation (not a mere existence test)
	NonTrivial bool `json:"nontrivial,omitempty"`
}

// Ctx collects obligations for one property.
type Ctx struct {
	w         *World
	Prop      string
	Tier      string
	Obs       []Ob
	Notes     []string
	Analysed  map[string]bool // functions looked at
	BoundsFns map[string]bool // functions whose index/slice obligations were enumerated
	rules     map[string]int
	Extra     map[string]interface{}
	ruleMap   map[string]string
	keep      func(construct, detail string) bool // with an imported rule set: which of its obligations matter here
}

func newCtx(w *World, prop, tier string) *Ctx {
	return &Ctx{w: w, Prop: prop, Tier: tier, Analysed: map[string]bool{}, BoundsFns: map[string]bool{}, rules: map[string]int{}, Extra: map[string]interface{}{}}
}

// WithRules runs f with the rule names it uses renamed (a property that depends on the rules of another property
// imports them under a rule name of its own).
func (c *Ctx) WithRules(m map[string]string, f func()) {
	old := c.ruleMap
	c.ruleMap = m
	defer func() { c.ruleMap = old }()
	f()
}

// WithRulesKept is WithRules restricted to the imported obligations that keep accepts; it returns how many were kept.
func (c *Ctx) WithRulesKept(m map[string]string, keep func(construct, detail string) bool, f func()) int {
	oldKeep, n := c.keep, len(c.Obs)
	c.keep = func(construct, detail string) bool {
		return (oldKeep == nil || oldKeep(construct, detail)) && keep(construct, detail)
	}
	defer func() { c.keep = oldKeep }()
	c.WithRules(m, f)
	return len(c.Obs) - n
}

func (c *Ctx) add(rule, construct, pos, status, detail string, nontrivial bool) {
	if c.keep != nil && !c.keep(construct, detail) {
		return
	}
	if c.keep != nil && c.ruleMap != nil {
		if _, imported := c.ruleMap[rule]; !imported {
			return // an import takes the rules it names, nothing else of the other property
		}
	}
	if r, ok := c.ruleMap[rule]; ok {
		rule = r
	}
	c.rules[rule]++
	c.Obs = append(c.Obs, Ob{Property: c.Prop, Rule: rule, Key: c.Prop + "." + rule + "|" + construct, Pos: pos, Status: status, Detail: detail, NonTrivial: nontrivial})
}

// Ok records a discharged obligation.
func (c *Ctx) Ok(rule, construct, pos, detail string) {
	c.add(rule, construct, pos, Discharged, detail, true)
}

// Bad records a violated obligation.
func (c *Ctx) Bad(rule, construct, pos, detail string) {
	c.add(rule, construct, pos, Violated, detail, true)
}

// Und records an undecided obligation.
func (c *Ctx) Und(rule, construct, pos, detail string) {
	c.add(rule, construct, pos, Undecided, detail, true)
}

// Check records discharged when cond holds, violated otherwise.
func (c *Ctx) Check(cond bool, rule, construct, pos, okDetail, badDetail string) bool {
	if cond {
		c.Ok(rule, construct, pos, okDetail)
	} else {
		c.Bad(rule, construct, pos, badDetail)
	}
	return cond
}

// Floor asserts a minimum number of instances for a rule.
func (c *Ctx) Floor(rule string, got, want int, what string) {
	if got < want {
		c.add(rule, "floor:"+what, "-", Undecided, fmt.Sprintf("expected at least %d instances of %s, found %d (a rule matching too few sites would pass vacuously)", want, what, got), false)
	} else {
		c.add(rule, "floor:"+what, "-", Discharged, fmt.Sprintf("%d instances of %s (floor %d)", got, what, want), false)
	}
}

// Unresolved reports a role that could not be found.
func (c *Ctx) Unresolved(rule, role string) {
	c.add(rule, "anchor:"+role, "-", Undecided, "UNRESOLVED anchor="+role, false)
}

func (c *Ctx) Note(format string, a ...interface{}) {
	c.Notes = append(c.Notes, fmt.Sprintf(format, a...))
}

func (c *Ctx) Saw(fn interface{ String() string }) {
	if fn != nil {
		c.Analysed[fn.String()] = true
	}
}

// ---- known findings ----

type KnownFinding struct {
	Property string `json:"property"`
	Key      string `json:"key"`
	What     string `json:"what"`
}

type KnownFile struct {
	Comment  string         `json:"comment,omitempty"`
	Findings []KnownFinding `json:"findings"`
	Fixed    []string       `json:"fixed"`
}

func loadKnown(verifDir string) (*KnownFile, error) {
	var k KnownFile
	b, err := os.ReadFile(filepath.Join(verifDir, "known_findings.json"))
	if err != nil {
		if os.IsNotExist(err) {
			return &k, nil
		}
		return nil, err
	}
	if err := json.Unmarshal(b, &k); err != nil {
		return nil, err
	}
	return &k, nil
}

// ---- evidence ----

type propMeta struct {
	Level       string // MANIFEST level_claimed.text
	Technique   string // MANIFEST technique
	Explanation string
	Assumptions []string
	Trusted     []string
	RuleDoc     map[string]string
}

type replayFile struct {
	Property    string `json:"property"`
	Tier        string `json:"tier"`
	Obligations []Ob   `json:"obligations"`
	Hint        string `json:"hint"`
}

// finish prints the verdict lines, writes evidence and replay, and returns the exit code.
func finish(c *Ctx, meta propMeta, verifDir string, started time.Time, seed int64) int {
	known, err := loadKnown(verifDir)
	if err != nil {
		fmt.Printf("ERROR property=%s cannot read known_findings.json: %v\n", c.Prop, err)
		return 2
	}
	knownKeys := map[string]KnownFinding{}
	for _, k := range known.Findings {
		if k.Property == c.Prop {
			knownKeys[k.Key] = k
		}
	}
	sort.SliceStable(c.Obs, func(i, j int) bool { return c.Obs[i].Key < c.Obs[j].Key })

	var failing []Ob
	nDis, nViol, nUnd, nKnown, nNontriv := 0, 0, 0, 0, 0
	distinct := map[string]bool{}
	printedKnown := map[string]bool{}
	for _, o := range c.Obs {
		if o.NonTrivial && !distinct[o.Key] {
			distinct[o.Key] = true
			nNontriv++
		}
		switch o.Status {
		case Discharged:
			nDis++
		case Violated, Undecided:
			if k, ok := knownKeys[o.Key]; ok && o.Status == Violated {
				nKnown++
				if !printedKnown[o.Key] {
					printedKnown[o.Key] = true
					fmt.Printf("KNOWN-FINDING: property=%s %s [%s at %s]\n", c.Prop, k.What, o.Key, o.Pos)
				}
				continue
			}
			if o.Status == Violated {
				nViol++
			} else {
				nUnd++
			}
			failing = append(failing, o)
		}
	}

	evDir := filepath.Join(verifDir, "evidence")
	os.MkdirAll(filepath.Join(evDir, "replay"), 0o755)
	replayPath := filepath.Join(evDir, "replay", c.Prop+".json")
	os.Remove(replayPath)

	// samples: a few obligations of every rule
	var samples []Ob
	perRule := map[string]int{}
	for _, o := range c.Obs {
		if perRule[o.Rule] < 3 {
			perRule[o.Rule]++
			samples = append(samples, o)
		}
	}
	var rules []string
	for r, n := range c.rules {
		doc := meta.RuleDoc[r]
		rules = append(rules, fmt.Sprintf("%s (%d obligations): %s", r, n, doc))
	}
	sort.Strings(rules)
	var analysed []string
	for f := range c.Analysed {
		analysed = append(analysed, f)
	}
	sort.Strings(analysed)

	cov := map[string]interface{}{
		"explanation":         meta.Explanation,
		"obligations":         len(c.Obs),
		"discharged":          nDis,
		"violated":            nViol,
		"undecided":           nUnd,
		"known_findings":      nKnown,
		"evaluations":         len(c.Obs),
		"distinct_nontrivial": nNontriv,
		"rule":                "one evaluation = one rule instance on a resolved construct (function, call site, field, table entry); it is non-trivial when deciding it needed a must-fact, a value-flow, a lock-state or a table computation rather than an existence test; distinct = distinct construct keys",
		"rules":               rules,
		"samples":             samples,
		"functions_analysed":  analysed,
		"packages_loaded":     len(c.w.ByPath),
		"repo_functions":      c.w.nFuncs,
		"build_config":        "GOOS=" + c.w.GOOS,
		"checker_cmd":         "/verif/run.sh check " + c.Prop + " " + c.Tier,
		"trusted_base":        meta.Trusted,
		"notes":               c.Notes,
		"exhaustive":          true,
	}
	for k, v := range c.Extra {
		cov[k] = v
	}
	ev := map[string]interface{}{
		"property_id": c.Prop,
		"tier":        c.Tier,
		"seed":        seed,
		"level":       "other",
		"coverage":    cov,
		"assumptions": meta.Assumptions,
		"wall_s":      time.Since(started).Seconds(),
		"violations":  len(failing),
	}
	b, _ := json.MarshalIndent(ev, "", " ")
	if err := os.WriteFile(filepath.Join(evDir, c.Prop+".json"), b, 0o644); err != nil {
		fmt.Printf("ERROR property=%s cannot write evidence: %v\n", c.Prop, err)
		return 2
	}

	fmt.Printf("property=%s tier=%s obligations=%d discharged=%d violated=%d undecided=%d known=%d functions=%d\n",
		c.Prop, c.Tier, len(c.Obs), nDis, nViol, nUnd, nKnown, len(analysed))
	if len(failing) == 0 {
		return 0
	}
	rf := replayFile{Property: c.Prop, Tier: c.Tier, Obligations: failing,
		Hint: "re-evaluate with: /verif/run.sh explain --replay " + replayPath}
	rb, _ := json.MarshalIndent(rf, "", " ")
	os.WriteFile(replayPath, rb, 0o644)
	for _, o := range failing {
		fmt.Printf("  %s %s at %s: %s\n", strings.ToUpper(o.Status), o.Key, o.Pos, o.Detail)
	}
	fmt.Printf("VIOLATION property=%s replay=%s\n", c.Prop, replayPath)
	return 1
}
