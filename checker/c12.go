package main

import (
	"fmt"
	"go/token"
	"strings"

	"golang.org/x/tools/go/ssa"
)

func init() {
	register(&property{
		ID: "C12",
		Meta: propMeta{
			Level:       "Structural necessary conditions of crash-freedom and of the answer-once discipline of the agent server: every index, slice, non-comma-ok type assertion and explicit panic in the repository functions reachable from the request loop is discharged by interval must-facts (or a reviewed one-line justification); the framed read allocates only under the must-fact 'declared length <= bound' with the bound a constant <= 16 MiB; each dispatch arm writes exactly one response on every path back to the loop head and paths leaving the loop carry a certainly-non-nil error (clean EOF -> nil). It does not decide the behaviour of the served agent nor of x/crypto's own server.",
			Technique:   "static analysis: panic-obligation discharge by interval must-facts on go/ssa; must-fact gating; path counting of response writes per loop iteration",
			Explanation: "Obligations are enumerated from the SSA of every repository function reachable (static + VTA calls) from yubiagent.ServeAgent, the server/forwarder methods and the exported shim-server methods. Each index/slice obligation is discharged from constants, array lengths, range-loop idioms and branch literals on len() that hold on all paths; otherwise it is reported with the strongest fact available.",
			Assumptions: []string{"x/crypto ssh.Unmarshal/ParsePublicKey and agent.ServeAgent do not panic on arbitrary bytes", "runtime out-of-memory below the 16 MiB bound is out of scope"},
			Trusted:     []string{"go/packages", "go/types", "go/ssa", "callgraph/vta", "golang.org/x/crypto/ssh"},
			RuleDoc: map[string]string{
				"R1.bounds":  "index/slice/type-assert/panic obligations on the request path",
				"R1.nil":     "use-before-error-check and json-null pointer obligations on the request path",
				"R2.framing": "frame buffer allocated only under declared length <= 16 MiB; write refuses longer data",
				"R3.respond": "exactly one response per loop iteration on every path; non-nil error on every exit but clean EOF; no goroutines",
				"R4.codes":   "every code of the delegation arm is a request code that x/crypto's agent server handles (constants read from its source)",
			},
		},
		Run: runC12,
	})
}

// Reviewed sites that interval facts cannot discharge (shared by every property whose call tree reaches them).
var commonJust = justTable{
	"(*shimagent.Server).List$1|index var<[]*ssh/agent.Key>[p0]":                                                                                 "less function handed to sort.Slice over the same slice variable: sort.Slice only passes indices in [0,len)",
	"(*shimagent.Server).List$1|index var<[]*ssh/agent.Key>[p1]":                                                                                 "less function handed to sort.Slice over the same slice variable: sort.Slice only passes indices in [0,len)",
	"(*shimagent.Server).Signers$1|index var<[]ssh.Signer>[p0]":                                                                                  "less function handed to sort.Slice over the same slice variable: sort.Slice only passes indices in [0,len)",
	"(*shimagent.Server).Signers$1|index var<[]ssh.Signer>[p1]":                                                                                  "less function handed to sort.Slice over the same slice variable: sort.Slice only passes indices in [0,len)",
	"sshutils/key.CastSSHPublicKeyToCertificate|type assertion call<ssh.ParsePublicKey>(call<(ssh.PublicKey).Marshal>(p0))#0.(*ssh.Certificate)": "reached only when key.Type() contains \"cert\"; for agent.Key the type string is the algorithm name inside the blob, and x/crypto's ParsePublicKey returns *ssh.Certificate for every algorithm name containing \"cert\" that it accepts (others are an error, returned above)",
}

func init() {
	commonJust["sshutils/version.Unmarshal|slice p0[:call<strings.Index>(p0,const(\".\"))]"] = "guarded by the must-fact versionRE.MatchString(s) with versionRE = ^\\d+\\.\\d+$: a '.' is present, so the index is >= 0"
	justGuards["sshutils/version.Unmarshal|slice p0[:call<strings.Index>(p0,const(\".\"))]"] = func(w *World, fn *ssa.Function, ins ssa.Instruction) bool {
		// must-fact: <package-level *regexp.Regexp>.MatchString(s) == true, the regexp being compiled once from a
		// constant pattern that requires a literal dot
		return w.factsOf(fn).Any(ins.Block(), func(l Lit) bool {
			call, ok := l.V.(*ssa.Call)
			if !ok || !l.Pol || calleeName(call) != "(*regexp.Regexp).MatchString" || len(call.Call.Args) != 2 || call.Call.Args[1] != ssa.Value(fn.Params[0]) {
				return false
			}
			ld, ok := call.Call.Args[0].(*ssa.UnOp)
			if !ok {
				return false
			}
			g, ok := ld.X.(*ssa.Global)
			if !ok || g.Pkg == nil {
				return false
			}
			// the single store to the global, in the package initialiser: regexp.MustCompile(<constant>)
			pat, n := "", 0
			if init := g.Pkg.Func("init"); init != nil {
				for _, b := range init.Blocks {
					for _, i2 := range b.Instrs {
						if st, isSt := i2.(*ssa.Store); isSt && st.Addr == ssa.Value(g) {
							n++
							if mc, isCall := st.Val.(*ssa.Call); isCall && (calleeName(mc) == "regexp.MustCompile" || calleeName(mc) == "regexp.MustCompilePOSIX") {
								pat, _ = strConst(mc.Call.Args[0])
							}
						}
					}
				}
			}
			for _, f2 := range w.RepoFuncs() {
				if f2.Name() == "init" {
					continue
				}
				for _, b := range f2.Blocks {
					for _, i2 := range b.Instrs {
						if st, isSt := i2.(*ssa.Store); isSt && st.Addr == ssa.Value(g) {
							n++
						}
					}
				}
			}
			// anchored, no alternation, and a mandatory escaped dot (not followed by a quantifier that admits zero)
			i := strings.Index(pat, `\.`)
			if n != 1 || i < 0 || !strings.HasPrefix(pat, "^") || !strings.HasSuffix(pat, "$") || strings.Contains(pat, "|") {
				return false
			}
			rest := pat[i+2:]
			return !(strings.HasPrefix(rest, "?") || strings.HasPrefix(rest, "*") || strings.HasPrefix(rest, "{0"))
		})
	}
	justGuards["sshutils/key.CastSSHPublicKeyToCertificate|type assertion call<ssh.ParsePublicKey>(call<(ssh.PublicKey).Marshal>(p0))#0.(*ssh.Certificate)"] = func(w *World, fn *ssa.Function, ins ssa.Instruction) bool {
		// must-fact: strings.Contains(key.Type(), "cert") == true
		return w.factsOf(fn).Any(ins.Block(), func(l Lit) bool {
			hay, sub, pol, ok := containsTest(l.V)
			if !ok || pol != l.Pol {
				return false
			}
			k, isK := strConst(sub)
			return isK && k == "cert" && strings.HasSuffix(w.ExprIn(fn, hay), "ssh.PublicKey).Type>(p0)")
		})
	}
	commonJust["attestation/yubiattest.ModHex|index alloc<[8]byte>[:const(8)][phi{(↺+const(2))|phi{(const(0)+const(2))|const(0)}}]"] = "dst index runs from the arm's offset in steps of 2 over len(serial) bytes; C16.R4 decides 2*len(serial)+offset == 8 in each admitted arm"
	commonJust["attestation/yubiattest.ModHex|index alloc<[8]byte>[:const(8)][(phi{(↺+const(2))|phi{(const(0)+const(2))|const(0)}}+const(1))]"] = "dst index+1, same argument: C16.R4 decides 2*len(serial)+offset == 8 in each admitted arm"
	// crypto/ecdh PublicKey.Bytes() is the uncompressed point: 65 / 97 / 133 bytes for P-256 / P-384 / P-521; a slice
	// of it in an arm selected by the key's own curve is decided against that length.
	// ModHex's write index: it runs from the arm's offset (a join of the constants 0 and 2) in steps of two, and the
	// index+1 form; C16.R4.modhex decides 2*len(serial)+offset == 8 for each admitted arm
	justShapes = append(justShapes, justShape{
		why:   "dst index runs from the arm's offset in steps of 2 over len(serial) bytes; C16.R4 decides 2*len(serial)+offset == 8 in each admitted arm",
		holds: modhexIndexGuard,
	})
	// the less function handed to sort.Slice / sort.SliceStable over a slice variable indexes that same variable with
	// its own parameters: the sort only passes indices in [0, len)
	justShapes = append(justShapes, justShape{
		why:   "less function handed to sort.Slice over the same slice variable: sort.Slice only passes indices in [0,len)",
		holds: sortLessGuard,
	})
	justShapes = append(justShapes, justShape{
		why:   "crypto/ecdh Bytes() of a P-256/P-384/P-521 key is 65/97/133 bytes, the arm is selected by the key's own curve and the constant bounds lie within that length",
		holds: ecdhBytesGuard,
	})
}

var c12Just = commonJust

func runC12(c *Ctx) {
	w := c.w
	entries := yubiServeEntries(w)
	if w.Func(yubiPkg, "ServeAgent") == nil {
		c.Unresolved("R1.bounds", "yubiagent.ServeAgent")
		return
	}
	fns := w.ReachableRepo(entries, true)
	for _, f := range fns {
		c.Saw(f)
		c.BoundsFns[f.String()] = true
	}
	n := reportSites(c, "R1.bounds", w.BoundsObligations(fns, c12Just))
	c.Floor("R1.bounds", n, 10, "bounds/assertion obligations on the request path")
	reportSites(c, "R1.nil", w.UseBeforeErrCheck(fns))
	reportSites(c, "R1.nil", w.JSONNullPointer(fns))
	tablesC12(c)
	framingRules(c, "R2.framing", []string{yubiPkg})
	c12RespondOnce(c)
	// a well-formed add-hardware-certificate frame in either encoding is answered, not taken for a broken one: the arm
	// ends the connection only after both decoders refused it (C13's rule for the arm, imported)
	seen, notes := map[string]bool{}, len(c.Notes)
	for k, v := range c.Analysed {
		seen[k] = v
	}
	nArm := c.WithRulesKept(map[string]string{"R2.passthrough": "R3.respond"}, func(construct, detail string) bool {
		return strings.HasPrefix(construct, "server.AddHardCert arm|both wire formats") || strings.HasPrefix(construct, "server.AddHardCert arm|gives up only")
	}, func() { runC13(c) })
	c.Analysed, c.Notes = seen, c.Notes[:notes]
	c.Floor("R3.respond", nArm, 1, "give-up exits of the add-hardware-certificate arm")
}

// c12RespondOnce: on every path of one loop iteration exactly one response is produced; paths that leave the loop
// carry a certainly-non-nil error, except the clean end of stream.
func c12RespondOnce(c *Ctx) {
	w := c.w
	fn := w.Func(yubiPkg, "ServeAgent")
	c.Saw(fn)
	f := w.Facts(fn)
	yrd, ywr := framingFns(w, yubiPkg)
	// loop head: the block holding the framed read of the served connection
	var read *ssa.Call
	for _, call := range callsIn(fn) {
		if cv, ok := call.(*ssa.Call); ok {
			if callee := cv.Call.StaticCallee(); callee != nil && callee == yrd && w.Expr(cv.Call.Args[0]) == "p1" {
				read = cv
			}
		}
	}
	if read == nil {
		c.Unresolved("R3.respond", "framed read of the served connection in ServeAgent")
		return
	}
	head := read.Block()
	isResponse := func(ins ssa.Instruction) bool {
		cv, ok := ins.(*ssa.Call)
		if !ok {
			return false
		}
		if callee := cv.Call.StaticCallee(); callee != nil {
			if callee == ywr && w.Expr(cv.Call.Args[0]) == "p1" {
				return true
			}
			if fnName(callee) == "golang.org/x/crypto/ssh/agent.ServeAgent" {
				// the delegation writes one reply per request through the forwarder, which must wrap the served connection
				return isForwarderOver(w, fn, cv.Call.Args[1], 1)
			}
		}
		return false
	}
	// a call of a local helper counts as the number of responses the helper writes on every one of its paths
	// (-1: the paths disagree, or the helper loops around a response)
	helperPaths := 0
	helperCount := map[*ssa.Function]int{}
	failCounts := map[*ssa.Function]bool{} // helpers with a failing return that wrote fewer responses
	var respCount func(h *ssa.Function, depth int) int
	respCount = func(h *ssa.Function, depth int) int {
		if k, ok := helperCount[h]; ok {
			return k
		}
		helperCount[h] = -1
		if depth > 4 || len(h.Blocks) == 0 {
			return -1
		}
		counts := map[int]bool{}
		paths := 0
		var walk func(b *ssa.BasicBlock, n int, seen map[*ssa.BasicBlock]bool)
		walk = func(b *ssa.BasicBlock, n int, seen map[*ssa.BasicBlock]bool) {
			if paths > 20000 {
				counts[-1] = true
				return
			}
			if seen[b] {
				// a cycle: fine only if it contains no response (checked by comparing counts on re-entry)
				if n != 0 {
					counts[-1] = true
				}
				return
			}
			seen[b] = true
			defer delete(seen, b)
			for _, ins := range b.Instrs {
				if isResponse(ins) {
					n++
				} else if cv, ok := ins.(*ssa.Call); ok {
					if g := w.helperOf(cv); g != nil && w.transparent(g) {
						k := respCount(g, depth+1)
						if k < 0 {
							counts[-1] = true
							return
						}
						n += k
					}
				}
				if r, ok := ins.(*ssa.Return); ok {
					paths++
					helperPaths++
					// a return of a certainly non-nil error ends the service loop in the caller: it may come with fewer
					// responses (checked there: n <= 1), so only the returns that may report success fix the count
					if ei := errorResultIndex(h); ei >= 0 && ei < len(r.Results) {
						failing := true
						for _, lf := range w.Leaves(r.Results[ei], r) {
							if !w.NonNil(lf.Val, lf.Facts) {
								failing = false
							}
						}
						if failing && n <= 1 {
							failCounts[h] = true
							return
						}
					}
					counts[n] = true
					return
				}
			}
			for _, s := range b.Succs {
				walk(s, n, seen)
			}
		}
		walk(h.Blocks[0], 0, map[*ssa.BasicBlock]bool{})
		k := -1
		if len(counts) == 1 {
			for n := range counts {
				k = n
			}
		}
		helperCount[h] = k
		return k
	}
	for _, call := range callsIn(fn) {
		if _, isGo := call.(*ssa.Go); isGo {
			c.Bad("R3.respond", "ServeAgent|no goroutine per request", w.Pos(call.Pos()), "requests are handled on other goroutines: replies can be written out of order")
		}
	}
	// enumerate acyclic paths from head back to head, and from head to returns
	type state struct {
		b *ssa.BasicBlock
		n int
	}
	nPaths, nRet := 0, 0
	bad := map[string]bool{}
	var dfs func(b *ssa.BasicBlock, n int, seen map[*ssa.BasicBlock]bool, first bool)
	dfs = func(b *ssa.BasicBlock, n int, seen map[*ssa.BasicBlock]bool, first bool) {
		if nPaths > 200000 {
			return
		}
		if b == head && !first {
			nPaths++
			if n != 1 {
				bad[fmt.Sprintf("an iteration of the request loop produces %d responses", n)] = true
			}
			return
		}
		if seen[b] {
			return
		}
		seen[b] = true
		defer delete(seen, b)
		for _, ins := range b.Instrs {
			if isResponse(ins) {
				n++
			} else if cv, ok := ins.(*ssa.Call); ok {
				if g := w.helperOf(cv); g != nil && w.transparent(g) {
					if k := respCount(g, 0); k < 0 {
						bad["the helper "+shortFn(g)+" does not write the same number of responses on all its paths"] = true
					} else {
						n += k
						if failCounts[g] {
							// its failing returns must end the service loop
							var ev ssa.Value = cv
							if g.Signature.Results().Len() > 1 {
								ev = extractOf(cv, errorResultIndex(g))
							}
							if ev == nil || !w.ErrEdgeEnds(fn, ev) {
								bad["the error of "+shortFn(g)+" (returned on a path that wrote no response) does not end the service loop"] = true
							}
						}
					}
				}
			}
			if r, ok := ins.(*ssa.Return); ok {
				nRet++
				nPaths++
				// clean EOF -> nil; anything else non-nil
				eof := f.Any(b, func(l Lit) bool {
					bin, ok := l.V.(*ssa.BinOp)
					return ok && bin.Op == token.EQL && l.Pol && strings.HasSuffix(w.Expr(bin.Y), "io.EOF") && bin.X == extractOf(read, 1)
				})
				for _, lf := range w.Leaves(r.Results[0], r) {
					if eof {
						if !isNilConst(lf.Val) {
							bad["a clean end of stream does not end service with nil"] = true
						}
						continue
					}
					if !w.NonNil(lf.Val, lf.Facts) {
						bad["service can end with a nil error other than on a clean end of stream ("+w.Pos(r.Pos())+")"] = true
					}
				}
				if n > 1 {
					bad["a request is answered and then the connection is ended with more than one response"] = true
				}
				return
			}
		}
		for _, s := range b.Succs {
			dfs(s, n, seen, false)
		}
	}
	dfs(head, 0, map[*ssa.BasicBlock]bool{}, true)
	for msg := range bad {
		c.Bad("R3.respond", "ServeAgent|"+msg, w.FnPos(fn), msg)
	}
	if len(bad) == 0 {
		c.Ok("R3.respond", "ServeAgent|exactly one response per request on every path", w.FnPos(fn), fmt.Sprintf("%d paths of one loop iteration enumerated, %d of them leave the loop", nPaths, nRet))
	}
	c.Floor("R3.respond", nPaths+helperPaths, 20, "paths through one iteration of the request loop (helpers included)")
	c.Extra["serve_paths"] = nPaths
}

// sortLessGuard: ins indexes, with a parameter of the enclosing closure, the slice variable that the closure's only
// use hands to sort.Slice / sort.SliceStable together with the closure; the variable is not stored to inside the
// closure.
func sortLessGuard(w *World, fn *ssa.Function, ins ssa.Instruction, facts *Facts, root *ssa.Function) bool {
	if fn.Parent() == nil || len(fn.Params) != 2 {
		return false
	}
	var x, idx ssa.Value
	switch v := ins.(type) {
	case *ssa.IndexAddr:
		x, idx = v.X, v.Index
	case *ssa.Index:
		x, idx = v.X, v.Index
	default:
		return false
	}
	if p, ok := strip(idx).(*ssa.Parameter); !ok || p.Parent() != fn {
		return false
	}
	// the indexed sequence: a load of a captured variable
	ld, ok := strip(x).(*ssa.UnOp)
	if !ok || ld.Op != token.MUL {
		return false
	}
	fv, ok := ld.X.(*ssa.FreeVar)
	if !ok {
		return false
	}
	for _, r := range *fv.Referrers() {
		if st, isSt := r.(*ssa.Store); isSt && st.Addr == ssa.Value(fv) {
			return false
		}
	}
	cell := freeVarBinding(fv)
	if cell == nil {
		return false
	}
	// the closure is made once and handed to sort.Slice(<load of the same variable>, closure)
	parent := fn.Parent()
	n := 0
	for _, b := range parent.Blocks {
		for _, pi := range b.Instrs {
			mc, isMC := pi.(*ssa.MakeClosure)
			if !isMC || mc.Fn != ssa.Value(fn) {
				continue
			}
			for _, u := range *mc.Referrers() {
				call, isCall := u.(*ssa.Call)
				if !isCall {
					return false
				}
				nm := calleeName(call)
				if (nm != "sort.Slice" && nm != "sort.SliceStable") || len(call.Call.Args) != 2 || call.Call.Args[1] != ssa.Value(mc) {
					return false
				}
				arg, isLd := strip(call.Call.Args[0]).(*ssa.UnOp)
				if !isLd || arg.X != cell {
					return false
				}
				n++
			}
		}
	}
	return n == 1
}

// modhexIndexGuard: in ModHex, an index into the 8-byte result that is P or P+1, P a join of (P+2) with a join of
// the constants 0 and 2 (or one of them).
func modhexIndexGuard(w *World, fn *ssa.Function, ins ssa.Instruction, facts *Facts, root *ssa.Function) bool {
	if fn.Name() != "ModHex" || fn.Pkg == nil || !strings.HasSuffix(fn.Pkg.Pkg.Path(), attestPkg) {
		return false
	}
	ia, ok := ins.(*ssa.IndexAddr)
	if !ok {
		return false
	}
	// the sequence: the 8-byte buffer
	is8 := false
	switch x := ia.X.(type) {
	case *ssa.MakeSlice:
		k, isK := intConst(x.Len)
		is8 = isK && k == 8
	case *ssa.Slice:
		if al, isAl := x.X.(*ssa.Alloc); isAl {
			is8 = arrayLen(al.Type()) == 8
		}
	case *ssa.Alloc:
		is8 = arrayLen(x.Type()) == 8 // the array itself, indexed in place
	}
	if !is8 {
		return false
	}
	idx := ia.Index
	if b, isB := idx.(*ssa.BinOp); isB && b.Op == token.ADD {
		if one, isK := intConst(b.Y); isK && one == 1 {
			idx = b.X
		}
	}
	phi, ok := idx.(*ssa.Phi)
	if !ok {
		return false
	}
	step := false
	for _, e := range phi.Edges {
		if b, isB := e.(*ssa.BinOp); isB && b.Op == token.ADD && b.X == ssa.Value(phi) {
			if k, isK := intConst(b.Y); isK && k == 2 {
				step = true
				continue
			}
			return false
		}
		// the start: 0, 2 or a join of them
		var starts []ssa.Value
		if sp, isPhi := e.(*ssa.Phi); isPhi {
			starts = sp.Edges
		} else {
			starts = []ssa.Value{e}
		}
		for _, sv := range starts {
			if b, isB := sv.(*ssa.BinOp); isB && b.Op == token.ADD {
				// 0 + 2
				x, okx := intConst(b.X)
				y, oky := intConst(b.Y)
				if okx && oky && (x+y == 0 || x+y == 2) {
					continue
				}
				return false
			}
			if k, isK := intConst(sv); !isK || (k != 0 && k != 2) {
				return false
			}
		}
	}
	return step
}
