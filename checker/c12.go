package main

func init() {
	register(&property{
		ID: "C12",
		Meta: propMeta{
			Level:       "Structural necessary conditions of crash-freedom and of the answer-once discipline of the agent server: every index, slice, non-comma-ok type assertion and explicit panic in the repository functions reachable from the request loop is discharged by interval must-facts (or a reviewed one-line justification); the framed read allocates only under the must-fact 'declared length <= bound' with the bound a constant <= 16 MiB; each dispatch arm writes exactly one response on every path back to the loop head and paths leaving the loop carry a certainly-non-nil error (clean EOF -> nil). It does not decide the behaviour of the served agent nor of x/crypto's own server.",
			Technique:   "static analysis: panic-obligation discharge by interval must-facts on go/ssa; must-fact gating; path counting of response writes per loop iteration",
			Explanation: "Obligations are enumerated from the SSA of every repository function reachable (static + VTA calls) from yubiagent.ServeAgent, the server/forwarder methods and the exported shim-server methods. Each index/slice obligation is discharged from constants, array lengths, range-loop idioms and branch literals on len() that hold on all paths; otherwise it is reported with the strongest fact available.",
			Assumptions: []string{"x/crypto ssh.Unmarshal/ParsePublicKey and agent.ServeAgent do not panic on arbitrary bytes", "runtime out-of-memory below the 16 MiB bound is out of scope"},
			Trusted:     []string{"go/packages", "go/types", "go/ssa", "callgraph/vta", "golang.org/x/crypto/ssh"},
			RuleDoc: map[string]string{
				"R1.bounds": "index/slice/type-assert/panic obligations on the request path",
				"R1.nil":    "use-before-error-check and json-null pointer obligations on the request path",
				"R4.codes":  "every code of the delegation arm is a request code that x/crypto's agent server handles (constants read from its source)",
			},
		},
		Run: runC12,
	})
}

// Reviewed sites that interval facts cannot discharge (shared by every property whose call tree reaches them).
var commonJust = justTable{
	"(*shimagent.Server).List$1|index var<[]*ssh/agent.Key>[p0]":                                                                                 "less function handed to sort.Slice over the same slice variable: sort.Slice only passes indices in [0,len)",
	"(*shimagent.Server).List$1|index var<[]*ssh/agent.Key>[p1]":                                                                                 "less function handed to sort.Slice over the same slice variable: sort.Slice only passes indices in [0,len)",
	"(*shimagent.Server).Signers$1|index var<[]ssh.Signer>[p0]":                                                                                  "less function handed to sort.Slice over the same slice variable: sort.Slice only passes indices in [0,len)",
	"(*shimagent.Server).Signers$1|index var<[]ssh.Signer>[p1]":                                                                                  "less function handed to sort.Slice over the same slice variable: sort.Slice only passes indices in [0,len)",
	"sshutils/key.CastSSHPublicKeyToCertificate|type assertion call<ssh.ParsePublicKey>(call<(ssh.PublicKey).Marshal>(p0))#0.(*ssh.Certificate)": "reached only when key.Type() contains \"cert\"; for agent.Key the type string is the algorithm name inside the blob, and x/crypto's ParsePublicKey returns *ssh.Certificate for every algorithm name containing \"cert\" that it accepts (others are an error, returned above)",
}

func init() {
	commonJust["sshutils/version.Unmarshal|slice p0[:call<strings.Index>(p0,const(\".\"))]"] = "guarded by the must-fact versionRE.MatchString(s) with versionRE = ^\\d+\\.\\d+$: a '.' is present, so the index is >= 0"
	commonJust["attestation/yubiattest.ModHex|index alloc<[8]byte>[:const(8)][phi{(↺+const(2))|phi{(const(0)+const(2))|const(0)}}]"] = "dst index runs from the arm's offset in steps of 2 over len(serial) bytes; C16.R4 decides 2*len(serial)+offset == 8 in each admitted arm"
	commonJust["attestation/yubiattest.ModHex|index alloc<[8]byte>[:const(8)][(phi{(↺+const(2))|phi{(const(0)+const(2))|const(0)}}+const(1))]"] = "dst index+1, same argument: C16.R4 decides 2*len(serial)+offset == 8 in each admitted arm"
	// crypto/ecdh PublicKey.Bytes() is the uncompressed point: 65 / 97 / 133 bytes for P-256 / P-384 / P-521, and each
	// arm is selected by p.Curve() being that curve.
	pre := "attestation/yubiattest.parsePublicKey|slice call<(*crypto/ecdh.PublicKey).Bytes>(call<(crypto/ecdh.Curve).NewPublicKey>(call<attestation/yubiattest.ecdhCurveFromOID>(alloc<encoding/asn1.ObjectIdentifier>)#0,call<(encoding/asn1.BitString).RightAlign>(….PublicKey))#0)"
	for _, r := range []string{"[const(1):const(33)]", "[const(33):]", "[const(1):const(49)]", "[const(49):]", "[const(1):const(67)]", "[const(67):]"} {
		commonJust[pre+r] = "crypto/ecdh Bytes() of a P-256/P-384/P-521 key is 65/97/133 bytes and the arm is selected by the key's own curve"
	}
}

var c12Just = commonJust

func runC12(c *Ctx) {
	w := c.w
	entries := yubiServeEntries(w)
	if w.Func(yubiPkg, "ServeAgent") == nil {
		c.Unresolved("R1.bounds", "yubiagent.ServeAgent")
		return
	}
	fns := w.ReachableRepo(entries, true)
	for _, f := range fns {
		c.Saw(f)
	}
	n := reportSites(c, "R1.bounds", w.BoundsObligations(fns, c12Just))
	c.Floor("R1.bounds", n, 10, "bounds/assertion obligations on the request path")
	reportSites(c, "R1.nil", w.UseBeforeErrCheck(fns))
	reportSites(c, "R1.nil", w.JSONNullPointer(fns))
	tablesC12(c)
}
