package main

import (
	"strings"

	"golang.org/x/tools/go/ssa"
)

func init() {
	register(&property{
		ID: "C18",
		Meta: propMeta{
			Level:       "Structural necessary conditions of 'the RA talks only to CA servers authenticated by the configured bundle': (R1) the TLS configuration is built with MinVersion >= TLS 1.2, cipher suites within the standard library's secure list, a root pool created empty (x509.NewCertPool, never the system pool) and filled only by checked AppendCertsFromPEM of the files named by the CA-path parameter (read and parse failures return a non-nil error), a client-certificate getter from a reloader reading exactly the certificate/key path parameters, and no store anywhere in the repository into InsecureSkipVerify, VerifyPeerCertificate, VerifyConnection, ServerName or MaxVersion of a tls.Config; (R2) no non-test code uses insecure gRPC credentials, grpc.WithInsecure or grpc.WithAuthority; (R3) the signer constructor derives its TLS configuration from the three configured paths, returns its error, wraps it with credentials.NewTLS into grpc.WithTransportCredentials among the dial options, and those options and the endpoint reach grpc.NewClient unchanged. The handshake itself (crypto/tls, gRPC) is trusted, not decided.",
			Technique:   "static analysis: field-source (value-flow) tables, forbidden-API and field-writer census on go/ssa, constant tables against crypto/tls source",
			Explanation: "Every store into a crypto/tls.Config field anywhere in repository code is enumerated from SSA (composite literals are field stores); the values are rendered as origin expressions and compared with the rule's table.",
			Assumptions: []string{"crypto/tls verifies the peer against RootCAs and the dialled name when InsecureSkipVerify is false and no custom verifier is installed", "gRPC uses the transport credentials it is given"},
			Trusted:     []string{"go/packages", "go/types", "go/ssa", "crypto/tls", "google.golang.org/grpc"},
			RuleDoc: map[string]string{
				"R9.state":    "no memory of earlier calls: on the call tree only frozen package-level variables are touched (known exceptions listed with reasons), and no package-level object is handed out",
				"R1.ciphers":  "cipher suites and MinVersion of the literal",
				"R1.config":   "sources of RootCAs / GetClientCertificate; forbidden fields never stored",
				"R2.insecure": "no insecure credentials / options outside tests",
				"R3.wiring":   "signer constructor and connection helper wire the TLS credentials through",
				"R4.failover": "a rejected endpoint is a failed endpoint and the next one is tried: the signer's ordered fail-over over the whole configured endpoint list, written only by the constructor (rules R1-R3 of C17, imported)",
			},
		},
		Run: runC18,
	})
}

var forbiddenTLSFields = map[string]bool{"InsecureSkipVerify": true, "VerifyPeerCertificate": true, "VerifyConnection": true, "ServerName": true, "MaxVersion": true}

var forbiddenCalls = []string{
	"google.golang.org/grpc/credentials/insecure.NewCredentials",
	"google.golang.org/grpc.WithInsecure",
	"google.golang.org/grpc.WithAuthority",
	"google.golang.org/grpc.WithContextDialer",
	"google.golang.org/grpc.WithNoProxy",
}

type insecureSite struct {
	Fn   *ssa.Function
	Ins  ssa.Instruction
	What string
}

// insecureUses scans functions for forbidden TLS-config stores and gRPC options.
func insecureUses(w *World, fns []*ssa.Function) []insecureSite {
	var out []insecureSite
	for _, fn := range fns {
		for _, b := range fn.Blocks {
			for _, ins := range b.Instrs {
				switch x := ins.(type) {
				case *ssa.Store:
					fa, ok := x.Addr.(*ssa.FieldAddr)
					if !ok {
						continue
					}
					t := fa.X.Type().String()
					if !strings.HasSuffix(t, "crypto/tls.Config") {
						continue
					}
					f := fieldName(fa.X.Type(), fa.Field)
					if !forbiddenTLSFields[f] {
						continue
					}
					if f == "InsecureSkipVerify" {
						if v, ok := boolConst(x.Val); ok && !v {
							continue
						}
					}
					out = append(out, insecureSite{fn, x, "store into tls.Config." + f})
				case ssa.CallInstruction:
					n := calleeName(x)
					for _, fc := range forbiddenCalls {
						if n == fc && fc != "google.golang.org/grpc.WithContextDialer" && fc != "google.golang.org/grpc.WithNoProxy" {
							out = append(out, insecureSite{fn, x, "call of " + shortName(n)})
						}
					}
				}
			}
		}
	}
	return out
}

func runC18(c *Ctx) {
	w := c.w
	tablesC18(c)
	// "... are treated as failed endpoints, so a later genuine endpoint is still used": the ordered fail-over rules of
	// the signer (C17 R1-R3) are imported
	fo := map[string]string{"R1.order": "R4.failover", "R1.ctor": "R4.failover", "R1.request": "R4.failover", "R2.nonnil": "R4.failover", "R3.gate": "R4.failover"}
	c.WithRules(fo, func() { runC17Core(c, false) })
	tc := w.Func("tlsutils", "TLSClientConfiguration")
	if tc == nil {
		c.Unresolved("R1.config", "tlsutils.TLSClientConfiguration")
		return
	}
	c.Saw(tc)
	// ---- R2 + forbidden fields repo-wide ----
	sites := insecureUses(w, w.RepoFuncs())
	for _, s := range sites {
		rule := "R2.insecure"
		if strings.HasPrefix(s.What, "store") {
			rule = "R1.config"
		}
		c.Bad(rule, shortFn(s.Fn)+"|"+s.What, w.Pos(s.Ins.Pos()), "forbidden in non-test code: "+s.What+" weakens or removes server authentication")
	}
	if len(sites) == 0 {
		c.Ok("R2.insecure", "repository|no insecure credentials or options", "-", "census over "+itoa(w.nFuncs)+" functions: none of "+strings.Join(forbiddenCalls[:3], ", "))
		c.Ok("R1.config", "repository|no store into InsecureSkipVerify/VerifyPeerCertificate/VerifyConnection/ServerName/MaxVersion", "-", "census over every tls.Config field store")
	}
	// ---- R1: the config built by TLSClientConfiguration ----
	var cfg *ssa.Alloc
	for _, b := range tc.Blocks {
		for _, ins := range b.Instrs {
			if a, ok := ins.(*ssa.Alloc); ok && strings.HasSuffix(a.Type().String(), "crypto/tls.Config") {
				cfg = a
			}
		}
	}
	if cfg == nil {
		c.Unresolved("R1.config", "tls.Config literal in TLSClientConfiguration")
		return
	}
	// it is what the function returns on success
	okRet := false
	for _, r := range w.MayBeNilReturns(tc) {
		if r.Results[0] == ssa.Value(cfg) {
			okRet = true
		} else if tc.Recover == nil || r.Block() != tc.Recover {
			okRet = false
			break
		}
	}
	c.Check(okRet, "R1.config", "TLSClientConfiguration|returns the literal", w.FnPos(tc), "the checked literal is the result", "the function returns a different tls.Config than the one examined")
	fs := FieldStores(tc, cfg)
	// RootCAs
	var pool *ssa.Call
	okPool := false
	if vs := fs["RootCAs"]; len(vs) == 1 {
		if cv, ok := w.canon(tc, vs[0]).(*ssa.Call); ok && calleeName(cv) == "crypto/x509.NewCertPool" {
			pool, okPool = cv, true
		}
	}
	c.Check(okPool, "R1.config", "TLSClientConfiguration|RootCAs is a pool created empty", w.Pos(cfg.Pos()), "x509.NewCertPool()", "RootCAs is not a pool created with x509.NewCertPool (system roots or nothing): "+exprList(w, fs["RootCAs"]))
	if pool != nil {
		f := w.Facts(tc)
		nAdd := 0
		poolFn := pool.Parent() // tc itself, or the helper that builds the pool
		if poolFn != tc {
			c.Saw(poolFn)
			c.Check(w.failurePropagates(tc, poolFn), "R1.config", "TLSClientConfiguration|CA pool helper's error ends the configuration", w.FnPos(poolFn), "the error of "+shortFn(poolFn)+" is returned", "an error of the helper that loads the CA files does not fail the configuration")
		}
		if refs := pool.Referrers(); refs != nil {
			for _, r := range *refs {
				call, ok := r.(*ssa.Call)
				if !ok {
					if _, isStore := r.(*ssa.Store); isStore {
						continue
					}
					if _, isDbg := r.(*ssa.DebugRef); isDbg {
						continue
					}
					if _, isRet := r.(*ssa.Return); isRet && poolFn != tc {
						continue
					}
					c.Bad("R1.config", "TLSClientConfiguration|pool used only for the configured files", w.Pos(r.Pos()), "the root pool is used by "+r.String())
					continue
				}
				switch calleeName(call) {
				case "(*crypto/x509.CertPool).AppendCertsFromPEM":
					nAdd++
					// data = os.ReadFile(caCertPaths[i]) with err == nil
					data := call.Call.Args[1]
					ex := w.Expr(data)
					okSrc := strings.HasPrefix(ex, "call<os.ReadFile>(p2[") && strings.HasSuffix(ex, "#0")
					c.Check(okSrc, "R1.config", "TLSClientConfiguration|roots read from the configured CA files", w.Pos(call.Pos()), "AppendCertsFromPEM(os.ReadFile(caCertPaths[i]))", "certificates added to the root pool do not come from the files named by the CA-path parameter: "+w.Short(data))
					if rd, ok := strip(data).(*ssa.Extract); ok {
						if rc, ok := rd.Tuple.(*ssa.Call); ok {
							isNil, known := f.KnownNil(call.Block(), extractOf(rc, 1))
							c.Check(known && isNil && w.ErrEdgeEnds(poolFn, extractOf(rc, 1)), "R1.config", "TLSClientConfiguration|CA file read error checked", w.Pos(rc.Pos()), "must-fact ReadFile err == nil; the error edge returns a non-nil error", "a CA file that cannot be read is silently skipped")
							// the index is a forward range over the parameter
							if ia, ok := rc.Call.Args[0].(*ssa.UnOp); ok {
								if idx, ok := ia.X.(*ssa.IndexAddr); ok {
									c.Check(isForwardRangeIndex(idx.Index), "R1.config", "TLSClientConfiguration|every configured CA file is loaded", w.Pos(rc.Pos()), "range over caCertPaths", "not every configured CA file is loaded")
								}
							}
						}
					}
					// ok result checked: !ok returns a non-nil error
					okChecked := false
					for _, r := range liveReturns(poolFn) {
						if v, known := f.KnownBool(r.Block(), call); known && !v {
							good := true
							for _, lf := range w.Leaves(r.Results[len(r.Results)-1], r) {
								if !w.NonNil(lf.Val, lf.Facts) {
									good = false
								}
							}
							okChecked = good
						}
					}
					c.Check(okChecked, "R1.config", "TLSClientConfiguration|unparsable CA file is an error", w.Pos(call.Pos()), "!ok => non-nil error", "a CA file with no parsable certificate does not fail the configuration")
				default:
					c.Bad("R1.config", "TLSClientConfiguration|pool used only for the configured files", w.Pos(call.Pos()), "the root pool is handed to "+calleeName(call))
				}
			}
		}
		c.Floor("R1.config", nAdd, 1, "AppendCertsFromPEM on the root pool")
	}
	// client certificate getter: bound method GetClientCertificate of the reloader built from a getter reading p0/p1
	okGetter := false
	if vs := fs["GetClientCertificate"]; len(vs) == 1 {
		if mc, ok := strip(vs[0]).(*ssa.MakeClosure); ok && strings.Contains(fnName(mc.Fn.(*ssa.Function)), "/certreload.") && strings.HasSuffix(fnName(mc.Fn.(*ssa.Function)), ".GetClientCertificate") && len(mc.Bindings) == 1 {
			if ex, ok := mc.Bindings[0].(*ssa.Extract); ok {
				nc, _ := ex.Tuple.(*ssa.Call)
				rtc := tc // the function that builds the reloader
				var outerErr ssa.Value
				if nc != nil {
					outerErr = extractOf(nc, 1)
				}
				// the reloader built by a helper that is handed the two paths and returns NewCertReloader's results as they are
				if nc != nil && !strings.HasSuffix(calleeName(nc), "certreload.NewCertReloader") && ex.Index == 0 {
					if h := nc.Call.StaticCallee(); h != nil && w.InRepo(h) && len(h.Blocks) > 0 && len(nc.Call.Args) == 2 && w.Expr(nc.Call.Args[0]) == "p0" && w.Expr(nc.Call.Args[1]) == "p1" {
						if rets := liveReturns(h); len(rets) == 1 && len(rets[0].Results) == 2 {
							e0, ok0 := rets[0].Results[0].(*ssa.Extract)
							e1, ok1 := rets[0].Results[1].(*ssa.Extract)
							if ok0 && ok1 && e0.Tuple == e1.Tuple && e0.Index == 0 && e1.Index == 1 {
								if inner, isCall := e0.Tuple.(*ssa.Call); isCall && strings.HasSuffix(calleeName(inner), "certreload.NewCertReloader") {
									c.Saw(h)
									nc, rtc = inner, h
								}
							}
						}
					}
				}
				if nc != nil && strings.HasSuffix(calleeName(nc), "certreload.NewCertReloader") {
					// the CertKeyGetter closure reads exactly certPath and keyPath
					// the getter closure is the one installed in the reloader's configuration
					var installed *ssa.Function
					if ca, ok := strip(nc.Call.Args[0]).(*ssa.UnOp); ok {
						if al, ok := ca.X.(*ssa.Alloc); ok {
							for fld, vals := range FieldStores(rtc, al) {
								if fld == "CertKeyGetter" && len(vals) == 1 {
									if gc, ok := w.canon(rtc, vals[0]).(*ssa.MakeClosure); ok {
										installed = gc.Fn.(*ssa.Function)
									}
								}
							}
						}
					}
					w.Focus(rtc)
					// a method value of a small record holding the two paths: the method, with the record's fields standing for
					// what was stored into them here
					fieldOf := map[string]string{}
					if installed != nil && strings.HasPrefix(installed.Synthetic, "bound method wrapper") {
						var rec *ssa.Alloc
						for fld, vals := range FieldStores(rtc, strip(nc.Call.Args[0]).(*ssa.UnOp).X.(*ssa.Alloc)) {
							if fld == "CertKeyGetter" && len(vals) == 1 {
								if gc, ok := w.canon(rtc, vals[0]).(*ssa.MakeClosure); ok && len(gc.Bindings) == 1 {
									if ld, isLd := strip(gc.Bindings[0]).(*ssa.UnOp); isLd {
										rec, _ = ld.X.(*ssa.Alloc)
									} else if al, isAl := strip(gc.Bindings[0]).(*ssa.Alloc); isAl {
										rec = al
									}
								}
							}
						}
						var real *ssa.Function
						for _, call := range callsIn(installed) {
							if callee := call.Common().StaticCallee(); callee != nil && w.InRepo(callee) {
								real = callee
							}
						}
						if rec != nil && real != nil && !w.recordEscapes(rec, 0, map[ssa.Value]bool{}) {
							for fld, vals := range FieldStores(rtc, rec) {
								if len(vals) == 1 {
									fieldOf["p0."+fld] = w.Expr(vals[0])
								}
							}
							installed = real
						}
					}
					// a getter closure that only hands the two paths to a reader function of the package: the reader
					if installed != nil && len(callsTo(installed, "os.ReadFile")) == 0 && installed.Synthetic == "" {
						var gc *ssa.Call
						n := 0
						for _, call := range callsIn(installed) {
							if cv, isCall := call.(*ssa.Call); isCall {
								if g := cv.Call.StaticCallee(); g != nil && w.InRepo(g) && len(g.Blocks) > 0 {
									gc = cv
									n++
								}
							}
						}
						if n == 1 && len(gc.Call.Args) == 2 && w.ExprIn(installed, gc.Call.Args[0]) == "p0" && w.ExprIn(installed, gc.Call.Args[1]) == "p1" {
							handsBack := true
							for _, r := range liveReturns(installed) {
								for k, res := range r.Results {
									if e, isEx := throughCell(strip(res)).(*ssa.Extract); !isEx || e.Tuple != ssa.Value(gc) || e.Index != k {
										handsBack = false
									}
								}
							}
							if handsBack {
								installed = gc.Call.StaticCallee()
								c.Saw(installed)
							}
						}
					}
					for _, a := range []*ssa.Function{installed} {
						if a == nil {
							continue
						}
						var reads []string
						for _, rc := range callsTo(a, "os.ReadFile") {
							ex := w.ExprIn(a, rc.Common().Args[0])
							if sub, ok := fieldOf[ex]; ok {
								ex = sub
							}
							reads = append(reads, ex)
						}
						if len(fieldOf) > 0 && len(reads) == 2 && reads[0] == "p0" && reads[1] == "p1" {
							// returns (cert, key) in that order: the first and the second file read
							rcs := callsTo(a, "os.ReadFile")
							for _, r := range w.MayBeNilReturns(a) {
								if len(r.Results) == 3 && throughCell(strip(r.Results[0])) == ssa.Value(extractOf(rcs[0].(*ssa.Call), 0)) && throughCell(strip(r.Results[1])) == ssa.Value(extractOf(rcs[1].(*ssa.Call), 0)) {
									okGetter = true
								}
							}
						}
						if len(reads) == 2 && reads[0] == "p0" && reads[1] == "p1" {
							// returns (cert, key) in that order
							for _, r := range w.MayBeNilReturns(a) {
								if len(r.Results) == 3 && strings.Contains(w.Expr(r.Results[0]), "os.ReadFile>(p0)#0") && strings.Contains(w.Expr(r.Results[1]), "os.ReadFile>(p1)#0") {
									okGetter = true
								}
							}
						}
					}
					f := w.Facts(tc)
					isNil, known := f.KnownNil(cfg.Block(), outerErr)
					c.Check(known && isNil, "R1.config", "TLSClientConfiguration|reloader error checked", w.Pos(nc.Pos()), "must-fact NewCertReloader err == nil", "the configuration is built although the client-certificate reloader failed")
				}
			}
		}
	}
	c.Check(okGetter, "R1.config", "TLSClientConfiguration|client certificate from the configured cert/key files", w.Pos(cfg.Pos()), "reloader.GetClientCertificate over (certPath, keyPath)", "the client certificate presented is not the reloader's over the configured certificate and key paths")

	// ---- R3 ----
	ns := w.Func(crypkiPkg, "NewSigner")
	if ns == nil {
		c.Unresolved("R3.wiring", "crypki.NewSigner")
		return
	}
	c.Saw(ns)
	var tcall *ssa.Call
	w.Focus(ns)
	for _, call := range w.callsInDeep(ns) {
		if cv, ok := call.(*ssa.Call); ok && cv.Call.StaticCallee() == tc {
			tcall = cv
		}
	}
	if tcall == nil {
		c.Bad("R3.wiring", "NewSigner|TLS configuration from the configured files", w.FnPos(ns), "the signer no longer builds its TLS configuration with TLSClientConfiguration")
		return
	}
	want := []string{".TLSClientCertFile", ".TLSClientKeyFile", ".TLSCACertFiles"}
	okArgs := len(tcall.Call.Args) == 3
	for i, a := range tcall.Call.Args {
		if okArgs && !strings.HasSuffix(w.Expr(a), want[i]) {
			okArgs = false
		}
	}
	c.Check(okArgs, "R3.wiring", "NewSigner|paths from the signer configuration", w.Pos(tcall.Pos()), "(conf.TLSClientCertFile, conf.TLSClientKeyFile, conf.TLSCACertFiles)", "the TLS configuration is not built from the three configured paths in that order: "+exprList(w, tcall.Call.Args))
	f := w.Facts(ns)
	// credentials.NewTLS(cfg) -> WithTransportCredentials -> element of the dial options stored in the signer
	okCreds := false
	var credOpt *ssa.Call
	for _, call := range w.callsToDeep(ns, "google.golang.org/grpc.WithTransportCredentials") {
		cv, isCall := call.(*ssa.Call)
		if !isCall {
			continue
		}
		if nt, ok := w.canon(ns, cv.Call.Args[0]).(*ssa.Call); ok && calleeName(nt) == "google.golang.org/grpc/credentials.NewTLS" && w.SameValue(ns, nt.Call.Args[0], extractOf(tcall, 0)) {
			isNil, known := f.KnownNil(cv.Block(), extractOf(tcall, 1))
			if known && isNil {
				okCreds = true
				credOpt = cv
			}
		}
	}
	c.Check(okCreds, "R3.wiring", "NewSigner|transport credentials from that configuration", w.FnPos(ns), "grpc.WithTransportCredentials(credentials.NewTLS(cfg)) under must-fact err == nil", "the dial options do not carry TLS credentials built from the checked configuration")
	okStored := false
	if credOpt != nil {
		// stored into the options array whose slice is stored into the signer's dialOptions field
		var nsBlocks []*ssa.BasicBlock
		for _, tf := range w.Tree(ns) {
			if tf == ns || w.transparent(tf) {
				nsBlocks = append(nsBlocks, tf.Blocks...)
			}
		}
		for _, b := range nsBlocks {
			for _, ins := range b.Instrs {
				st, ok := ins.(*ssa.Store)
				if !ok {
					continue
				}
				fa, ok := st.Addr.(*ssa.FieldAddr)
				if !ok || !strings.Contains(fieldName(fa.X.Type(), fa.Field), "ialOptions") {
					continue
				}
				if sl, ok := w.canon(ns, st.Val).(*ssa.Slice); ok {
					if arr, ok := sl.X.(*ssa.Alloc); ok {
						for _, v := range storesInto(arr) {
							if strip(v) == ssa.Value(credOpt) {
								okStored = true
							}
						}
					}
				}
			}
		}
	}
	c.Check(okStored, "R3.wiring", "NewSigner|credentials option kept in the signer's dial options", w.FnPos(ns), "dialOptions contains the credentials option", "the credentials option is not among the options the signer dials with")
	// connection helper and per-endpoint call
	if ec := w.Func(crypkiPkg, "EstablishClientConn"); ec != nil {
		c.Saw(ec)
		ok := false
		for _, call := range callsTo(ec, "google.golang.org/grpc.NewClient", "google.golang.org/grpc.Dial", "google.golang.org/grpc.DialContext") {
			args := call.Common().Args
			if len(args) >= 2 && w.Expr(args[len(args)-2]) == "p0" && w.Expr(args[len(args)-1]) == "p1" {
				ok = true
			}
		}
		c.Check(ok, "R3.wiring", "EstablishClientConn|endpoint and options reach gRPC unchanged", w.FnPos(ec), "grpc.NewClient(endpoint, opts...)", "the connection helper alters the endpoint or the dial options")
		for _, fn := range w.methodsOf(crypkiPkg, "Signer") {
			for _, call := range callsIn(fn) {
				if call.Common().StaticCallee() == ec {
					args := call.Common().Args
					okA := len(args) == 2 && strings.HasSuffix(w.Expr(args[1]), ".dialOptions") && strings.HasPrefix(w.Expr(args[1]), "p0.")
					c.Check(okA, "R3.wiring", shortFn(fn)+"|dials with the signer's options", w.Pos(call.Pos()), "EstablishClientConn(endpoint, s.dialOptions...)", "the per-endpoint call does not dial with the signer's own options: "+exprList(w, args))
				}
			}
		}
	}
}
