package main

import (
	"go/token"
	"go/types"
	"sort"
	"strings"

	"golang.org/x/tools/go/ssa"
)

func init() {
	register(&property{
		ID: "C05",
		Meta: propMeta{
			Level:       "Structural necessary conditions of the KeyID codec: (R1) the required-key table agrees with the struct's JSON names (every required key is a field name, no required field is omitempty or '-', the version-1 list is the stated set, names distinct under case folding, both version tables have the same domain); (R2) the complete truth table of the version-1 consistency checker over {headless, hardware, firefighter, nonce} x {touch policy = never / other} (extracted from the CFG with its helpers inlined) equals (not headless or (not hw and not ff and never)) and (not nonce or (not ff and not headless and never)), and uses no other attribute; (R3) Marshal returns text only under the must-facts version supported, checker(receiver) == nil and json.Marshal(receiver) succeeded, returning that very encoding; Unmarshal returns a KeyID only under the must-facts json decode ok, version supported, map decode of the same bytes ok, the required-key loop exhausted with every missing key returning an error, and checker(decoded) == nil, returning the decoded struct with no later field store; (R4) every index/slice/assertion in the package is discharged. encoding/json's own round-trip behaviour is trusted, not decided.",
			Technique:   "static analysis: constant-table comparison + decision-table extraction from the CFG (finite atom valuation, no solver) + must-fact gating on go/ssa",
			Explanation: "Tables are evaluated from the type-checked syntax; the checker closure registered for version 1 is located by type in the package initialiser and interpreted over five atoms (32 valuations, exhaustive); Marshal/Unmarshal are checked with branch literals that hold on every path to each possibly-nil return.",
			Assumptions: []string{"encoding/json decodes a struct and a map from the same bytes consistently and matches keys case-insensitively"},
			Trusted:     []string{"go/packages", "go/types", "go/ssa", "encoding/json"},
			RuleDoc: map[string]string{
				"R9.state":  "no memory of earlier calls: on the call tree only frozen package-level variables are touched (known exceptions listed with reasons), and no package-level object is handed out",
				"R1.tables": "required-key table vs JSON tags; version domains",
				"R2.truth":  "32-row truth table of the version-1 checker equals the statement's formula; atoms used are the five attributes",
				"R3.gate":   "Marshal / Unmarshal gate order, full required-key loop, identity of the returned value",
				"R4.bounds": "panic obligations in package keyid",
				"R4.nil":    "nil-dereference obligations in package keyid",
			},
		},
		Run: runC05,
	})
}

const keyidPkg = "keyid"

// keyidAtoms maps KeyID fields to atom names.
var keyidAtoms = map[string]string{"IsHeadless": "headless", "IsHWKey": "hw", "IsFirefighter": "ff", "IsNonce": "nonce", "TouchPolicy": "touch"}

func runC05(c *Ctx) {
	stateRule(c, "R9.state", []*ssa.Function{c.w.Method("keyid", "KeyID", "Marshal"), c.w.Func("keyid", "Unmarshal")}, knownState)
	w := c.w
	p := w.Pkg(keyidPkg)
	if p == nil {
		c.Unresolved("R2.truth", "package keyid")
		return
	}
	tablesC05(c)
	checkers, ok := keyidDecodeRules(c)
	if !ok {
		return
	}

	// ---- R4 ----
	var entries []*ssa.Function
	for _, n := range []string{"Unmarshal", "Clone", "New"} {
		if f := p.Func(n); f != nil {
			entries = append(entries, f)
		}
	}
	entries = append(entries, w.methodsOf(keyidPkg, "KeyID")...)
	entries = append(entries, checkers...)
	runPanicRules(c, "R4", entries, 0)
}

// keyidDecodeRules: what "the KeyID decodes" means - the truth table of the version checker(s) (R2.truth) and the
// gates of Marshal / Unmarshal (R3.gate). C09 and C19, whose statements are phrased in terms of "decodes as a
// YSSHCA KeyID", import these rules under a rule name of their own.
func keyidDecodeRules(c *Ctx) ([]*ssa.Function, bool) {
	w := c.w
	p := w.Pkg(keyidPkg)
	if p == nil {
		c.Unresolved("R2.truth", "package keyid")
		return nil, false
	}
	kid := w.NamedType(keyidPkg, "KeyID")
	if kid == nil {
		c.Unresolved("R2.truth", "type keyid.KeyID")
		return nil, false
	}
	// ---- R2: the version checkers: anonymous functions of the package initialiser with signature func(*KeyID) error
	var checkers []*ssa.Function
	// the functions (literals or named) the checker table maps versions to
	if m := keyidTable(w, keyidCheckerTable); m != nil {
		seenChk := map[*ssa.Function]bool{}
		for _, e := range m.Entries {
			if a := funcValue(e.Vals[0]); a != nil && a.Blocks != nil && !seenChk[a] {
				seenChk[a] = true
				checkers = append(checkers, a)
			}
		}
	}
	// ... or the one function dispatching on the version
	dispatcher, dispVers := (*ssa.Function)(nil), []int64(nil)
	if len(checkers) == 0 {
		if d, vers := w.keyidDispatcher(); d != nil {
			dispatcher, dispVers = d, vers
			checkers = append(checkers, d)
		}
	}
	c.Floor("R2.truth", len(checkers), 1, "version checker functions registered in the package initialiser")
	never := int64(1)
	if pk := w.ByPath[RepoMod+"/"+keyidPkg]; pk != nil {
		if v, ok := constDecls(pk, "TouchPolicy")["NeverTouch"]; ok {
			if i, exact := intVal(v); exact {
				never = i
			}
		}
	}
	spec := &dtSpec{
		Domain: map[string][]absVal{"touch": {{K: avInt, I: 0}, {K: avInt, I: 1}, {K: avInt, I: 2}, {K: avInt, I: 3}, {K: avInt, I: 9}}},
		FieldAtom: func(obj, field string) string {
			if obj == "kid" {
				if field == "Version" && dispatcher != nil {
					return "ver"
				}
				return keyidAtoms[field]
			}
			return ""
		},
	}
	supported := map[int64]bool{}
	if dispatcher != nil {
		for _, v := range dispVers {
			supported[v] = true
			spec.Domain["ver"] = append(spec.Domain["ver"], absVal{K: avInt, I: v})
		}
		spec.Domain["ver"] = append(spec.Domain["ver"], absVal{K: avInt, I: 65535}) // a version no test names
	}
	for _, ck := range checkers {
		c.Saw(ck)
		leaves, und := w.DecisionTable(ck, []absVal{{K: avObject, Obj: "kid"}}, spec)
		for _, u := range und {
			c.Und("R2.truth", shortFn(ck)+"|interpretable", w.FnPos(ck), u)
		}
		named, anon := dtAtomsUsed(leaves)
		for _, a := range anon {
			c.Und("R2.truth", shortFn(ck)+"|condition "+a, w.FnPos(ck), "the checker branches on something that is not one of the five consistency attributes: "+a)
		}
		for _, a := range named {
			ok := a == "ver" && dispatcher != nil
			for _, n := range keyidAtoms {
				if n == a {
					ok = true
				}
			}
			c.Check(ok, "R2.truth", shortFn(ck)+"|uses attribute "+a, w.FnPos(ck), "one of headless/hw/ff/nonce/touch", "unexpected attribute "+a)
		}
		rows := 0
		atoms := []string{"headless", "hw", "ff", "nonce", "touch"}
		if ck == dispatcher {
			atoms = append([]string{"ver"}, atoms...)
		}
		for _, val := range dtValuations(atoms, spec.Domain) {
			rows++
			ms := dtMatch(leaves, val)
			h, hw, ff, nonce := val["headless"].B, val["hw"].B, val["ff"].B, val["nonce"].B
			nv := val["touch"].I == never
			want := (!h || (!hw && !ff && nv)) && (!nonce || (!ff && !h && nv))
			if ck == dispatcher {
				want = want && supported[val["ver"].I] // every other version is refused
			}
			key := shortFn(ck) + "|row " + valString(val)
			if len(ms) == 0 {
				c.Und("R2.truth", key, w.FnPos(ck), "no path of the checker covers this valuation")
				continue
			}
			okRow := true
			got := ""
			for _, l := range ms {
				if len(l.Result) != 1 {
					okRow = false
					continue
				}
				accepts := l.Result[0].K == avNil
				rejects := l.Result[0].K == avNonNil
				got = l.Result[0].String()
				if !(accepts || rejects) || accepts != want {
					okRow = false
				}
			}
			wantS := "accept"
			if !want {
				wantS = "reject"
			}
			c.Check(okRow, "R2.truth", key, w.FnPos(ck), wantS, "the checker returns "+got+" for this attribute combination, the statement requires "+wantS)
		}
		c.Floor("R2.truth", rows, 80, "truth-table rows")
	}

	// ---- R3 ----
	checkKeyidMarshal(c, kid)
	checkKeyidUnmarshal(c, kid)
	return checkers, true
}

func intVal(v interface{ String() string }) (int64, bool) {
	n, neg := int64(0), false
	s := v.String()
	if strings.HasPrefix(s, "-") {
		neg, s = true, s[1:]
	}
	if s == "" {
		return 0, false
	}
	for _, ch := range s {
		if ch < '0' || ch > '9' {
			return 0, false
		}
		n = n*10 + int64(ch-'0')
	}
	if neg {
		n = -n
	}
	return n, true
}

// tableLookupOK: literal l states that a comma-ok lookup in the package-level map `global`, keyed by the
// Version field of base, succeeded.
// keyidTable: the required-key table ("required") or the checker table ("checker") of package keyid as a finite map
// (map literal or switch function), the one the codec consults.
func keyidTable(w *World, which string) *finiteMap {
	kid := w.NamedType(keyidPkg, "KeyID")
	isVer := func(t types.Type) bool { b, ok := t.Underlying().(*types.Basic); return ok && b.Kind() == types.Uint16 }
	var elem func(types.Type) bool
	if which == keyidRequiredTable {
		elem = func(t types.Type) bool {
			s, ok := t.Underlying().(*types.Slice)
			if !ok {
				return false
			}
			b, ok := s.Elem().Underlying().(*types.Basic)
			return ok && b.Kind() == types.String
		}
	} else {
		elem = func(t types.Type) bool {
			sig, ok := t.Underlying().(*types.Signature)
			if !ok || kid == nil || sig.Params().Len() != 1 || sig.Results().Len() != 1 || !isErrorType(sig.Results().At(0).Type()) {
				return false
			}
			ptr, ok := sig.Params().At(0).Type().(*types.Pointer)
			return ok && types.Identical(ptr.Elem(), kid)
		}
	}
	var used []*finiteMap
	for _, m := range w.finiteMaps(keyidPkg, isVer, elem) {
		if len(w.fmLookups(m)) > 0 {
			used = append(used, m)
		}
	}
	if len(used) != 1 {
		return nil
	}
	return used[0]
}

// lookupOn: v is the value or the found flag of a lookup in the named keyid table.
func lookupOn(v ssa.Value, tableType string, w *World) *fmLookup {
	m := keyidTable(w, tableType)
	if m == nil || v == nil {
		return nil
	}
	return w.fmLookupOf(m, v)
}

// the two version-indexed tables of package keyid, identified by type
const (
	keyidCheckerTable  = "map[uint16]func(*" + RepoMod + "/keyid.KeyID) error"
	keyidRequiredTable = "map[uint16][]string"
)

func checkKeyidMarshal(c *Ctx, kid *types.Named) {
	w := c.w
	fn := w.Method(keyidPkg, "KeyID", "Marshal")
	if fn == nil {
		c.Unresolved("R3.gate", "(*KeyID).Marshal")
		return
	}
	c.Saw(fn)
	f := w.Facts(fn)
	var jm *ssa.Call
	for _, call := range w.callsToDeep(fn, "encoding/json.Marshal") {
		jm, _ = call.(*ssa.Call)
	}
	var chk *ssa.Call
	for _, call := range w.callsInDeep(fn) {
		if cv, ok := call.(*ssa.Call); ok && calleeName(cv) == "dynamic" {
			chk = cv
		}
	}
	n := 0
	for _, r := range w.MayBeNilReturns(fn) {
		if fn.Recover != nil && r.Block() == fn.Recover {
			continue
		}
		n++
		b := r.Block()
		okVer := f.Any(b, func(l Lit) bool {
			lk := lookupOn(l.V, keyidCheckerTable, w)
			return lk != nil && l.Pol && w.Expr(lk.Index) == "p0.Version"
		})
		viaDispatcher := w.dispatcherPassed(fn, f, b, fn.Params[0])
		okVer = okVer || viaDispatcher
		c.Check(okVer, "R3.gate", "Marshal|version supported", w.Pos(r.Pos()), "must-fact: checker table has the receiver's version", "Marshal can succeed for a version that has no checker (unsupported version)")
		okChk := false
		if chk != nil && len(chk.Call.Args) == 1 && w.Expr(chk.Call.Args[0]) == "p0" {
			if lk := lookupOn(chk.Call.Value, keyidCheckerTable, w); lk != nil {
				if isNil, known := f.KnownNil(b, chk); known && isNil {
					okChk = true
				}
			}
		}
		okChk = okChk || viaDispatcher
		c.Check(okChk, "R3.gate", "Marshal|consistency check passed", w.Pos(r.Pos()), "must-fact: checker(receiver) == nil", "Marshal can succeed without the must-fact that the version's checker accepted the receiver")
		okJ := false
		if jm != nil && w.Expr(jm.Call.Args[0]) == "p0" {
			if isNil, known := f.KnownNil(b, extractOf(jm, 1)); known && isNil {
				// result 0 is the string conversion of the encoder's output
				ex := w.Expr(r.Results[0])
				okJ = strings.HasPrefix(ex, "conv<string>(call<encoding/json.Marshal>(p0)#0")
			}
		}
		c.Check(okJ, "R3.gate", "Marshal|returns json.Marshal(receiver)", w.Pos(r.Pos()), "string(json.Marshal(kid)) with err == nil", "the returned text is not the JSON encoding of the receiver itself")
	}
	c.Floor("R3.gate", n, 1, "successful return of Marshal")
}

func checkKeyidUnmarshal(c *Ctx, kid *types.Named) {
	w := c.w
	fn := w.Func(keyidPkg, "Unmarshal")
	if fn == nil {
		c.Unresolved("R3.gate", "keyid.Unmarshal")
		return
	}
	c.Saw(fn)
	f := w.Facts(fn)
	// the decoded struct: an Alloc of KeyID handed to json.Unmarshal
	var dec *ssa.Alloc
	var decVal ssa.Value // the value denoting the struct in Unmarshal when it is obtained from a constructor
	var jStruct, jMap *ssa.Call
	for _, call := range w.callsToDeep(fn, "encoding/json.Unmarshal") {
		cv, isCall := call.(*ssa.Call)
		if !isCall {
			continue
		}
		tgt := strip(cv.Call.Args[1])
		if _, isAlloc := tgt.(*ssa.Alloc); !isAlloc {
			// the struct obtained from a constructor of the package
			if a, ok := w.canon(fn, tgt).(*ssa.Alloc); ok && types.Identical(a.Type().(*types.Pointer).Elem(), kid) {
				tgt = a
			} else if hc, isCall := throughCell(strip(tgt)).(*ssa.Call); isCall {
				if h := hc.Call.StaticCallee(); h != nil && w.InRepo(h) && h.Blocks != nil && h.Signature.Results().Len() == 1 {
					var allocs []*ssa.Alloc
					okAll := true
					for _, r := range liveReturns(h) {
						for _, lf := range w.leaves(r.Results[0], r, false) {
							if a, isA := throughCell(strip(lf.Val)).(*ssa.Alloc); isA && types.Identical(a.Type().(*types.Pointer).Elem(), kid) {
								allocs = append(allocs, a)
							} else {
								okAll = false
							}
						}
					}
					if okAll && len(allocs) == 1 {
						tgt, decVal = allocs[0], hc
					}
				}
			}
		}
		if a, ok := tgt.(*ssa.Alloc); ok {
			el := a.Type().(*types.Pointer).Elem()
			if types.Identical(el, kid) {
				dec, jStruct = a, cv
			} else if _, isMap := el.Underlying().(*types.Map); isMap {
				jMap = cv
			}
		}
	}
	if dec == nil || jStruct == nil || jMap == nil {
		// a decoder set to refuse keys the struct does not name is a different acceptance rule, not another spelling of it
		if strict := w.callsToDeep(fn, "(*encoding/json.Decoder).DisallowUnknownFields"); len(strict) > 0 {
			c.Bad("R3.gate", "Unmarshal|keys the struct does not name are ignored", w.Pos(strict[0].Pos()), "the text is decoded by a json.Decoder with DisallowUnknownFields: a KeyID that carries one attribute more than this version names no longer decodes (its certificate loses its type, label and principals)")
			return
		}
		c.Unresolved("R3.gate", "the two json.Unmarshal calls (struct and map) in keyid.Unmarshal")
		return
	}
	// the text is decoded into a zero KeyID: a field that the text leaves out or sets to null must not keep a default
	// (json leaves such a field untouched), or a text without a usable version would decode as a supported one
	{
		var pre []string
		for fld := range FieldStores(dec.Parent(), dec) {
			pre = append(pre, fld)
		}
		sort.Strings(pre)
		c.Check(len(pre) == 0, "R3.gate", "Unmarshal|decodes into a zero KeyID", w.Pos(jStruct.Pos()), "a fresh KeyID with no field set", "the struct the text is decoded into has fields set beforehand ("+strings.Join(pre, ", ")+"): a key the text omits or sets to null keeps that value")
	}
	c.Check(w.SameValue(fn, jStruct.Call.Args[0], jMap.Call.Args[0]) && w.Expr(jStruct.Call.Args[0]) == "conv<[]byte>(p0)", "R3.gate", "Unmarshal|same bytes decoded twice", w.Pos(jMap.Pos()), "struct and key map are decoded from the input text", "the required-key map is not decoded from the same bytes as the struct")
	var chk *ssa.Call
	for _, call := range w.callsInDeep(fn) {
		if cv, ok := call.(*ssa.Call); ok && calleeName(cv) == "dynamic" {
			chk = cv
		}
	}
	// the required-key loop
	var keyLookup *ssa.Lookup
	var reqLookup *fmLookup
	for _, tf := range w.Tree(fn) {
		for _, b := range tf.Blocks {
			for _, ins := range b.Instrs {
				lk, ok := ins.(*ssa.Lookup)
				if !ok || !lk.CommaOk {
					continue
				}
				ex := w.Expr(lk.X)
				if strings.HasPrefix(ex, "makemap<") || strings.HasPrefix(ex, "alloc<map[") {
					keyLookup = lk
				}
			}
		}
	}
	if m := keyidTable(w, keyidRequiredTable); m != nil {
		for _, l := range w.fmLookups(m) {
			if w.inTree(fn, l.Instr.Parent()) && l.OK != nil {
				ll := l
				reqLookup = &ll
			}
		}
	}
	if reqLookup == nil || keyLookup == nil || reqLookup.Val == nil {
		c.Unresolved("R3.gate", "required-key table lookup / per-key map lookup in keyid.Unmarshal")
		return
	}
	reqKeys := reqLookup.Val
	// per-key lookup: key is element of reqKeys at a forward range index, map is the one decoded by jMap
	okLoop := false
	if ld, ok := keyLookup.Index.(*ssa.UnOp); ok && ld.Op == token.MUL {
		if ia, ok := ld.X.(*ssa.IndexAddr); ok && w.SameValue(fn, ia.X, reqKeys) && isForwardRangeIndex(ia.Index) {
			okLoop = true
		}
	}
	// the loop written as a library search: slices.IndexFunc / ContainsFunc(requiredKeys, func(key) bool { _, ok := m[key]; return !ok })
	var search *searchCall
	if !okLoop {
		for _, tf := range w.Tree(fn) {
			for _, sc := range searchCallsIn(tf) {
				if sc.pred == keyLookup.Parent() && w.SameValue(fn, sc.seq, reqKeys) && throughCell(strip(keyLookup.Index)) == ssa.Value(sc.pred.Params[0]) {
					sc := sc
					search = &sc
				}
			}
		}
	}
	if search != nil {
		c05SearchForm(c, w, fn, f, search, keyLookup, jStruct, jMap, dec, decVal, chk, reqKeys)
		return
	}
	c.Check(okLoop, "R3.gate", "Unmarshal|every required key looked up", w.Pos(keyLookup.Pos()), "the lookup key ranges forward over the version's whole required-key list", "the per-key presence test does not range over the version's required-key list")
	mapSame := false
	if ld, ok := keyLookup.X.(*ssa.UnOp); ok {
		mapSame = ld.X == strip(jMap.Call.Args[1])
	}
	c.Check(mapSame, "R3.gate", "Unmarshal|presence tested in the decoded key map", w.Pos(keyLookup.Pos()), "lookup in the map decoded from the input", "the presence test does not look into the map decoded from the input")
	// a failed lookup returns a non-nil error
	okVal := extractOfV(keyLookup, 1)
	nMiss := 0
	loopFn := keyLookup.Parent()
	if loopFn != fn {
		c.Check(w.failurePropagates(fn, loopFn), "R3.gate", "Unmarshal|missing key => error", w.FnPos(loopFn), "the error of "+shortFn(loopFn)+" ends Unmarshal with an error", "the error of the required-key helper does not make Unmarshal fail")
	}
	for _, r := range liveReturns(loopFn) {
		if v, known := f.KnownBool(r.Block(), okVal); known && !v {
			nMiss++
			good := true
			for _, lf := range w.Leaves(r.Results[len(r.Results)-1], r) {
				if !w.NonNil(lf.Val, lf.Facts) {
					good = false
				}
			}
			c.Check(good, "R3.gate", "Unmarshal|missing key => error", w.Pos(r.Pos()), "non-nil error", "a missing required key does not produce an error")
		}
	}
	c.Floor("R3.gate", nMiss, 1, "error return for a missing required key")
	// blocks on the ok==false edge must not continue the loop
	for _, b := range loopFn.Blocks {
		if v, known := f.KnownBool(b, okVal); known && !v {
			if !leadsOnlyToReturns(b, func(x *ssa.BasicBlock) bool { v2, k2 := f.KnownBool(x, okVal); return k2 && !v2 }) {
				c.Bad("R3.gate", "Unmarshal|missing key ends decoding", w.Pos(b.Instrs[0].Pos()), "after a missing required key the decoder goes on")
			}
		}
	}
	c05SuccessReturns(c, w, fn, f, jStruct, jMap, dec, decVal, chk, func(b *ssa.BasicBlock) bool {
		return f.Any(b, func(l Lit) bool {
			bin, ok := l.V.(*ssa.BinOp)
			if !ok || bin.Op != token.LSS || l.Pol {
				return false
			}
			la := lenArg(bin.Y)
			return la != nil && w.SameValue(fn, la, reqKeys) && isForwardRangeIndex(bin.X)
		})
	})
}

// c05SuccessReturns: what every successful return of Unmarshal has established; done(b) tells whether the required-key
// scan has certainly run to completion when block b is reached.
func c05SuccessReturns(c *Ctx, w *World, fn *ssa.Function, f *Facts, jStruct, jMap *ssa.Call, dec *ssa.Alloc, decVal ssa.Value, chk *ssa.Call, doneAt func(*ssa.BasicBlock) bool) {
	isDec := func(v ssa.Value) bool {
		return w.canon(fn, v) == ssa.Value(dec) || (decVal != nil && throughCell(strip(v)) == decVal)
	}
	n := 0
	for _, r := range w.MayBeNilReturns(fn) {
		if fn.Recover != nil && r.Block() == fn.Recover {
			continue
		}
		n++
		b := r.Block()
		isNil, known := f.KnownNil(b, jStruct)
		c.Check(known && isNil, "R3.gate", "Unmarshal|json decode ok", w.Pos(r.Pos()), "must-fact json.Unmarshal(struct) == nil", "Unmarshal can succeed although decoding into the struct failed")
		isNil, known = f.KnownNil(b, jMap)
		c.Check(known && isNil, "R3.gate", "Unmarshal|key-map decode ok", w.Pos(r.Pos()), "must-fact json.Unmarshal(map) == nil", "Unmarshal can succeed although decoding the key map failed")
		okVer := f.Any(b, func(l Lit) bool {
			lk := lookupOn(l.V, keyidRequiredTable, w)
			return lk != nil && l.Pol && strings.HasSuffix(w.Expr(lk.Index), ".Version")
		})
		c.Check(okVer, "R3.gate", "Unmarshal|version supported", w.Pos(r.Pos()), "must-fact: required-key table has the decoded version", "Unmarshal can succeed for an unsupported version")
		// loop exhausted
		done := doneAt(b)
		c.Check(done, "R3.gate", "Unmarshal|required-key loop exhausted", w.Pos(r.Pos()), "must-fact: range over the required keys ran to completion", "Unmarshal can succeed before every required key was looked up (loop left early)")
		okChk := false
		if chk != nil && len(chk.Call.Args) == 1 && isDec(chk.Call.Args[0]) {
			if lk := lookupOn(chk.Call.Value, keyidCheckerTable, w); lk != nil && strings.HasSuffix(w.Expr(lk.Index), ".Version") {
				if isNil, known := f.KnownNil(b, chk); known && isNil {
					okChk = true
				}
			}
		}
		okChk = okChk || w.dispatcherPassed(fn, f, b, dec)
		c.Check(okChk, "R3.gate", "Unmarshal|consistency check passed", w.Pos(r.Pos()), "must-fact: checker(decoded) == nil", "Unmarshal can succeed without the must-fact that the version's checker accepted the decoded KeyID")
		c.Check(isDec(r.Results[0]), "R3.gate", "Unmarshal|returns the decoded struct", w.Pos(r.Pos()), "the struct json decoded into", "Unmarshal returns something other than the struct it decoded and checked: "+w.Short(r.Results[0]))
	}
	c.Floor("R3.gate", n, 1, "successful return of Unmarshal")
	// no field store into the decoded struct
	stores := w.FieldStoresDeep(fn, dec)
	c.Check(len(stores) == 0, "R3.gate", "Unmarshal|decoded struct not altered", w.FnPos(fn), "no field of the decoded KeyID is assigned in Unmarshal", "Unmarshal assigns fields of the decoded KeyID after decoding")
}

func extractOfV(v ssa.Value, idx int) ssa.Value {
	if refs := v.Referrers(); refs != nil {
		for _, r := range *refs {
			if ex, ok := r.(*ssa.Extract); ok && ex.Index == idx {
				return ex
			}
		}
	}
	return nil
}

// c05SearchForm: the required-key scan of Unmarshal written as a library search over the required-key list whose
// predicate tests one key's presence in the decoded map.
func c05SearchForm(c *Ctx, w *World, fn *ssa.Function, f *Facts, sc *searchCall, keyLookup *ssa.Lookup, jStruct, jMap *ssa.Call, dec *ssa.Alloc, decVal ssa.Value, chk *ssa.Call, reqKeys ssa.Value) {
	c.Saw(sc.pred)
	c.Ok("R3.gate", "Unmarshal|every required key looked up", w.Pos(keyLookup.Pos()), calleeName(sc.call)+" over the version's required-key list, the predicate looks its element up")
	// the map looked into is the one decoded from the input
	mapSame := false
	if ld, ok := keyLookup.X.(*ssa.UnOp); ok {
		if fv, isFV := ld.X.(*ssa.FreeVar); isFV {
			mapSame = sc.binding(fv) == strip(jMap.Call.Args[1])
		}
	}
	c.Check(mapSame, "R3.gate", "Unmarshal|presence tested in the decoded key map", w.Pos(keyLookup.Pos()), "lookup in the map decoded from the input", "the presence test does not look into the map decoded from the input")
	// the predicate holds exactly for a missing key
	pf := w.Facts(sc.pred)
	okVal := extractOfV(keyLookup, 1)
	okPred := okVal != nil
	nPredRet := 0
	for _, r := range liveReturns(sc.pred) {
		nPredRet++
		for _, lf := range w.Leaves(r.Results[0], r) {
			v := throughCell(strip(lf.Val))
			if u, ok := v.(*ssa.UnOp); ok && u.Op == token.NOT && throughCell(strip(u.X)) == okVal {
				continue
			}
			if k, isK := v.(*ssa.Const); isK && okVal != nil {
				present, known := pf.KnownBool(r.Block(), okVal)
				for l := range lf.Facts {
					if throughCell(strip(l.V)) == okVal {
						present, known = l.Pol, true
					}
				}
				if known && k.Value != nil && (k.Value.String() == "true") == !present {
					continue
				}
			}
			okPred = false
		}
	}
	c.Check(okPred && nPredRet > 0, "R3.gate", "Unmarshal|search predicate = key is missing", w.FnPos(sc.pred), "returns !ok of the map lookup", "the search predicate is not 'this key is absent from the decoded map'")
	// found (a missing key) => error; the failing region only returns
	loopFn := sc.call.Parent()
	lf := w.Facts(loopFn)
	if loopFn != fn {
		c.Check(w.failurePropagates(fn, loopFn), "R3.gate", "Unmarshal|missing key => error", w.FnPos(loopFn), "the error of "+shortFn(loopFn)+" ends Unmarshal with an error", "the error of the required-key helper does not make Unmarshal fail")
	}
	isFound := func(b *ssa.BasicBlock, want bool) bool {
		return lf.Any(b, func(l Lit) bool { v, ok := sc.found(l); return ok && v == want })
	}
	nMiss := 0
	for _, r := range liveReturns(loopFn) {
		if !isFound(r.Block(), true) {
			continue
		}
		nMiss++
		good := true
		for _, leaf := range w.Leaves(r.Results[len(r.Results)-1], r) {
			if !w.NonNil(leaf.Val, leaf.Facts) {
				good = false
			}
		}
		c.Check(good, "R3.gate", "Unmarshal|missing key => error", w.Pos(r.Pos()), "non-nil error", "a missing required key does not produce an error")
	}
	c.Floor("R3.gate", nMiss, 1, "error return for a missing required key")
	for _, b := range loopFn.Blocks {
		if isFound(b, true) && !leadsOnlyToReturns(b, func(x *ssa.BasicBlock) bool { return isFound(x, true) }) {
			c.Bad("R3.gate", "Unmarshal|missing key ends decoding", w.Pos(b.Instrs[0].Pos()), "after a missing required key the decoder goes on")
		}
	}
	c05SuccessReturns(c, w, fn, f, jStruct, jMap, dec, decVal, chk, func(b *ssa.BasicBlock) bool {
		if loopFn == fn {
			return isFound(b, false)
		}
		// the scan runs in a helper: Unmarshal goes on only when the helper reported no missing key
		return w.failurePropagates(fn, loopFn) && helperNotFoundOnSuccess(w, loopFn, sc, lf)
	})
}

// helperNotFoundOnSuccess: every successful return of the helper that runs the search has the must-fact "not found".
func helperNotFoundOnSuccess(w *World, h *ssa.Function, sc *searchCall, hf *Facts) bool {
	n := 0
	for _, r := range w.MayBeNilReturns(h) {
		n++
		if !hf.Any(r.Block(), func(l Lit) bool { v, ok := sc.found(l); return ok && !v }) {
			return false
		}
	}
	return n > 0
}
